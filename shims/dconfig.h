/* empty stand-in: this repository does not ship dconfig.h (Panda3D does) */
