"""Lowering: /repo working tree + harness.cxx -> linked, pruned LLVM IR -> C (via ll2c).

Everything is regenerated from /repo's current source on every run, inside a
scratch directory that the caller removes.
"""
import os, re, subprocess, hashlib, json, shutil, threading

REPO = os.environ.get('VERIF_REPO', '/repo')
VERIF = os.path.dirname(os.path.dirname(os.path.abspath(__file__)))

CLANG = 'clang++-14'
BASE_FLAGS = ['-std=gnu++11', '-fno-exceptions', '-fno-rtti', '-DNDEBUG', '-fno-strict-aliasing',
              '-ffast-math', '-fno-unsafe-math-optimizations', '-fno-trapping-math', '-fno-stack-protector',
              '-O1', '-fno-vectorize', '-fno-slp-vectorize', '-fno-unroll-loops', '-w',
              '-DINTERROGATE_VERIF']
GETOPT = ['-DHAVE_GETOPT=1', '-DHAVE_GETOPT_LONG_ONLY=1', '-DPHAVE_GETOPT_H=1']
MODULE_DEFS = {
    'dtoolbase': ['-DBUILDING_DTOOL_DTOOLBASE'],
    'dtoolutil': ['-DBUILDING_DTOOL_DTOOLUTIL', '-DHAVE_IOS_BINARY=1', '-DPHAVE_DIRENT_H=1', '-DPHAVE_GLOB_H=1',
                  '-DPHAVE_UNISTD_H=1', '-DPHAVE_UTIME_H=1'] + GETOPT,
    'cppparser': GETOPT,
    'interrogatedb': ['-DBUILDING_INTERROGATEDB'] + GETOPT,
    'interrogate': GETOPT,
    'harness': GETOPT,
}
SRC_DIRS = ['interrogate', 'interrogatedb', 'cppparser', 'dtoolutil', 'dtoolbase']


def run(cmd, **kw):
    p = subprocess.run(cmd, stdout=subprocess.PIPE, stderr=subprocess.STDOUT, text=True, **kw)
    if p.returncode != 0:
        raise RuntimeError('command failed (%d): %s\n%s' % (p.returncode, ' '.join(cmd), p.stdout[-4000:]))
    return p.stdout


class Lowerer:
    def __init__(self, scratch):
        self.scratch = scratch
        self.gen = os.path.join(scratch, 'gen')
        os.makedirs(self.gen, exist_ok=True)
        self.lock = threading.Lock()
        self.tu_cache = {}
        self.bison_done = False

    def includes(self):
        inc = ['-I' + self.gen]
        for d in SRC_DIRS:
            inc.append('-I%s/src/%s' % (REPO, d))
        inc.append('-I%s/harness' % VERIF)
        return inc

    def ensure_bison(self):
        with self.lock:
            if self.bison_done:
                return
            shutil.copy(os.path.join(REPO, 'src/cppparser/cppBison.yxx'), self.gen)
            run(['bison', '-o', 'cppBison.cxx', '--defines=cppBison.h', '-p', 'cppyy', 'cppBison.yxx'], cwd=self.gen)
            self.bison_done = True

    def lower_tu(self, src, extra=(), tag=''):
        """src: path relative to /repo (or absolute). returns path of .ll"""
        key = (src, tuple(extra))
        with self.lock:
            if key in self.tu_cache:
                ev = self.tu_cache[key]
            else:
                ev = self.tu_cache[key] = [threading.Event(), None, None]
                ev.append('owner')
        if len(ev) == 4 and ev[3] == 'owner':
            ev[3] = 'taken'
            try:
                path = src if os.path.isabs(src) else os.path.join(REPO, src)
                if '/src/' in path and not path.startswith(VERIF):
                    module = path.split('/src/')[1].split('/')[0]
                else:
                    module = 'harness'
                if module in ('cppparser', 'interrogate', 'harness'):
                    self.ensure_bison()
                h = hashlib.md5((src + ' '.join(extra)).encode()).hexdigest()[:8]
                out = os.path.join(self.scratch, '%s.%s.ll' % (os.path.basename(src), h))
                flags = BASE_FLAGS + MODULE_DEFS.get(module, GETOPT) + self.includes() + list(extra)
                if module == 'harness':
                    flags = flags + ['-fno-access-control']
                run([CLANG] + flags + ['-S', '-emit-llvm', path, '-o', out])
                ev[1] = out
            except Exception as e:
                ev[2] = e
            ev[0].set()
        ev[0].wait()
        if ev[2]:
            raise ev[2]
        return ev[1]

    def build_unit(self, name, harness_src, entries, tus, cut=(), export=(), hflags=(), tuflags=(), keep=(), skip_ctors=()):
        """returns (c_path, meta dict)"""
        d = os.path.join(self.scratch, name)
        os.makedirs(d, exist_ok=True)
        lls = [self.lower_tu(harness_src, extra=hflags)]
        for tu in tus:
            lls.append(self.lower_tu(tu, extra=tuflags))
        processed = []
        for k, ll in enumerate(lls):
            if k == 0 or (not cut and not export):
                processed.append(ll)
                continue
            text = open(ll).read()
            outp = os.path.join(d, 'tu%d.ll' % k)
            for sym in export:
                text = re.sub(r'^define (internal|private) (.*@%s\()' % re.escape(sym), r'define \2', text, flags=re.M)
            open(outp, 'w').write(text)
            present = [s for s in cut if re.search(r'^define [^\n]*@%s\(' % re.escape(s), text, flags=re.M)]
            if present:
                outp2 = os.path.join(d, 'tu%d.cut.ll' % k)
                cmd = ['llvm-extract-14', '-S', '--delete', '-o', outp2, outp]
                for s in present:
                    cmd += ['--func=' + s]
                run(cmd)
                # llvm-extract --delete makes remaining internal symbols external ('hidden'); with one cut TU that is
                # harmless before internalize, with two the private '.str' constants of both clash in llvm-link:
                # give the symbols that were private/internal before the extraction their local linkage back
                local = set(re.findall(r'^(@(?:"[^"\n]+"|[-\w.$]+)) = (?:private|internal) ', text, flags=re.M))
                local |= set(re.findall(r'^define (?:internal|private) [^\n]*?(@(?:"[^"\n]+"|[-\w.$]+))\(', text, flags=re.M))
                t2 = open(outp2).read()
                t2 = re.sub(r'^(@(?:"[^"\n]+"|[-\w.$]+)) = hidden ',
                            lambda mo: (mo.group(1) + ' = internal ') if mo.group(1) in local else mo.group(0), t2, flags=re.M)
                t2 = re.sub(r'^define hidden ([^\n]*?)(@(?:"[^"\n]+"|[-\w.$]+))\(',
                            lambda mo: ('define internal ' + mo.group(1) + mo.group(2) + '(') if mo.group(2) in local else mo.group(0),
                            t2, flags=re.M)
                open(outp2, 'w').write(t2)
                outp = outp2
            processed.append(outp)
        linked = os.path.join(d, 'linked.ll')
        run(['llvm-link-14', '-S', '-o', linked] + processed)
        pruned = os.path.join(d, 'pruned.ll')
        api = ','.join(list(entries) + list(keep))
        run(['opt-14', '-S', '-passes=internalize,globaldce', '-internalize-public-api-list=' + api, linked, '-o', pruned])
        cpath = os.path.join(d, 'unit.c')
        mpath = os.path.join(d, 'unit.json')
        run(['python3', os.path.join(VERIF, 'engine/ll2c.py'), pruned, cpath, '--meta', mpath, '--skip-ctors', ','.join(skip_ctors)])
        meta = json.load(open(mpath))
        meta['ir_lines'] = sum(1 for _ in open(pruned))
        meta['c_lines'] = sum(1 for _ in open(cpath))
        meta['dir'] = d
        meta['pruned_ll'] = pruned
        return cpath, meta


def func_hashes(pruned_ll, limit=400):
    """sha256 of the IR text of each defined function (so evidence shows the encoding moves with the source)"""
    out = {}
    cur = None
    buf = []
    for ln in open(pruned_ll):
        if ln.startswith('define '):
            m = re.search(r'@("[^"]*"|[-a-zA-Z$._0-9]+)\(', ln)
            cur = m.group(1) if m else '?'
            buf = [ln]
        elif cur is not None:
            buf.append(ln)
            if ln.startswith('}'):
                out[cur] = hashlib.sha256(''.join(buf).encode()).hexdigest()[:16]
                cur = None
    return out


MAIN_FILES = ('interrogate.cxx', 'interrogate_module.cxx', 'parse_file.cxx')
SKIP_FILES = ('test_strtod.cxx', 'py_panda.cxx', 'py_support.cxx', 'py_compat.cxx', 'py_wrappers.cxx', 'dtool_super_base.cxx')


def expand_tus(tus, L=None):
    """'@module' stands for every .cxx of src/<module> (mains, tests and the Python runtime excluded);
    '@cppparser' includes the bison output generated in the scratch directory."""
    import glob
    out = []
    for t in tus:
        if t.startswith('@'):
            m = t[1:]
            for f in sorted(glob.glob('%s/src/%s/*.cxx' % (REPO, m))):
                bn = os.path.basename(f)
                if bn in MAIN_FILES or bn in SKIP_FILES or bn.startswith('test_'):
                    continue
                out.append('src/%s/%s' % (m, bn))
            if m == 'cppparser' and L is not None:
                L.ensure_bison()
                out.append(os.path.join(L.gen, 'cppBison.cxx'))
        else:
            out.append(t)
    return out
