#!/usr/bin/env python3
"""ll2c: LLVM-14 textual IR (typed pointers) -> C for CBMC's C front end.

Typed translation: named IR structs become C structs (fields f0..fn), arrays
are wrapped in structs (field a) so they are first-class values, every SSA
value becomes a local, phi nodes become parallel copies on the incoming edge.
Functions that are only declared get prototypes whose pointer parameters are
`void *` so that the hand-written models in /verif/models need not know the
generated struct types.

Usage: ll2c.py in.ll out.c [--meta out.json]
"""
import re, sys, json, struct, hashlib

TOK = re.compile(r'''
    (?P<ws>\s+)
  | (?P<cstr>c"(?:[^"\\]|\\[0-9A-Fa-f]{2}|\\\\)*")
  | (?P<lq>%"(?:[^"\\]|\\[0-9A-Fa-f]{2})*")
  | (?P<gq>@"(?:[^"\\]|\\[0-9A-Fa-f]{2})*")
  | (?P<str>"(?:[^"\\]|\\[0-9A-Fa-f]{2})*")
  | (?P<loc>%[-a-zA-Z$._0-9]+)
  | (?P<glob>@[-a-zA-Z$._0-9]+)
  | (?P<meta>![-a-zA-Z$._0-9]*)
  | (?P<comdat>\$"(?:[^"\\]|\\[0-9A-Fa-f]{2})*"|\$[-a-zA-Z$._0-9]+)
  | (?P<attr>\#\d+)
  | (?P<hexf>0x[KLMHR]?[0-9A-Fa-f]+)
  | (?P<num>-?\d+\.\d*(?:[eE][-+]?\d+)?|-?\d+)
  | (?P<dots>\.\.\.)
  | (?P<id>[a-zA-Z_][a-zA-Z0-9_.]*)
  | (?P<p>[()\[\]{}<>,=*:])
''', re.X)


def tokenize(s):
    out = []
    pos = 0
    n = len(s)
    while pos < n:
        m = TOK.match(s, pos)
        if not m:
            raise SyntaxError('cannot tokenize at: ' + s[pos:pos + 60])
        pos = m.end()
        k = m.lastgroup
        if k == 'ws':
            continue
        out.append((k, m.group(k)))
    return out


class Ty:
    __slots__ = ('k', 'bits', 'elem', 'n', 'name', 'fields', 'packed', 'ret', 'params', 'vararg', '_c')

    def __init__(self, k, **kw):
        self.k = k
        self.bits = self.elem = self.n = self.name = self.fields = None
        self.packed = False
        self.ret = self.params = None
        self.vararg = False
        self._c = None
        for a, b in kw.items():
            setattr(self, a, b)

    def key(self):
        k = self.k
        if k == 'int':
            return 'i%d' % self.bits
        if k in ('void', 'label', 'metadata', 'token'):
            return k
        if k == 'fp':
            return self.name
        if k == 'ptr':
            return self.elem.key() + '*'
        if k == 'arr':
            return '[%d x %s]' % (self.n, self.elem.key())
        if k == 'vec':
            return '<%d x %s>' % (self.n, self.elem.key())
        if k == 'named':
            return '%' + self.name
        if k == 'lit':
            return ('<{%s}>' if self.packed else '{%s}') % ','.join(f.key() for f in self.fields)
        if k == 'func':
            return '%s(%s%s)' % (self.ret.key(), ','.join(p.key() for p in self.params), ',...' if self.vararg else '')
        raise ValueError(k)

    def __repr__(self):
        return 'Ty(%s)' % self.key()


VOID = Ty('void')
PARAM_ATTRS = set('''noundef nonnull zeroext signext noalias nocapture readonly writeonly returned inreg immarg nofree
 readnone nest swiftself swifterror swiftasync noreturn inalloca allocalign allocptr nonlazybind'''.split())
PARAM_ATTRS_ARG = set('align dereferenceable dereferenceable_or_null sret byval byref preallocated elementtype'.split())
LINKAGE = set('''private internal available_externally linkonce weak common appending extern_weak linkonce_odr weak_odr
 external dso_local dso_preemptable default hidden protected dllimport dllexport unnamed_addr local_unnamed_addr
 thread_local externally_initialized'''.split())
CCONV = set('ccc fastcc coldcc tailcc webkit_jscc anyregcc preserve_mostcc preserve_allcc cxx_fast_tlscc swiftcc'.split())
FMF = set('fast nnan ninf nsz arcp contract afn reassoc'.split())

LIBC_RENAME = set('''strlen memcmp memchr strcmp strncmp strchr strrchr strcpy strncpy memcpy memmove memset abort exit
 malloc free calloc realloc getenv time isalnum isalpha isdigit isspace isupper islower isxdigit ispunct isprint toupper
 tolower strtol strtoul strtod atoi atol pow floor ceil fabs printf fprintf sprintf snprintf puts putchar fputs fputc fwrite
 strstr strdup getcwd stat access open close read write unlink rename remove fopen fclose isatty strerror
 strtoll strtoull atof bcmp ldexp frexp modf fmod log10 log exp sqrt'''.split())


def san(s):
    return re.sub(r'[^A-Za-z0-9_]', '_', s)


class Module:
    def __init__(self, text):
        self.text = text
        self.named = {}      # name -> Ty('lit'...) body or None (opaque)
        self.named_order = []
        self.globals = {}    # name -> dict
        self.global_order = []
        self.funcs = {}      # name -> dict(ret, params, vararg, body lines or None)
        self.func_order = []
        self.aliases = {}
        self.cname_cache = {}
        self.used_cnames = set()
        self.type_defs = []   # emitted C type definitions, in order
        self.emitted = set()
        self.fn_typedefs = {}
        self.lit_names = {}
        self.arr_names = {}
        self.struct_cname = {}
        self.strings = {}     # global name -> python bytes for constant strings
        self.ctors = []
        self.undef_funcs_called = set()
        self.warnings = []

    # ---------- names
    def cname(self, raw, prefix):
        key = (prefix, raw)
        if key in self.cname_cache:
            return self.cname_cache[key]
        s = raw
        if s.startswith('"'):
            s = s[1:-1]
            s = re.sub(r'\\([0-9A-Fa-f]{2})', lambda m: chr(int(m.group(1), 16)), s)
        base = san(s)
        if prefix == 'g':
            c = base
            if base in LIBC_RENAME:
                c = 'll_' + base
            if not re.match(r'[A-Za-z_]', c):
                c = 'g_' + c
            if c != s and c != 'll_' + s:
                c = c + '_' + hashlib.md5(s.encode()).hexdigest()[:6]
        else:
            c = prefix + '_' + base
            if len(c) > 60:
                c = c[:50] + '_' + hashlib.md5(s.encode()).hexdigest()[:8]
        while c in self.used_cnames:
            c = c + '_' + hashlib.md5((s + c).encode()).hexdigest()[:4]
        self.used_cnames.add(c)
        self.cname_cache[key] = c
        return c

    # ---------- type parsing
    def parse_type(self, t, i):
        k, v = t[i]
        if k == 'id':
            if v == 'void':
                ty = VOID
                i += 1
            elif re.fullmatch(r'i\d+', v):
                ty = Ty('int', bits=int(v[1:]))
                i += 1
            elif v in ('float', 'double', 'x86_fp80', 'half', 'fp128', 'bfloat'):
                ty = Ty('fp', name=v)
                i += 1
            elif v in ('label', 'metadata', 'token'):
                ty = Ty(v)
                i += 1
            elif v == 'ptr':
                raise SyntaxError('opaque pointers not supported')
            else:
                raise SyntaxError('bad type token %r' % v)
        elif k in ('loc', 'lq'):
            ty = Ty('named', name=v[1:])
            i += 1
        elif k == 'p' and v == '[':
            n = int(t[i + 1][1])
            assert t[i + 2][1] == 'x'
            e, i = self.parse_type(t, i + 3)
            assert t[i][1] == ']', t[i]
            ty = Ty('arr', n=n, elem=e)
            i += 1
        elif k == 'p' and v == '{':
            ty, i = self.parse_struct_body(t, i, False)
        elif k == 'p' and v == '<':
            if t[i + 1][1] == '{':
                ty, i = self.parse_struct_body(t, i + 1, True)
                assert t[i][1] == '>'
                i += 1
            else:
                n = int(t[i + 1][1])
                assert t[i + 2][1] == 'x'
                e, i = self.parse_type(t, i + 3)
                assert t[i][1] == '>'
                ty = Ty('vec', n=n, elem=e)
                i += 1
        else:
            raise SyntaxError('bad type start %r' % (t[i:i + 5],))
        # suffixes
        while i < len(t):
            k, v = t[i]
            if v == '*' and k == 'p':
                ty = Ty('ptr', elem=ty)
                i += 1
            elif k == 'id' and v == 'addrspace':
                i += 4
            elif v == '(' and k == 'p':
                # function type
                params = []
                vararg = False
                i += 1
                while t[i][1] != ')':
                    if t[i][0] == 'dots':
                        vararg = True
                        i += 1
                    else:
                        p, i = self.parse_type(t, i)
                        params.append(p)
                    if t[i][1] == ',':
                        i += 1
                i += 1
                ty = Ty('func', ret=ty, params=params, vararg=vararg)
            else:
                break
        return ty, i

    def parse_struct_body(self, t, i, packed):
        assert t[i][1] == '{'
        i += 1
        fields = []
        while t[i][1] != '}':
            f, i = self.parse_type(t, i)
            fields.append(f)
            if t[i][1] == ',':
                i += 1
        return Ty('lit', fields=fields, packed=packed), i + 1

    def is_union(self, ty):
        return ty.k == 'named' and ty.name.strip('"').startswith('union.') and self.named.get(ty.name) is not None

    def field_offset(self, lit, idx):
        off = 0
        for j, f in enumerate(lit.fields):
            fs, fa = self.size_align(f)
            if lit.packed:
                fa = 1
            off = (off + fa - 1) // fa * fa
            if j == idx:
                return off
            off += fs
        raise IndexError(idx)

    def contains_ptr(self, ty, depth=0):
        if depth > 8:
            return True
        k = ty.k
        if k == 'ptr':
            return True
        if k in ('arr', 'vec'):
            return self.contains_ptr(ty.elem, depth + 1)
        if k == 'named':
            if self.is_union(ty):
                return False
            body = self.named.get(ty.name)
            return body is not None and self.contains_ptr(body, depth + 1)
        if k == 'lit':
            return any(self.contains_ptr(f, depth + 1) for f in ty.fields)
        return False

    def resolve(self, ty):
        """named -> body (Ty lit) or None if opaque"""
        if ty.k == 'named':
            return self.named.get(ty.name)
        return ty

    # ---------- C type names
    def ct(self, ty):
        if ty._c:
            return ty._c
        k = ty.k
        if k == 'int':
            b = ty.bits
            if b == 1:
                c = '_Bool'
            elif b <= 8:
                c = 'uint8_t'
            elif b <= 16:
                c = 'uint16_t'
            elif b <= 32:
                c = 'uint32_t'
            elif b <= 64:
                c = 'uint64_t'
            else:
                c = 'unsigned __int128'
        elif k == 'void':
            c = 'void'
        elif k == 'fp':
            c = {'float': 'float', 'double': 'double', 'x86_fp80': 'long double', 'half': 'float', 'fp128': 'long double'}[ty.name]
        elif k == 'ptr':
            e = ty.elem
            if e.k == 'func':
                c = self.fn_typedef(e) + ' *'
            elif e.k == 'void':
                c = 'void *'
            else:
                c = self.ct(e) + ' *'
        elif k == 'named':
            if ty.name not in self.struct_cname:
                self.struct_cname[ty.name] = self.cname(ty.name, 'S')
            c = 'struct ' + self.struct_cname[ty.name]
        elif k == 'lit':
            key = ty.key()
            if key not in self.lit_names:
                self.lit_names[key] = ('L%d' % len(self.lit_names), ty)
            c = 'struct ' + self.lit_names[key][0]
        elif k == 'arr':
            key = ty.key()
            if key not in self.arr_names:
                self.arr_names[key] = ('A%d' % len(self.arr_names), ty)
            c = 'struct ' + self.arr_names[key][0]
        elif k == 'func':
            c = self.fn_typedef(ty)
        elif k == 'vec':
            key = ty.key()
            if key not in self.arr_names:
                self.arr_names[key] = ('V%d' % len(self.arr_names), Ty('arr', n=ty.n, elem=ty.elem))
            c = 'struct ' + self.arr_names[key][0]
        else:
            c = 'void'
        ty._c = c
        return c

    def fn_typedef(self, fty):
        key = fty.key()
        if key not in self.fn_typedefs:
            self.fn_typedefs[key] = ('F%d' % len(self.fn_typedefs), fty)
        return self.fn_typedefs[key][0]

    # emission of type definitions in dependency order
    def emit_type(self, ty, out):
        k = ty.k
        if k == 'ptr':
            e = ty.elem
            if e.k == 'func':
                self.emit_type(e, out)
            elif e.k == 'ptr':
                self.emit_type(e, out)
            else:
                self.ct(e)  # forward decl suffices
                self.fwd(e, out)
            return
        if k == 'func':
            name = self.fn_typedef(ty)
            if ('F', name) in self.emitted:
                return
            self.emitted.add(('F', name))
            for p in [ty.ret] + ty.params:
                if p.k in ('ptr', 'func'):
                    self.emit_type(p, out)
                else:
                    self.emit_type(p, out)
            ps = ', '.join(self.ct(p) for p in ty.params)
            if ty.vararg:
                ps = ps + ', ...' if ps else ''
            elif not ps:
                ps = 'void'
            out.append('typedef %s %s(%s);' % (self.ct(ty.ret), name, ps))
            return
        if k in ('named', 'lit', 'arr', 'vec'):
            c = self.ct(ty)
            if ('S', c) in self.emitted:
                return
            self.emitted.add(('S', c))
            if k == 'named':
                body = self.named.get(ty.name)
                if body is None:
                    out.append('%s { char _opaque; };' % c)
                    return
                if self.is_union(ty):
                    sz, al = self.size_align(ty)
                    out.append('%s { uint8_t u[%d]; } __attribute__((aligned(%d)));' % (c, sz, al))
                    return
                fields, packed = body.fields, body.packed
            elif k == 'lit':
                fields, packed = ty.fields, ty.packed
            else:
                fields, packed = None, False
            if fields is not None:
                for f in fields:
                    self.emit_type(f, out)
                lines = ['%s f%d;' % (self.ct(f), j) for j, f in enumerate(fields)]
                if not lines:
                    lines = []
                out.append('%s { %s }%s;' % (c, ' '.join(lines), ' __attribute__((packed))' if packed else ''))
            else:
                self.emit_type(ty.elem, out)
                out.append('%s { %s a[%d]; };' % (c, self.ct(ty.elem), max(ty.n, 0)))
            return

    def fwd(self, ty, out):
        if ty.k in ('named', 'lit', 'arr', 'vec'):
            c = self.ct(ty)
            if ('FWD', c) not in self.emitted:
                self.emitted.add(('FWD', c))
                self.fwd_out.append(c + ';')

    # ---------- module parsing
    def parse(self):
        lines = self.text.split('\n')
        i = 0
        n = len(lines)
        while i < n:
            ln = lines[i]
            if not ln or ln[0] == ';' or ln.startswith('source_filename') or ln.startswith('target ') \
                    or ln.startswith('attributes ') or ln[0] == '!' or ln.startswith('module asm'):
                i += 1
                continue
            if ln[0] == '%' and ' = type ' in ln:
                t = tokenize(ln)
                name = t[0][1][1:]
                assert t[1][1] == '=' and t[2][1] == 'type'
                if t[3][1] == 'opaque':
                    self.named[name] = None
                else:
                    body, _ = self.parse_type(t, 3)
                    self.named[name] = body
                self.named_order.append(name)
                i += 1
                continue
            if ln[0] == '@':
                self.parse_global(ln)
                i += 1
                continue
            if ln.startswith('declare '):
                self.parse_func_header(ln, None)
                i += 1
                continue
            if ln.startswith('define '):
                j = i + 1
                while lines[j] != '}':
                    j += 1
                self.parse_func_header(ln, lines[i + 1:j])
                i = j + 1
                continue
            if ln.startswith('$') or ln.startswith('uselistorder'):
                i += 1
                continue
            raise SyntaxError('unknown top-level line: ' + ln[:100])

    def strip_meta(self, t):
        # remove trailing ", !dbg !5" style metadata attachments and "!srcloc"
        for j, (k, v) in enumerate(t):
            if k == 'meta' and j > 0 and t[j - 1][1] == ',':
                return t[:j - 1]
        return t

    def parse_global(self, ln):
        t = tokenize(ln)
        name = t[0][1][1:]
        assert t[1][1] == '='
        i = 2
        external = False
        while t[i][0] == 'id' and (t[i][1] in LINKAGE or t[i][1] in ('thread_local',)):
            if t[i][1] in ('external', 'extern_weak'):
                external = True
            if t[i][1] == 'thread_local' and t[i + 1][1] == '(':
                i += 3
            i += 1
        if t[i][1] == 'alias':
            # @a = alias T, T* @b   (possibly bitcast)
            ty, i2 = self.parse_type(t, i + 1)
            assert t[i2][1] == ','
            self.aliases[name] = (ty, t[i2 + 1:])
            return
        if t[i][0] == 'id' and t[i][1] == 'addrspace':
            i += 4
        kind = t[i][1]
        assert kind in ('global', 'constant'), ln[:120]
        i += 1
        ty, i = self.parse_type(t, i)
        init = None
        rest = t[i:]
        if not external and rest and rest[0][1] != ',':
            init = rest
        self.globals[name] = dict(name=name, ty=ty, const=(kind == 'constant'), init=init, external=external)
        self.global_order.append(name)

    def skip_attrs(self, t, i):
        while i < len(t):
            k, v = t[i]
            if k == 'id' and v in PARAM_ATTRS:
                i += 1
            elif k == 'id' and v in PARAM_ATTRS_ARG:
                if v == 'align' and t[i + 1][0] == 'num':
                    i += 2
                elif t[i + 1][1] == '(':
                    d = 0
                    i += 1
                    while True:
                        if t[i][1] == '(':
                            d += 1
                        elif t[i][1] == ')':
                            d -= 1
                            if d == 0:
                                i += 1
                                break
                        i += 1
                else:
                    i += 1
            else:
                break
        return i

    def parse_func_header(self, ln, body):
        t = tokenize(ln.rstrip('{ '))
        i = 1
        while t[i][0] == 'id' and (t[i][1] in LINKAGE or t[i][1] in CCONV or t[i][1] in PARAM_ATTRS or t[i][1] in PARAM_ATTRS_ARG):
            if t[i][1] in PARAM_ATTRS_ARG:
                i = self.skip_attrs(t, i)
            else:
                i += 1
        ret, i = self.parse_type_nofn(t, i)
        assert t[i][0] in ('glob', 'gq'), (ln[:150], t[i])
        name = t[i][1][1:]
        i += 1
        assert t[i][1] == '('
        i += 1
        params = []
        vararg = False
        unnamed = 0
        while t[i][1] != ')':
            if t[i][0] == 'dots':
                vararg = True
                i += 1
            else:
                pty, i = self.parse_type(t, i)
                byval = None
                # attributes, remember byval
                j = i
                while True:
                    j2 = self.skip_attrs(t, j)
                    if j2 == j:
                        break
                    j = j2
                for q in range(i, j):
                    if t[q][1] == 'byval':
                        byval = True
                i = j
                pname = None
                if t[i][0] in ('loc', 'lq'):
                    pname = t[i][1]
                    i += 1
                    if pname[1:].isdigit():
                        unnamed += 1
                elif body is not None:
                    pname = '%%%d' % unnamed
                    unnamed += 1
                params.append((pty, pname, byval))
            if t[i][1] == ',':
                i += 1
        f = dict(name=name, ret=ret, params=params, vararg=vararg, body=body, nunnamed=unnamed,
                 internal=(' internal ' in ln[:40] or ' private ' in ln[:40]))
        self.funcs[name] = f
        self.func_order.append(name)

    def parse_type_nofn(self, t, i):
        """parse a type but do not consume a following '(' as a function type (used for define/declare/call heads
        where ret type is followed by @name( )."""
        # parse base then '*'s; stop at '(' only if next-after-paren-group is a glob... simpler: parse full type; function
        # return types in headers are never bare function types, so disable '(' suffix.
        k, v = t[i]
        save = None
        ty, j = self._parse_type_limited(t, i)
        return ty, j

    def _parse_type_limited(self, t, i):
        # like parse_type, but '(' suffix is only taken when followed (after matching paren) by '*'
        k, v = t[i]
        if k == 'id' and (v == 'void' or re.fullmatch(r'i\d+', v) or v in ('float', 'double', 'x86_fp80', 'half', 'fp128')):
            ty, i = self.parse_type(t[:i + 1], i)
        elif k in ('loc', 'lq'):
            ty = Ty('named', name=v[1:])
            i += 1
        else:
            # bracketed: find the matching close
            d = 0
            j = i
            while True:
                if t[j][1] in '[{<(' and t[j][0] == 'p':
                    d += 1
                elif t[j][1] in ']}>)' and t[j][0] == 'p':
                    d -= 1
                    if d == 0:
                        break
                j += 1
            ty, _ = self.parse_type(t[:j + 1], i)
            i = j + 1
        while i < len(t):
            if t[i][1] == '*' and t[i][0] == 'p':
                ty = Ty('ptr', elem=ty)
                i += 1
            elif t[i][1] == '(' and t[i][0] == 'p':
                d = 0
                j = i
                while True:
                    if t[j][1] == '(':
                        d += 1
                    elif t[j][1] == ')':
                        d -= 1
                        if d == 0:
                            break
                    j += 1
                if j + 1 < len(t) and t[j + 1][1] == '*' and t[j + 1][0] == 'p':
                    sub = t[:j + 1]
                    # parse params
                    params = []
                    vararg = False
                    q = i + 1
                    while sub[q][1] != ')' or q != j:
                        if sub[q][0] == 'dots':
                            vararg = True
                            q += 1
                        else:
                            p, q = self.parse_type(sub, q)
                            params.append(p)
                        if q < j and sub[q][1] == ',':
                            q += 1
                        if q >= j:
                            break
                    ty = Ty('func', ret=ty, params=params, vararg=vararg)
                    i = j + 1
                else:
                    break
            else:
                break
        return ty, i


class FuncTranslator:
    def __init__(self, mod, f):
        self.m = mod
        self.f = f
        self.locals = {}    # ir name -> (cname, Ty)
        self.decls = []
        self.out = []
        self.tmpn = 0
        self.used = set()
        self.vbase_ptrs = set()
        self.bc_origin = {}
        self.arg_origins = []

    def lname(self, raw):
        s = raw[1:]
        if s.startswith('"'):
            s = s[1:-1]
        c = 'v' + san(s) if s[0].isdigit() else 'v_' + san(s)
        return c

    def define_local(self, raw, ty):
        c = self.lname(raw)
        base = c
        k = 0
        while c in self.used:
            k += 1
            c = '%s_%d' % (base, k)
        self.used.add(c)
        self.locals[raw] = (c, ty)
        return c

    def label(self, raw):
        s = raw[1:] if raw[0] == '%' else raw
        if s.startswith('"'):
            s = s[1:-1]
        return 'L_' + san(s)

    # ----- values
    def value(self, ty, t, i):
        """parse a value of known type ty at t[i]; return (cexpr, i)"""
        m = self.m
        k, v = t[i]
        if k in ('loc', 'lq'):
            if v not in self.locals:
                raise KeyError('unknown local %s in %s' % (v, self.f['name']))
            return self.locals[v][0], i + 1
        return m.const_value(ty, t, i, self)


def fp_literal(ty, tok):
    name = ty.name
    if tok.startswith('0xK'):
        h = int(tok[3:], 16)
        sign = h >> 79
        exp = (h >> 64) & 0x7fff
        mant = h & ((1 << 64) - 1)
        if exp == 0x7fff:
            return '(-__builtin_infl())' if sign else '__builtin_infl()'
        if exp == 0 and mant == 0:
            return '-0.0L' if sign else '0.0L'
        # value = mant * 2^(exp-16383-63)
        return '%s__builtin_ldexpl((long double)%dULL, %d)' % ('-' if sign else '', mant, exp - 16383 - 63)
    if tok.startswith('0x'):
        bits = int(tok[2:], 16)
        d = struct.unpack('<d', struct.pack('<Q', bits))[0]
    else:
        d = float(tok)
    if d != d:
        return '__builtin_nan("")'
    if d in (float('inf'), float('-inf')):
        return '(-__builtin_inf())' if d < 0 else '__builtin_inf()'
    h = d.hex()
    if name == 'float':
        return h + 'f'
    if name == 'x86_fp80':
        return h + 'L'
    return h


def cstr_bytes(tok):
    s = tok[2:-1]
    out = bytearray()
    i = 0
    while i < len(s):
        if s[i] == '\\':
            if s[i + 1] == '\\':
                out.append(92)
                i += 2
            else:
                out.append(int(s[i + 1:i + 3], 16))
                i += 3
        else:
            out.append(ord(s[i]))
            i += 1
    return bytes(out)


def mask_expr(bits, e):
    if bits in (1, 8, 16, 32, 64, 128):
        return e
    return '((%s) & %s)' % (e, hex((1 << bits) - 1) + ('ULL' if bits > 32 else 'U'))


def stype(bits):
    if bits <= 8:
        return 'int8_t'
    if bits <= 16:
        return 'int16_t'
    if bits <= 32:
        return 'int32_t'
    if bits <= 64:
        return 'int64_t'
    return '__int128'


def cbits(bits):
    for b in (8, 16, 32, 64, 128):
        if bits <= b:
            return b


def sext_expr(bits, e):
    """expression of signed C type holding sign-extended value of the iN in e"""
    cb = cbits(bits)
    if cb == bits:
        return '((%s)(%s))' % (stype(bits), e)
    sh = cb - bits
    ut = {8: 'uint8_t', 16: 'uint16_t', 32: 'uint32_t', 64: 'uint64_t', 128: 'unsigned __int128'}[cb]
    return '((%s)((%s)((%s)(%s) << %d)) >> %d)' % (stype(cb), stype(cb), ut, e, sh, sh)


def compute_type(bits):
    if bits <= 32:
        return 'uint32_t'
    if bits <= 64:
        return 'uint64_t'
    return 'unsigned __int128'


def self_skip_group(t, j):
    d = 0
    while True:
        k, v = t[j]
        if k == 'p' and v in '([{<':
            d += 1
        elif k == 'p' and v in ')]}>':
            d -= 1
            if d == 0:
                return j + 1
        j += 1


def Module_const_value(self, ty, t, i, ft=None):
    k, v = t[i]
    ct = self.ct
    if k == 'num':
        if ty.k == 'int':
            n = int(v)
            if n < 0:
                n += 1 << ty.bits
            if ty.bits == 1:
                return ('1' if n else '0'), i + 1
            if ty.bits > 64:
                hi, lo = n >> 64, n & ((1 << 64) - 1)
                return '((((unsigned __int128)%dULL) << 64) | %dULL)' % (hi, lo), i + 1
            return '((%s)%d%s)' % (ct(ty), n, 'ULL' if ty.bits > 32 else 'U'), i + 1
        if ty.k == 'fp':
            return fp_literal(ty, v), i + 1
        raise SyntaxError('num for type %s' % ty)
    if k == 'hexf':
        return fp_literal(ty, v), i + 1
    if k == 'id':
        if v == 'true':
            return '1', i + 1
        if v == 'false':
            return '0', i + 1
        if v == 'null':
            return '((%s)0)' % ct(ty), i + 1
        if v in ('undef', 'poison', 'zeroinitializer'):
            if ty.k in ('int', 'fp'):
                return '((%s)0)' % ct(ty), i + 1
            if ty.k == 'ptr':
                return '((%s)0)' % ct(ty), i + 1
            return '((%s){0})' % ct(ty), i + 1
        if v in ('getelementptr',):
            j = i + 1
            if t[j][1] == 'inbounds':
                j += 1
            assert t[j][1] == '('
            j += 1
            sty, j = self.parse_type(t, j)
            assert t[j][1] == ','
            j += 1
            pty, j = self.parse_type(t, j)
            base, j = self.const_value(pty, t, j, ft)
            idx = []
            while t[j][1] == ',':
                j += 1
                if t[j][1] == 'inrange':
                    j += 1
                ity, j = self.parse_type(t, j)
                iv, j = (ft.value(ity, t, j) if ft else self.const_value(ity, t, j))
                lit = None
                if t[j - 1][0] == 'num':
                    lit = int(t[j - 1][1])
                idx.append((ity, iv, lit))
            assert t[j][1] == ')'
            e, rty = self.gep_expr(sty, base, idx)
            return e, j + 1
        if v in ('bitcast', 'inttoptr', 'ptrtoint', 'trunc', 'zext', 'sext', 'addrspacecast', 'fptrunc', 'fpext',
                 'sitofp', 'uitofp', 'fptosi', 'fptoui'):
            j = i + 1
            assert t[j][1] == '('
            j += 1
            sty, j = self.parse_type(t, j)
            sv, j = (ft.value(sty, t, j) if ft else self.const_value(sty, t, j))
            assert t[j][1] == 'to', t[j]
            dty, j = self.parse_type(t, j + 1)
            assert t[j][1] == ')'
            return self.cast_expr(v, sty, sv, dty), j + 1
        if v in ('add', 'sub', 'mul', 'and', 'or', 'xor', 'shl', 'lshr', 'ashr', 'udiv', 'sdiv', 'urem', 'srem'):
            j = i + 1
            while t[j][1] in ('nsw', 'nuw', 'exact'):
                j += 1
            assert t[j][1] == '('
            j += 1
            aty, j = self.parse_type(t, j)
            a, j = (ft.value(aty, t, j) if ft else self.const_value(aty, t, j))
            assert t[j][1] == ','
            bty, j = self.parse_type(t, j + 1)
            b, j = (ft.value(bty, t, j) if ft else self.const_value(bty, t, j))
            assert t[j][1] == ')'
            return self.binop_expr(v, aty, a, b), j + 1
        if v == 'icmp':
            pred = t[i + 1][1]
            j = i + 2
            assert t[j][1] == '('
            aty, j = self.parse_type(t, j + 1)
            a, j = (ft.value(aty, t, j) if ft else self.const_value(aty, t, j))
            bty, j = self.parse_type(t, j + 1)
            b, j = (ft.value(bty, t, j) if ft else self.const_value(bty, t, j))
            assert t[j][1] == ')'
            return self.icmp_expr(pred, aty, a, b), j + 1
        if v == 'select':
            j = i + 1
            assert t[j][1] == '('
            cty, j = self.parse_type(t, j + 1)
            c, j = (ft.value(cty, t, j) if ft else self.const_value(cty, t, j))
            aty, j = self.parse_type(t, j + 1)
            a, j = (ft.value(aty, t, j) if ft else self.const_value(aty, t, j))
            bty, j = self.parse_type(t, j + 1)
            b, j = (ft.value(bty, t, j) if ft else self.const_value(bty, t, j))
            assert t[j][1] == ')'
            return '((%s) ? (%s) : (%s))' % (c, a, b), j + 1
        raise SyntaxError('unknown constant keyword %s' % v)
    if k in ('glob', 'gq'):
        name = v[1:]
        return self.global_ref(name, ty), i + 1
    if k == 'cstr':
        bs = cstr_bytes(v)
        return '{ {%s} }' % ','.join(str(b) for b in bs), i + 1
    if k == 'p' and v in '{[<' and ty.k == 'named' and self.is_union(ty):
        j = self_skip_group(t, i)
        vals = t[i:j]
        if any(x[0] in ('glob', 'gq', 'loc', 'lq') or (x[0] == 'num' and x[1] not in ('0',)) for x in vals):
            self.warnings.append('non-zero initialiser of union %s replaced by zero' % ty.name)
        return '{ {0} }', j
    if k == 'p' and v in '{[<':
        packed = False
        if v == '<' and t[i + 1][1] == '{':
            i += 1
            packed = True
        close = {'{': '}', '[': ']', '<': '>'}[t[i][1]]
        j = i + 1
        vals = []
        while t[j][1] != close:
            ety, j = self.parse_type(t, j)
            ev, j = self.const_value(ety, t, j, ft)
            vals.append(ev)
            if t[j][1] == ',':
                j += 1
        j += 1
        if packed:
            assert t[j][1] == '>'
            j += 1
        if ty.k in ('arr', 'vec'):
            return '{ {%s} }' % ', '.join(vals), j
        return '{ %s }' % ', '.join(vals), j
    raise SyntaxError('bad constant %r' % (t[i:i + 4],))


def Module_global_ref(self, name, ty):
    """C expression for the address of global/function `name`, typed as ty (a pointer type)."""
    if name in self.aliases:
        aty, toks = self.aliases[name]
        # alias target: "T* @target" or bitcast expr
        pty, j = self.parse_type(toks, 0)
        e, _ = self.const_value(pty, toks, j)
        return '((%s)%s)' % (self.ct(ty), e)
    c = self.cname(name if not name.startswith('"') else name, 'g')
    if name in self.funcs:
        self.addr_taken.add(name)
        f = self.funcs[name]
        fty = Ty('func', ret=f['ret'], params=[p[0] for p in f['params']], vararg=f['vararg'])
        if ty.k == 'ptr' and ty.elem.k == 'func' and ty.elem.key() == fty.key() and f['body'] is not None:
            return c
        return '((%s)%s)' % (self.ct(ty), c)
    if name in self.globals:
        g = self.globals[name]
        if ty.k == 'ptr' and ty.elem.key() == g['ty'].key():
            return '(&%s)' % c
        return '((%s)&%s)' % (self.ct(ty), c)
    raise KeyError('unknown global @' + name)


def Module_size_align(self, ty):
    k = ty.k
    if k == 'int':
        b = (ty.bits + 7) // 8
        p = 1
        while p < b:
            p *= 2
        return p, min(p, 16)
    if k == 'ptr':
        return 8, 8
    if k == 'fp':
        return {'float': (4, 4), 'double': (8, 8), 'x86_fp80': (16, 16), 'half': (2, 2), 'fp128': (16, 16)}[ty.name]
    if k in ('arr', 'vec'):
        es, ea = self.size_align(ty.elem)
        return es * ty.n, ea
    if k == 'named':
        body = self.named.get(ty.name)
        if body is None:
            return 0, 1
        return self.size_align(body)
    if k == 'lit':
        off = 0
        al = 1
        for f in ty.fields:
            fs, fa = self.size_align(f)
            if ty.packed:
                fa = 1
            off = (off + fa - 1) // fa * fa + fs
            al = max(al, fa)
        off = (off + al - 1) // al * al
        return off, al
    return 0, 1


def Module_gep_expr(self, sty, base, idx):
    """sty: source element type; base: C expr of type sty*; idx: list of (ity, cexpr, literal or None)"""
    ity, iv, lit = idx[0]
    if lit == 0:
        e = '(*%s)' % base
        first = True
    else:
        e = '%s[%s]' % (base, self.sidx(ity, iv, lit))
        first = False
    cur = sty
    for (ity, iv, lit) in idx[1:]:
        r = self.resolve(cur)
        if r is None:
            raise SyntaxError('gep into opaque')
        if r.k == 'lit' and self.is_union(cur):
            assert lit is not None
            off = self.field_offset(r, lit)
            cur = r.fields[lit]
            e = '(*(%s *)(%s.u + %d))' % (self.ct(cur), e, off)
        elif r.k == 'lit':
            assert lit is not None
            e = '%s.f%d' % (e, lit)
            cur = r.fields[lit]
        elif r.k in ('arr', 'vec'):
            e = '%s.a[%s]' % (e, self.sidx(ity, iv, lit))
            cur = r.elem
        else:
            raise SyntaxError('gep into %s' % r)
    return '(&%s)' % e, Ty('ptr', elem=cur)


def Module_sidx(self, ity, iv, lit):
    if lit is not None:
        return str(lit)
    return sext_expr(ity.bits, iv) if ity.bits < 64 else '(int64_t)(%s)' % iv


def Module_cast_expr(self, op, sty, sv, dty):
    ct = self.ct
    if op in ('bitcast', 'addrspacecast'):
        if sty.k == 'ptr' and dty.k == 'ptr':
            if sty.elem is not None and self.is_union(sty.elem) and not (dty.elem is not None and self.is_union(dty.elem)) \
                    and re.match(r'^v\d+$', sv):
                # pointer to a union (a byte-array wrapper) viewed as pointer to one of its members: go through the byte
                # array like gep_expr does; a store through the cast wrapper pointer into an uninitialised union does
                # not fold when read back
                return '((%s)((*%s).u + 0))' % (ct(dty), sv)
            return '((%s)%s)' % (ct(dty), sv)
        if sty.k == 'fp' and dty.k == 'int':
            return {'double': 'll_d2i', 'float': 'll_f2i'}[sty.name] + '(%s)' % sv
        if sty.k == 'int' and dty.k == 'fp':
            return {'double': 'll_i2d', 'float': 'll_i2f'}[dty.name] + '(%s)' % sv
        if sty.key() == dty.key():
            return sv
        raise SyntaxError('bitcast %s -> %s' % (sty, dty))
    if op == 'inttoptr':
        return '((%s)(uintptr_t)%s)' % (ct(dty), sv)
    if op == 'ptrtoint':
        return mask_expr(dty.bits, '((%s)(uintptr_t)%s)' % (ct(dty), sv))
    if op == 'trunc':
        if dty.bits == 1:
            return '((_Bool)((%s) & 1))' % sv
        return mask_expr(dty.bits, '((%s)%s)' % (ct(dty), sv))
    if op == 'zext':
        return '((%s)%s)' % (ct(dty), sv)
    if op == 'sext':
        if sty.bits == 1:
            return mask_expr(dty.bits, '((%s)((%s) ? -1 : 0))' % (ct(dty), sv))
        return mask_expr(dty.bits, '((%s)%s)' % (ct(dty), sext_expr(sty.bits, sv)))
    if op in ('fptrunc', 'fpext'):
        return '((%s)%s)' % (ct(dty), sv)
    if op == 'sitofp':
        return '((%s)%s)' % (ct(dty), sext_expr(sty.bits, sv) if sty.bits > 1 else '(-(int)(%s))' % sv)
    if op == 'uitofp':
        return '((%s)%s)' % (ct(dty), sv)
    if op == 'fptosi':
        return mask_expr(dty.bits, '((%s)(%s)%s)' % (ct(dty), stype(cbits(dty.bits)), sv))
    if op == 'fptoui':
        return mask_expr(dty.bits, '((%s)%s)' % (ct(dty), sv))
    raise SyntaxError(op)


def Module_binop_expr(self, op, ty, a, b):
    ct = self.ct
    if ty.k == 'vec':
        raise SyntaxError('vector op')
    bits = ty.bits
    if bits == 1:
        o = {'add': '^', 'sub': '^', 'mul': '&', 'and': '&', 'or': '|', 'xor': '^'}.get(op)
        if o is None:
            raise SyntaxError('i1 ' + op)
        return '((_Bool)((%s) %s (%s)))' % (a, o, b)
    T = compute_type(bits)
    R = ct(ty)
    A = '(%s)(%s)' % (T, a)
    B = '(%s)(%s)' % (T, b)
    if op in ('add', 'sub', 'mul', 'and', 'or', 'xor'):
        o = {'add': '+', 'sub': '-', 'mul': '*', 'and': '&', 'or': '|', 'xor': '^'}[op]
        return mask_expr(bits, '((%s)(%s %s %s))' % (R, A, o, B))
    # LLVM shifts by >= width give poison, which -O1 code may compute speculatively and then discard; C would
    # make that undefined behaviour.  The shift amount is masked as the x86 shifter does (for the widths clang emits).
    cb = 32 if bits <= 32 else (64 if bits <= 64 else 128)
    B = '(%s & %d)' % (B, cb - 1)
    if op == 'shl':
        return mask_expr(bits, '((%s)(%s << %s))' % (R, A, B))
    if op == 'lshr':
        return '((%s)(%s >> %s))' % (R, A, B)
    if op == 'udiv':
        return '((%s)(%s / %s))' % (R, A, B)
    if op == 'urem':
        return '((%s)(%s %% %s))' % (R, A, B)
    sa, sb = sext_expr(bits, a), sext_expr(bits, b)
    if op == 'ashr':
        return mask_expr(bits, '((%s)(%s >> %s))' % (R, sa, B))
    if op == 'sdiv':
        return mask_expr(bits, '((%s)(%s / %s))' % (R, sa, sb))
    if op == 'srem':
        return mask_expr(bits, '((%s)(%s %% %s))' % (R, sa, sb))
    raise SyntaxError(op)


def Module_icmp_expr(self, pred, ty, a, b, insn=False):
    if ty.k == 'ptr':
        if pred == 'eq':
            return '((%s) == (%s))' % (a, b)
        if pred == 'ne':
            return '((%s) != (%s))' % (a, b)
        o = {'ult': '<', 'ule': '<=', 'ugt': '>', 'uge': '>=', 'slt': '<', 'sle': '<=', 'sgt': '>', 'sge': '>='}[pred]
        if pred[0] == 'u' and insn:
            # (instruction context only, never inside a constant initialiser) within one object the address order is
            # the offset order: comparing offsets lets CBMC's simplifier decide
            # e.g. `yyss + yystacksize - 1 <= yyssp` (bison's stack-overflow test) for constant pointers, where
            # `(uintptr_t)&x + 2 >= (uintptr_t)&x + 46` stays a symbolic guard; pointers into different objects are
            # compared by address as before
            return ('(__CPROVER_same_object((void *)(%s), (void *)(%s)) ? (__CPROVER_POINTER_OFFSET(%s) %s __CPROVER_POINTER_OFFSET(%s))'
                    ' : ((uintptr_t)(%s) %s (uintptr_t)(%s)))' % (a, b, a, o, b, a, o, b))
        return '((uintptr_t)(%s) %s (uintptr_t)(%s))' % (a, o, b)
    bits = ty.bits
    if pred in ('eq', 'ne', 'ult', 'ule', 'ugt', 'uge'):
        o = {'eq': '==', 'ne': '!=', 'ult': '<', 'ule': '<=', 'ugt': '>', 'uge': '>='}[pred]
        T = compute_type(bits)
        return '((%s)(%s) %s (%s)(%s))' % (T, a, o, T, b)
    o = {'slt': '<', 'sle': '<=', 'sgt': '>', 'sge': '>='}[pred]
    if bits == 1:
        return '((-(int)(%s)) %s (-(int)(%s)))' % (a, o, b)
    return '(%s %s %s)' % (sext_expr(bits, a), o, sext_expr(bits, b))


Module.const_value = Module_const_value
Module.global_ref = Module_global_ref
Module.gep_expr = Module_gep_expr
Module.size_align = Module_size_align
Module.sidx = Module_sidx
Module.cast_expr = Module_cast_expr
Module.binop_expr = Module_binop_expr
Module.icmp_expr = Module_icmp_expr


FCMP = {
    'oeq': '(%s == %s)', 'ogt': '(%s > %s)', 'oge': '(%s >= %s)', 'olt': '(%s < %s)', 'ole': '(%s <= %s)',
    'one': '(%s < %s || %s > %s)', 'ord': '(%s == %s && %s == %s)', 'uno': '(%s != %s || %s != %s)',
    'ueq': '(!(%s < %s || %s > %s))', 'ugt': '(!(%s <= %s))', 'uge': '(!(%s < %s))', 'ult': '(!(%s >= %s))',
    'ule': '(!(%s > %s))', 'une': '(%s != %s)', 'true': '1', 'false': '0',
}


def fcmp_expr(pred, a, b):
    f = FCMP[pred]
    n = f.count('%s')
    if n == 0:
        return f
    if n == 2:
        return f % (a, b)
    if pred == 'ord':
        return f % (a, a, b, b)
    if pred == 'uno':
        return f % (a, a, b, b)
    return f % (a, b, a, b)


INTRINSIC_NOP = ('llvm.lifetime.', 'llvm.dbg.', 'llvm.experimental.noalias.scope.decl', 'llvm.assume', 'llvm.donothing',
                 'llvm.invariant.', 'llvm.var.annotation', 'llvm.prefetch')


class FT(FuncTranslator):
    def translate(self):
        m = self.m
        f = self.f
        body = f['body']
        # pre-pass: find every defined SSA name and type lazily; we declare as we go since each def has a type
        params_c = []
        pro = []
        for (pty, pname, byval) in f['params']:
            c = self.define_local(pname, pty)
            params_c.append('%s %s' % (m.ct(pty), c))
            if byval and pty.k == 'ptr':
                cp = c + '_byval'
                self.decls.append('%s %s;' % (m.ct(pty.elem), cp))
                pro.append('%s = *%s; %s = &%s;' % (cp, c, c, cp))
        if f['vararg']:
            params_c.append('...')
        # split into blocks
        blocks = []
        cur = None
        entry_label = '%%%d' % f['nunnamed']
        for ln in body:
            if not ln.strip():
                continue
            mm = re.match(r'^([-a-zA-Z$._0-9]+|"[^"]*"):', ln)
            if mm and not ln.startswith(' '):
                cur = ('%' + mm.group(1), [])
                blocks.append(cur)
                continue
            if cur is None:
                cur = (entry_label, [])
                blocks.append(cur)
            s = ln.strip()
            if s.startswith(';'):
                continue
            cur[1].append(s)
        # join multi-line switch
        for bi, (lab, insts) in enumerate(blocks):
            merged = []
            acc = None
            for s in insts:
                if acc is not None:
                    acc += ' ' + s
                    if s.startswith(']') or s.endswith(']'):
                        merged.append(acc)
                        acc = None
                    continue
                if s.startswith('switch ') and not s.rstrip().endswith(']'):
                    acc = s
                    continue
                merged.append(s)
            blocks[bi] = (lab, merged)
        # first pass: tokenize, register result names with types (need types for forward refs in phi)
        toks = {}
        for lab, insts in blocks:
            for idx, s in enumerate(insts):
                t = m.strip_meta(tokenize(s))
                toks[(lab, idx)] = t
        self.all_toks = list(toks.values())
        # determine result types
        self.phis = {}   # block label -> list of (cname, ty, [(valtoks, predlabel)])
        for lab, insts in blocks:
            for idx, s in enumerate(insts):
                t = toks[(lab, idx)]
                if len(t) > 2 and t[1][1] == '=' and t[0][0] in ('loc', 'lq'):
                    rty = self.result_type(t)
                    if rty is not None and rty.k != 'void':
                        c = self.define_local(t[0][1], rty)
                        self.decls.append('%s %s;' % (m.ct(rty), c))
        for lab, insts in blocks:
            for idx, s in enumerate(insts):
                t = toks[(lab, idx)]
                if len(t) > 3 and t[1][1] == '=' and t[2][1] == 'phi':
                    self.collect_phi(t, lab)
        # second pass: emit
        for lab, insts in blocks:
            self.out.append('%s: ;' % self.label(lab))
            for idx, s in enumerate(insts):
                t = toks[(lab, idx)]
                try:
                    self.inst(t, lab)
                except Exception as e:
                    raise type(e)('%s\n  in @%s: %s' % (e, f['name'], s)) from e
        cname = m.cname(f['name'], 'g')
        head = '%s %s(%s)' % (m.ct(f['ret']), cname, ', '.join(params_c) if params_c else 'void')
        return head, self.decls, pro + self.out

    # ---- result type inference
    def result_type(self, t):
        m = self.m
        op_i = 2
        op = t[op_i][1]
        while op in ('tail', 'musttail', 'notail'):
            op_i += 1
            op = t[op_i][1]
        i = op_i + 1
        if op in ('add', 'sub', 'mul', 'udiv', 'sdiv', 'urem', 'srem', 'shl', 'lshr', 'ashr', 'and', 'or', 'xor',
                  'fadd', 'fsub', 'fmul', 'fdiv', 'frem', 'fneg', 'freeze'):
            while t[i][1] in ('nsw', 'nuw', 'exact') or t[i][1] in FMF:
                i += 1
            ty, _ = m.parse_type(t, i)
            return ty
        if op in ('icmp', 'fcmp'):
            return Ty('int', bits=1)
        if op == 'alloca':
            if t[i][1] == 'inalloca':
                i += 1
            ty, _ = m.parse_type(t, i)
            return Ty('ptr', elem=ty)
        if op == 'load':
            while t[i][1] in ('atomic', 'volatile'):
                i += 1
            ty, _ = m.parse_type(t, i)
            return ty
        if op == 'getelementptr':
            if t[i][1] == 'inbounds':
                i += 1
            sty, j = m.parse_type(t, i)
            # walk indices to compute type
            j += 1
            pty, j = m.parse_type(t, j)
            # skip base value
            j = self.skip_value(t, j)
            cur = sty
            first = True
            while j < len(t) and t[j][1] == ',':
                j += 1
                if t[j][1] == 'inrange':
                    j += 1
                ity, j = m.parse_type(t, j)
                lit = int(t[j][1]) if t[j][0] == 'num' else None
                j = self.skip_value(t, j)
                if first:
                    first = False
                    continue
                r = m.resolve(cur)
                if r.k == 'lit':
                    cur = r.fields[lit]
                else:
                    cur = r.elem
            return Ty('ptr', elem=cur)
        if op in ('bitcast', 'inttoptr', 'ptrtoint', 'trunc', 'zext', 'sext', 'fptrunc', 'fpext', 'sitofp', 'uitofp',
                  'fptosi', 'fptoui', 'addrspacecast'):
            j = len(t) - 1
            # find ' to ' at top level from the end
            d = 0
            for q in range(len(t) - 1, i, -1):
                if t[q][1] == 'to' and t[q][0] == 'id':
                    ty, _ = m.parse_type(t, q + 1)
                    return ty
            raise SyntaxError('cast without to')
        if op == 'select':
            while t[i][1] in FMF:
                i += 1
            cty, j = m.parse_type(t, i)
            j = self.skip_value(t, j)
            ty, _ = m.parse_type(t, j + 1)
            return ty
        if op == 'phi':
            while t[i][1] in FMF:
                i += 1
            ty, _ = m.parse_type(t, i)
            return ty
        if op == 'call':
            while t[i][0] == 'id' and (t[i][1] in CCONV or t[i][1] in PARAM_ATTRS or t[i][1] in PARAM_ATTRS_ARG or t[i][1] in FMF):
                if t[i][1] in PARAM_ATTRS_ARG:
                    i = m.skip_attrs(t, i)
                else:
                    i += 1
            ty, _ = m._parse_type_limited(t, i)
            if ty.k == 'func':
                return ty.ret
            if ty.k == 'ptr' and ty.elem.k == 'func' and False:
                return ty.elem.ret
            return ty
        if op == 'extractvalue':
            aty, j = m.parse_type(t, i)
            j = self.skip_value(t, j)
            cur = aty
            while j < len(t) and t[j][1] == ',':
                n = int(t[j + 1][1])
                r = m.resolve(cur)
                cur = r.fields[n] if r.k == 'lit' else r.elem
                j += 2
            return cur
        if op == 'insertvalue':
            aty, _ = m.parse_type(t, i)
            return aty
        if op == 'atomicrmw':
            if t[i][1] == 'volatile':
                i += 1
            i += 1  # operation
            pty, _ = m.parse_type(t, i)
            return pty.elem
        if op == 'cmpxchg':
            while t[i][1] in ('weak', 'volatile'):
                i += 1
            pty, _ = m.parse_type(t, i)
            return Ty('lit', fields=[pty.elem, Ty('int', bits=1)])
        if op == 'va_arg':
            for q in range(len(t) - 1, i, -1):
                if t[q][1] == ',':
                    ty, _ = m.parse_type(t, q + 1)
                    return ty
        raise SyntaxError('result_type: unknown op %s' % op)

    def skip_value(self, t, j):
        """skip one value (after its type) in token list"""
        k, v = t[j]
        if k in ('loc', 'lq', 'glob', 'gq', 'num', 'hexf', 'cstr'):
            return j + 1
        if k == 'id' and v in ('true', 'false', 'null', 'undef', 'poison', 'zeroinitializer'):
            return j + 1
        # constant expr / aggregate: skip keyword(s) then balanced group
        d = 0
        while True:
            k, v = t[j]
            if k == 'p' and v in '([{<':
                d += 1
            elif k == 'p' and v in ')]}>':
                d -= 1
                if d == 0:
                    return j + 1
            j += 1

    # ---- statements
    def emit(self, s):
        self.out.append('  ' + s)

    def edge(self, frm, to):
        """code for phi copies on edge frm->to followed by goto"""
        m = self.m
        ph = self.phis_of(to)
        copies = []
        for (c, ty, inc) in ph:
            for (vt, pl) in inc:
                if pl == frm:
                    e, _ = self.value(ty, vt, 0)
                    copies.append((c, ty, e))
                    break
            else:
                raise SyntaxError('phi in %s has no incoming for %s' % (to, frm))
        tgt = 'goto %s;' % self.label(to)
        if not copies:
            return tgt
        if len(copies) == 1:
            c, ty, e = copies[0]
            return '{ %s = %s; %s }' % (c, e, tgt)
        s = '{ '
        for q, (c, ty, e) in enumerate(copies):
            s += '%s t%d = %s; ' % (m.ct(ty), q, e)
        for q, (c, ty, e) in enumerate(copies):
            s += '%s = t%d; ' % (c, q)
        return s + tgt + ' }'

    def collect_phi(self, t, lab):
        m = self.m
        res = self.locals[t[0][1]][0]
        i = 3
        while t[i][1] in FMF:
            i += 1
        ty, i = m.parse_type(t, i)
        inc = []
        while i < len(t):
            assert t[i][1] == '['
            j = i + 1
            j2 = self.skip_value(t, j)
            vt = t[j:j2]
            assert t[j2][1] == ','
            pl = t[j2 + 1][1]
            assert t[j2 + 2][1] == ']'
            inc.append((vt, pl))
            i = j2 + 3
            if i < len(t) and t[i][1] == ',':
                i += 1
        self.phis.setdefault(lab, []).append((res, ty, inc))

    def phis_of(self, lab):
        return self.phis.get(lab, [])

    def inst(self, t, lab):
        m = self.m
        ct = m.ct
        res = None
        i = 0
        if len(t) > 2 and t[1][1] == '=' and t[0][0] in ('loc', 'lq'):
            res = self.locals[t[0][1]][0] if t[0][1] in self.locals else None
            i = 2
        op = t[i][1]
        while op in ('tail', 'musttail', 'notail'):
            i += 1
            op = t[i][1]
        i += 1
        if op == 'phi':
            return
        if op == 'phi_never':
            inc = []
            while i < len(t):
                assert t[i][1] == '['
                j = i + 1
                j2 = self.skip_value(t, j)
                vt = t[j:j2]
                assert t[j2][1] == ','
                pl = t[j2 + 1][1]
                assert t[j2 + 2][1] == ']'
                inc.append((vt, pl))
                i = j2 + 3
                if i < len(t) and t[i][1] == ',':
                    i += 1
            self.phis.setdefault(lab, []).append((res, ty, inc))
            return
        if op in ('add', 'sub', 'mul', 'udiv', 'sdiv', 'urem', 'srem', 'shl', 'lshr', 'ashr', 'and', 'or', 'xor'):
            while t[i][1] in ('nsw', 'nuw', 'exact'):
                i += 1
            ty, i = m.parse_type(t, i)
            a, i = self.value(ty, t, i)
            b, i = self.value(ty, t, i + 1)
            p2i = getattr(self, 'p2i', {})
            if op == 'sub' and ty.k == 'int' and ty.bits == 64 and a in p2i and b in p2i:
                # (ptrtoint p) - (ptrtoint q), the libstdc++ idiom for end - begin: as a pointer difference CBMC folds
                # it to an offset difference when both point into one object (integer addresses never fold)
                # equal pointers (e.g. the null begin/end of an empty, memset-initialised vector) differ by 0: null - null
                # does not fold as a pointer difference
                self.emit('%s = ((char *)%s == (char *)%s) ? (uint64_t)0 : (__CPROVER_POINTER_OBJECT(%s) == __CPROVER_POINTER_OBJECT(%s)) ? (uint64_t)((char *)%s - (char *)%s) : %s;'
                          % (res, p2i[a], p2i[b], p2i[a], p2i[b], p2i[a], p2i[b], m.binop_expr(op, ty, a, b)))
                return
            self.emit('%s = %s;' % (res, m.binop_expr(op, ty, a, b)))
            return
        if op in ('fadd', 'fsub', 'fmul', 'fdiv', 'frem'):
            while t[i][1] in FMF:
                i += 1
            ty, i = m.parse_type(t, i)
            a, i = self.value(ty, t, i)
            b, i = self.value(ty, t, i + 1)
            if op == 'frem':
                self.emit('%s = __builtin_fmod(%s, %s);' % (res, a, b))
            else:
                o = {'fadd': '+', 'fsub': '-', 'fmul': '*', 'fdiv': '/'}[op]
                self.emit('%s = (%s)((%s) %s (%s));' % (res, ct(ty), a, o, b))
            return
        if op == 'fneg':
            while t[i][1] in FMF:
                i += 1
            ty, i = m.parse_type(t, i)
            a, i = self.value(ty, t, i)
            self.emit('%s = -(%s);' % (res, a))
            return
        if op == 'freeze':
            ty, i = m.parse_type(t, i)
            a, i = self.value(ty, t, i)
            self.emit('%s = %s;' % (res, a))
            return
        if op == 'icmp':
            pred = t[i][1]
            ty, i = m.parse_type(t, i + 1)
            a, i = self.value(ty, t, i)
            b, i = self.value(ty, t, i + 1)
            self.emit('%s = %s;' % (res, m.icmp_expr(pred, ty, a, b, insn=True)))
            return
        if op == 'fcmp':
            while t[i][1] in FMF:
                i += 1
            pred = t[i][1]
            ty, i = m.parse_type(t, i + 1)
            a, i = self.value(ty, t, i)
            b, i = self.value(ty, t, i + 1)
            self.emit('%s = %s;' % (res, fcmp_expr(pred, '(%s)' % a, '(%s)' % b)))
            return
        if op == 'alloca':
            ty, i = m.parse_type(t, i)
            cnt = None
            if i < len(t) and t[i][1] == ',' and t[i + 1][1] != 'align' and t[i + 1][1] != 'addrspace':
                cty, j = m.parse_type(t, i + 1)
                cnt, j = self.value(cty, t, j)
            mem = res + '_mem'
            if cnt is None and self.f['name'] in m.recursive:
                # CBMC gives the locals of all frames of a recursive function one object identity; a pointer to
                # such a local is therefore not frame-precise.  Allocate the slot per call instead.
                self.emit('%s = (%s *)ll_new_typed(malloc(sizeof(%s)));' % (res, ct(ty), ct(ty)))
            elif cnt is None:
                self.decls.append('%s %s;' % (ct(ty), mem))
                self.emit('%s = &%s;' % (res, mem))
            else:
                self.emit('%s = (%s *)__builtin_alloca(sizeof(%s) * (%s));' % (res, ct(ty), ct(ty), cnt))
            return
        if op == 'load':
            while t[i][1] in ('atomic', 'volatile'):
                i += 1
            ty, i = m.parse_type(t, i)
            pty, i = m.parse_type(t, i + 1)
            src_tok = t[i][1]
            p, i = self.value(pty, t, i)
            if ty.k == 'int' and ty.bits == 64 and src_tok in self.vbase_ptrs:
                # Itanium ABI "virtual base offset" load (vptr[-3]): vtables hold the offset as an integer-address
                # pointer; read it as a pointer and take its offset so that the value constant-folds
                self.emit('%s = (uint64_t)__CPROVER_POINTER_OFFSET(*(uint8_t **)%s);' % (res, p))
                return
            if ty.k == 'int' and ty.bits in (16, 32, 64) and res is not None and src_tok in self.bc_origin \
                    and self.bc_origin[src_tok][0].k in ('named', 'lit'):
                # integer load through a pointer bitcast from a struct pointer (clang copies a run of small trivially
                # copyable members - an int and four bools - as one i64): CBMC does not constant-fold such a read of
                # a struct that also has pointer/array members.  When integer members tile the loaded bytes exactly,
                # read them one by one (little endian), which is the same value.
                oty = self.bc_origin[src_tok][0]
                leaves = []
                if self.int_leaves(oty, '(*(%s *)%s)' % (ct(oty), p), 0, ty.bits // 8, leaves) and len(leaves) > 1:
                    parts = []
                    for (lv, off, sz) in leaves:
                        e = '(%s)(%s)' % (ct(ty), lv)
                        parts.append('(%s)(%s << %d)' % (ct(ty), e, 8 * off) if off else e)
                    self.emit('%s = %s;' % (res, ' | '.join(parts)))
                    return
            self.emit('%s = *%s;' % (res, p))
            return
        if op == 'store':
            while t[i][1] in ('atomic', 'volatile'):
                i += 1
            ty, i = m.parse_type(t, i)
            v, i = self.value(ty, t, i)
            pty, i = m.parse_type(t, i + 1)
            p, i = self.value(pty, t, i)
            if v.startswith('{'):
                v = '(%s)%s' % (ct(ty), v)
            self.emit('*%s = %s;' % (p, v))
            return
        if op == 'getelementptr':
            if t[i][1] == 'inbounds':
                i += 1
            if len(t) >= 4 and t[-1][1] == '-24' and t[-2][1] == 'i64' and t[i][1] == 'i8' and res is not None:
                self.vbase_ptrs.add(t[0][1])
            sty, i = m.parse_type(t, i)
            pty, i = m.parse_type(t, i + 1)
            base, i = self.value(pty, t, i)
            idx = []
            while i < len(t) and t[i][1] == ',':
                i += 1
                if t[i][1] == 'inrange':
                    i += 1
                ity, i = m.parse_type(t, i)
                lit = int(t[i][1]) if t[i][0] == 'num' else None
                iv, i = self.value(ity, t, i)
                idx.append((ity, iv, lit))
            e, rty = m.gep_expr(sty, base, idx)
            self.emit('%s = %s;' % (res, e))
            if res is not None:
                goff = self.gep_const_offset(sty, idx)
                if goff is not None:
                    if not hasattr(self, 'gep_origin_by_c'):
                        self.gep_origin_by_c = {}
                    self.gep_origin_by_c[res] = (sty, base, goff)
            return
        if op in ('bitcast', 'inttoptr', 'ptrtoint', 'trunc', 'zext', 'sext', 'fptrunc', 'fpext', 'sitofp', 'uitofp',
                  'fptosi', 'fptoui', 'addrspacecast'):
            sty, i = m.parse_type(t, i)
            if op == 'bitcast' and t[i][1] in self.vbase_ptrs and res is not None:
                self.vbase_ptrs.add(t[0][1])
            src_tok_bc = t[i][1]
            sv, i = self.value(sty, t, i)
            if op == 'bitcast' and res is not None and sty.k == 'ptr' and sty.elem.k in ('named', 'lit', 'arr', 'ptr'):
                self.bc_origin[t[0][1]] = (sty.elem, sv)
            assert t[i][1] == 'to'
            dty, i = m.parse_type(t, i + 1)
            if op == 'ptrtoint' and dty.k == 'int' and dty.bits == 64 and res is not None and re.match(r'^v\d+$', sv):
                if not hasattr(self, 'p2i'):
                    self.p2i = {}
                self.p2i[res] = sv
            self.emit('%s = %s;' % (res, m.cast_expr(op, sty, sv, dty)))
            return
        if op == 'select':
            while t[i][1] in FMF:
                i += 1
            cty, i = m.parse_type(t, i)
            c, i = self.value(cty, t, i)
            aty, i = m.parse_type(t, i + 1)
            a, i = self.value(aty, t, i)
            bty, i = m.parse_type(t, i + 1)
            b, i = self.value(bty, t, i)
            if a.startswith('{'):
                a = '(%s)%s' % (ct(aty), a)
            if b.startswith('{'):
                b = '(%s)%s' % (ct(aty), b)
            self.emit('%s = (%s) ? (%s) : (%s);' % (res, c, a, b))
            return
        if op == 'extractvalue':
            aty, i = m.parse_type(t, i)
            a, i = self.value(aty, t, i)
            e = '(%s)' % a
            cur = aty
            while i < len(t) and t[i][1] == ',':
                n = int(t[i + 1][1])
                r = m.resolve(cur)
                if r.k == 'lit':
                    e += '.f%d' % n
                    cur = r.fields[n]
                else:
                    e += '.a[%d]' % n
                    cur = r.elem
                i += 2
            self.emit('%s = %s;' % (res, e))
            return
        if op == 'insertvalue':
            aty, i = m.parse_type(t, i)
            a, i = self.value(aty, t, i)
            vty, i = m.parse_type(t, i + 1)
            v, i = self.value(vty, t, i)
            if a.startswith('{') or a.startswith('(('):
                pass
            self.emit('%s = %s;' % (res, a if not a.startswith('{') else '(%s)%s' % (ct(aty), a)))
            e = res
            cur = aty
            while i < len(t) and t[i][1] == ',':
                n = int(t[i + 1][1])
                r = m.resolve(cur)
                if r.k == 'lit':
                    e += '.f%d' % n
                    cur = r.fields[n]
                else:
                    e += '.a[%d]' % n
                    cur = r.elem
                i += 2
            self.emit('%s = %s;' % (e, v))
            return
        if op == 'br':
            if t[i][1] == 'label':
                self.emit(self.edge(lab, t[i + 1][1]))
            else:
                cty, i = m.parse_type(t, i)
                c, i = self.value(cty, t, i)
                l1 = t[i + 2][1]
                l2 = t[i + 5][1]
                self.emit('if (%s) %s else %s' % (c, self.edge(lab, l1), self.edge(lab, l2)))
            return
        if op == 'switch':
            ty, i = m.parse_type(t, i)
            v, i = self.value(ty, t, i)
            assert t[i + 1][1] == 'label'
            dflt = t[i + 2][1]
            i += 3
            assert t[i][1] == '['
            i += 1
            self.emit('switch (%s) {' % v)
            while t[i][1] != ']':
                cty, i = m.parse_type(t, i)
                cv, i = self.value(cty, t, i)
                assert t[i + 1][1] == 'label'
                self.emit('  case %s: %s' % (cv, self.edge(lab, t[i + 2][1])))
                i += 3
            self.emit('  default: %s' % self.edge(lab, dflt))
            self.emit('}')
            return
        if op == 'ret':
            if t[i][1] == 'void':
                self.emit('return;')
            else:
                ty, i = m.parse_type(t, i)
                v, i = self.value(ty, t, i)
                if v.startswith('{'):
                    v = '(%s)%s' % (ct(ty), v)
                self.emit('return %s;' % v)
            return
        if op == 'unreachable':
            self.emit('__CPROVER_assume(0);')
            return
        if op == 'fence':
            return
        if op == 'atomicrmw':
            if t[i][1] == 'volatile':
                i += 1
            aop = t[i][1]
            pty, i = m.parse_type(t, i + 1)
            p, i = self.value(pty, t, i)
            vty, i = m.parse_type(t, i + 1)
            v, i = self.value(vty, t, i)
            if res:
                self.emit('%s = *%s;' % (res, p))
            old = '(*%s)' % p
            if aop == 'xchg':
                self.emit('*%s = %s;' % (p, v))
            elif aop in ('add', 'sub', 'and', 'or', 'xor'):
                self.emit('*%s = %s;' % (p, m.binop_expr(aop, vty, old, v)))
            else:
                raise SyntaxError('atomicrmw ' + aop)
            return
        if op == 'cmpxchg':
            while t[i][1] in ('weak', 'volatile'):
                i += 1
            pty, i = m.parse_type(t, i)
            p, i = self.value(pty, t, i)
            cty, i = m.parse_type(t, i + 1)
            c, i = self.value(cty, t, i)
            nty, i = m.parse_type(t, i + 1)
            nv, i = self.value(nty, t, i)
            self.emit('%s.f0 = *%s; %s.f1 = (%s.f0 == %s); if (%s.f1) *%s = %s;' % (res, p, res, res, c, res, p, nv))
            return
        if op == 'call':
            self.call(t, i, res)
            return
        raise SyntaxError('unknown instruction %s' % op)

    def call(self, t, i, res):
        m = self.m
        ct = m.ct
        while t[i][0] == 'id' and (t[i][1] in CCONV or t[i][1] in PARAM_ATTRS or t[i][1] in PARAM_ATTRS_ARG or t[i][1] in FMF):
            if t[i][1] in PARAM_ATTRS_ARG:
                i = m.skip_attrs(t, i)
            else:
                i += 1
        rty, i = m._parse_type_limited(t, i)
        fty = None
        if rty.k == 'func':
            fty = rty
            rty = fty.ret
        if t[i][1] == '(' and t[i][0] == 'p':
            # explicit function type "ret (params, ...)" before the callee
            d = 0
            j = i
            while True:
                if t[j][1] == '(' and t[j][0] == 'p':
                    d += 1
                elif t[j][1] == ')' and t[j][0] == 'p':
                    d -= 1
                    if d == 0:
                        break
                j += 1
            full, _ = m.parse_type(t[:j + 1], i - 1) if False else (None, None)
            params = []
            vararg = False
            q = i + 1
            while q < j:
                if t[q][0] == 'dots':
                    vararg = True
                    q += 1
                else:
                    p, q = m.parse_type(t[:j], q)
                    params.append(p)
                if q < j and t[q][1] == ',':
                    q += 1
            fty = Ty('func', ret=rty, params=params, vararg=vararg)
            i = j + 1
        # callee
        k, v = t[i]
        callee_name = None
        callee_expr = None
        if k in ('glob', 'gq'):
            callee_name = v[1:]
            i += 1
        elif k in ('loc', 'lq'):
            callee_expr = self.locals[v][0]
            callee_ty = self.locals[v][1]
            i += 1
        elif k == 'id' and v == 'bitcast':
            # bitcast (T @f to U)
            j = i + 2
            sty, j = m.parse_type(t, j)
            if t[j][0] in ('glob', 'gq'):
                inner = t[j][1][1:]
                j += 1
                assert t[j][1] == 'to'
                dty, j = m.parse_type(t, j + 1)
                assert t[j][1] == ')'
                i = j + 1
                callee_name = inner
                fty = dty.elem
            else:
                raise SyntaxError('call through complex constant expr')
        elif k == 'id' and v == 'asm':
            # inline asm: treat as no-op (only memory barriers expected)
            m.warnings.append('inline asm ignored in %s' % self.f['name'])
            return
        else:
            raise SyntaxError('bad callee %r' % (t[i],))
        assert t[i][1] == '(', t[i]
        i += 1
        args = []
        self.arg_origins = []
        while t[i][1] != ')':
            aty, i = m.parse_type(t, i)
            i2 = i
            while True:
                i3 = m.skip_attrs(t, i2)
                if i3 == i2:
                    break
                i2 = i3
            i = i2
            if aty.k == 'metadata':
                i = self.skip_value(t, i) if t[i][0] != 'meta' else i + 1
                args.append((aty, '0'))
            else:
                org = None
                if t[i][0] in ('loc', 'lq') and t[i][1] in self.bc_origin:
                    org = self.bc_origin[t[i][1]]
                elif t[i][1] == 'bitcast' and t[i + 1][1] == '(':
                    try:
                        oty, j2 = m.parse_type(t, i + 2)
                        if oty.k == 'ptr' and oty.elem.k in ('named', 'lit', 'arr', 'ptr'):
                            ov, _ = self.value(oty, t, j2)
                            org = (oty.elem, ov)
                    except Exception:
                        org = None
                av, i = self.value(aty, t, i)
                if av.startswith('{'):
                    av = '(%s)%s' % (ct(aty), av)
                args.append((aty, av))
                self.arg_origins.append(org)
            if t[i][1] == ',':
                i += 1
        # intrinsics
        if callee_name and callee_name.startswith('llvm.'):
            self.intrinsic(callee_name, rty, args, res)
            return
        if callee_name in ('__CPROVER_assert', '__CPROVER_assume', '__CPROVER_cover'):
            if callee_name == '__CPROVER_assert':
                msg = self.string_of(args[1][1], t)
                self.emit('__CPROVER_assert(%s, %s);' % (args[0][1], json.dumps(msg)))
            elif callee_name == '__CPROVER_cover':
                self.emit('__CPROVER_cover(%s);' % args[0][1])
            else:
                self.emit('__CPROVER_assume(%s);' % args[0][1])
            return
        if callee_name in ('_Znwm', '_Znam') and res is not None and re.fullmatch(r'\(\(uint64_t\)(\d+)ULL\)', args[0][1] or ''):
            n = int(re.fullmatch(r'\(\(uint64_t\)(\d+)ULL\)', args[0][1]).group(1))
            tty = self.new_target_type(t[0][1], n)
            if tty is not None:
                # typed allocation: CBMC infers the object type from sizeof, which keeps fields separate
                self.emit('%s = (uint8_t *)ll_new_typed(malloc(sizeof(%s)));' % (res, ct(tty)))
                m.uses_typed_new = True
                return
        if callee_name in ('_Znwm', '_Znam') and res is not None and re.fullmatch(r'v\w+', args[0][1] or ''):
            # std::vector<T> storage: operator new(count * sizeof(T)) whose result is cast to T* -> array of T
            cnt = self.new_array_count(args[0][1])
            if cnt is not None:
                tty = self.new_target_type(t[0][1], cnt[1], allow_ptr=True)
                if tty is not None:
                    self.emit('%s = (uint8_t *)ll_new_typed(malloc(sizeof(%s) * (uint64_t)(%s)));' % (res, ct(tty), cnt[0]))
                    m.uses_typed_new = True
                    return
        if callee_name is not None:
            if callee_name in m.aliases:
                aty, toks = m.aliases[callee_name]
                pty, j = m.parse_type(toks, 0)
                if toks[j][0] in ('glob', 'gq'):
                    callee_name = toks[j][1][1:]
            f = m.funcs.get(callee_name)
            if f is None:
                raise KeyError('call to unknown function ' + callee_name)
            cn = m.cname(callee_name, 'g')
            declared_only = f['body'] is None
            fparams = [p[0] for p in f['params']]
            cargs = []
            for q, (aty, av) in enumerate(args):
                if q < len(fparams):
                    pty = fparams[q]
                    if declared_only and pty.k == 'ptr':
                        cargs.append('(void *)%s' % av)
                    elif pty.key() != aty.key():
                        cargs.append('(%s)%s' % (ct(pty), av))
                    else:
                        cargs.append(av)
                else:
                    cargs.append(av)
            call = '%s(%s)' % (cn, ', '.join(cargs))
            if declared_only:
                m.undef_funcs_called.add(callee_name)
            frt = f['ret']
            if res is not None and rty.k != 'void':
                if (declared_only and frt.k == 'ptr') or frt.key() != rty.key():
                    self.emit('%s = (%s)%s;' % (res, ct(rty), call))
                else:
                    self.emit('%s = %s;' % (res, call))
            else:
                self.emit('%s;' % call)
            return
        # indirect call
        if fty is None:
            fty = Ty('func', ret=rty, params=[a[0] for a in args], vararg=False)
        fn = m.fn_typedef(fty)
        call = '((%s *)%s)(%s)' % (fn, callee_expr, ', '.join(a[1] for a in args))
        if res is not None and rty.k != 'void':
            self.emit('%s = %s;' % (res, call))
        else:
            self.emit('%s;' % call)

    def new_array_count(self, cname):
        """cname = C name of a local defined by `mul i64 %count, <const>`: returns (C expr of count, const)"""
        raw = None
        for r, (c, ty) in self.locals.items():
            if c == cname:
                raw = r
                break
        if raw is None:
            return None
        for t in self.all_toks:
            if len(t) > 6 and t[0][1] == raw and t[1][1] == '=' and t[2][1] in ('mul', 'shl'):
                shl = t[2][1] == 'shl'
                i = 3
                while t[i][1] in ('nuw', 'nsw'):
                    i += 1
                if t[i][1] != 'i64' or i + 3 >= len(t) or t[i + 2][1] != ',':
                    return None
                a, b = t[i + 1], t[i + 3]
                if a[0] in ('loc', 'lq') and a[1] in self.locals and re.fullmatch(r'\d+', b[1]):
                    return self.locals[a[1]][0], ((1 << int(b[1])) if shl else int(b[1]))
                return None
        return None

    def new_target_type(self, resname, n, allow_ptr=False):
        m = self.m
        for t in self.all_toks:
            if len(t) > 5 and t[1][1] == '=' and t[2][1] == 'bitcast' and t[3][1] == 'i8' and t[4][1] == '*' and t[5][1] == resname:
                for q in range(len(t) - 1, 5, -1):
                    if t[q][1] == 'to':
                        ty, _ = m.parse_type(t, q + 1)
                        if ty.k == 'ptr' and (ty.elem.k in ('named', 'lit', 'arr') or (allow_ptr and ty.elem.k == 'ptr')):
                            sz, _ = m.size_align(ty.elem)
                            if sz == n:
                                return ty.elem
                        break
        return None

    def gep_const_offset(self, sty, idx):
        """byte offset of a getelementptr with constant indices (first index 0) into sty, else None"""
        m = self.m
        if not idx or any(l is None for (_, _, l) in idx) or idx[0][2] != 0:
            return None
        ty, off = sty, 0
        for (_, _, l) in idx[1:]:
            if ty.k == 'named':
                if m.is_union(ty):
                    return None
                ty = m.named.get(ty.name)
                if ty is None:
                    return None
            if ty.k == 'lit':
                if l < 0 or l >= len(ty.fields):
                    return None
                off += m.field_offset(ty, l)
                ty = ty.fields[l]
            elif ty.k == 'arr':
                es, _ = m.size_align(ty.elem)
                off += l * es
                ty = ty.elem
            else:
                return None
        return off

    def int_leaves(self, ty, lv, off, n, out, depth=0):
        """(lvalue, byte offset, size) of the scalar leaves of ty inside [0, n); True only if they are all integers and
        tile [0, n) exactly (no padding, no leaf straddling n, no pointers/floats/unions)."""
        m = self.m
        if depth == 0:
            if not self.int_leaves(ty, lv, off, n, out, 1):
                return False
            pos = 0
            for (_, o, sz) in out:
                if o != pos:
                    return False
                pos += sz
            return pos == n
        if off >= n:
            return True
        if depth > 12:
            return False
        k = ty.k
        if k == 'int':
            sz, _ = m.size_align(ty)
            if ty.bits not in (8, 16, 32, 64) or off + sz > n:
                return False
            out.append((lv, off, sz))
            return True
        if k == 'named':
            if m.is_union(ty):
                return False
            body = m.named.get(ty.name)
            if body is None:
                return False
            ty = body
            k = ty.k
        if k == 'lit':
            for idx, f in enumerate(ty.fields):
                if not self.int_leaves(f, '%s.f%d' % (lv, idx), off + m.field_offset(ty, idx), n, out, depth + 1):
                    return False
            return True
        if k == 'arr':
            es, _ = m.size_align(ty.elem)
            if es <= 0 or ty.n > 64:
                return False
            for i in range(ty.n):
                if off + i * es >= n:
                    break
                if not self.int_leaves(ty.elem, '%s.a[%d]' % (lv, i), off + i * es, n, out, depth + 1):
                    return False
            return True
        return False

    def zero_leaves(self, ty, lv, off, n, out, depth=0, lo=0):
        """typed `= 0` stores for every scalar leaf of ty (lvalue lv, at byte offset off) inside [0, n).
        False if a leaf straddles n or the layout is not known (unions, opaque types, huge arrays)."""
        m = self.m
        if off >= n:
            return True
        if depth > 12:
            return False
        k = ty.k
        if k in ('int', 'ptr', 'fp'):
            sz, _ = m.size_align(ty)
            if off + sz <= lo:
                return True
            if off + sz > n or off < lo:
                return False
            out.append('%s = 0;' % lv)
            return True
        if k == 'named':
            if m.is_union(ty):
                return False
            body = m.named.get(ty.name)
            if body is None:
                return False
            ty = body
            k = ty.k
        if k == 'lit':
            for idx, f in enumerate(ty.fields):
                if not self.zero_leaves(f, '%s.f%d' % (lv, idx), off + m.field_offset(ty, idx), n, out, depth + 1, lo):
                    return False
            return True
        if k == 'arr':
            es, _ = m.size_align(ty.elem)
            if es <= 0 or ty.n > 64:
                return False
            for i in range(ty.n):
                if off + i * es >= n:
                    break
                if off + (i + 1) * es <= lo:
                    continue
                if not self.zero_leaves(ty.elem, '%s.a[%d]' % (lv, i), off + i * es, n, out, depth + 1, lo):
                    return False
            return True
        return False

    def string_of(self, expr, t):
        # find a global mentioned in tokens whose init is a cstr
        for (k, v) in t:
            if k in ('glob', 'gq') and v[1:] in self.m.strings:
                return self.m.strings[v[1:]].rstrip(b'\0').decode('latin1')
        return 'assertion'

    def intrinsic(self, name, rty, args, res):
        m = self.m
        ct = m.ct
        for p in INTRINSIC_NOP:
            if name.startswith(p):
                return
        a = [x[1] for x in args]
        if name.startswith('llvm.memcpy.') or name.startswith('llvm.memmove.'):
            fn = 'll_memcpy' if 'memcpy' in name else 'll_memmove'
            orgs = [o for o in self.arg_origins[:2] if o is not None and m.contains_ptr(o[0])]
            if orgs:
                oty = orgs[0][0]
                mm = re.fullmatch(r'\(\(uint64_t\)(\d+)ULL\)', a[2])
                if mm and int(mm.group(1)) == m.size_align(oty)[0] and oty.k in ('named', 'lit', 'arr'):
                    # whole-object copy of a pointer-carrying type: typed assignment keeps pointer provenance
                    self.emit('*(%s *)%s = *(%s *)%s;' % (ct(oty), a[0], ct(oty), a[1]))
                    return
                fn += '_ptr'
            self.emit('%s((void *)%s, (void *)%s, (uint64_t)%s);' % (fn, a[0], a[1], a[2]))
            return
        if name.startswith('llvm.memset.'):
            # zero-filling (a prefix of) a typed object, e.g. the three pointers of an empty std::vector: typed stores
            # of 0 keep every field a constant for CBMC; a byte-wise memset of part of a struct does not
            org = self.arg_origins[0] if self.arg_origins else None
            mm = re.fullmatch(r'\(\(uint64_t\)(\d+)ULL\)', a[2] or '')
            # (only when the typed object is at least as large as the filled range: a memset that starts at one field
            # and runs on over the following fields, e.g. _M_left and _M_right of an _Rb_tree_node_base, must not be
            # shortened to the first field)
            if org is not None and mm and re.fullmatch(r'\(\(uint8_t\)0U\)', a[1] or '') and 0 < int(mm.group(1)) <= 512 \
                    and m.size_align(org[0])[0] >= int(mm.group(1)):
                stores = []
                if self.zero_leaves(org[0], '(*%s)' % org[1], 0, int(mm.group(1)), stores) and stores:
                    for st in stores:
                        self.emit(st)
                    return
            elif org is not None and mm and re.fullmatch(r'\(\(uint8_t\)0U\)', a[1] or '') and 0 < int(mm.group(1)) <= 512 \
                    and org[1] in getattr(self, 'gep_origin_by_c', {}):
                # the range starts at a field (constant-index GEP) and runs on over the following fields of the
                # enclosing object, e.g. memset(&this->_derivation, 0, 25): zero the leaves of that object in the range
                ety, ebase, eoff = self.gep_origin_by_c[org[1]]
                n = int(mm.group(1))
                if m.size_align(ety)[0] >= eoff + n:
                    stores = []
                    if self.zero_leaves(ety, '(*%s)' % ebase, 0, eoff + n, stores, lo=eoff) and stores:
                        for st in stores:
                            self.emit(st)
                        return
            self.emit('ll_memset((void *)%s, %s, (uint64_t)%s);' % (a[0], a[1], a[2]))
            return
        mm = re.match(r'llvm\.(s|u)(add|sub|mul)\.with\.overflow\.i(\d+)', name)
        if mm:
            s, o, bits = mm.group(1), mm.group(2), int(mm.group(3))
            ity = args[0][0]
            wide = 'unsigned __int128' if bits > 32 else 'uint64_t'
            swide = '__int128' if bits > 32 else 'int64_t'
            op = {'add': '+', 'sub': '-', 'mul': '*'}[o]
            if s == 'u':
                self.emit('{ %s w = (%s)(%s) %s (%s)(%s); %s.f0 = (%s)w; %s.f1 = (w != (%s)(%s)w); }' %
                          (wide, wide, a[0], op, wide, a[1], res, ct(ity), res, wide, ct(ity)))
            else:
                self.emit('{ %s w = (%s)%s %s (%s)%s; %s.f0 = (%s)w; %s.f1 = (w != (%s)(%s)(%s)w); }' %
                          (swide, swide, sext_expr(bits, a[0]), op, swide, sext_expr(bits, a[1]), res, ct(ity), res,
                           swide, stype(bits), ct(ity)))
            return
        mm = re.match(r'llvm\.(smax|smin|umax|umin)\.i(\d+)', name)
        if mm:
            o, bits = mm.group(1), int(mm.group(2))
            ity = args[0][0]
            if o[0] == 'u':
                c = '(%s) %s (%s)' % (a[0], '>' if o == 'umax' else '<', a[1])
            else:
                c = '%s %s %s' % (sext_expr(bits, a[0]), '>' if o == 'smax' else '<', sext_expr(bits, a[1]))
            self.emit('%s = (%s) ? (%s) : (%s);' % (res, c, a[0], a[1]))
            return
        mm = re.match(r'llvm\.abs\.i(\d+)', name)
        if mm:
            bits = int(mm.group(1))
            self.emit('%s = (%s < 0) ? (%s)(0 - (%s)) : (%s);' % (res, sext_expr(bits, a[0]), ct(rty), a[0], a[0]))
            return
        mm = re.match(r'llvm\.(ctlz|cttz|ctpop)\.i(\d+)', name)
        if mm:
            self.emit('%s = (%s)ll_%s(%s, %s);' % (res, ct(rty), mm.group(1), a[0], mm.group(2)))
            return
        mm = re.match(r'llvm\.(fshl|fshr)\.i(\d+)', name)
        if mm:
            self.emit('%s = (%s)ll_%s%s(%s, %s, %s);' % (res, ct(rty), mm.group(1), mm.group(2), a[0], a[1], a[2]))
            return
        mm = re.match(r'llvm\.bswap\.i(\d+)', name)
        if mm:
            self.emit('%s = __builtin_bswap%s(%s);' % (res, mm.group(1), a[0]))
            return
        if name.startswith('llvm.expect.'):
            self.emit('%s = %s;' % (res, a[0]))
            return
        if name.startswith('llvm.is.constant.'):
            self.emit('%s = 0;' % res)
            return
        if name.startswith('llvm.objectsize.'):
            self.emit('%s = (%s)-1;' % (res, ct(rty)))
            return
        if name in ('llvm.trap', 'llvm.debugtrap'):
            self.emit('ll_trap();')
            return
        mm = re.match(r'llvm\.(fabs|floor|ceil|trunc|rint|nearbyint|round|sqrt|copysign|fmuladd|fma|minnum|maxnum|pow|powi)\.(f32|f64|f80)', name)
        if mm:
            o, w = mm.groups()
            suf = {'f32': 'f', 'f64': '', 'f80': 'l'}[w]
            if o == 'fmuladd':
                self.emit('%s = (%s) * (%s) + (%s);' % (res, a[0], a[1], a[2]))
            elif o in ('minnum', 'maxnum'):
                self.emit('%s = __builtin_f%s%s(%s, %s);' % (res, o[:3], suf, a[0], a[1]))
            elif o == 'pow':
                self.emit('%s = ll_pow(%s, %s);' % (res, a[0], a[1]))
            elif o == 'powi':
                self.emit('%s = ll_pow(%s, (double)(int32_t)%s);' % (res, a[0], a[1]))
            else:
                self.emit('%s = __builtin_%s%s(%s);' % (res, o, suf, ', '.join(a)))
            return
        if name.startswith('llvm.stacksave'):
            self.emit('%s = 0;' % res)
            return
        if name.startswith('llvm.stackrestore'):
            return
        if name.startswith('llvm.va_start') or name.startswith('llvm.va_end') or name.startswith('llvm.va_copy'):
            m.warnings.append('varargs intrinsic ignored: ' + name)
            return
        if name.startswith('llvm.load.relative') or name.startswith('llvm.ptrmask'):
            raise SyntaxError('unsupported intrinsic ' + name)
        raise SyntaxError('unsupported intrinsic ' + name)


PRELUDE = r'''
#include <stdint.h>
#include <stddef.h>
void __CPROVER_assume(_Bool);
void *malloc(size_t);
static inline void *ll_new_typed(void *p) { __CPROVER_assume(p != 0); return p; }
void ll_memcpy(void *, void *, uint64_t);
void ll_memmove(void *, void *, uint64_t);
void ll_memcpy_ptr(void *, void *, uint64_t);
void ll_memmove_ptr(void *, void *, uint64_t);
void ll_memset(void *, uint8_t, uint64_t);
void ll_trap(void);
double ll_pow(double, double);
static inline uint64_t ll_d2i(double d) { union { double d; uint64_t i; } u; u.d = d; return u.i; }
static inline double ll_i2d(uint64_t i) { union { double d; uint64_t i; } u; u.i = i; return u.d; }
static inline uint32_t ll_f2i(float d) { union { float d; uint32_t i; } u; u.d = d; return u.i; }
static inline float ll_i2f(uint32_t i) { union { float d; uint32_t i; } u; u.i = i; return u.d; }
static inline uint64_t ll_ctlz(uint64_t v, int bits) { int n = 0; for (int i = bits - 1; i >= 0; i--) { if ((v >> i) & 1) break; n++; } return n; }
static inline uint64_t ll_cttz(uint64_t v, int bits) { int n = 0; for (int i = 0; i < bits; i++) { if ((v >> i) & 1) break; n++; } return n; }
static inline uint64_t ll_ctpop(uint64_t v, int bits) { int n = 0; for (int i = 0; i < bits; i++) n += (v >> i) & 1; return n; }
static inline uint64_t ll_fshl64(uint64_t a, uint64_t b, uint64_t s) { s &= 63; return s ? (a << s) | (b >> (64 - s)) : a; }
static inline uint32_t ll_fshl32(uint32_t a, uint32_t b, uint32_t s) { s &= 31; return s ? (a << s) | (b >> (32 - s)) : a; }
static inline uint64_t ll_fshr64(uint64_t a, uint64_t b, uint64_t s) { s &= 63; return s ? (a << (64 - s)) | (b >> s) : b; }
static inline uint32_t ll_fshr32(uint32_t a, uint32_t b, uint32_t s) { s &= 31; return s ? (a << (32 - s)) | (b >> s) : b; }
'''


def translate(text, model_globals=(), skip_ctors=()):
    m = Module(text)
    m.addr_taken = set()
    m.fwd_out = []
    m.parse()
    # constant strings
    for name, g in m.globals.items():
        if g['init'] and g['init'][0][0] == 'cstr':
            m.strings[name] = cstr_bytes(g['init'][0][1])
    body_out = []
    # translate functions first (collects type usage), but names for globals must be reserved first
    for name in m.global_order:
        m.cname(name, 'g')
    for name in m.func_order:
        m.cname(name, 'g')
    # functions on a cycle of the direct call graph
    graph = {}
    for name in m.func_order:
        f = m.funcs[name]
        if f['body'] is None:
            continue
        callees = set()
        for ln in f['body']:
            if ' call ' in ln or ln.lstrip().startswith('call ') or 'invoke ' in ln:
                for mm in re.finditer(r'@("[^"]*"|[-a-zA-Z$._0-9]+)\(', ln):
                    callees.add(mm.group(1))
        graph[name] = callees
    m.recursive = set()
    for start in graph:
        seen = set()
        stack = list(graph[start])
        while stack:
            x = stack.pop()
            if x == start:
                m.recursive.add(start)
                break
            if x in seen or x not in graph:
                continue
            seen.add(x)
            stack.extend(graph[x])
    func_text = []
    protos = []
    stub_defs = {}
    inline_stubs = []
    for name in m.func_order:
        f = m.funcs[name]
        if name.startswith('llvm.') or name in ('__CPROVER_assert', '__CPROVER_assume', '__CPROVER_cover'):
            continue
        if f['body'] is None:
            ps = []
            for (pty, _, _) in f['params']:
                ps.append('void *' if pty.k == 'ptr' else m.ct(pty))
            if f['vararg']:
                ps.append('...')
            r = 'void *' if f['ret'].k == 'ptr' else m.ct(f['ret'])
            protos.append('%s %s(%s);' % (r, m.cname(name, 'g'), ', '.join(ps) if ps else 'void'))
            simple = f['ret'].k in ('ptr', 'int', 'fp', 'void') and all(p[0].k in ('ptr', 'int', 'fp') for p in f['params'])
            if simple:
                pl = ', '.join('%s a%d' % (x, k) for k, x in enumerate(ps) if x != '...')
                if f['vararg']:
                    pl = pl + ', ...' if pl else ''
                body = '__CPROVER_assert(0, "model: unmodelled external function %s reached"); __CPROVER_assume(0);' % name
                if f['ret'].k != 'void':
                    body += ' %s r_ = 0; return r_;' % r
                stub_defs[name] = '%s %s(%s) { %s }' % (r, m.cname(name, 'g'), pl if pl else 'void', body)
            else:
                # by-value aggregates in the signature: the stub must live in this unit (it needs the struct types)
                pl = ', '.join('%s a%d' % (x, k) for k, x in enumerate(ps) if x != '...')
                body = '__CPROVER_assert(0, "model: unmodelled external function %s reached"); __CPROVER_assume(0);' % name
                if f['ret'].k != 'void':
                    body += ' %s r_; return r_;' % r
                inline_stubs.append('%s %s(%s) { %s }' % (r, m.cname(name, 'g'), pl if pl else 'void', body))
                stub_defs[name] = ''
            continue
        ft = FT(m, f)
        head, decls, out = ft.translate()
        protos.append(('static ' if False else '') + head + ';')
        func_text.append(head + '\n{\n  ' + '\n  '.join(decls) + '\n' + '\n'.join(out) + '\n}\n')
    # globals
    gdecl = []
    gdef = []
    ctors = []
    for name in m.global_order:
        g = m.globals[name]
        if name == 'llvm.global_ctors':
            # [N x { i32, void ()*, i8* }] [ { i32 65535, void ()* @f, i8* null } ... ]
            toks = g['init'] or []
            prio = None
            for j, (k, v) in enumerate(toks):
                if k in ('glob', 'gq') and not any(x in v for x in skip_ctors):
                    ctors.append(v[1:])
            continue
        if name.startswith('llvm.'):
            continue
        c = m.cname(name, 'g')
        cty = m.ct(g['ty'])
        if g['external']:
            if name in model_globals:
                gdecl.append('extern %s %s;' % (cty, c))
            else:
                gdecl.append('%s %s;' % (cty, c))
            continue
        gdecl.append('%s%s %s;' % ('const ' if g['const'] else '', cty, c)) if False else gdecl.append('extern %s%s %s;' % ('const ' if g['const'] else '', cty, c))
        init, _ = m.const_value(g['ty'], g['init'], 0)
        if init.startswith('(('):
            # scalar / cast forms fine
            pass
        if init.endswith('){0})'):
            init = '{0}'
        gdef.append('%s%s %s = %s;' % ('const ' if g['const'] else '', cty, c, init))
    # types: emit everything referenced
    tout = []
    # make sure all referenced types are emitted: walk named structs used + lit + arr + fn typedefs (grow while emitting)
    done = False
    while not done:
        before = (len(m.lit_names), len(m.arr_names), len(m.fn_typedefs), len(m.struct_cname))
        for nm in list(m.struct_cname):
            m.emit_type(Ty('named', name=nm), tout)
        for key, (cn, ty) in list(m.lit_names.items()):
            m.emit_type(ty, tout)
        for key, (cn, ty) in list(m.arr_names.items()):
            m.emit_type(ty, tout)
        for key, (cn, fty) in list(m.fn_typedefs.items()):
            m.emit_type(fty, tout)
        after = (len(m.lit_names), len(m.arr_names), len(m.fn_typedefs), len(m.struct_cname))
        done = before == after
    fwd = ['%s;' % m.ct(Ty('named', name=nm)) for nm in m.struct_cname]
    fwd += ['struct %s;' % cn for (cn, ty) in m.lit_names.values()]
    fwd += ['struct %s;' % cn for (cn, ty) in m.arr_names.values()]
    parts = [PRELUDE, '\n'.join(fwd), '\n'.join(tout), '\n'.join(protos), '\n'.join(gdecl), '\n'.join(gdef)]
    std_streams = [n for n in m.global_order if n in ('_ZSt4cerr', '_ZSt4cout', '_ZSt4clog') and m.globals[n]['external']]
    if std_streams:
        parts.append('void vs_init_std_stream(void *);')
    VBASE = {'_ZTVSt14basic_ofstreamIcSt11char_traitsIcEE': 248, '_ZTVSt14basic_ifstreamIcSt11char_traitsIcEE': 256,
             '_ZTVNSt7__cxx1119basic_ostringstreamIcSt11char_traitsIcESaIcEEE': 112,
             '_ZTVNSt7__cxx1119basic_istringstreamIcSt11char_traitsIcESaIcEEE': 120}
    # stored as an integer-address pointer so that the header-inlined "load i64 vptr[-3]" folds to the constant
    vbase_init = ['  *(uint8_t **)&%s = (uint8_t *)%d;' % (m.cname(n, 'g'), VBASE[n]) for n in m.global_order
                  if n in VBASE and m.globals[n]['external']]
    for n in m.global_order:
        # VTT of a stream class: every entry points at the primary vtable (slot 3), whose slot -3 is the vbase offset
        if n.startswith('_ZTT') and m.globals[n]['external'] and ('_ZTV' + n[4:]) in m.globals and ('_ZTV' + n[4:]) in VBASE:
            cnt = m.globals[n]['ty'].n if m.globals[n]['ty'].k == 'arr' else 0
            for q in range(cnt):
                vbase_init.append('  %s.a[%d] = (uint8_t *)&%s + 24;' % (m.cname(n, 'g'), q, m.cname('_ZTV' + n[4:], 'g')))
    parts.append('void __ll2c_global_ctors(void)\n{\n' + '\n'.join(vbase_init) + '\n' + '\n'.join('  vs_init_std_stream((void *)&%s);' % m.cname(c, 'g') for c in std_streams)
                 + '\n' + '\n'.join('  %s();' % m.cname(c, 'g') for c in ctors) + '\n}\n')
    parts.append('\n'.join(inline_stubs))
    parts.append('\n'.join(func_text))
    meta = dict(
        defined=[n for n in m.func_order if m.funcs[n]['body'] is not None],
        undefined=sorted(n for n in m.func_order if m.funcs[n]['body'] is None and not n.startswith('llvm.')
                         and (n in m.undef_funcs_called or n in m.addr_taken)),
        undefined_c={n: m.cname(n, 'g') for n in m.func_order if m.funcs[n]['body'] is None},
        external_globals=[n for n in m.global_order if m.globals[n]['external']],
        warnings=m.warnings,
        recursive=sorted(m.recursive),
        stub_defs=stub_defs,
        cnames={n: m.cname(n, 'g') for n in m.func_order if m.funcs[n]['body'] is not None},
    )
    return '\n\n'.join(parts), meta


def main():
    args = sys.argv[1:]
    src, dst = args[0], args[1]
    metaf = None
    mg = ()
    if '--meta' in args:
        metaf = args[args.index('--meta') + 1]
    if '--model-globals' in args:
        mg = set(args[args.index('--model-globals') + 1].split(','))
    sk = ()
    if '--skip-ctors' in args:
        sk = [x for x in args[args.index('--skip-ctors') + 1].split(',') if x]
    text, meta = translate(open(src).read(), mg, sk)
    open(dst, 'w').write(text)
    if metaf:
        json.dump(meta, open(metaf, 'w'), indent=1)


if __name__ == '__main__':
    main()
