// Native replay runtime: provides the solver primitives for a harness compiled
// by g++ against the real sources.  nondet_* return the values recorded from
// the CBMC trace, in call order.
#include <stdio.h>
#include <stdlib.h>
#include <string.h>
#include <signal.h>
#include <unistd.h>
#include <stdint.h>
#include <vector>
static std::vector<long long> g_vals;
static size_t g_pos = 0;
static int g_exhausted = 0;
extern "C" {
int verif_crash = 0;
static long long next_val() {
  if (g_pos < g_vals.size()) return g_vals[g_pos++];
  g_exhausted++;
  return 0;
}
int nondet_int() { return (int)next_val(); }
unsigned nondet_uint() { return (unsigned)next_val(); }
long nondet_long() { return (long)next_val(); }
unsigned long nondet_ulong() { return (unsigned long)next_val(); }
char nondet_char() { return (char)next_val(); }
unsigned char nondet_uchar() { return (unsigned char)next_val(); }
bool nondet_bool() { return next_val() != 0; }
double nondet_double() { long long b = next_val(); double d; memcpy(&d, &b, 8); return d; }
void __CPROVER_assume(bool c) {
  if (!c) { printf("ASSUME-VIOLATED (recorded inputs do not satisfy the harness assumptions)\n"); fflush(stdout); _exit(77); }
}
void __CPROVER_assert(bool c, const char *msg) {
  if (c) return;
  if (strncmp(msg, "WITNESS", 7) == 0) { printf("REACHED-END exhausted=%d\n", g_exhausted); fflush(stdout); _exit(0); }
  printf("ASSERT-FAILED: %s\n", msg); fflush(stdout); _exit(1);
}
void __ll2c_global_ctors() {}
void VERIF_ENTRY();
}
static void on_alarm(int) { const char m[] = "HANG (no termination within the replay time limit)\n"; write(1, m, sizeof m - 1); _exit(3); }
int main(int argc, char **argv) {
  if (argc > 1) {
    FILE *f = fopen(argv[1], "r");
    if (!f) { perror("replay input"); return 2; }
    long long v;
    while (fscanf(f, "%lld", &v) == 1) g_vals.push_back(v);
    fclose(f);
  }
  signal(SIGALRM, on_alarm);
  alarm(20);
  VERIF_ENTRY();
  printf("RETURNED exhausted=%d\n", g_exhausted);
  return 0;
}

// ---- native counterparts of the stream-model API (harness/vstream.h) ----
#include <sstream>
#include <string>
#include <map>
static std::map<std::istream *, std::ostringstream *> g_src;
extern "C" {
std::ostream *vs_ostream_new() { return new std::ostringstream; }
std::ostream *vs_ostream_sink() { return new std::ostringstream; }
std::istream *vs_istream_of(std::ostream *o) { return new std::istringstream(static_cast<std::ostringstream *>(o)->str()); }
std::istream *vs_istream_bytes(const char *p, unsigned n) { return new std::istringstream(std::string(p, n)); }
unsigned vs_ntokens(std::ostream *o) { return static_cast<std::ostringstream *>(o)->str().size(); }
unsigned vs_tok_kind(std::ostream *o, unsigned i) { return 0; }
unsigned long vs_tok_val(std::ostream *o, unsigned i) { return (unsigned char)static_cast<std::ostringstream *>(o)->str()[i]; }
unsigned vs_format_error(std::ostream *o) { return 0; }
unsigned vs_rpos(std::istream *i) { return (unsigned)i->tellg(); }
bool vs_at_end(std::istream *i) { return i->peek() == EOF; }
void vs_truncate(std::ostream *o, unsigned n) {
  std::ostringstream *s = static_cast<std::ostringstream *>(o);
  std::string t = s->str();
  if (n < t.size()) { t.resize(n); s->str(t); s->seekp(0, std::ios::end); }
}
bool vs_same_output(std::ostream *a, std::ostream *b) {
  return static_cast<std::ostringstream *>(a)->str() == static_cast<std::ostringstream *>(b)->str();
}
void vs_arm_faults(std::ostream *o) {}
unsigned vs_lost(std::ostream *o) { return 0; }
}
