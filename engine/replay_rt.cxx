// Native replay runtime: provides the solver primitives for a harness compiled
// by g++ against the real sources.  nondet_* return the values recorded from
// the CBMC trace, in call order.
#include <stdio.h>
#include <stdlib.h>
#include <string.h>
#include <signal.h>
#include <unistd.h>
#include <stdint.h>
#include <vector>
static std::vector<long long> g_vals;
static size_t g_pos = 0;
static int g_exhausted = 0;
extern "C" {
int verif_crash = 0;
static long long next_val() {
  if (g_pos < g_vals.size()) return g_vals[g_pos++];
  g_exhausted++;
  return 0;
}
int nondet_int() { return (int)next_val(); }
unsigned nondet_uint() { return (unsigned)next_val(); }
long nondet_long() { return (long)next_val(); }
unsigned long nondet_ulong() { return (unsigned long)next_val(); }
char nondet_char() { return (char)next_val(); }
unsigned char nondet_uchar() { return (unsigned char)next_val(); }
bool nondet_bool() { return next_val() != 0; }
double nondet_double() { long long b = next_val(); double d; memcpy(&d, &b, 8); return d; }
void __CPROVER_assume(bool c) {
  if (!c) { printf("ASSUME-VIOLATED (recorded inputs do not satisfy the harness assumptions)\n"); fflush(stdout); _exit(77); }
}
void __CPROVER_assert(bool c, const char *msg) {
  if (c) return;
  if (strncmp(msg, "WITNESS", 7) == 0) { printf("REACHED-END exhausted=%d\n", g_exhausted); fflush(stdout); _exit(0); }
  printf("ASSERT-FAILED: %s\n", msg); fflush(stdout); _exit(1);
}
void __ll2c_global_ctors() {}
void VERIF_ENTRY();
}
static void on_alarm(int) { const char m[] = "HANG (no termination within the replay time limit)\n"; write(1, m, sizeof m - 1); _exit(3); }
int main(int argc, char **argv) {
  if (argc > 1) {
    FILE *f = fopen(argv[1], "r");
    if (!f) { perror("replay input"); return 2; }
    long long v;
    while (fscanf(f, "%lld", &v) == 1) g_vals.push_back(v);
    fclose(f);
  }
  signal(SIGALRM, on_alarm);
  alarm(20);
  VERIF_ENTRY();
  printf("RETURNED exhausted=%d\n", g_exhausted);
  return 0;
}
