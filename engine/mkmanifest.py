#!/usr/bin/env python3
"""Regenerates /verif/MANIFEST.json from harness/catalog.py (PROPERTY_INFO + HARNESSES)."""
import sys, os, json
HERE = os.path.dirname(os.path.abspath(__file__)); VERIF = os.path.dirname(HERE)
sys.path.insert(0, os.path.join(VERIF, 'harness'))
import catalog
props = [json.loads(l) for l in open(os.path.join(VERIF, 'properties.jsonl'))]
ready = set(open(os.path.join(VERIF, 'harness', 'ready.txt')).read().split())
claimed = sorted((set(h['property'] for h in catalog.HARNESSES) | set(k for k, v in catalog.PROPERTY_INFO.items() if 'quick_cmd' in v)) & ready)


def group_descs(hs):
    # one description per entry function (sibling catalogue entries differ in a concrete parameter only)
    seen, out = {}, []
    for h in hs:
        k = (h['src'], h['entry'])
        if k in seen:
            seen[k][1] += 1
            continue
        seen[k] = [len(out), 1]
        out.append(h['desc'])
    for k, (i, n) in seen.items():
        if n > 1:
            out[i] = '%s [%d queries of this shape]' % (out[i][:400], n)
    return out


checks = []
for pid in claimed:
    info = catalog.PROPERTY_INFO.get(pid, {})
    hs = [h for h in catalog.HARNESSES if h['property'] == pid]
    checks.append(dict(
        property_id=pid,
        quick_cmd=info.get('quick_cmd', 'engine/vcheck %s --tier quick' % pid),
        thorough_cmd=info.get('thorough_cmd', 'engine/vcheck %s --tier thorough' % pid),
        evidence_file='evidence/%s.json' % pid,
        replay_cmd_template='engine/vcheck-replay {path}',
        engine='cbmc-on-lowered-ir',
        level_claimed=dict(category=info.get('level', 'model_checking'),
                           text=info.get('claim', 'Bounded model checking (CBMC/SAT) of the real functions lowered from /repo at check time: '
                                         + '; '.join(group_descs(hs) or [info.get('desc', '')]) + '. Holds for every value of the symbolic inputs within the stated bounds (COVERAGE.md lists domain, oracle and bounds of every query); nothing is claimed outside them.'),
                           design_ref='DESIGN.md section 4 ' + pid + ' (plan), section 8.5 and COVERAGE.md (as built)'),
        level_note='Trusted: clang-14 -O1 lowering, engine/ll2c.py (IR->C), models in /verif/models (listed per harness in the evidence), CBMC 6.11. '
                   'Outside the claim: ' + info.get('outside', ''),
        technique=info.get('technique', 'bounded symbolic execution of clang-lowered real code (own LLVM-IR->C translator) decided by CBMC/SAT; counterexamples replayed natively')))
na = []
for p in props:
    if p['id'] not in claimed:
        na.append(dict(property_id=p['id'], reason=catalog.NOT_APPLICABLE.get(p['id'], 'no check built yet in this session (work in progress); see DESIGN.md section 4 for the planned encoding')))
man = dict(
    version=1,
    setup_cmd='python3 -m py_compile engine/ll2c.py engine/lower.py engine/replay.py engine/vcheck harness/catalog.py',
    hooks=dict(guard='INTERROGATE_VERIF', enable='no source hooks: cut points are made at IR level (llvm-extract --delete / export of internal symbols); checks compile /repo with -DINTERROGATE_VERIF which no source file tests',
               baseline_off_cmd='cmake -G Ninja -S /repo -B /var/tmp/verif_baseline_build && cmake --build /var/tmp/verif_baseline_build && ctest --test-dir /var/tmp/verif_baseline_build -j8 --timeout 900; rm -rf /var/tmp/verif_baseline_build',
               source_commits=[], add_only=True),
    engines=[dict(name='cbmc-on-lowered-ir', path='engine/vcheck', serves_properties=claimed,
                  kind_free_text='clang++-14 -O1 -emit-llvm of /repo TUs + C++ harness -> llvm-link/internalize/globaldce -> engine/ll2c.py (LLVM IR -> C) -> cbmc 6.11 with environment models; native g++/ASan replay of counterexamples')],
    checks=checks,
    not_applicable=na,
    notes='All checks are solver-based (CBMC bounded model checking of the real code). See DESIGN.md. known_findings.json lists genuine defects (fixed ones suppress nothing).')
json.dump(man, open(os.path.join(VERIF, 'MANIFEST.json'), 'w'), indent=1)
print('claimed:', claimed, 'not_applicable:', [n['property_id'] for n in na])
