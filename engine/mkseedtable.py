#!/usr/bin/env python3
"""Prints the markdown table of seeded changes (DESIGN.md 8.4) from seeded/*/meta.json."""
import json, glob, os, re
VERIF = os.path.dirname(os.path.dirname(os.path.abspath(__file__)))
print('| seed | property | change and what it needs to manifest | first run | final | caught by |')
print('|---|---|---|---|---|---|')
for mp in sorted(glob.glob(os.path.join(VERIF, 'seeded', '*', 'meta.json'))):
    m = json.load(open(mp))
    runs = m.get('check_runs', [])
    first = m.get('first_run') or (('caught' if runs[0]['caught'] else 'missed (exit %d)' % runs[0]['exit_code']) if runs else '?')
    last = ('**caught**' if runs[-1]['caught'] else 'missed (exit %d)' % runs[-1]['exit_code']) if runs else ('**caught**' if m.get('caught') else 'missed')
    by = set()
    for r in runs[::-1]:
        if r['caught']:
            for l in r['violation_lines']:
                mm = re.search(r'replay=\S*/([^/]+?)-(quick|thorough)', l)
                if mm:
                    by.add(re.sub(r'(_[a-z]?\d+|_p\d+|_k\d+)+$', '*', mm.group(1)))
            break
    if not by and m.get('caught_by'):
        by = {m['caught_by']}
    what = (m.get('needs_to_manifest') or '').replace('|', '\\|').replace('\n', ' ')[:210]
    print('| %s | %s | %s | %s | %s | %s |' % (m.get('id', os.path.basename(os.path.dirname(mp))), m.get('property', ''), what, first, last,
                                              ', '.join('`%s`' % b for b in sorted(by)[:4])))
