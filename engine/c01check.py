#!/usr/bin/env python3
"""c01check [--tier quick|thorough] [--prop C01|C11] [--only CORPUS] [--keep]

Translation validation of interrogate's generated handle-style wrappers (-c back end):

  build interrogate + libinterrogatedb from /repo's working tree  ->  run interrogate on every corpus header x option
  set  ->  read the wrapper list back from the DATABASE through the real query interface (harness/c01/dbdump.cxx)  ->
  generate one harness per wrapper that declares the wrapper with the C signature the database records, makes every
  argument and every object field symbolic, calls the wrapper and the corpus's direct C++ reference call for that
  (function, parameter types) key on twin arguments, and asserts equal result, equal trace cell, equal object
  post-state and equal aliasing  ->  lower (clang) -> ll2c -> CBMC per wrapper  ->  native replay of counterexamples.

Compile gates (each failure is a VIOLATION): the generated file is a well-formed translation unit; every wrapper that is
callable by name, redeclared after the generated code with the return and parameter types the DATABASE records, is not a
conflicting declaration (C11: recorded signature = emitted signature).
-refcount (option sets c_refcount_fnames / c_refcount) runs only on corpus headers that opt in through //OPTIONS (s7:
reference-counted class + PointerTo<T>; the reference calls state the contract "wrapped function called once, caller
receives the raw pointer plus one new reference").

exit 0: every wrapper of every corpus entry verified; exit 1: VIOLATION (confirmed); exit 2: infrastructure error.
"""
import sys, os, re, json, time, shutil, subprocess, tempfile, argparse, glob, hashlib, traceback
from concurrent.futures import ThreadPoolExecutor

HERE = os.path.dirname(os.path.abspath(__file__))
VERIF = os.path.dirname(HERE)
sys.path.insert(0, HERE)
import lower

CORPUS = os.path.join(VERIF, 'corpus', 'c01')
CBMC_FLAGS = ['--unwinding-assertions', '--bounds-check', '--pointer-check', '--signed-overflow-check', '--div-by-zero-check',
              '--drop-unused-functions', '--no-malloc-may-fail', '--object-bits', '12', '--slice-formula']
BASE_OPTS = ['-DCPPPARSER', '-D__STDC__=1', '-D__cplusplus=201103L', '-D_LP64=1', '-S' + os.path.join(lower.REPO, 'parser-inc'), '-module', 'm', '-library', 'l']
OPTION_SETS = {
    # wrappers are callable from outside the generated file only with -fnames; the other sets are compile-checked
    'quick': [('c_fnames', ['-c', '-fnames']), ('c_string_fnames', ['-c', '-string', '-fnames']), ('c', ['-c']),
              ('c_promisc_fnames', ['-c', '-promiscuous', '-fnames']), ('py_string_fnames', ['-python', '-string', '-fnames']),
              ('c_refcount_fnames', ['-c', '-refcount', '-fnames']),
              ('c_fnames_uniq_fptrs', ['-c', '-fnames', '-unique-names', '-fptrs'])],
    'thorough': [('c_fnames', ['-c', '-fnames']), ('c_string_fnames', ['-c', '-string', '-fnames']), ('c', ['-c']),
                 ('c_promisc_fnames', ['-c', '-promiscuous', '-fnames']), ('c_string', ['-c', '-string']),
                 ('c_fnames_fptrs', ['-c', '-fnames', '-fptrs']), ('c_fnames_uniq', ['-c', '-fnames', '-unique-names']),
                 ('c_fnames_nodb', ['-c', '-fnames', '-nodb']), ('c_true_names', ['-c', '-true-names']),
                 ('py_string_fnames', ['-python', '-string', '-fnames']), ('py_fnames', ['-python', '-fnames']), ('py', ['-python']),
                 ('c_refcount_fnames', ['-c', '-refcount', '-fnames']), ('c_refcount', ['-c', '-refcount']),
                 ('c_fnames_uniq_fptrs', ['-c', '-fnames', '-unique-names', '-fptrs']), ('c_uniq', ['-c', '-unique-names'])],
}
# option sets whose wrappers are the same functions as under c_fnames: in the quick tier only their generated lookup tables
# (_in_unique_names, _in_fptrs) are checked against the database, not every wrapper again
TABLES_ONLY_QUICK = {'c_fnames_uniq_fptrs'}
# option sets that only run on the corpus headers whose //OPTIONS line names them (-refcount changes nothing for a header
# without reference-counted classes)
OPT_IN = {'c_refcount_fnames', 'c_refcount'}


def run(cmd, **kw):
    return subprocess.run(cmd, stdout=subprocess.PIPE, stderr=subprocess.STDOUT, text=True, **kw)


def build_tools(scratch):
    b = os.path.join(scratch, 'toolbuild')
    os.makedirs(b, exist_ok=True)
    p = run(['cmake', '-G', 'Ninja', '-S', lower.REPO, '-B', b, '-DCMAKE_BUILD_TYPE=Release'])
    if p.returncode != 0:
        raise RuntimeError('cmake configure failed: ' + p.stdout[-2000:])
    p = run(['cmake', '--build', b, '-j16', '--target', 'interrogate', 'interrogatedb'])
    if p.returncode != 0:
        raise RuntimeError('tool build failed: ' + p.stdout[-3000:])
    inc = ['-I%s/src/%s' % (lower.REPO, d) for d in ('interrogatedb', 'dtoolutil', 'dtoolbase')]
    dump = os.path.join(b, 'dbdump')
    p = run(['g++', '-std=gnu++11', '-w'] + inc + [os.path.join(VERIF, 'harness/c01/dbdump.cxx'), '-L' + b + '/lib', '-linterrogatedb',
             '-Wl,-rpath,' + b + '/lib', '-o', dump])
    if p.returncode != 0:
        raise RuntimeError('dbdump build failed: ' + p.stdout[-3000:])
    return b, dump


REF_RET = {}


def parse_refs(ref_h):
    """//REF key  followed by a function definition -> {key: function name}"""
    refs = {}
    lines = open(ref_h).read().split('\n')
    for i, ln in enumerate(lines):
        m = re.match(r'//REF\s+(.*\S)\s*$', ln)
        if m:
            nxt = lines[i + 1]
            fm = re.search(r'([A-Za-z_][A-Za-z0-9_]*)\s*\(', nxt.split('{')[0])
            refs[normkey(m.group(1))] = fm.group(1)
            REF_RET[fm.group(1)] = nxt.split('{')[0][:fm.start()].replace('static', '').strip()
    return refs


def parse_args(ref_h):
    """//ARG key : idx suffix  -> {(key, idx): suffix}: parameter idx of that wrapper uses verif_make_/clone_/same_<suffix>"""
    out = {}
    for m in re.finditer(r'//ARG\s+(.*?)\s*:\s*(\d+)\s+(\w+)\s*$', open(ref_h).read(), flags=re.M):
        out[(normkey(m.group(1)), int(m.group(2)))] = m.group(3)
    return out


def parse_variants(ref_h):
    """//VARIANT key : idx suffix -> extra harness entries for that wrapper whose parameter idx is made by
    verif_make_/clone_/same_<suffix> (e.g. a base-class parameter that really is a derived object)"""
    out = {}
    for m in re.finditer(r'//VARIANT\s+(.*?)\s*:\s*(\d+)\s+(\w+)\s*$', open(ref_h).read(), flags=re.M):
        out.setdefault(normkey(m.group(1)), []).append((int(m.group(2)), m.group(3)))
    return out


def normkey(k):
    return re.sub(r'\s*,\s*', ',', re.sub(r'\s+', ' ', k.strip()))


def strip_wrapped(t):
    while t.get('wrapped') and not t.get('pointer') and 'target' in t:
        t = t['target']
    return t


def cxx_type(t):
    """C/C++ spelling of a database type as a foreign caller declares it"""
    n = t['true_name']
    if n == 'atomic string':
        return 'char const *'
    return n


def classify_type(t):
    """-> (category, base name)"""
    t0 = t
    if t['true_name'] == 'atomic string':
        return 'cstr', 'char'
    if t.get('array') and t.get('array_size', 0) > 0:
        elem = t['true_name'].split(' [')[0].strip()
        if re.fullmatch(r'(unsigned |signed )?(char|short int|int|long int|long long int)|float|double|bool', elem):
            return 'arr', '%s:%d' % (elem, t['array_size'])
    if t.get('pointer'):
        tgt = t['target']
        while tgt.get('wrapped') and not tgt.get('pointer') and 'target' in tgt:
            tgt = tgt['target']
        if tgt.get('class'):
            return 'objptr', tgt['true_name']
        if tgt.get('atomic') and tgt['true_name'] in ('char',):
            return 'cstr', 'char'
        return 'unsupported', t['true_name']
    t = strip_wrapped(t)
    if t.get('atomic'):
        if t['true_name'] in ('void',):
            return 'void', 'void'
        if 'string' in t['true_name']:
            return 'unsupported', t['true_name']
        return 'scalar', t0['true_name']
    if t.get('enum'):
        return 'enum', t['true_name']
    return 'unsupported', t0['true_name']


def ident(s):
    return re.sub(r'[^A-Za-z0-9_]', '_', s)


def gen_harness(corpus, optname, wrappers, refs, strmax, argov={}, variants={}, py=False):
    """One harness entry per wrapper (and per //VARIANT): the wrapper, declared from the DATABASE signature, is called
    on symbolic arguments and compared with the corpus's direct C++ reference call on twin arguments.
    py=True: -python (simple) back end: the wrapper takes a Python argument tuple built from the same values."""
    out = ['// generated by engine/c01check.py for corpus %s, options %s%s' % (corpus, optname, ' (python back end)' if py else ''),
           '#define C01_STRMAX %d' % strmax] + (['#include "vpy.h"'] if py else []) + \
          ['#include "c01_support.h"', '#include "%s.h"' % corpus, '#include "%s.ref.h"' % corpus, '']
    entries, skipped, missing = [], [], []
    used_keys = set()
    kind = 'python' if py else 'c'
    for w in wrappers:
        if w['kind'] != kind:
            continue
        key = normkey('%s(%s)' % (w['function'], ','.join(p['type']['true_name'] for p in w['params'])))
        if w['is_destructor']:
            skipped.append((w['name'], key, 'destructor'))
            continue
        if key not in refs:
            missing.append((w['name'], key))
            continue
        used_keys.add(key)
        base_cats = [classify_type(p['type']) for p in w['params']]
        rcat = classify_type(w['return']) if w['has_return'] else ('void', 'void')
        if any(c[0] == 'unsupported' for c in base_cats) or rcat[0] in ('unsupported', 'arr') or (py and any(c[0] == 'arr' for c in base_cats)):
            skipped.append((w['name'], key, 'unsupported type'))
            continue
        rtype = cxx_type(w['return']) if w['has_return'] else 'void'
        ptypes = [cxx_type(p['type']) for p in w['params']]
        ref_ret = REF_RET.get(refs[key], '')
        ref_is_string = 'std::string' in ref_ret
        # the wrapper is declared with the signature the DATABASE records (a foreign-function client sees only this)
        if py:
            out.append('extern "C" PyObject *%s(PyObject *self, PyObject *args);' % w['name'])
        else:
            out.append('extern "C" %s %s(%s);' % (rtype, w['name'], ', '.join(ptypes)))
        for vn, var in enumerate([None] + variants.get(key, [])):
            ov = dict(argov)
            if var is not None:
                ov[(key, var[0])] = var[1]
            ename = 'h_' + ident(w['name']) + ('' if var is None else '_v%d' % vn)
            body = ['extern "C" void %s() {' % ename, '  // %s%s' % (key, '' if var is None else ' variant: parameter %d is a %s' % var)]
            rounds = 2 if rcat[0] == 'cstr' else 1       # a second call exposes results kept in static storage
            for rd in range(rounds):
                sfx = '' if rd == 0 else '_%d' % (rd + 1)
                cats = list(base_cats)
                an, bn, post = [], [], []
                if py:
                    body.append('  PyObject *args%s = vpy_tuple(%d);' % (sfx, len(cats)))
                for i, (cat, base) in enumerate(list(cats)):
                    T = ptypes[i]
                    a, b = 'a%d%s' % (i, sfx), 'b%d%s' % (i, sfx)
                    pyarg = None
                    if cat == 'objptr':
                        bsuf = ov.get((key, i), ident(base))
                        cats[i] = (cat, base, bsuf)
                        body.append('  %s *%s = verif_make_%s(); %s *%s = verif_clone_%s(%s);' % (base, a, bsuf, base, b, bsuf, a))
                        post.append('  ASSERT(%%s verif_same_%s(%s, %s), "C01 wrapper leaves argument objects in the same state as the direct call");' % (bsuf, a, b))
                        pyarg = 'vpy_ptr((void *)%s)' % a
                    elif cat == 'cstr':
                        body.append('  const char *%s = verif_make_cstr(); const char *%s = %s;' % (a, b, a))
                        pyarg = 'vpy_str(%s)' % a
                    elif cat == 'enum':
                        body.append('  %s %s = verif_make_%s(); %s %s = %s;' % (T, a, ident(base), T, b, a))
                        pyarg = 'vpy_int((long)%s)' % a
                    elif cat == 'arr':
                        et, n = base.split(':')
                        body.append('  %s %s[%s]; %s %s[%s]; for (int k = 0; k < %s; k++) { %s[k] = Nd<%s>::get(); %s[k] = %s[k]; }' % (et, a, n, et, b, n, n, a, et, b, a))
                        post.append('  { bool same = true; for (int k = 0; k < %s; k++) if (%s[k] != %s[k]) same = false; ASSERT(%%s same, "C01 wrapper leaves array arguments in the same state as the direct call"); }' % (n, a, b))
                        an.append(a)
                        bn.append(b)
                        continue
                    else:
                        body.append('  %s %s = Nd<%s>::get(); %s %s = %s;' % (T, a, T, T, b, a))
                        pyarg = 'vpy_of(%s)' % a
                    if py:
                        body.append('  vpy_tuple_set(args%s, %d, %s);' % (sfx, i, pyarg))
                    an.append('(%s)%s' % (T, a))
                    bn.append('(%s)%s' % (T, b))
                call_r = '%s(%s)' % (refs[key], ', '.join(bn))
                rw, rr, tw, tr = 'rw' + sfx, 'rr' + sfx, 'tw' + sfx, 'tr' + sfx
                body.append('  g_trace = 0;')
                if py:
                    body.append('  PyObject *%s = %s(0, args%s); int %s = g_trace; g_trace = 0;' % (rw, w['name'], sfx, tw))
                    body.append('  ASSERT(%s != 0 && vpy_get_error() == 0, "C01 python wrapper accepts every argument tuple whose values lie in the parameter types");' % rw)
                    g = '%s == 0 ||' % rw
                elif rcat[0] == 'void':
                    body.append('  %s(%s); int %s = g_trace; g_trace = 0;' % (w['name'], ', '.join(an), tw))
                    g = ''
                else:
                    body.append('  %s %s = %s(%s); int %s = g_trace; g_trace = 0;' % (rtype, rw, w['name'], ', '.join(an), tw))
                    g = ''
                if rcat[0] == 'void':
                    body.append('  %s; int %s = g_trace;' % (call_r, tr))
                    if py:
                        body.append('  ASSERT(%s vpy_kind(%s) == 6, "C01 python wrapper of a void function returns None");' % (g, rw))
                elif ref_is_string:
                    body.append('  std::string %s = %s; int %s = g_trace;' % (rr, call_r, tr))
                else:
                    body.append('  %s %s = %s; int %s = g_trace;' % (rtype, rr, call_r, tr))
                body.append('  ASSERT(%s %s == %s, "C01 wrapper reaches the overload/default variant the database names (trace cell)");' % (g, tw, tr))
                if rcat[0] == 'objptr':
                    bsuf = ident(rcat[1])
                    if py:
                        body.append('  %s *pw%s = %s ? (%s *)vpy_ival(%s) : 0;' % (rcat[1], sfx, rw, rcat[1], rw))
                        body.append('  ASSERT(%s vpy_kind(%s) == 1, "C01 python wrapper returns object handles as integers");' % (g, rw))
                        pw = 'pw' + sfx
                    else:
                        pw = rw
                    body.append('  ASSERT(%s (%s == 0) == (%s == 0), "C01 wrapper result null-ness equals the direct call");' % (g, pw, rr))
                    for i, c in enumerate(cats):
                        if c[0] == 'objptr':
                            body.append('  ASSERT(%s ((const void *)%s == (const void *)a%d%s) == ((const void *)%s == (const void *)b%d%s), "C01 wrapper result aliases the same argument as the direct call");' % (g, pw, i, sfx, rr, i, sfx))
                    body.append('  ASSERT(%s %s == 0 || %s == 0 || verif_same_%s(%s, %s), "C01 wrapper result object equals the direct call result");' % (g, pw, rr, bsuf, pw, rr))
                elif rcat[0] == 'cstr':
                    if py and ref_is_string:
                        body.append('  ASSERT(%s (vpy_kind(%s) == 4 && verif_same_pystr(%s, %s)), "C01 wrapper string result equals the direct call, without truncation");' % (g, rw, rw, rr))
                    elif py:
                        body.append('  ASSERT(%s (vpy_kind(%s) == 4 && verif_same_cstr(vpy_sptr(%s), %s)), "C01 wrapper string result equals the direct call");' % (g, rw, rw, rr))
                    elif ref_is_string:
                        body.append('  ASSERT(verif_same_cstr(%s, %s.c_str()), "C01 wrapper string result equals the direct call");' % (rw, rr))
                    else:
                        body.append('  ASSERT(verif_same_cstr(%s, %s), "C01 wrapper string result equals the direct call");' % (rw, rr))
                elif rcat[0] in ('scalar', 'enum'):
                    if py:
                        body.append('  ASSERT(%s vpy_equals(%s, %s), "C01 wrapper return value equals the direct call");' % (g, rw, rr))
                    else:
                        body.append('  ASSERT(verif_same_scalar(%s, %s), "C01 wrapper return value equals the direct call");' % (rw, rr))
                for ps in post:
                    body.append(ps % g)
            body.append('  WITNESS();')
            body.append('}')
            out += body + ['']
            entries.append(dict(entry=ename, wrapper=w['name'], key=key, function=w['function'], params=ptypes, ret=rtype))
    unused = sorted(set(refs) - used_keys)
    return '\n'.join(out), entries, skipped, missing, unused


def gen_tables_harness(gen, opts, wrappers, corpus):
    """-unique-names / -fptrs: the generated file carries the tables a client uses to get from a unique name to a wrapper's
    function pointer (_in_unique_names[k] = {unique name, index offset}, _in_fptrs[wrapper index - first index]).  For a
    SYMBOLIC wrapper number i, the row that bears the unique name the DATABASE records for wrapper i must hold the offset
    (database wrapper index - 1), and (with -fnames, where the wrapper is nameable) the pointer stored at that offset must
    be the function the database names for wrapper i.  The harness includes the generated file, so the static tables are
    the real ones."""
    uniq, fptrs = '-unique-names' in opts, '-fptrs' in opts
    ws = [w for w in wrappers if w['kind'] == 'c']
    n = len(ws)
    nameable = '-fnames' in opts and all(w['callable_by_name'] for w in ws)
    out = ['// generated by engine/c01check.py: lookup tables of %s' % os.path.basename(gen), '#define C01_STRMAX 3', '#include "c01_support.h"', '#include "%s"' % gen,
           '#include "%s.ref.h"   // defines the corpus globals (native replay links)' % corpus, '',
           'struct VerifExp { char uname[24]; int index; void *fn; };',
           'static bool verif_streq(const char *a, const char *b) { int k = 0; for (; k < 23 && a[k] && a[k] == b[k]; k++) { } return a[k] == b[k]; }',
           'extern "C" void h_tables() {',
           '  static VerifExp ex[%d] = {' % n]
    for w in ws:
        out.append('    { "%s", %d, %s },' % (w['unique_name'], w['index'], ('(void *)&' + w['name']) if nameable else '0'))
    out += ['  };', '  int i = nondet_int(); ASSUME(i >= 0 && i < %d);' % n]
    if uniq:
        out += ['  ASSERT(sizeof(_in_unique_names) / sizeof(_in_unique_names[0]) == %d, "C01 unique-name table has one row per wrapper in the database");' % n,
                '  int found = -1, hits = 0;',
                '  for (int k = 0; k < %d; k++) if (verif_streq(_in_unique_names[k].name, ex[i].uname)) { found = k; hits++; }' % n,
                '  ASSERT(hits == 1, "C01 unique-name table bears the unique name of every database wrapper exactly once");',
                '  if (found < 0) return;',
                '  int off = _in_unique_names[found].index_offset;',
                '  ASSERT(off == ex[i].index - 1, "C01 unique-name table row leads to the wrapper the database names (offset = wrapper index - first index)");']
    else:
        out += ['  int off = ex[i].index - 1;']
    if fptrs:
        out += ['  ASSERT(sizeof(_in_fptrs) / sizeof(_in_fptrs[0]) == %d, "C01 function-pointer table has one slot per wrapper in the database");' % n,
                '  if (off < 0 || off >= %d) return;' % n]
        if nameable:
            out += ['  ASSERT(_in_fptrs[off] == ex[i].fn, "C01 function-pointer slot reached from the database entry is the wrapper the database names");']
        else:
            out += ['  ASSERT(_in_fptrs[off] != 0, "C01 function-pointer slot reached from the database entry is filled");']
    out += ['  WITNESS();', '}', '']
    return '\n'.join(out)


def run_cbmc(unit_c, models, entry, workdir, cap, unwind):
    outp = os.path.join(workdir, entry + '.json')
    cmd = ['cbmc', unit_c] + models + ['--function', entry, '--unwind', str(unwind), '--unwindset',
           'vpy_str_n.0:20,ll_memcpy.0:40,ll_memcpy_ptr.0:40,ll_memcpy_ptr.1:40,ll_memmove.0:40,ll_memmove.1:40,ll_memmove_ptr.0:40,ll_memmove_ptr.1:40,ll_memmove_ptr.2:40,ll_memmove_ptr.3:40'] + CBMC_FLAGS + ['--trace', '--json-ui']
    t0 = time.time()
    try:
        with open(outp, 'w') as fo:
            subprocess.run(cmd, stdout=fo, stderr=subprocess.DEVNULL, timeout=cap)
    except subprocess.TimeoutExpired:
        return dict(status='timeout', wall=time.time() - t0)
    try:
        data = json.load(open(outp))
    except Exception as e:
        return dict(status='error', error=str(e), wall=time.time() - t0)
    results = None
    errs = []
    for e in data:
        if 'result' in e:
            results = e['result']
        if e.get('messageType') == 'ERROR':
            errs.append(e.get('messageText', ''))
    if results is None:
        return dict(status='error', error=' | '.join(errs)[-1500:], wall=time.time() - t0)
    return dict(status='done', results=results, wall=time.time() - t0, out=outp)


def nondet_lines(unit_c):
    out = {}
    for n, ln in enumerate(open(unit_c), 1):
        m = re.match(r'\s*(\w+) = (?:\(\w+\))?nondet_(\w+)\(\);', ln)
        if m:
            out[n] = (m.group(1), m.group(2))
    return out


def extract_inputs(trace, ndl):
    vals = []
    for st in trace:
        if st.get('stepType') != 'assignment':
            continue
        sl = st.get('sourceLocation', {})
        try:
            ln = int(sl.get('line', 0))
        except ValueError:
            continue
        if sl.get('file', '').endswith('unit.c') and ln in ndl and st.get('lhs') == ndl[ln][0]:
            v = st.get('value', {})
            b = v.get('binary')
            if v.get('data') in ('TRUE', 'FALSE'):
                vals.append(1 if v['data'] == 'TRUE' else 0)
            elif b is not None:
                num = int(b, 2)
                w = v.get('width', len(b))
                if ndl[ln][1] in ('int', 'long', 'char') and num >= (1 << (w - 1)):
                    num -= 1 << w
                vals.append(num)
            else:
                vals.append(0)
    return vals


def native_replay(scratch, tag, harness_src, gen_cxx, entry, values, toolbuild, incs):
    d = os.path.join(scratch, 'native_' + tag)
    os.makedirs(d, exist_ok=True)
    binp = os.path.join(d, entry)
    base = ['g++', '-std=gnu++11', '-O0', '-g', '-w', '-fsanitize=address,undefined', '-fno-sanitize-recover=undefined'] + incs
    extra = []
    if '#include "vpy.h"' in open(harness_src).read():
        extra = [os.path.join(VERIF, 'harness/c01/vpy_native.cxx'), '-lpython3.11']
    p = run(base + ['-DVERIF_ENTRY=' + entry, harness_src, gen_cxx, os.path.join(VERIF, 'engine/replay_rt.cxx'),
                    '-L' + toolbuild + '/lib', '-linterrogatedb', '-Wl,-rpath,' + toolbuild + '/lib'] + extra + ['-o', binp])
    if p.returncode != 0:
        return dict(confirmed=False, detail='native build failed: ' + p.stdout[-800:])
    inp = binp + '.in'
    open(inp, 'w').write('\n'.join(str(v) for v in values) + '\n')
    env = dict(os.environ, ASAN_OPTIONS='detect_leaks=0')
    p = subprocess.run([binp, inp], stdout=subprocess.PIPE, stderr=subprocess.STDOUT, text=True, env=env, errors='replace')
    out = p.stdout[-800:]
    ok = (p.returncode == 1 and 'ASSERT-FAILED' in out) or p.returncode < 0 or 'AddressSanitizer' in out or 'runtime error' in out
    return dict(confirmed=ok, detail='rc=%d %s' % (p.returncode, out.strip().replace('\n', ' | ')[-400:]))


def main():
    ap = argparse.ArgumentParser()
    ap.add_argument('--tier', default=os.environ.get('VERIF_TIER', 'quick'))
    ap.add_argument('--prop', default='C01')
    ap.add_argument('--only', default=None)
    ap.add_argument('--keep', action='store_true')
    ap.add_argument('--jobs', type=int, default=12)
    a = ap.parse_args()
    tier = a.tier if a.tier in ('quick', 'thorough') else 'quick'
    seed = int(os.environ.get('VERIF_SEED', '0') or 0)
    prop = a.prop
    t0 = time.time()
    scratch = tempfile.mkdtemp(prefix='verif.c01.', dir='/var/tmp')
    rc = 0
    violations, errors, checked, skipped_all, samples, compiled = [], [], [], [], [], []
    replays = 0
    try:
        toolbuild, dump = build_tools(scratch)
        tool_s = time.time() - t0
        interrogate = os.path.join(toolbuild, 'bin', 'interrogate')
        L = lower.Lowerer(scratch)
        corpora = sorted(os.path.basename(f)[:-6] for f in glob.glob(os.path.join(CORPUS, '*.ref.h')))
        if a.only:
            corpora = [c for c in corpora if c == a.only]
        strmax = 3 if tier == 'quick' else 5
        models = [os.path.join(VERIF, 'models', m) for m in ('base.c', 'env.c', 'rbtree.c', 'stream.c', 'cpython.c')]
        incs = ['-I' + CORPUS, '-I' + os.path.join(VERIF, 'shims'), '-I' + os.path.join(VERIF, 'harness/c01'), '-I' + os.path.join(VERIF, 'harness'), '-I/usr/include/python3.11'] + \
               ['-I%s/src/%s' % (lower.REPO, d) for d in lower.SRC_DIRS]
        jobs = []
        for corpus in corpora:
            refs = parse_refs(os.path.join(CORPUS, corpus + '.ref.h'))
            allowed = re.search(r'^//OPTIONS\s+(.*)$', open(os.path.join(CORPUS, corpus + '.ref.h')).read(), flags=re.M)
            allowed = set(x.strip() for x in allowed.group(1).split(',')) if allowed else None
            for optname, opts in OPTION_SETS[tier]:
                if (allowed is not None and optname not in allowed) or (allowed is None and optname in OPT_IN):
                    continue
                tag = '%s.%s' % (corpus, optname)
                wd = os.path.join(scratch, tag)
                os.makedirs(wd)
                gen = os.path.join(wd, tag.replace('.', '_') + '_wrap.cxx')
                dbf = os.path.join(wd, tag + '.in')
                cmd = [interrogate] + BASE_OPTS + opts + ['-oc', gen, '-od', dbf, corpus + '.h']
                p = run(cmd, cwd=CORPUS)
                if p.returncode != 0:
                    violations.append(dict(corpus=tag, what='interrogate failed on a valid corpus header', detail=p.stdout[-600:], cmd=' '.join(cmd)))
                    continue
                dj = run([dump, dbf])
                try:
                    db = json.loads(dj.stdout)
                except Exception:
                    errors.append(dict(corpus=tag, error='cannot read database dump: ' + dj.stdout[-400:]))
                    continue
                if db['error']:
                    violations.append(dict(corpus=tag, what='database written by interrogate is reported unreadable by the query library', cmd=' '.join(cmd)))
                    continue
                # every generated file must at least be a well-formed translation unit
                sc = run(['clang++-14', '-std=gnu++11', '-fsyntax-only', '-w'] + incs + [gen])
                compiled.append(tag)
                if sc.returncode != 0:
                    violations.append(dict(corpus=tag, what='generated code does not compile: ' + sc.stdout[-700:], cmd=' '.join(cmd)))
                    continue
                # C11 link: the signature the DATABASE records for a wrapper that is callable by name must be the signature of
                # the function the generated code defines.  Every such wrapper is redeclared from the database, after the
                # generated code, in one translation unit: a different return or parameter type is a conflicting declaration.
                named_c = [w for w in db['wrappers'] if w['callable_by_name'] and w['kind'] == 'c']
                if named_c:
                    redecl = os.path.join(wd, 'redecl_%s.cxx' % tag.replace('.', '_'))
                    open(redecl, 'w').write('\n'.join(['#include "%s"' % gen] + [
                        'extern "C" %s %s(%s);' % (cxx_type(w['return']) if w['has_return'] else 'void', w['name'],
                                                   ', '.join(cxx_type(p['type']) for p in w['params'])) for w in named_c]) + '\n')
                    sc = run(['clang++-14', '-std=gnu++11', '-fsyntax-only', '-w', '-ferror-limit=4'] + incs + [redecl])
                    if sc.returncode != 0:
                        diag = [re.sub(r'^\S*/', '', ln) for ln in sc.stdout.split('\n') if ' error: ' in ln or ' note: ' in ln]
                        violations.append(dict(corpus=tag, what='wrapper signature recorded in the database conflicts with the function the generated code defines: ' + ' | '.join(diag[:4])[:700], cmd=' '.join(cmd)))
                        continue
                kind = 'python' if '-python' in opts else 'c'
                if kind == 'c' and ('-unique-names' in opts or '-fptrs' in opts) and '-nodb' not in opts and any(w['kind'] == 'c' for w in db['wrappers']):
                    tsrc = os.path.join(wd, 'tables_%s.cxx' % tag.replace('.', '_'))
                    open(tsrc, 'w').write(gen_tables_harness(gen, opts, db['wrappers'], corpus))
                    empty = os.path.join(wd, 'empty.cxx')
                    open(empty, 'w').write('// the tables harness includes the generated file itself\n')
                    try:
                        t_unit, t_meta = L.build_unit(tag + '.tables', tsrc, ['h_tables'], [os.path.join(VERIF, 'harness/stdinst.cxx')], hflags=incs[:5] + ['-fno-fast-math'], tuflags=incs[:5] + ['-fno-fast-math'])
                        t_stubs = ['#include <stdint.h>'] + [v for k, v in t_meta['stub_defs'].items() if v and k in t_meta['undefined'] and not k.startswith('nondet_')
                                                              and k != '__ll2c_global_ctors' and t_meta['undefined_c'].get(k, k) not in model_syms(models)]
                        t_stubs.append('void verif_at_exit(void) { }')
                        t_sp = os.path.join(t_meta['dir'], 'stubs.c')
                        open(t_sp, 'w').write('\n'.join(t_stubs) + '\n')
                        nw = len([w for w in db['wrappers'] if w['kind'] == 'c'])
                        jobs.append(dict(tag=tag, e=dict(entry='h_tables', wrapper='(lookup tables)', key='tables(%s)' % optname, function='', params=[], ret='void'),
                                         unit_c=t_unit, models=models + [t_sp], wd=t_meta['dir'], ndl=nondet_lines(t_unit), hsrc=tsrc, gen=empty, cmd=' '.join(cmd),
                                         hashes=lower.func_hashes(t_meta['pruned_ll']), unwind=nw + 2))
                    except Exception as e:
                        errors.append(dict(corpus=tag, wrapper='(lookup tables)', error=str(e)[-1500:]))
                    if tier == 'quick' and optname in TABLES_ONLY_QUICK:
                        continue
                callable_w = [w for w in db['wrappers'] if w['callable_by_name'] and w['kind'] == kind]
                if '-nodb' in opts or not callable_w:
                    continue
                is_py = '-python' in opts
                src, entries, skipped, missing, unused = gen_harness(corpus, optname, callable_w, refs, strmax, parse_args(os.path.join(CORPUS, corpus + '.ref.h')), parse_variants(os.path.join(CORPUS, corpus + '.ref.h')), py=is_py)
                hsrc = os.path.join(wd, 'harness_%s.cxx' % tag.replace('.', '_'))
                open(hsrc, 'w').write(src)
                for (wn, key) in missing:
                    violations.append(dict(corpus=tag, what='database records wrapper %s for "%s", which the corpus does not declare with these parameter types' % (wn, key), cmd=' '.join(cmd)))
                for key in unused:
                    # a published corpus function whose wrapper disappeared from the database
                    if not refs_optional(corpus, key, optname):
                        violations.append(dict(corpus=tag, what='no wrapper in the database for corpus function "%s"' % key, cmd=' '.join(cmd)))
                skipped_all += [dict(corpus=tag, wrapper=s[0], key=s[1], why=s[2]) for s in skipped]
                if not entries:
                    continue
                try:
                    unit_c, meta = L.build_unit(tag, hsrc, [e['entry'] for e in entries], [gen, os.path.join(VERIF, 'harness/stdinst.cxx')], hflags=incs[:5] + ['-fno-fast-math'], tuflags=incs[:5] + ['-fno-fast-math'])
                except Exception as e:
                    # generated code that does not compile is itself a violation (C03/C01)
                    msg = str(e)
                    if '_wrap.cxx' in msg and 'error:' in msg:
                        violations.append(dict(corpus=tag, what='generated code does not compile: ' + msg[-700:], cmd=' '.join(cmd)))
                    else:
                        errors.append(dict(corpus=tag, error=msg[-1500:]))
                    continue
                stubs = ['#include <stdint.h>'] + [v for k, v in meta['stub_defs'].items() if v and k in meta['undefined'] and not k.startswith('nondet_')
                                                    and k != '__ll2c_global_ctors' and meta['undefined_c'].get(k, k) not in model_syms(models)]
                stubs.append('void verif_at_exit(void) { }')
                sp = os.path.join(meta['dir'], 'stubs.c')
                open(sp, 'w').write('\n'.join(stubs) + '\n')
                ndl = nondet_lines(unit_c)
                for e in entries:
                    jobs.append(dict(tag=tag, e=e, unit_c=unit_c, models=models + [sp], wd=meta['dir'], ndl=ndl, hsrc=hsrc, gen=gen, cmd=' '.join(cmd),
                                     hashes=lower.func_hashes(meta['pruned_ll'])))
        cap = 150 if tier == 'quick' else 900

        def work(j):
            r = run_cbmc(j['unit_c'], j['models'], j['e']['entry'], j['wd'], cap, max(j.get('unwind', 0), 10 if tier == 'quick' else 12))
            return j, r
        with ThreadPoolExecutor(max_workers=a.jobs) as ex:
            results = list(ex.map(work, jobs))
        os.makedirs(os.path.join(VERIF, 'replays', prop), exist_ok=True)
        for j, r in results:
            e = j['e']
            name = '%s:%s' % (j['tag'], e['wrapper'])
            if r['status'] != 'done':
                errors.append(dict(corpus=j['tag'], wrapper=e['wrapper'], error=r.get('error', r['status'])))
                print('%-44s %-10s %6.1fs' % (name, r['status'], r['wall']))
                continue
            fails = [x for x in r['results'] if x['status'] == 'FAILURE']
            unknown = [x for x in r['results'] if x['status'] not in ('SUCCESS', 'FAILURE')]
            witness = [x for x in fails if x.get('description', '').startswith('WITNESS')]
            unwind = [x for x in fails if 'unwinding assertion' in x.get('description', '')]
            modelf = [x for x in fails if x.get('description', '').startswith('model:')]
            real = [x for x in fails if x not in witness and x not in unwind and x not in modelf]
            real.sort(key=lambda x: 0 if x.get('description', '').startswith('C01') else 1)
            st = 'pass'
            if modelf or unwind:
                st = 'error'
                errors.append(dict(corpus=j['tag'], wrapper=e['wrapper'], error='model limit / bound: ' + '; '.join(sorted(set(x['description'] for x in modelf + unwind)))[:400]))
            elif real:
                f = real[0]
                vals = extract_inputs(f.get('trace', []), j['ndl'])
                conf = native_replay(scratch, j['tag'], j['hsrc'], j['gen'], e['entry'], vals, toolbuild, incs)
                replays += 1
                rp = os.path.join(VERIF, 'replays', prop, '%s-%s-%s.json' % (j['tag'], e['wrapper'], tier))
                shutil.copy(j['hsrc'], rp[:-5] + '.harness.cxx')
                shutil.copy(j['gen'], rp[:-5] + '.generated.cxx')
                json.dump(dict(property=prop, corpus=j['tag'], wrapper=e['wrapper'], key=e['key'], assertion=f['description'], values=vals,
                               interrogate_cmd=j['cmd'], native_replay=conf, harness=os.path.basename(rp[:-5] + '.harness.cxx'),
                               generated_code=os.path.basename(rp[:-5] + '.generated.cxx'), entry=e['entry'],
                               other_failed=[x['description'] for x in real[1:10]]), open(rp, 'w'), indent=1)
                if conf['confirmed']:
                    st = 'fail'
                    violations.append(dict(corpus=j['tag'], wrapper=e['wrapper'], what=f['description'] + ' [' + e['key'] + ']', replay=rp))
                else:
                    st = 'error'
                    errors.append(dict(corpus=j['tag'], wrapper=e['wrapper'], error='ENCODING-ERROR: "%s" did not reproduce natively (%s)' % (f['description'], conf['detail'])))
            elif not witness:
                st = 'error'
                errors.append(dict(corpus=j['tag'], wrapper=e['wrapper'], error='vacuous harness'))
            elif unknown:
                # CBMC leaves properties UNKNOWN when its incremental solver turns inconsistent: not a verdict
                st = 'error'
                errors.append(dict(corpus=j['tag'], wrapper=e['wrapper'], error='%d properties left UNKNOWN by the solver' % len(unknown)))
            checked.append(dict(name=name, key=e['key'], status=st, vcs=len(r['results']), wall=round(r['wall'], 1)))
            print('%-44s %-10s %6.1fs vcs=%d  %s' % (name, st, r['wall'], len(r['results']), e['key']))
            if len(samples) < 12:
                samples.append(dict(corpus=j['tag'], wrapper=e['wrapper'], database_signature='%s %s(%s)' % (e['ret'], e['wrapper'], ', '.join(e['params'])),
                                    reference_key=e['key'], status=st, vcs=len(r['results']), solver_s=round(r['wall'], 1), interrogate_cmd=j['cmd'],
                                    function_hashes=dict(list(sorted(j['hashes'].items()))[:8])))
        for e in errors:
            print('ERROR %s %s: %s' % (e.get('corpus'), e.get('wrapper', ''), e['error'][:600]))
        known = [k for k in json.load(open(os.path.join(VERIF, 'known_findings.json'))).get('findings', [])
                 if k.get('status') != 'fixed' and k.get('harness') == 'c01check']
        reported_known = set()
        kept = []
        for v in violations:
            kf = [k for k in known if re.search(k['corpus_regex'], v['corpus']) and re.search(k['label_regex'], v['what'])]
            if kf:
                if kf[0]['what'] not in reported_known:
                    reported_known.add(kf[0]['what'])
                    print('KNOWN-FINDING: property=%s %s' % (prop, kf[0]['what']))
            else:
                kept.append(v)
        violations = kept
        seen = set()
        for v in violations:
            rp = v.get('replay')
            if not rp:
                rp = os.path.join(VERIF, 'replays', prop, '%s-%s.json' % (v['corpus'], hashlib.md5(v['what'].encode()).hexdigest()[:8]))
                json.dump(v, open(rp, 'w'), indent=1)
            if rp in seen:
                continue
            seen.add(rp)
            print('VIOLATION property=%s replay=%s' % (prop, rp))
            print('   %s: %s' % (v['corpus'], v['what'][:400]))
        rc = 1 if violations else (2 if errors else 0)
        ev = dict(property_id=prop, tier=tier, seed=seed, level='translation_validation',
                  coverage=dict(programs=max(len(checked), 1), disagreements_checked=replays, samples=samples or [dict(note='no wrapper checked')],
                                evaluations=max(len(checked), 1), distinct_nontrivial=len(set(c['key'] for c in checked if c['vcs'] > 1)),
                                rule='one program = one generated wrapper of one corpus header under one option set, checked by one CBMC query over all argument values and object fields; distinct = distinct (function, parameter types) keys',
                                generated_files_compile_checked=compiled, corpus_headers=corpora, option_sets=[o[0] for o in OPTION_SETS[tier]],
                                wrappers_verified=len([c for c in checked if c['status'] == 'pass']), wrappers_failed=len([c for c in checked if c['status'] == 'fail']),
                                wrappers_inconclusive=len([c for c in checked if c['status'] == 'error']) + len(errors), skipped=skipped_all[:40],
                                obligations=sum(c['vcs'] for c in checked), solver_seconds=round(sum(c['wall'] for c in checked), 1),
                                tool_build_seconds=round(tool_s, 1), string_bound=strmax, exhaustive=False,
                                explanation='translation validation by solver: wrapper declared from the DATABASE signature vs the direct C++ call of the corpus, on twin symbolic arguments'),
                  assumptions=['claim is per corpus entry (corpus/c01/*.h), not for all headers', 'dconfig.h is an empty shim (this repository does not ship it)',
                               'operator new never fails; clang-14 -O1 lowering, ll2c.py and the models are trusted, guarded by witness assertions and native replay',
                               '-refcount is covered for corpus s7 only; -unique-names/-fptrs: the generated lookup tables are checked against the database (the module definition that would register them is compiled out of the generator with #if 0)'],
                  wall_s=round(time.time() - t0, 1), violations=len(violations))
        json.dump(ev, open(os.path.join(VERIF, 'evidence', prop + '.json'), 'w'), indent=1)
    except Exception as e:
        print('ERROR', e)
        traceback.print_exc()
        rc = 2
    finally:
        if not a.keep:
            shutil.rmtree(scratch, ignore_errors=True)
        else:
            print('scratch kept at', scratch)
    return rc


_MS = {}


def model_syms(models):
    key = tuple(models)
    if key not in _MS:
        s = set()
        for f in models:
            s |= set(re.findall(r'^[A-Za-z_][A-Za-z0-9_ \*]*?\b([A-Za-z_][A-Za-z0-9_]*)\s*\([^;{]*\)\s*\{', open(f).read(), flags=re.M))
        _MS[key] = s
    return _MS[key]


def refs_optional(corpus, key, optname):
    """reference entries marked optional for an option set in <corpus>.ref.h: //OPTIONAL <key> : optname,optname"""
    # the table option sets export the same entities as the option set they extend
    optname = {'c_fnames_uniq_fptrs': 'c_fnames_uniq', 'c_uniq': 'c'}.get(optname, optname)
    txt = open(os.path.join(CORPUS, corpus + '.ref.h')).read()
    for m in re.finditer(r'//OPTIONAL\s+(.*\S)\s+:\s+(.*)$', txt, flags=re.M):
        if normkey(m.group(1)) == key and (optname in [x.strip() for x in m.group(2).split(',')] or m.group(2).strip() == '*'):
            return True
    return False


if __name__ == '__main__':
    sys.exit(main())
