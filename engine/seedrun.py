#!/usr/bin/env python3
"""seedrun.py <seed id> <property> <check command...>: validates the seeded change (seedcheck.sh), runs the check
against it and records the outcome in /verif/seeded/<id>/meta.json."""
import sys, os, json, subprocess, re, time
VERIF = os.path.dirname(os.path.dirname(os.path.abspath(__file__)))
sid, prop, cmd = sys.argv[1], sys.argv[2], sys.argv[3:]
d = os.path.join(VERIF, 'seeded', sid)
t0 = time.time()
p = subprocess.run([os.path.join(VERIF, 'engine/seedcheck.sh'), d] + cmd, stdout=subprocess.PIPE, stderr=subprocess.STDOUT, text=True)
out = p.stdout
valid = 'SEED NOT VALID' not in out and 'check exit code' in out
caught = p.returncode == 1 and 'VIOLATION' in out
mp = os.path.join(d, 'meta.json')
meta = json.load(open(mp)) if os.path.exists(mp) else {}
notes = open(os.path.join(d, 'notes.md')).read() if os.path.exists(os.path.join(d, 'notes.md')) else ''
meta.update(dict(id=sid, property=prop, source='independent sub-agent given only the property text and a scratch worktree',
                 patch='patch.diff', demonstration='demo.sh (exit 0 on the original tree, non-zero with the change)',
                 validated=dict(compiles_and_ctest_passes_with_change=valid, demo_passes_without_and_fails_with_change=valid,
                                how='engine/seedcheck.sh: scratch git worktree of /repo HEAD, cmake+ninja build, ctest -j8, demo.sh before and after git apply'),
                 needs_to_manifest=meta.get('needs_to_manifest') or (re.search(r'(?is)(manifest|trigger|needs)[^\n]*\n(.{0,600})', notes).group(0)[:700] if re.search(r'(?is)(manifest|trigger|needs)', notes) else 'see notes.md')))
runs = meta.setdefault('check_runs', [])
viol = [l for l in out.split('\n') if 'VIOLATION' in l or 'harness=' in l][:6]
runs.append(dict(cmd=' '.join(cmd), exit_code=p.returncode, caught=caught, seconds=round(time.time() - t0), violation_lines=viol,
                 other=[l for l in out.split('\n') if ' error ' in l or 'ENCODING' in l or 'inconclusive' in l][:4]))
meta['caught'] = any(r['caught'] for r in runs)
json.dump(meta, open(mp, 'w'), indent=1)
print(sid, 'valid' if valid else 'INVALID', 'CAUGHT' if caught else 'missed (exit %d)' % p.returncode)
for l in viol[:3]:
    print('   ', l[:200])
