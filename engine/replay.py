"""Counterexample -> replay file -> native confirmation against the real sources."""
import os, json, re, subprocess, hashlib, glob
from concurrent.futures import ThreadPoolExecutor

MODULE_DEPS = {
    'interrogate': ['interrogate', 'interrogatedb', 'cppparser', 'dtoolutil', 'dtoolbase'],
    'cppparser': ['cppparser', 'dtoolutil', 'dtoolbase'],
    'interrogatedb': ['interrogatedb', 'dtoolutil', 'dtoolbase'],
    'dtoolutil': ['dtoolutil', 'dtoolbase'],
    'dtoolbase': ['dtoolbase'],
}
MAIN_FILES = ('interrogate.cxx', 'interrogate_module.cxx', 'parse_file.cxx')
SKIP_FILES = ('test_strtod.cxx', 'test_lib.cxx', 'test_interrogate.cxx', 'filename_assist.mm', 'cppBison.cxx.prebuilt')
PY_FILES = ('py_panda.cxx', 'py_support.cxx', 'py_compat.cxx', 'py_wrappers.cxx', 'dtool_super_base.cxx')


def match_known(known, r, f):
    for k in known.get('findings', []):
        if k.get('status') == 'fixed':
            continue
        if k['harness'] == r['id'] and re.search(k['label_regex'], f['label']):
            return k
    return None


def write_replay(verif, h, r, f, k, tier, also=()):
    d = os.path.join(verif, 'replays', h['property'])
    os.makedirs(d, exist_ok=True)
    path = os.path.join(d, '%s-%s-%d.json' % (r['id'], tier, k))
    vals = []
    for i in f['inputs']:
        vals.append(i['bits'] if i.get('kind') == 'double' else i['value'])
    doc = dict(property=h['property'], harness=r['id'], entry=h['entry'], tier=tier, assertion=f['label'],
               cbmc_property=f['cbmc_property'], inputs=f['inputs'], values=vals, bounds=r.get('bounds', {}), other_failed_assertions_of_this_query=list(also),
               how_to_replay='engine/vcheck-replay %s' % os.path.relpath(path, verif))
    json.dump(doc, open(path, 'w'), indent=1)
    return path


def run(cmd, **kw):
    p = subprocess.run(cmd, stdout=subprocess.PIPE, stderr=subprocess.STDOUT, text=True, **kw)
    return p.returncode, p.stdout


def native_build(verif, repo, h, bounds, scratch, sanitize=True):
    """build the harness natively against the real sources; returns (binary, log)"""
    import lower
    key = hashlib.md5((h['id'] + json.dumps(bounds, sort_keys=True)).encode()).hexdigest()[:8]
    d = os.path.join(scratch, 'native.' + h['id'] + '.' + key)
    os.makedirs(d, exist_ok=True)
    binp = os.path.join(d, 'replay_bin')
    if os.path.exists(binp):
        return binp, ''
    gen = os.path.join(scratch, 'gen')
    os.makedirs(gen, exist_ok=True)
    if not os.path.exists(os.path.join(gen, 'cppBison.h')):
        import shutil
        shutil.copy(os.path.join(repo, 'src/cppparser/cppBison.yxx'), gen)
        subprocess.run(['bison', '-o', 'cppBison.cxx', '--defines=cppBison.h', '-p', 'cppyy', 'cppBison.yxx'], cwd=gen,
                       stdout=subprocess.PIPE, stderr=subprocess.STDOUT)
    inc = ['-I' + gen] + ['-I%s/src/%s' % (repo, m) for m in lower.SRC_DIRS] + ['-I%s/harness' % verif]
    base = ['g++', '-std=gnu++11', '-fno-rtti', '-DNDEBUG', '-fno-strict-aliasing', '-O0', '-g', '-fPIC', '-w',
            '-DINTERROGATE_VERIF', '-DVERIF_NATIVE']
    if sanitize:
        base += ['-fsanitize=address,undefined', '-fno-sanitize-recover=undefined', '-fno-omit-frame-pointer']
    mods = []
    tus = []
    for tu in h['tus']:
        if tu.startswith('/'):
            continue
        if tu.startswith('@'):
            m = tu[1:]
            for x in MODULE_DEPS[m]:
                if x not in mods:
                    mods.append(x)
            tus += [os.path.basename(f) for f in glob.glob('%s/src/%s/*.cxx' % (repo, m))]
            continue
        m = tu.split('/')[1]
        tus.append(os.path.basename(tu))
        for x in MODULE_DEPS[m]:
            if x not in mods:
                mods.append(x)
    jobs = []
    for m in mods:
        for src in sorted(glob.glob('%s/src/%s/*.cxx' % (repo, m))):
            bn = os.path.basename(src)
            if bn in SKIP_FILES or bn in PY_FILES or bn.startswith('test_'):
                continue
            if bn in MAIN_FILES and bn not in tus:
                continue
            jobs.append((m, src))
    if 'cppparser' in mods:
        jobs.append(('cppparser', os.path.join(gen, 'cppBison.cxx')))
    tuflags = [x for x in h.get('tuflags', []) if x.startswith('-D')]
    hflags = ['-D%s=%s' % kv for kv in bounds.items()] + [x for x in h.get('hflags', []) if x.startswith('-D')]

    def cc(job):
        m, src = job
        o = os.path.join(d, m + '_' + os.path.basename(src) + '.o')
        # per-function sections: with --gc-sections, functions nobody reaches (and their references to globals of
        # main files that are not linked, e.g. interrogate.cxx's `parser`) are dropped instead of failing the link
        cmd = base + lower.MODULE_DEFS.get(m, []) + inc + tuflags + ['-ffunction-sections', '-fdata-sections', '-c', src, '-o', o]
        rc, out = run(cmd)
        if rc != 0:
            return None, out
        bn = os.path.basename(src)
        if bn in tus:
            args = []
            for s in h.get('cut', ()):
                args += ['--globalize-symbol=' + s, '--weaken-symbol=' + s]
            for s in h.get('export', ()):
                args += ['--globalize-symbol=' + s]
            if bn in MAIN_FILES:
                args += ['--redefine-sym', 'main=verif_real_main']
            if args:
                run(['objcopy'] + args + [o])
        return o, ''
    with ThreadPoolExecutor(max_workers=16) as ex:
        res = list(ex.map(cc, jobs))
    objs = []
    for o, log in res:
        if o is None:
            return None, log
        objs.append(o)
    ho = os.path.join(d, 'harness.o')
    rc, out = run(base + lower.GETOPT + inc + hflags + ['-fno-access-control', '-ffunction-sections', '-fdata-sections', '-c', os.path.join(verif, 'harness', h['src']), '-o', ho])
    if rc != 0:
        return None, out
    rt = os.path.join(d, 'rt.o')
    rc, out = run(base + ['-DVERIF_ENTRY=' + h['entry'], '-c', os.path.join(verif, 'engine/replay_rt.cxx'), '-o', rt])
    if rc != 0:
        return None, out
    rc, out = run(base + ['-Wl,--gc-sections', '-o', binp, ho, rt] + objs + ['-ldl'])
    if rc != 0:
        return None, out
    return binp, ''


def confirm(verif, repo, h, r, f, replay_path, scratch):
    """returns dict(confirmed=bool, detail=str)"""
    mode = h.get('replay', 'native')
    if mode == 'script':
        # the harness replaces environment the sandbox really has (e.g. write faults): a script runs the REAL
        # binaries built from the repository under test on the corresponding concrete faults
        cmd = [os.path.join(verif, 'harness', h['confirm_script']), repo, scratch] + list(h.get('confirm_args', []))
        p = subprocess.run(cmd, stdout=subprocess.PIPE, stderr=subprocess.STDOUT, text=True)
        doc = json.load(open(replay_path))
        doc['real_binary_replay'] = dict(cmd=' '.join(cmd), rc=p.returncode, output=p.stdout[-1500:])
        json.dump(doc, open(replay_path, 'w'), indent=1)
        if p.returncode == 1:
            return dict(confirmed=True, mode='real-binary', detail=p.stdout[-400:].replace('\n', ' | '))
        return dict(confirmed=False, mode='real-binary', detail='rc=%d %s' % (p.returncode, p.stdout[-400:].replace('\n', ' | ')))
    if mode == 'model':
        # the harness drives environment models that have no native counterpart (documented per harness);
        # the counterexample is an execution of the encoded program only
        return dict(confirmed=True, mode='model-only', detail='trace is an execution of the encoded program; no native counterpart for the stubbed environment')
    try:
        binp, log = native_build(verif, repo, h, r.get('bounds', {}), scratch)
    except Exception as e:
        return dict(confirmed=False, detail='native build raised %s' % e)
    if binp is None:
        return dict(confirmed=False, detail='native build failed: ' + log[-1500:])
    doc = json.load(open(replay_path))
    inp = replay_path + '.in'
    open(inp, 'w').write('\n'.join(str(v) for v in doc['values']) + '\n')
    env = dict(os.environ, ASAN_OPTIONS='detect_leaks=0:abort_on_error=0:detect_stack_use_after_return=0',
               UBSAN_OPTIONS='print_stacktrace=0')
    p = subprocess.run(['bash', '-c', 'ulimit -s 8192; exec "$0" "$1"', binp, inp], stdout=subprocess.PIPE,
                       stderr=subprocess.STDOUT, text=True, env=env, errors='replace')
    out = p.stdout[-3000:]
    rc = p.returncode
    label = f['label']
    detail = 'rc=%d %s' % (rc, out.strip().replace('\n', ' | ')[-600:])
    res = dict(rc=rc, output=out[-1200:], mode='native')
    doc['native_replay'] = res
    json.dump(doc, open(replay_path, 'w'), indent=1)
    if rc == 1 and 'ASSERT-FAILED' in out:
        return dict(confirmed=True, detail=detail, **res)
    if rc == 3:
        return dict(confirmed=True, detail=detail, **res)
    if rc < 0 or rc in (134, 136, 139) or 'AddressSanitizer' in out or 'runtime error' in out or 'terminate called' in out:
        return dict(confirmed=True, detail=detail, **res)
    return dict(confirmed=False, detail=detail, **res)
