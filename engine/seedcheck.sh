#!/bin/bash
# seedcheck.sh <seed dir with patch.diff + demo.sh> <check command...>
# 1. verifies the seeded change independently in a scratch worktree (compiles, ctest passes, demo fails with the change
#    and passes without it); 2. applies it to /repo, runs the given check command(s) of /verif, reverts /repo.
SEED=$1; shift
W=/tmp/seedverify.$$
log() { echo "[seedcheck] $*"; }
git -C /repo worktree add -q --detach $W HEAD || exit 2
trap 'git -C /repo worktree remove --force $W 2>/dev/null' EXIT
cd $W
( cmake -G Ninja -S . -B _build >/dev/null && cmake --build _build >/dev/null 2>&1 ) || { log "clean build failed"; exit 2; }
bash $SEED/demo.sh $W > $W/demo_clean.log 2>&1; rc0=$?
git apply $SEED/patch.diff || { log "patch does not apply"; exit 2; }
( cmake --build _build > $W/build.log 2>&1 ) || { log "changed tree does not compile"; tail -5 $W/build.log; exit 2; }
ctest --test-dir _build -j8 > $W/ctest.log 2>&1; rct=$?
bash $SEED/demo.sh $W > $W/demo_seed.log 2>&1; rc1=$?
log "demo on clean tree rc=$rc0 (want 0); ctest with change rc=$rct (want 0); demo with change rc=$rc1 (want !=0)"
[ $rc0 -eq 0 ] && [ $rct -eq 0 ] && [ $rc1 -ne 0 ] || { log "SEED NOT VALID"; tail -5 $W/demo_seed.log; exit 3; }
cd /verif
# the checks read the repository through VERIF_REPO: the patched scratch worktree stands in for /repo, so that
# concurrent work on /repo is not disturbed (equivalent to git -C /repo apply ... ; run ; git checkout)
rm -rf $W/_build
log "running (VERIF_REPO=$W): $*"
VERIF_REPO=$W "$@" > /tmp/seedcheck.out.$$ 2>&1; rcc=$?
grep -E "VIOLATION" /tmp/seedcheck.out.$$ | head -8; grep -E "ENCODING-ERROR|^ERROR| fail | error |inconclusive|KNOWN" /tmp/seedcheck.out.$$ | head -8
log "check exit code $rcc (1 = caught)"
rm -f /tmp/seedcheck.out.$$
exit $rcc
