// Reference calls for corpus s3.h.
int g_trace;
static Box *verif_make_Box() { return new Box(nondet_int()); }
static Box *verif_clone_Box(const Box *a) { return new Box(a->_w); }
static bool verif_same_Box(const Box *a, const Box *b) { return a->_w == b->_w; }
static Box::Inner *verif_make_Box__Inner() { return new Box::Inner(nondet_int()); }
static Box::Inner *verif_clone_Box__Inner(const Box::Inner *a) { return new Box::Inner(a->_i); }
static bool verif_same_Box__Inner(const Box::Inner *a, const Box::Inner *b) { return a->_i == b->_i; }
static Color verif_make_Color() { int k = nondet_int(); ASSUME(k == 1 || k == 5 || k == 9); return (Color)k; }
static Box::Mode verif_make_Box__Mode() { int k = nondet_int(); ASSUME(k == 0 || k == 7); return (Box::Mode)k; }
//REF Box::Inner::Inner(Box::Inner const *)
static Box::Inner *ref_Inner_copy(Box::Inner const *o) { return new Box::Inner(*o); }
//REF Box::Inner::Inner(int)
static Box::Inner *ref_Inner_int(int v) { return new Box::Inner(v); }
//REF Box::Inner::get(Box::Inner const *)
static int ref_Inner_get(Box::Inner const *t) { return t->get(); }
//REF Box::Box(Box const *)
static Box *ref_Box_copy(Box const *o) { return new Box(*o); }
//REF Box::Box(int)
static Box *ref_Box_int(int v) { return new Box(v); }
//OPTIONAL Box::first_char(Box const *,atomic string) : *
//REF Box::first_char(Box const *,atomic string)
static int ref_Box_first_char(Box const *t, const char *s) { return t->first_char(s); }
//OPTIONAL Box::pass_through(Box const *,atomic string) : *
//REF Box::pass_through(Box const *,atomic string)
static const char *ref_Box_pass_through(Box const *t, const char *s) { return t->pass_through(s); }
//OPTIONAL Box::str_len(Box const *,atomic string) : *
//REF Box::str_len(Box const *,atomic string)
static int ref_Box_str_len(Box const *t, const char *s) { return t->str_len(std::string(s)); }
//REF Box::next(Box const *,Color)
static Color ref_Box_next(Box const *t, Color c) { return t->next(c); }
//REF Box::mode(Box const *,Box::Mode,int,bool)
static Box::Mode ref_Box_mode3(Box const *t, Box::Mode m, int k, bool f) { return t->mode(m, k, f); }
//REF Box::mode(Box const *,Box::Mode,int)
static Box::Mode ref_Box_mode2(Box const *t, Box::Mode m, int k) { return t->mode(m, k); }
//REF Box::mode(Box const *,Box::Mode)
static Box::Mode ref_Box_mode1(Box const *t, Box::Mode m) { return t->mode(m); }
//REF Box::make_inner(Box const *,int)
static Box::Inner *ref_Box_make_inner(Box const *t, int i) { return new Box::Inner(t->make_inner(i)); }
//REF global_add(int,int)
static int ref_global_add2(int a, int b) { return global_add(a, b); }
//REF global_add(int)
static int ref_global_add1(int a) { return global_add(a); }
//REF global_box(Box const *)
static int ref_global_box(Box const *b) { return global_box(*b); }
// without -string the same functions are exported with their C++ string types
static std::string *verif_make_std__string() { return new std::string(verif_make_cstr()); }
static std::string *verif_clone_std__string(const std::string *a) { return new std::string(*a); }
static bool verif_same_std__string(const std::string *a, const std::string *b) { return *a == *b; }
//OPTIONAL Box::first_char(Box const *,char const *) : *
//REF Box::first_char(Box const *,char const *)
static int ref_Box_first_char_ns(Box const *t, const char *s) { return t->first_char(s); }
//OPTIONAL Box::pass_through(Box const *,char const *) : *
//REF Box::pass_through(Box const *,char const *)
static const char *ref_Box_pass_through_ns(Box const *t, const char *s) { return t->pass_through(s); }
//OPTIONAL Box::str_len(Box const *,std::string const *) : *
//REF Box::str_len(Box const *,std::string const *)
static int ref_Box_str_len_ns(Box const *t, const std::string *s) { return t->str_len(*s); }
// -promiscuous also exports the public data members and the global trace cell
//OPTIONAL get_g_trace() : c_fnames,c_string_fnames,c,c_string,c_fnames_fptrs,c_fnames_uniq,c_fnames_nodb,c_true_names,py_string_fnames,py_fnames,py
//REF get_g_trace()
static int ref_get_g_trace() { return g_trace; }
//OPTIONAL set_g_trace(int) : c_fnames,c_string_fnames,c,c_string,c_fnames_fptrs,c_fnames_uniq,c_fnames_nodb,c_true_names,py_string_fnames,py_fnames,py
//REF set_g_trace(int)
static void ref_set_g_trace(int v) { g_trace = v; }
//OPTIONAL Box::Inner::get_i(Box::Inner const *) : c_fnames,c_string_fnames,c,c_string,c_fnames_fptrs,c_fnames_uniq,c_fnames_nodb,c_true_names,py_string_fnames,py_fnames,py
//REF Box::Inner::get_i(Box::Inner const *)
static int ref_Inner_get_i(Box::Inner const *t) { return t->_i; }
//OPTIONAL Box::Inner::set_i(Box::Inner *,int) : c_fnames,c_string_fnames,c,c_string,c_fnames_fptrs,c_fnames_uniq,c_fnames_nodb,c_true_names,py_string_fnames,py_fnames,py
//REF Box::Inner::set_i(Box::Inner *,int)
static void ref_Inner_set_i(Box::Inner *t, int v) { t->_i = v; }
//OPTIONAL Box::get_w(Box const *) : c_fnames,c_string_fnames,c,c_string,c_fnames_fptrs,c_fnames_uniq,c_fnames_nodb,c_true_names,py_string_fnames,py_fnames,py
//REF Box::get_w(Box const *)
static int ref_Box_get_w(Box const *t) { return t->_w; }
//OPTIONAL Box::set_w(Box *,int) : c_fnames,c_string_fnames,c,c_string,c_fnames_fptrs,c_fnames_uniq,c_fnames_nodb,c_true_names,py_string_fnames,py_fnames,py
//REF Box::set_w(Box *,int)
static void ref_Box_set_w(Box *t, int v) { t->_w = v; }
