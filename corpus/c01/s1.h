// C01 corpus 1: scalars, overloads, defaults, statics, object results.
#ifndef S1_H
#define S1_H
#ifdef CPPPARSER
#define PUBLISHED __published
#else
#define PUBLISHED public
#endif
extern int g_trace;
class A {
PUBLISHED:
  A(int v) : _v(v) {}
  int f(int a, int b) const { g_trace = 1; return (_v << 11) ^ (_v ^ 0x5bd1e995) ^ (a << 5) ^ a ^ (b << 17) ^ (b >> 3); }
  int f(double d) const { g_trace = 2; return (int)(d > 1000 ? 1000 : (d < -1000 ? -1000 : d)) + 7 + _v; }
  static long s(long x, unsigned char c = 5) { g_trace = 3; return (x << 2) - x + c; }
  void set_v(int v) { g_trace = 4; _v = v; }
  int get_v() const { g_trace = 5; return _v; }
  A add(const A &o) const { g_trace = 6; return A(_v + (o._v << 3) - o._v); }
  bool operator == (const A &o) const { g_trace = 7; return _v == o._v; }
  unsigned short narrow(signed char a, unsigned short b) const { g_trace = 8; return (unsigned short)(a ^ (b << 1) ^ _v); }
  long long widen(long long c, unsigned long long d, bool e) const { g_trace = 12; return c ^ (long long)(d >> 7) ^ (e ? 13 : 0) ^ _v; }
  double scale(double x, float y) const { g_trace = 9; return (y > 0 ? x : -x) + (_v & 1); }
  A &self() { g_trace = 10; return *this; }
  const A *other(const A *p) const { g_trace = 11; return p; }
public:
  int _v;
};
#endif
