// C01 corpus 3: strings (const char * and std::string; -string turns std::string into const char *), enums, namespace,
// nested class (classes inside a namespace get database entries but no -c wrappers, so none is used here), global functions, default arguments chains.
#ifndef S3_H
#define S3_H
#ifdef CPPPARSER
#define PUBLISHED __published
#define BEGIN_PUBLISH __begin_publish
#define END_PUBLISH __end_publish
#else
#define PUBLISHED public
#define BEGIN_PUBLISH
#define END_PUBLISH
#endif
#include <string>
extern int g_trace;
enum Color { C_red = 1, C_green = 5, C_blue = 9 };
  class Box {
  PUBLISHED:
    enum Mode { M_a, M_b = 7 };
    class Inner {
    PUBLISHED:
      Inner(int i) : _i(i) {}
      int get() const { g_trace = 40; return _i ^ 0x33; }
    public:
      int _i;
    };
    Box(int w) : _w(w) {}
    int first_char(const char *s) const { g_trace = 41; return s == 0 ? -1 : (s[0] ^ _w); }
    const char *pass_through(const char *s) const { g_trace = 42; return s; }
    int str_len(const std::string &s) const { g_trace = 43; return (int)s.size() ^ _w; }
    Color next(Color c) const { g_trace = 44; return c == C_red ? C_green : (c == C_green ? C_blue : C_red); }
    Mode mode(Mode m, int k = 3, bool flip = false) const { g_trace = 45; return (k & 1) != (int)flip ? M_b : m; }
    Inner make_inner(int i) const { g_trace = 46; return Inner(i ^ _w); }
  public:
    int _w;
  };
BEGIN_PUBLISH
inline int global_add(int a, int b = 2) { g_trace = 47; return a ^ (b << 4); }
inline int global_box(const Box &b) { g_trace = 48; return b._w ^ 0x42; }
END_PUBLISH
#endif
