// C01 corpus 4: typedef'd template instantiation, virtual inheritance, public data members (exported as
// getter/setter pairs under -promiscuous), static method, const char * result.
#ifndef S4_H
#define S4_H
#ifdef CPPPARSER
#define PUBLISHED __published
#define BEGIN_PUBLISH __begin_publish
#define END_PUBLISH __end_publish
#else
#define PUBLISHED public
#define BEGIN_PUBLISH
#define END_PUBLISH
#endif
#include <stdint.h>
#include <cstddef>
extern int g_trace;
template<class T>
class Pair {
PUBLISHED:
  Pair(T a, T b) : _a(a), _b(b) {}
  T first() const { g_trace = 60; return _a; }
  T mix(T x) const { g_trace = 61; return _a ^ (_b << 1) ^ (x << 2); }
  void swap_in(Pair<T> &o) { g_trace = 62; T t = o._a; o._a = _a; _a = t; }
public:
  T _a, _b;
};
typedef Pair<int> PairI;
typedef Pair<short> PairS;

class VBase {
PUBLISHED:
  VBase(int v) : _vb(v) {}
  int vb() const { g_trace = 63; return _vb ^ 0x1111; }
public:
  int _vb;
};
class Left : virtual public VBase {
PUBLISHED:
  Left(int v, int l) : VBase(v), _l(l) {}
  int left() const { g_trace = 64; return _l ^ _vb; }
public:
  int _l;
};
class Right : virtual public VBase {
PUBLISHED:
  Right(int v, int r) : VBase(v), _r(r) {}
  int right() const { g_trace = 65; return _r ^ (_vb << 1); }
public:
  int _r;
};
class Diamond : public Left, public Right {
PUBLISHED:
  Diamond(int v, int l, int r, int d) : VBase(v), Left(v, l), Right(v, r), count(0), _dd(d) {}
  int all() const { g_trace = 66; return _vb ^ (_l << 1) ^ (_r << 2) ^ (_dd << 3); }
  static int twice(int x) { g_trace = 67; return x << 1; }
  int count;
public:
  int _dd;
};
// pointer-sized and fixed-width integer typedefs, by value and by const reference
class Tags {
PUBLISHED:
  Tags(int t) : _t((uintptr_t)(unsigned)t) {}
  uintptr_t set_tag(const uintptr_t &t) { g_trace = 70; uintptr_t old = _t; _t = t; return old ^ (t >> 3); }
  const uintptr_t &tag_ref() const { g_trace = 71; return _t; }
  intptr_t diff(const intptr_t &a, intptr_t b) const { g_trace = 72; return a ^ (b << 1) ^ (intptr_t)_t; }
  size_t size_of(size_t n, const size_t &m) const { g_trace = 73; return n ^ (m << 2) ^ (size_t)_t; }
  int64_t wide(const int64_t &x, uint64_t y) const { g_trace = 74; return x ^ (int64_t)(y >> 5) ^ (int64_t)_t; }
public:
  uintptr_t _t;
};
#endif
