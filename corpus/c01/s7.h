// C01 corpus 7: -refcount.  A reference-counted class (ref()/unref()/get_ref_count() over an int counter) and a
// minimal PointerTo<T> smart pointer, used as result and as by-value / const-reference parameter of published
// methods.  Under -refcount the C back end maps PointerTo<Node> to Node *: the wrapper hands the caller the raw
// pointer the PointerTo held plus one new reference (ref() called before the temporary PointerTo dies), refs every
// returned Node * (constructors included), and destructor wrappers call unref_delete().
#ifndef S7_H
#define S7_H
#ifdef CPPPARSER
#define PUBLISHED __published
#else
#define PUBLISHED public
#endif
extern int g_trace;
// what the generated destructor wrappers call under -refcount
template<class T> inline void unref_delete(T *p) { if (!p->unref()) delete p; }
template<class T>
class PointerTo {
public:
  PointerTo(T *ptr = nullptr) : _ptr(ptr) { if (_ptr != nullptr) _ptr->ref(); }
  PointerTo(const PointerTo<T> &copy) : _ptr(copy._ptr) { if (_ptr != nullptr) _ptr->ref(); }
  ~PointerTo() { if (_ptr != nullptr) unref_delete(_ptr); }
  PointerTo<T> &operator = (const PointerTo<T> &copy) {
    T *old = _ptr;
    _ptr = copy._ptr;
    if (_ptr != nullptr) _ptr->ref();
    if (old != nullptr) unref_delete(old);
    return *this;
  }
  T *p() const { return _ptr; }
  T *operator -> () const { return _ptr; }
  T &operator * () const { return *_ptr; }
  bool operator == (const T *other) const { return _ptr == other; }
  bool operator != (const T *other) const { return _ptr != other; }
  bool is_null() const { return _ptr == nullptr; }
public:
  T *_ptr;
};
// every traced member appends its id to the trace cell, so calling the wrapped function more than once shows
#define S7_TRACE(id) (g_trace = (int)((((unsigned)g_trace) << 8) | (unsigned)(id)))
class Node {
PUBLISHED:
  Node(int v) : _v(v), _rc(0) { S7_TRACE(110); }
  Node(const Node &o) : _v(o._v), _rc(0), _child(o._child) { S7_TRACE(111); }
  void ref() const { ++_rc; }                    // no trace: the wrappers call these around the wrapped function
  bool unref() const { return --_rc != 0; }
  int get_ref_count() const { S7_TRACE(102); return _rc; }

  int get_v() const { S7_TRACE(103); return _v ^ 0x2f; }
  PointerTo<Node> get_child() const { S7_TRACE(104); return _child; }
  Node *get_child_ptr() const { S7_TRACE(105); return _child.p(); }
  void set_child(PointerTo<Node> child) { S7_TRACE(106); _child = child; }
  int weigh(const PointerTo<Node> &other, int k) const { S7_TRACE(107); return (other.is_null() ? 0x400 : other->_v) ^ (k << 3) ^ _v; }
  static PointerTo<Node> make(int v) { PointerTo<Node> n(new Node(v ^ 0x11)); S7_TRACE(108); return n; }
  PointerTo<Node> pick(PointerTo<Node> a, bool first) const { S7_TRACE(109); return first ? a : _child; }
  // has a side effect: the child is handed over to the caller
  PointerTo<Node> take_child() { S7_TRACE(112); PointerTo<Node> c = _child; _child = PointerTo<Node>(); return c; }
public:
  int _v;
  mutable int _rc;
  PointerTo<Node> _child;
};
#endif
