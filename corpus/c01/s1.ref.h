// Reference calls for corpus s1.h: one direct C++ call per (function, wrapper parameter types) key.
int g_trace;
static A *verif_make_A() { return new A(nondet_int()); }
static A *verif_clone_A(const A *a) { return new A(a->_v); }
static bool verif_same_A(const A *a, const A *b) { return a->_v == b->_v; }
//REF A::A(A const *)
static A *ref_A_copy(A const *o) { return new A(*o); }
//REF A::A(int)
static A *ref_A_int(int v) { return new A(v); }
//REF A::f(A const *,int,int)
static int ref_A_f_ii(A const *t, int a, int b) { return t->f(a, b); }
//REF A::f(A const *,double)
static int ref_A_f_d(A const *t, double d) { return t->f(d); }
//REF A::s(long int,unsigned char)
static long ref_A_s2(long x, unsigned char c) { return A::s(x, c); }
//REF A::s(long int)
static long ref_A_s1(long x) { return A::s(x); }
//REF A::set_v(A *,int)
static void ref_A_set_v(A *t, int v) { t->set_v(v); }
//REF A::get_v(A const *)
static int ref_A_get_v(A const *t) { return t->get_v(); }
//REF A::add(A const *,A const *)
static A *ref_A_add(A const *t, A const *o) { return new A(t->add(*o)); }
//REF A::operator ==(A const *,A const *)
static bool ref_A_eq(A const *t, A const *o) { return *t == *o; }
//REF A::narrow(A const *,signed char,unsigned short int)
static unsigned short ref_A_narrow(A const *t, signed char a, unsigned short b) { return t->narrow(a, b); }
//REF A::widen(A const *,long long int,unsigned long long int,bool)
static long long ref_A_widen(A const *t, long long c, unsigned long long d, bool e) { return t->widen(c, d, e); }
//REF A::scale(A const *,double,float)
static double ref_A_scale(A const *t, double x, float y) { return t->scale(x, y); }
//REF A::self(A *)
static A *ref_A_self(A *t) { return &t->self(); }
//REF A::other(A const *,A const *)
static A const *ref_A_other(A const *t, A const *p) { return t->other(p); }
// exported only under -promiscuous: public data members and the global trace cell
//OPTIONAL get_g_trace() : c_fnames,c_string_fnames,c,c_string,c_fnames_fptrs,c_fnames_uniq,c_fnames_nodb,c_true_names,py_string_fnames,py_fnames,py
//REF get_g_trace()
static int ref_p_94959() { return g_trace; }
//OPTIONAL set_g_trace(int) : c_fnames,c_string_fnames,c,c_string,c_fnames_fptrs,c_fnames_uniq,c_fnames_nodb,c_true_names,py_string_fnames,py_fnames,py
//REF set_g_trace(int)
static void ref_p_94877(int v) { g_trace = v; }
