// Reference calls for corpus s4.h.
int g_trace;
static Pair< int > *verif_make_Pair__int__() { int f0 = (int)nondet_int(); int f1 = (int)nondet_int(); return new Pair< int >(f0, f1); }
static Pair< int > *verif_clone_Pair__int__(const Pair< int > *a) { return new Pair< int >(a->_a, a->_b); }
static bool verif_same_Pair__int__(const Pair< int > *a, const Pair< int > *b) { return a->_a == b->_a && a->_b == b->_b; }
static Pair< short int > *verif_make_Pair__short_int__() { short f0 = (short)nondet_int(); short f1 = (short)nondet_int(); return new Pair< short int >(f0, f1); }
static Pair< short int > *verif_clone_Pair__short_int__(const Pair< short int > *a) { return new Pair< short int >(a->_a, a->_b); }
static bool verif_same_Pair__short_int__(const Pair< short int > *a, const Pair< short int > *b) { return a->_a == b->_a && a->_b == b->_b; }
static VBase *verif_make_VBase() { int f0 = (int)nondet_int(); return new VBase(f0); }
static VBase *verif_clone_VBase(const VBase *a) { return new VBase(a->_vb); }
static bool verif_same_VBase(const VBase *a, const VBase *b) { return a->_vb == b->_vb; }
static Left *verif_make_Left() { int f0 = (int)nondet_int(); int f1 = (int)nondet_int(); return new Left(f0, f1); }
static Left *verif_clone_Left(const Left *a) { return new Left(a->_vb, a->_l); }
static bool verif_same_Left(const Left *a, const Left *b) { return a->_vb == b->_vb && a->_l == b->_l; }
static Right *verif_make_Right() { int f0 = (int)nondet_int(); int f1 = (int)nondet_int(); return new Right(f0, f1); }
static Right *verif_clone_Right(const Right *a) { return new Right(a->_vb, a->_r); }
static bool verif_same_Right(const Right *a, const Right *b) { return a->_vb == b->_vb && a->_r == b->_r; }
static Diamond *verif_make_Diamond() { int f0 = (int)nondet_int(); int f1 = (int)nondet_int(); int f2 = (int)nondet_int(); int f3 = (int)nondet_int(); Diamond *d = new Diamond(f0, f1, f2, f3); d->count = nondet_int(); return d; }
static Diamond *verif_clone_Diamond(const Diamond *a) { Diamond *d = new Diamond(a->_vb, a->_l, a->_r, a->_dd); d->count = a->count; return d; }
static bool verif_same_Diamond(const Diamond *a, const Diamond *b) { return a->_vb == b->_vb && a->_l == b->_l && a->_r == b->_r && a->_dd == b->_dd && a->count == b->count; }
// Diamond::count is a published data member that the constructor leaves alone
//REF Pair< int >::Pair(Pair< int > const *)
static Pair< int > * ref_1(Pair< int > const *o) { return new Pair< int >(*o); }
//REF Pair< int >::Pair(int,int)
static Pair< int > * ref_2(int a, int b) { return new Pair< int >(a, b); }
//REF Pair< int >::first(Pair< int > const *)
static int ref_3(Pair< int > const *t) { return t->first(); }
//REF Pair< int >::mix(Pair< int > const *,int)
static int ref_4(Pair< int > const *t, int x) { return t->mix(x); }
//REF Pair< int >::swap_in(Pair< int > *,Pair< int > *)
static void ref_5(Pair< int > *t, Pair< int > *o) { t->swap_in(*o); }
//OPTIONAL Pair< int >::get_a(Pair< int > const *) : c_fnames,c_string_fnames,c,c_string,c_fnames_fptrs,c_fnames_uniq,c_fnames_nodb,c_true_names,py_string_fnames,py_fnames,py
//REF Pair< int >::get_a(Pair< int > const *)
static int ref_6(Pair< int > const *t) { return t->_a; }
//OPTIONAL Pair< int >::set_a(Pair< int > *,int) : c_fnames,c_string_fnames,c,c_string,c_fnames_fptrs,c_fnames_uniq,c_fnames_nodb,c_true_names,py_string_fnames,py_fnames,py
//REF Pair< int >::set_a(Pair< int > *,int)
static void ref_7(Pair< int > *t, int v) { t->_a = v; }
//OPTIONAL Pair< int >::get_b(Pair< int > const *) : c_fnames,c_string_fnames,c,c_string,c_fnames_fptrs,c_fnames_uniq,c_fnames_nodb,c_true_names,py_string_fnames,py_fnames,py
//REF Pair< int >::get_b(Pair< int > const *)
static int ref_8(Pair< int > const *t) { return t->_b; }
//OPTIONAL Pair< int >::set_b(Pair< int > *,int) : c_fnames,c_string_fnames,c,c_string,c_fnames_fptrs,c_fnames_uniq,c_fnames_nodb,c_true_names,py_string_fnames,py_fnames,py
//REF Pair< int >::set_b(Pair< int > *,int)
static void ref_9(Pair< int > *t, int v) { t->_b = v; }
//REF Pair< short int >::Pair(Pair< short int > const *)
static Pair< short int > * ref_10(Pair< short int > const *o) { return new Pair< short int >(*o); }
//REF Pair< short int >::Pair(short int,short int)
static Pair< short int > * ref_11(short a, short b) { return new Pair< short int >(a, b); }
//REF Pair< short int >::first(Pair< short int > const *)
static short ref_12(Pair< short int > const *t) { return t->first(); }
//REF Pair< short int >::mix(Pair< short int > const *,short int)
static short ref_13(Pair< short int > const *t, short x) { return t->mix(x); }
//REF Pair< short int >::swap_in(Pair< short int > *,Pair< short int > *)
static void ref_14(Pair< short int > *t, Pair< short int > *o) { t->swap_in(*o); }
//OPTIONAL Pair< short int >::get_a(Pair< short int > const *) : c_fnames,c_string_fnames,c,c_string,c_fnames_fptrs,c_fnames_uniq,c_fnames_nodb,c_true_names,py_string_fnames,py_fnames,py
//REF Pair< short int >::get_a(Pair< short int > const *)
static short ref_15(Pair< short int > const *t) { return t->_a; }
//OPTIONAL Pair< short int >::set_a(Pair< short int > *,short int) : c_fnames,c_string_fnames,c,c_string,c_fnames_fptrs,c_fnames_uniq,c_fnames_nodb,c_true_names,py_string_fnames,py_fnames,py
//REF Pair< short int >::set_a(Pair< short int > *,short int)
static void ref_16(Pair< short int > *t, short v) { t->_a = v; }
//OPTIONAL Pair< short int >::get_b(Pair< short int > const *) : c_fnames,c_string_fnames,c,c_string,c_fnames_fptrs,c_fnames_uniq,c_fnames_nodb,c_true_names,py_string_fnames,py_fnames,py
//REF Pair< short int >::get_b(Pair< short int > const *)
static short ref_17(Pair< short int > const *t) { return t->_b; }
//OPTIONAL Pair< short int >::set_b(Pair< short int > *,short int) : c_fnames,c_string_fnames,c,c_string,c_fnames_fptrs,c_fnames_uniq,c_fnames_nodb,c_true_names,py_string_fnames,py_fnames,py
//REF Pair< short int >::set_b(Pair< short int > *,short int)
static void ref_18(Pair< short int > *t, short v) { t->_b = v; }
//OPTIONAL get_g_trace() : c_fnames,c_string_fnames,c,c_string,c_fnames_fptrs,c_fnames_uniq,c_fnames_nodb,c_true_names,py_string_fnames,py_fnames,py
//REF get_g_trace()
static int ref_19() { return g_trace; }
//OPTIONAL set_g_trace(int) : c_fnames,c_string_fnames,c,c_string,c_fnames_fptrs,c_fnames_uniq,c_fnames_nodb,c_true_names,py_string_fnames,py_fnames,py
//REF set_g_trace(int)
static void ref_20(int v) { g_trace = v; }
//REF VBase::VBase(VBase const *)
static VBase * ref_21(VBase const *o) { return new VBase(*o); }
//REF VBase::VBase(int)
static VBase * ref_22(int v) { return new VBase(v); }
//REF VBase::vb(VBase const *)
static int ref_23(VBase const *t) { return t->vb(); }
//OPTIONAL VBase::get_vb(VBase const *) : c_fnames,c_string_fnames,c,c_string,c_fnames_fptrs,c_fnames_uniq,c_fnames_nodb,c_true_names,py_string_fnames,py_fnames,py
//REF VBase::get_vb(VBase const *)
static int ref_24(VBase const *t) { return t->_vb; }
//OPTIONAL VBase::set_vb(VBase *,int) : c_fnames,c_string_fnames,c,c_string,c_fnames_fptrs,c_fnames_uniq,c_fnames_nodb,c_true_names,py_string_fnames,py_fnames,py
//REF VBase::set_vb(VBase *,int)
static void ref_25(VBase *t, int v) { t->_vb = v; }
//REF Left::Left(Left const *)
static Left * ref_26(Left const *o) { return new Left(*o); }
//REF Left::Left(int,int)
static Left * ref_27(int v, int w) { return new Left(v, w); }
//REF Left::left(Left const *)
static int ref_28(Left const *t) { return t->left(); }
//OPTIONAL Left::get_l(Left const *) : c_fnames,c_string_fnames,c,c_string,c_fnames_fptrs,c_fnames_uniq,c_fnames_nodb,c_true_names,py_string_fnames,py_fnames,py
//REF Left::get_l(Left const *)
static int ref_29(Left const *t) { return t->_l; }
//OPTIONAL Left::set_l(Left *,int) : c_fnames,c_string_fnames,c,c_string,c_fnames_fptrs,c_fnames_uniq,c_fnames_nodb,c_true_names,py_string_fnames,py_fnames,py
//REF Left::set_l(Left *,int)
static void ref_30(Left *t, int v) { t->_l = v; }
//REF Right::Right(Right const *)
static Right * ref_31(Right const *o) { return new Right(*o); }
//REF Right::Right(int,int)
static Right * ref_32(int v, int w) { return new Right(v, w); }
//REF Right::right(Right const *)
static int ref_33(Right const *t) { return t->right(); }
//OPTIONAL Right::get_r(Right const *) : c_fnames,c_string_fnames,c,c_string,c_fnames_fptrs,c_fnames_uniq,c_fnames_nodb,c_true_names,py_string_fnames,py_fnames,py
//REF Right::get_r(Right const *)
static int ref_34(Right const *t) { return t->_r; }
//OPTIONAL Right::set_r(Right *,int) : c_fnames,c_string_fnames,c,c_string,c_fnames_fptrs,c_fnames_uniq,c_fnames_nodb,c_true_names,py_string_fnames,py_fnames,py
//REF Right::set_r(Right *,int)
static void ref_35(Right *t, int v) { t->_r = v; }
//REF Left::upcast_to_VBase(Left *)
static VBase * ref_36(Left *t) { return (VBase *)t; }
//REF Right::upcast_to_VBase(Right *)
static VBase * ref_37(Right *t) { return (VBase *)t; }
//REF Diamond::upcast_to_Left(Diamond *)
static Left * ref_38(Diamond *t) { return (Left *)t; }
//REF Diamond::upcast_to_Right(Diamond *)
static Right * ref_39(Diamond *t) { return (Right *)t; }
static Left *verif_make_Left_in_Diamond() { return verif_make_Diamond(); }
static Left *verif_clone_Left_in_Diamond(const Left *a) { return verif_clone_Diamond((const Diamond *)a); }
static bool verif_same_Left_in_Diamond(const Left *a, const Left *b) { return verif_same_Diamond((const Diamond *)a, (const Diamond *)b); }
static Right *verif_make_Right_in_Diamond() { return verif_make_Diamond(); }
static Right *verif_clone_Right_in_Diamond(const Right *a) { return verif_clone_Diamond((const Diamond *)a); }
static bool verif_same_Right_in_Diamond(const Right *a, const Right *b) { return verif_same_Diamond((const Diamond *)a, (const Diamond *)b); }
//ARG Left::downcast_to_Diamond(Left *) : 0 Left_in_Diamond
//REF Left::downcast_to_Diamond(Left *)
static Diamond * ref_40(Left *t) { return (Diamond *)t; }
//ARG Right::downcast_to_Diamond(Right *) : 0 Right_in_Diamond
//REF Right::downcast_to_Diamond(Right *)
static Diamond * ref_41(Right *t) { return (Diamond *)t; }
//REF Diamond::Diamond(Diamond const *)
static Diamond * ref_42(Diamond const *o) { return new Diamond(*o); }
//REF Diamond::Diamond(int,int,int,int)
static Diamond * ref_43(int v, int l, int r, int d) { Diamond *p = new Diamond(v, l, r, d); return p; }
//REF Diamond::all(Diamond const *)
static int ref_44(Diamond const *t) { return t->all(); }
//REF Diamond::twice(int)
static int ref_45(int x) { return Diamond::twice(x); }
//REF Diamond::get_count(Diamond const *)
static int ref_46(Diamond const *t) { return t->count; }
//REF Diamond::set_count(Diamond *,int)
static void ref_47(Diamond *t, int v) { t->count = v; }
//OPTIONAL Diamond::get_dd(Diamond const *) : c_fnames,c_string_fnames,c,c_string,c_fnames_fptrs,c_fnames_uniq,c_fnames_nodb,c_true_names,py_string_fnames,py_fnames,py
//REF Diamond::get_dd(Diamond const *)
static int ref_48(Diamond const *t) { return t->_dd; }
//OPTIONAL Diamond::set_dd(Diamond *,int) : c_fnames,c_string_fnames,c,c_string,c_fnames_fptrs,c_fnames_uniq,c_fnames_nodb,c_true_names,py_string_fnames,py_fnames,py
//REF Diamond::set_dd(Diamond *,int)
static void ref_49(Diamond *t, int v) { t->_dd = v; }
static Tags *verif_make_Tags() { Tags *t = new Tags(0); t->_t = nondet_ulong(); return t; }
static Tags *verif_clone_Tags(const Tags *a) { Tags *t = new Tags(0); t->_t = a->_t; return t; }
static bool verif_same_Tags(const Tags *a, const Tags *b) { return a->_t == b->_t; }
//REF Tags::Tags(Tags const *)
static Tags *ref_Tags_copy(Tags const *o) { return new Tags(*o); }
//REF Tags::Tags(int)
static Tags *ref_Tags_int(int v) { return new Tags(v); }
//REF Tags::set_tag(Tags *,uintptr_t)
static uintptr_t ref_Tags_set_tag(Tags *t, uintptr_t v) { return t->set_tag(v); }
//REF Tags::tag_ref(Tags const *)
static uintptr_t ref_Tags_tag_ref(Tags const *t) { return t->tag_ref(); }
//REF Tags::diff(Tags const *,intptr_t,intptr_t)
static intptr_t ref_Tags_diff(Tags const *t, intptr_t a, intptr_t b) { return t->diff(a, b); }
//REF Tags::size_of(Tags const *,std::size_t,std::size_t)
static std::size_t ref_Tags_size_of(Tags const *t, std::size_t n, std::size_t m) { return t->size_of(n, m); }
//REF Tags::wide(Tags const *,int64_t,uint64_t)
static int64_t ref_Tags_wide(Tags const *t, int64_t x, uint64_t y) { return t->wide(x, y); }
//OPTIONAL Tags::get_t(Tags const *) : c_fnames,c_string_fnames,c,c_string,c_fnames_fptrs,c_fnames_uniq,c_fnames_nodb,c_true_names,py_string_fnames,py_fnames,py
//REF Tags::get_t(Tags const *)
static uintptr_t ref_Tags_get_t(Tags const *t) { return t->_t; }
//OPTIONAL Tags::set_t(Tags *,uintptr_t) : c_fnames,c_string_fnames,c,c_string,c_fnames_fptrs,c_fnames_uniq,c_fnames_nodb,c_true_names,py_string_fnames,py_fnames,py
//REF Tags::set_t(Tags *,uintptr_t)
static void ref_Tags_set_t(Tags *t, uintptr_t v) { t->_t = v; }
