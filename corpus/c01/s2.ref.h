// Reference calls for corpus s2.h.
int g_trace;
static Base *verif_make_Base() { return new Base(nondet_int()); }
static Base *verif_clone_Base(const Base *a) { return new Base(a->_b); }
static bool verif_same_Base(const Base *a, const Base *b) { return a->_b == b->_b; }
static Other *verif_make_Other() { return new Other(nondet_int()); }
static Other *verif_clone_Other(const Other *a) { return new Other(a->_o); }
static bool verif_same_Other(const Other *a, const Other *b) { return a->_o == b->_o; }
static Derived *verif_make_Derived() { int b = nondet_int(), o = nondet_int(), d = nondet_int(); return new Derived(b, o, d); }
static Derived *verif_clone_Derived(const Derived *a) { return new Derived(a->_b, a->_o, a->_d); }
static bool verif_same_Derived(const Derived *a, const Derived *b) { return a->_b == b->_b && a->_o == b->_o && a->_d == b->_d; }
//REF Base::Base(Base const *)
static Base *ref_Base_copy(Base const *o) { return new Base(*o); }
//REF Base::Base(int)
static Base *ref_Base_int(int v) { return new Base(v); }
//REF Base::who(Base const *)
static int ref_Base_who(Base const *t) { return t->who(); }
//REF Base::base_only(Base const *,int)
static int ref_Base_base_only(Base const *t, int x) { return t->base_only(x); }
//REF Base::pick(Base *)
static int ref_Base_pick(Base *t) { return t->pick(); }
//REF Base::pick(Base const *)
static int ref_Base_pick_c(Base const *t) { return t->pick(); }
//REF Other::Other(Other const *)
static Other *ref_Other_copy(Other const *o) { return new Other(*o); }
//REF Other::Other(int)
static Other *ref_Other_int(int v) { return new Other(v); }
//REF Other::other_only(Other const *)
static int ref_Other_only(Other const *t) { return t->other_only(); }
//REF Derived::upcast_to_Base(Derived *)
static Base *ref_up_Base(Derived *t) { return (Base *)t; }
// a downcast is only defined on an object that really is a Derived
static Base *verif_make_Base_in_Derived() { return verif_make_Derived(); }
static Base *verif_clone_Base_in_Derived(const Base *a) { return verif_clone_Derived((const Derived *)a); }
static bool verif_same_Base_in_Derived(const Base *a, const Base *b) { return verif_same_Derived((const Derived *)a, (const Derived *)b); }
//ARG Base::downcast_to_Derived(Base *) : 0 Base_in_Derived
//REF Base::downcast_to_Derived(Base *)
static Derived *ref_down_Base(Base *t) { return (Derived *)t; }
//REF Derived::upcast_to_Other(Derived *)
static Other *ref_up_Other(Derived *t) { return (Other *)t; }
static Other *verif_make_Other_in_Derived() { return verif_make_Derived(); }
static Other *verif_clone_Other_in_Derived(const Other *a) { return verif_clone_Derived((const Derived *)a); }
static bool verif_same_Other_in_Derived(const Other *a, const Other *b) { return verif_same_Derived((const Derived *)a, (const Derived *)b); }
//ARG Other::downcast_to_Derived(Other *) : 0 Other_in_Derived
//REF Other::downcast_to_Derived(Other *)
static Derived *ref_down_Other(Other *t) { return (Derived *)t; }
//REF Derived::Derived(Derived const *)
static Derived *ref_Derived_copy(Derived const *o) { return new Derived(*o); }
//REF Derived::Derived(int,int,int)
static Derived *ref_Derived_iii(int b, int o, int d) { return new Derived(b, o, d); }
//REF Derived::who(Derived const *)
static int ref_Derived_who(Derived const *t) { return t->who(); }
//REF Derived::operator +(Derived const *,Derived const *)
static Derived *ref_Derived_plus(Derived const *t, Derived const *r) { return new Derived(*t + *r); }
//REF Derived::operator -(Derived const *)
static Derived *ref_Derived_neg(Derived const *t) { return new Derived(-*t); }
//REF Derived::operator typecast int(Derived const *)
static int ref_Derived_int(Derived const *t) { return (int)*t; }
//REF Derived::take_value(Derived const *,Derived *)
static int ref_Derived_take_value(Derived const *t, Derived *v) { return t->take_value(*v); }
//REF Derived::take_ref(Derived const *,Base *)
static int ref_Derived_take_ref(Derived const *t, Base *b) { return t->take_ref(*b); }
//REF Derived::take_ptr(Derived const *,Other *)
static int ref_Derived_take_ptr(Derived const *t, Other *o) { return t->take_ptr(o); }
// exported only under -promiscuous: public data members and the global trace cell
//OPTIONAL get_g_trace() : c_fnames,c_string_fnames,c,c_string,c_fnames_fptrs,c_fnames_uniq,c_fnames_nodb,c_true_names,py_string_fnames,py_fnames,py
//REF get_g_trace()
static int ref_p_94959() { return g_trace; }
//OPTIONAL set_g_trace(int) : c_fnames,c_string_fnames,c,c_string,c_fnames_fptrs,c_fnames_uniq,c_fnames_nodb,c_true_names,py_string_fnames,py_fnames,py
//REF set_g_trace(int)
static void ref_p_94877(int v) { g_trace = v; }
//OPTIONAL Base::get_b(Base const *) : c_fnames,c_string_fnames,c,c_string,c_fnames_fptrs,c_fnames_uniq,c_fnames_nodb,c_true_names,py_string_fnames,py_fnames,py
//REF Base::get_b(Base const *)
static int ref_p_20732(Base const *t) { return t->_b; }
//OPTIONAL Base::set_b(Base *,int) : c_fnames,c_string_fnames,c,c_string,c_fnames_fptrs,c_fnames_uniq,c_fnames_nodb,c_true_names,py_string_fnames,py_fnames,py
//REF Base::set_b(Base *,int)
static void ref_p_96097(Base *t, int v) { t->_b = v; }
//OPTIONAL Other::get_o(Other const *) : c_fnames,c_string_fnames,c,c_string,c_fnames_fptrs,c_fnames_uniq,c_fnames_nodb,c_true_names,py_string_fnames,py_fnames,py
//REF Other::get_o(Other const *)
static int ref_p_15580(Other const *t) { return t->_o; }
//OPTIONAL Other::set_o(Other *,int) : c_fnames,c_string_fnames,c,c_string,c_fnames_fptrs,c_fnames_uniq,c_fnames_nodb,c_true_names,py_string_fnames,py_fnames,py
//REF Other::set_o(Other *,int)
static void ref_p_37931(Other *t, int v) { t->_o = v; }
//OPTIONAL Derived::get_d(Derived const *) : c_fnames,c_string_fnames,c,c_string,c_fnames_fptrs,c_fnames_uniq,c_fnames_nodb,c_true_names,py_string_fnames,py_fnames,py
//REF Derived::get_d(Derived const *)
static int ref_p_18271(Derived const *t) { return t->_d; }
//OPTIONAL Derived::set_d(Derived *,int) : c_fnames,c_string_fnames,c,c_string,c_fnames_fptrs,c_fnames_uniq,c_fnames_nodb,c_true_names,py_string_fnames,py_fnames,py
//REF Derived::set_d(Derived *,int)
static void ref_p_41171(Derived *t, int v) { t->_d = v; }
// the same base-class wrappers called on an object that really is a Derived (virtual dispatch, this-adjustment)
//VARIANT Base::who(Base const *) : 0 Base_in_Derived
//VARIANT Base::base_only(Base const *,int) : 0 Base_in_Derived
//VARIANT Base::pick(Base *) : 0 Base_in_Derived
//VARIANT Base::pick(Base const *) : 0 Base_in_Derived
//VARIANT Other::other_only(Other const *) : 0 Other_in_Derived
//VARIANT Derived::take_ref(Derived const *,Base *) : 1 Base_in_Derived
//VARIANT Derived::take_ptr(Derived const *,Other *) : 1 Other_in_Derived
