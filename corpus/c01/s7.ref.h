// Reference calls for corpus s7.h (-refcount).
//OPTIONS c_refcount_fnames,c_refcount
// The contract of -refcount (interrogate -h, interfaceMaker.cxx manage_return_value/output_ref): a wrapper that
// returns a pointer to a reference-counted object calls the wrapped function ONCE, calls ref() ONCE on the (non-null)
// result and returns the raw pointer: the caller receives a new reference.  A PointerTo<Node> result is unwrapped to
// the Node * it holds (p()), ref'ed before the temporary PointerTo dies.  PointerTo<Node> parameters are Node *.
int g_trace;
// Object graphs have concrete shape and symbolic contents: a node with one leaf child (or none: variant Node_nochild);
// every object is owned at least once (count >= 1, the harness's own reference), the child also by its parent.
static Node *verif_leaf_Node() {
  int v = nondet_int(), rc = nondet_int();
  ASSUME(rc >= 1 && rc <= (1 << 20));
  Node *n = new Node(v);
  n->_rc = rc;
  return n;
}
static Node *verif_make_Node() { Node *n = verif_leaf_Node(); n->_child._ptr = verif_leaf_Node(); return n; }
static Node *verif_make_Node_nochild() { return verif_leaf_Node(); }
static Node *verif_clone_Node(const Node *a) {
  Node *n = new Node(a->_v);
  n->_rc = a->_rc;
  if (a->_child._ptr != nullptr) {
    Node *c = new Node(a->_child._ptr->_v);
    c->_rc = a->_child._ptr->_rc;
    n->_child._ptr = c;
  }
  return n;
}
static Node *verif_clone_Node_nochild(const Node *a) { return verif_clone_Node(a); }
static bool verif_same_Node(const Node *a, const Node *b) {
  if (a->_v != b->_v || a->_rc != b->_rc) return false;
  const Node *ca = a->_child._ptr, *cb = b->_child._ptr;
  if ((ca == nullptr) != (cb == nullptr)) return false;
  if (ca == nullptr) return true;
  return ca->_v == cb->_v && ca->_rc == cb->_rc && (ca->_child._ptr == nullptr) == (cb->_child._ptr == nullptr);
}
static bool verif_same_Node_nochild(const Node *a, const Node *b) { return verif_same_Node(a, b); }
// the caller of a wrapper receives a new reference to the object a returned PointerTo / pointer designates
static Node *verif_new_reference(Node *p) { if (p != nullptr) p->ref(); return p; }
//REF Node::Node(Node const *)
static Node *ref_Node_copy(Node const *o) { return verif_new_reference(new Node(*o)); }
//REF Node::Node(int)
static Node *ref_Node_int(int v) { return verif_new_reference(new Node(v)); }
//REF Node::ref(Node const *)
static void ref_Node_ref(Node const *t) { t->ref(); }
//REF Node::unref(Node const *)
static bool ref_Node_unref(Node const *t) { return t->unref(); }
//REF Node::get_ref_count(Node const *)
static int ref_Node_get_ref_count(Node const *t) { return t->get_ref_count(); }
//REF Node::get_v(Node const *)
static int ref_Node_get_v(Node const *t) { return t->get_v(); }
//REF Node::get_child(Node const *)
static Node *ref_Node_get_child(Node const *t) { PointerTo<Node> r = t->get_child(); return verif_new_reference(r.p()); }
//REF Node::get_child_ptr(Node const *)
static Node *ref_Node_get_child_ptr(Node const *t) { return verif_new_reference(t->get_child_ptr()); }
//REF Node::set_child(Node *,Node *)
static void ref_Node_set_child(Node *t, Node *c) { t->set_child(PointerTo<Node>(c)); }
//REF Node::weigh(Node const *,Node *,int)
static int ref_Node_weigh(Node const *t, Node *o, int k) { return t->weigh(PointerTo<Node>(o), k); }
//REF Node::make(int)
static Node *ref_Node_make(int v) { PointerTo<Node> r = Node::make(v); return verif_new_reference(r.p()); }
//REF Node::pick(Node const *,Node *,bool)
static Node *ref_Node_pick(Node const *t, Node *a, bool first) { PointerTo<Node> r = t->pick(PointerTo<Node>(a), first); return verif_new_reference(r.p()); }
//REF Node::take_child(Node *)
static Node *ref_Node_take_child(Node *t) { PointerTo<Node> r = t->take_child(); return verif_new_reference(r.p()); }
// the same wrappers on a node without a child (null PointerTo results must come back as null pointers, not ref'ed)
//VARIANT Node::get_child(Node const *) : 0 Node_nochild
//VARIANT Node::get_child_ptr(Node const *) : 0 Node_nochild
//VARIANT Node::take_child(Node *) : 0 Node_nochild
//VARIANT Node::pick(Node const *,Node *,bool) : 0 Node_nochild
//VARIANT Node::Node(Node const *) : 0 Node_nochild
// a null pointer passed where the C++ function takes a PointerTo<Node>
static Node *verif_make_Node_null() { return nullptr; }
static Node *verif_clone_Node_null(const Node *) { return nullptr; }
static bool verif_same_Node_null(const Node *a, const Node *b) { return a == nullptr && b == nullptr; }
//VARIANT Node::set_child(Node *,Node *) : 1 Node_null
//VARIANT Node::weigh(Node const *,Node *,int) : 1 Node_null
//VARIANT Node::pick(Node const *,Node *,bool) : 1 Node_null
