// C01 corpus 6: a published array data member (exported as a setter taking an array).
#ifndef S6_H
#define S6_H
#ifdef CPPPARSER
#define PUBLISHED __published
#else
#define PUBLISHED public
#endif
extern int g_trace;
class Grid {
PUBLISHED:
  Grid(int n) : _n(n) { marks[0] = marks[1] = marks[2] = 0; }
  int sum() const { g_trace = 90; return marks[0] ^ (marks[1] << 1) ^ (marks[2] << 2) ^ _n; }
  int marks[3];
public:
  int _n;
};
#endif
