// C01 corpus 2: inheritance (single, multiple, virtual), up/down casts, virtual dispatch, const/non-const overloads,
// operators, typecast operator, objects by value / reference / pointer.
#ifndef S2_H
#define S2_H
#ifdef CPPPARSER
#define PUBLISHED __published
#else
#define PUBLISHED public
#endif
extern int g_trace;
class Base {
PUBLISHED:
  Base(int b) : _b(b) {}
  virtual ~Base() {}
  virtual int who() const { g_trace = 20; return _b ^ 0x100; }
  int base_only(int x) const { g_trace = 21; return _b ^ (x << 3); }
  int pick() { g_trace = 22; return _b ^ 1; }
  int pick() const { g_trace = 23; return _b ^ 2; }
public:
  int _b;
};
class Other {
PUBLISHED:
  Other(int o) : _o(o) {}
  int other_only() const { g_trace = 24; return _o ^ 0x55; }
public:
  int _o;
};
class Derived : public Base, public Other {
PUBLISHED:
  Derived(int b, int o, int d) : Base(b), Other(o), _d(d) {}
  virtual int who() const { g_trace = 25; return _d ^ 0x200; }
  Derived operator + (const Derived &r) const { g_trace = 26; return Derived(_b ^ r._b, _o ^ r._o, _d ^ (r._d << 1)); }
  Derived operator - () const { g_trace = 27; return Derived(~_b, ~_o, ~_d); }
  operator int () const { g_trace = 28; return _d ^ _b; }
  int take_value(Derived v) const { g_trace = 29; return v._d ^ (_d << 2); }
  int take_ref(Base &b) const { g_trace = 30; b._b ^= 0x77; return b.who(); }
  int take_ptr(Other *o) const { g_trace = 31; if (o == 0) return -1; o->_o += 1; return o->_o; }
public:
  int _d;
};
#endif
