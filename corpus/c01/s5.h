// C01 corpus 5: std::string results by value and by reference (under -string they cross the wrapper as C strings /
// Python strings, without truncation and without staleness), by-value class arguments that own a resource.
#ifndef S5_H
#define S5_H
#ifdef CPPPARSER
#define PUBLISHED __published
#else
#define PUBLISHED public
#endif
#include <string>
#include <vector>
extern int g_trace;
class Path {
PUBLISHED:
  Path(int a, int b) { _pts.push_back(a); _pts.push_back(b); }
  int size() const { g_trace = 80; return (int)_pts.size(); }
  int first() const { g_trace = 81; return _pts.empty() ? -1 : _pts[0]; }
public:
  std::vector<int> _pts;
};
class Route {
PUBLISHED:
  Route(int n) : _n(n) {}
  int append(Path p) { g_trace = 82; _n ^= p.first(); return p.size() ^ _n; }
  int weigh(const Path &p, int k) const { g_trace = 83; return p.first() ^ (k << 2) ^ _n; }
  std::string label() const { g_trace = 84; return _label; }
  const std::string &label_ref() const { g_trace = 85; return _label; }
  int label_size() const { g_trace = 86; return (int)_label.size(); }
public:
  Route(int n, char c0, char c1) : _n(n) { _label.push_back(c0); _label.push_back(c1); }
  int _n;
  std::string _label;
};
#endif
