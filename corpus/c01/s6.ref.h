// Reference calls for corpus s6.h.
//OPTIONS c_fnames,c_string_fnames,c,py_string_fnames,py_fnames,py,c_string,c_fnames_fptrs,c_fnames_uniq,c_fnames_nodb,c_true_names
int g_trace;
static Grid *verif_make_Grid() { Grid *g = new Grid(nondet_int()); for (int i = 0; i < 3; i++) g->marks[i] = nondet_int(); return g; }
static Grid *verif_clone_Grid(const Grid *a) { Grid *g = new Grid(a->_n); for (int i = 0; i < 3; i++) g->marks[i] = a->marks[i]; return g; }
static bool verif_same_Grid(const Grid *a, const Grid *b) { return a->_n == b->_n && a->marks[0] == b->marks[0] && a->marks[1] == b->marks[1] && a->marks[2] == b->marks[2]; }
//REF Grid::Grid(Grid const *)
static Grid *ref_Grid_copy(Grid const *o) { return new Grid(*o); }
//REF Grid::Grid(int)
static Grid *ref_Grid_int(int n) { return new Grid(n); }
//REF Grid::sum(Grid const *)
static int ref_Grid_sum(Grid const *t) { return t->sum(); }
//REF Grid::set_marks(Grid *,int [3])
static void ref_Grid_set_marks(Grid *t, int v[3]) { for (int i = 0; i < 3; i++) t->marks[i] = v[i]; }
