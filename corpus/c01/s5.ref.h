//OPTIONS c_fnames,c_string_fnames,c,py_string_fnames,py_fnames,py,c_string,c_fnames_fptrs,c_fnames_uniq,c_fnames_nodb,c_true_names
// Reference calls for corpus s5.h.
int g_trace;
static Path *verif_make_Path() { int a = nondet_int(), b = nondet_int(); return new Path(a, b); }
static Path *verif_clone_Path(const Path *p) { Path *q = new Path(0, 0); q->_pts = p->_pts; return q; }
static bool verif_same_Path(const Path *a, const Path *b) {
  if (a->_pts.size() != b->_pts.size()) return false;
  for (size_t i = 0; i < 2; i++) if (i < a->_pts.size() && a->_pts[i] != b->_pts[i]) return false;
  return true;
}
// labels are 2-byte ASCII strings whose bytes are symbolic and may be NUL (concrete length: a symbolic std::string
// length makes every later string operation expensive for the solver)
static Route *verif_make_Route() {
  int n = nondet_int(); char c0 = nondet_char(), c1 = nondet_char();
  ASSUME(c0 >= 0 && c1 >= 0);
  return new Route(n, c0, c1);
}
static Route *verif_clone_Route(const Route *a) { return new Route(a->_n, a->_label[0], a->_label[1]); }
static bool verif_same_Route(const Route *a, const Route *b) {
  if (a->_n != b->_n || a->_label.size() != b->_label.size()) return false;
  for (size_t i = 0; i < 2; i++) if (i < a->_label.size() && a->_label[i] != b->_label[i]) return false;
  return true;
}
//REF Path::Path(Path const *)
static Path *ref_Path_copy(Path const *o) { return new Path(*o); }
//REF Path::Path(int,int)
static Path *ref_Path_ii(int a, int b) { return new Path(a, b); }
//REF Path::size(Path const *)
static int ref_Path_size(Path const *t) { return t->size(); }
//REF Path::first(Path const *)
static int ref_Path_first(Path const *t) { return t->first(); }
//REF Route::Route(Route const *)
static Route *ref_Route_copy(Route const *o) { return new Route(*o); }
//REF Route::Route(int)
static Route *ref_Route_int(int n) { return new Route(n); }
//REF Route::append(Route *,Path *)
static int ref_Route_append(Route *t, Path *p) { return t->append(*p); }
//REF Route::weigh(Route const *,Path const *,int)
static int ref_Route_weigh(Route const *t, Path const *p, int k) { return t->weigh(*p, k); }
//OPTIONAL Route::label(Route const *) : *
//REF Route::label(Route const *)
static std::string ref_Route_label(Route const *t) { return t->label(); }
//OPTIONAL Route::label_ref(Route const *) : *
//REF Route::label_ref(Route const *)
static std::string ref_Route_label_ref(Route const *t) { return t->label_ref(); }
//REF Route::label_size(Route const *)
static int ref_Route_label_size(Route const *t) { return t->label_size(); }
