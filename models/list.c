/* std::list support functions of libstdc++ (list.cc): node hooking with the real node layout {next, prev}. */
#include <stdint.h>
struct lnb { struct lnb *next, *prev; };
void _ZNSt8__detail15_List_node_base7_M_hookEPS0_(void *self, void *pos) {
  struct lnb *n = self, *p = pos;
  n->next = p;
  n->prev = p->prev;
  p->prev->next = n;
  p->prev = n;
}
void _ZNSt8__detail15_List_node_base9_M_unhookEv(void *self) {
  struct lnb *n = self;
  struct lnb *nx = n->next, *pv = n->prev;
  pv->next = nx;
  nx->prev = pv;
}
