/* std::list support functions (libstdc++ std::__detail::_List_node_base), real node layout {next, prev}.
 * Referenced with models=['list.c']. */
#include <stdint.h>
struct ll_lnode { struct ll_lnode *next, *prev; };
/* insert this node before pos */
void _ZNSt8__detail15_List_node_base7_M_hookEPS0_(void *self, void *pos) {
  struct ll_lnode *n = self, *p = pos;
  n->next = p;
  n->prev = p->prev;
  p->prev->next = n;
  p->prev = n;
}
void _ZNSt8__detail15_List_node_base9_M_unhookEv(void *self) {
  struct ll_lnode *n = self;
  struct ll_lnode *nx = n->next, *pv = n->prev;
  pv->next = nx;
  nx->prev = pv;
}
/* move [first, last) before this node */
void _ZNSt8__detail15_List_node_base11_M_transferEPS0_S1_(void *self, void *first, void *last) {
  struct ll_lnode *pos = self, *f = first, *l = last;
  if (pos != l) {
    l->prev->next = pos;
    f->prev->next = l;
    pos->prev->next = f;
    struct ll_lnode *tmp = pos->prev;
    pos->prev = l->prev;
    l->prev = f->prev;
    f->prev = tmp;
  }
}
