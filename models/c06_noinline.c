/* (owner: C06 harnesses) std::ostream::operator<<(integer) stays out of line when a TU is lowered with -fno-inline:
 * wrappers of _M_insert<T>, which models/stream.c models.  Use together with models/noinline.c. */
#include <stdint.h>
void *_ZNSo9_M_insertIlEERSoT_(void *o, uint64_t v);
void *_ZNSo9_M_insertImEERSoT_(void *o, uint64_t v);
void *_ZNSo9_M_insertIxEERSoT_(void *o, uint64_t v);
void *_ZNSo9_M_insertIyEERSoT_(void *o, uint64_t v);
void *_ZNSo9_M_insertIbEERSoT_(void *o, _Bool v);
void *_ZNSolsEl(void *o, uint64_t v) { return _ZNSo9_M_insertIlEERSoT_(o, v); }
void *_ZNSolsEm(void *o, uint64_t v) { return _ZNSo9_M_insertImEERSoT_(o, v); }
void *_ZNSolsEx(void *o, uint64_t v) { return _ZNSo9_M_insertIxEERSoT_(o, v); }
void *_ZNSolsEy(void *o, uint64_t v) { return _ZNSo9_M_insertIyEERSoT_(o, v); }
void *_ZNSolsEb(void *o, _Bool v) { return _ZNSo9_M_insertIbEERSoT_(o, v); }
