/* std::istream / std::ostream environment model.
 *
 * A stream is a TOKEN sequence: CHAR tokens (one byte each) and INT tokens
 * (one whole integer, kept symbolic at full width; decimal text is not
 * produced because /10 digit loops stall SAT back ends).  Because a real
 * decimal reader could not split "12" "34" written back to back, the model
 * records a *format error* whenever an INT token becomes adjacent to another
 * INT token or to a digit/sign CHAR; harnesses assert vs_format_error()==0.
 *
 * Object layout seen by header-inlined libstdc++ code (fail(), eof(), good(),
 * operator!, std::endl):  object = { vptr, [gcount,] basic_ios[264] } where
 * vptr[-3] is the virtual-base offset, the state word is at ios+32 and the
 * ctype pointer at ios+240.  The model's own state hangs off ios+232 (the
 * _M_streambuf slot).
 *
 * Fault injection (C19): a stream may be armed so that any insertion, flush or
 * close can nondeterministically fail (badbit) -- see vs_arm_faults().
 */
#include <stdint.h>
#include <stdlib.h>

#ifndef VS_CAP
#define VS_CAP 48
#endif
#define VS_EOF 2
#define VS_FAIL 4
#define VS_BAD 1

_Bool nondet_bool(void);
extern int vs_any_lost;

struct vs_tok { uint8_t kind; uint8_t fits32; int64_t v; };          /* kind 0 = CHAR, 1 = INT; fits32: INT known to be in int range */
struct vs_buf { struct vs_tok t[VS_CAP]; int n; int format_error; int overflow; };
struct vs_state { struct vs_buf *buf; int rpos; int sink; int faulty; int lost; int writes; int flushed; int closed; int is_open; int dirty; };
struct vs_ctype { uint8_t pad[56]; uint8_t widen_ok; uint8_t widen[256]; uint8_t narrow_ok; };
/* mirror of std::basic_ios<char> (264 bytes): state word at +32, _M_streambuf at +232, _M_ctype at +240 */
struct vs_ios { uint8_t pad0[32]; uint32_t state; uint8_t pad1[196]; struct vs_state *st; struct vs_ctype *ctype; uint8_t pad2[16]; };
struct vs_obj { void *vptr; int64_t gcount; struct vs_ios ios; };        /* vbase offset 16 */
struct vs_obj8 { void *vptr; struct vs_ios ios; };                        /* std::cout/cerr: vbase offset 8 */

/* slots are pointers (null + offset): ll2c reads the virtual-base offset as __CPROVER_POINTER_OFFSET(slot), which
   constant-folds for null+k but not for an integer cast to a pointer */
static void *vs_vtable[8] = {(char *)0 + 16, 0, 0, 0, 0, 0, 0, 0};     /* slot -3 = vbase offset 16 */
static void *vs_vtable8[8] = {(char *)0 + 8, 0, 0, 0, 0, 0, 0, 0};
#define R16(b) b+0,b+1,b+2,b+3,b+4,b+5,b+6,b+7,b+8,b+9,b+10,b+11,b+12,b+13,b+14,b+15
static struct vs_ctype vs_the_ctype = { {0}, 1, { R16(0), R16(16), R16(32), R16(48), R16(64), R16(80), R16(96), R16(112),
  R16(128), R16(144), R16(160), R16(176), R16(192), R16(208), R16(224), R16(240) }, 0 };

/* static pools: streams are created in a concrete order, so every index below is a constant for the solver */
/* symbolic execution cost grows with the pool sizes: a harness may shrink them with cbmc_flags -DVS_NOBJ=.. -DVS_NBUF=.. */
#ifndef VS_NOBJ
#define VS_NOBJ 16
#endif
#ifndef VS_NBUF
#define VS_NBUF 6
#endif
static struct vs_obj vs_objs[VS_NOBJ];
static struct vs_state vs_states[VS_NOBJ + 3];
static struct vs_buf vs_bufs[VS_NBUF];
static int vs_nobj, vs_nstate, vs_nbuf;

static struct vs_ios *vs_ios(void *obj) {
  void *vp = *(void **)obj;
  if (vp == (void *)&vs_vtable8[3]) return &((struct vs_obj8 *)obj)->ios;
  if (vp == (void *)&vs_vtable[3]) return &((struct vs_obj *)obj)->ios;
  /* compiler-laid-out stream object (std::ofstream, std::ostringstream ... on the stack of real code): the
     virtual-base offset is in slot -3 of the real vtable symbol, which __ll2c_global_ctors fills in */
  int64_t off = (int64_t)__CPROVER_POINTER_OFFSET(((uint8_t **)vp)[-3]);
  return (struct vs_ios *)((uint8_t *)obj + off);
}
static struct vs_state *vs_st(void *obj) { return vs_ios(obj)->st; }
static uint32_t vs_getstate(void *obj) { return vs_ios(obj)->state; }
static void vs_setstate(void *obj, uint32_t add) { vs_ios(obj)->state |= add; }

static struct vs_buf *vs_new_buf(void) {
  __CPROVER_assert(vs_nbuf < VS_NBUF, "model: too many stream buffers");
  struct vs_buf *b = &vs_bufs[vs_nbuf++];
  b->n = 0; b->format_error = 0; b->overflow = 0;
  return b;
}
static struct vs_state *vs_new_state(struct vs_buf *b) {
  __CPROVER_assert(vs_nstate < VS_NOBJ + 3, "model: too many streams");
  struct vs_state *st = &vs_states[vs_nstate++];
  st->buf = b; st->rpos = 0; st->sink = 0; st->faulty = 0; st->lost = 0; st->writes = 0; st->flushed = 0; st->closed = 0; st->is_open = 1; st->dirty = 0;
  return st;
}
static struct vs_obj *vs_new_obj(struct vs_buf *b) {
  __CPROVER_assert(vs_nobj < VS_NOBJ, "model: too many streams");
  struct vs_obj *o = &vs_objs[vs_nobj++];
  o->vptr = &vs_vtable[3];
  o->gcount = 0;
  o->ios.state = 0;
  o->ios.st = vs_new_state(b);
  o->ios.ctype = &vs_the_ctype;
  return o;
}

/* ---- harness API ---- */
void *vs_ostream_new(void) { return vs_new_obj(vs_new_buf()); }
void *vs_istream_of(void *o) { return vs_new_obj(vs_st(o)->buf); }
void *vs_istream_bytes(void *bytes, uint32_t n) {
  struct vs_obj *o = vs_ostream_new();
  struct vs_buf *b = vs_st(o)->buf;
  const uint8_t *p = bytes;
  __CPROVER_assert(n <= VS_CAP, "model: stream capacity exceeded");
  for (uint32_t i = 0; i < n && i < VS_CAP; i++) { b->t[i].kind = 0; b->t[i].v = p[i]; }
  b->n = n;
  return o;
}
/* a sink swallows output (diagnostics on cerr/cout) */
void *vs_ostream_sink(void) { struct vs_obj *o = vs_ostream_new(); vs_st(o)->sink = 1; return o; }
uint32_t vs_ntokens(void *o) { return vs_st(o)->buf->n; }
uint32_t vs_tok_kind(void *o, uint32_t i) { return vs_st(o)->buf->t[i].kind; }
uint64_t vs_tok_val(void *o, uint32_t i) { return vs_st(o)->buf->t[i].v; }
uint32_t vs_format_error(void *o) { return vs_st(o)->buf->format_error; }
uint32_t vs_rpos(void *i) { return vs_st(i)->rpos; }
_Bool vs_at_end(void *i) { struct vs_state *s = vs_st(i); return s->rpos >= s->buf->n; }
void vs_truncate(void *o, uint32_t n) { struct vs_buf *b = vs_st(o)->buf; if ((int)n < b->n) b->n = n; }
_Bool vs_same_output(void *a, void *b) {
  struct vs_buf *x = vs_st(a)->buf, *y = vs_st(b)->buf;
  if (x->n != y->n) return 0;
  for (int i = 0; i < VS_CAP; i++) {
    if (i < x->n && (x->t[i].kind != y->t[i].kind || x->t[i].v != y->t[i].v)) return 0;
  }
  return 1;
}
void vs_arm_faults(void *o) { vs_st(o)->faulty = 1; }
uint32_t vs_lost(void *o) { return vs_st(o)->lost; }

/* std::cout / std::cerr / std::clog: {vptr, basic_ios}; called from __ll2c_global_ctors */
void vs_init_std_stream(void *obj) {
  struct vs_obj8 *o = obj;
  struct vs_state *st = vs_new_state(0);
  st->sink = 1;
  o->vptr = &vs_vtable8[3];
  o->ios.state = 0;
  o->ios.st = st;
  o->ios.ctype = &vs_the_ctype;
}

/* ---- output ---- */
static _Bool vs_is_numch(int64_t c) { return (c >= '0' && c <= '9') || c == '-' || c == '+'; }

/* set while an `int`/`short`/`bool` is inserted: its token is in int range by construction, which `>> int` uses to skip
   the overflow check (a symbolic check would make the fail bit, and with it every later stream position, symbolic) */
static _Bool vs_hint32;
static void vs_put_tok(void *o, uint8_t kind, int64_t v) {
  struct vs_ios *ios = vs_ios(o);
  struct vs_state *s = ios->st;
  if (ios->state & (VS_BAD | VS_FAIL)) { s->lost = 1; if (s->faulty) vs_any_lost = 1; return; }   /* insertion on a failed stream is dropped */
  if (s->faulty && nondet_bool()) { ios->state |= VS_BAD; s->lost = 1; vs_any_lost = 1; return; }
  s->writes++;
  s->dirty = 1;
  if (s->sink) return;
  struct vs_buf *b = s->buf;
  int n = b->n;
  if (n >= VS_CAP) { b->overflow = 1; __CPROVER_assert(0, "model: stream capacity exceeded"); __CPROVER_assume(0); }
  if (n > 0) {
    struct vs_tok p = b->t[n - 1];
    if (kind == 1 && (p.kind == 1 || vs_is_numch(p.v))) b->format_error = 1;
    if (kind == 0 && p.kind == 1 && vs_is_numch(v)) b->format_error = 1;
  }
  b->t[n].kind = kind;
  b->t[n].fits32 = vs_hint32 || (kind == 1 && v >= -2147483647 - 1 && v <= 2147483647);
  b->t[n].v = v;
  b->n = n + 1;
}

void *_ZNSolsEi(void *o, uint32_t v) { vs_hint32 = 1; vs_put_tok(o, 1, (int32_t)v); vs_hint32 = 0; return o; }
void *_ZNSolsEj(void *o, uint32_t v) { vs_put_tok(o, 1, (int64_t)v); return o; }
void *_ZNSolsEs(void *o, uint16_t v) { vs_hint32 = 1; vs_put_tok(o, 1, (int16_t)v); vs_hint32 = 0; return o; }
void *_ZNSo9_M_insertIlEERSoT_(void *o, uint64_t v) { vs_put_tok(o, 1, (int64_t)v); return o; }
void *_ZNSo9_M_insertImEERSoT_(void *o, uint64_t v) { vs_put_tok(o, 1, (int64_t)v); return o; }
void *_ZNSo9_M_insertIxEERSoT_(void *o, uint64_t v) { vs_put_tok(o, 1, (int64_t)v); return o; }
void *_ZNSo9_M_insertIyEERSoT_(void *o, uint64_t v) { vs_put_tok(o, 1, (int64_t)v); return o; }
void *_ZNSo9_M_insertIbEERSoT_(void *o, _Bool v) { vs_hint32 = 1; vs_put_tok(o, 1, v); vs_hint32 = 0; return o; }
void *_ZNSo9_M_insertIPKvEERSoT_(void *o, void *v) { vs_put_tok(o, 1, 0); return o; }
/* doubles: token kind INT with the bit pattern is not meaningful as text; harnesses that print doubles use sinks */
void *_ZNSo9_M_insertIdEERSoT_(void *o, double v) { vs_put_tok(o, 1, 0); return o; }
void *_ZNSo9_M_insertIeEERSoT_(void *o, long double v) { vs_put_tok(o, 1, 0); return o; }
void *_ZNSo3putEc(void *o, uint8_t c) { vs_put_tok(o, 0, c); return o; }
void *_ZSt16__ostream_insertIcSt11char_traitsIcEERSt13basic_ostreamIT_T0_ES6_PKS3_l(void *o, void *s, uint64_t n) {
  const uint8_t *p = s;
  { /* fast path, same effect as the loop below: a fault-free sink (or an already failed fault-free stream) takes the whole run at once */
    struct vs_ios *ios = vs_ios(o);
    struct vs_state *st = ios->st;
    if (n > 0 && !st->faulty) {
      if (ios->state & (VS_BAD | VS_FAIL)) { st->lost = 1; return o; }
      if (st->sink) { st->writes += (int)n; st->dirty = 1; return o; }
    }
  }
  for (uint64_t i = 0; i < n; i++) vs_put_tok(o, 0, p[i]);
  return o;
}
void *_ZStlsISt11char_traitsIcEERSt13basic_ostreamIcT_ES5_PKc(void *o, void *s) {
  const uint8_t *p = s;
  if (!p) { vs_setstate(o, VS_BAD); return o; }
  for (uint64_t i = 0; p[i]; i++) vs_put_tok(o, 0, p[i]);
  return o;
}
void *_ZStlsISt11char_traitsIcEERSt13basic_ostreamIcT_ES5_c(void *o, uint8_t c) { vs_put_tok(o, 0, c); return o; }
struct vs_string { uint8_t *p; uint64_t len; uint8_t buf[16]; };
void *_ZStlsIcSt11char_traitsIcESaIcEERSt13basic_ostreamIT_T0_ES7_RKNSt7__cxx1112basic_stringIS4_S5_T1_EE(void *o, void *sv) {
  struct vs_string *s = sv;
  for (uint64_t i = 0; i < s->len; i++) vs_put_tok(o, 0, s->p[i]);
  return o;
}
void *_ZNSo5writeEPKcl(void *o, void *s, uint64_t n) {
  const uint8_t *p = s;
  for (uint64_t i = 0; i < n; i++) vs_put_tok(o, 0, p[i]);
  return o;
}
void *_ZNSo5flushEv(void *o) {
  struct vs_state *s = vs_st(o);
  if (s->faulty && s->dirty && nondet_bool()) { vs_setstate(o, VS_BAD); s->lost = 1; vs_any_lost = 1; }
  else s->dirty = 0;
  s->flushed = 1;
  return o;
}

/* ---- basic_ios ---- */
void _ZNSt9basic_iosIcSt11char_traitsIcEE5clearESt12_Ios_Iostate(void *ios, uint32_t st) { ((struct vs_ios *)ios)->state = st; }
void _ZNKSt5ctypeIcE13_M_widen_initEv(void *c) { }
void _ZSt16__throw_bad_castv(void) { __CPROVER_assert(0, "crash: uncaught std::bad_cast"); __CPROVER_assume(0); }

/* ---- input ---- */
static _Bool vs_is_space(int64_t c) { return c == ' ' || (c >= 9 && c <= 13); }

uint32_t _ZNSi3getEv(void *i) {
  struct vs_ios *ios = vs_ios(i);
  struct vs_state *s = ios->st;
  struct vs_buf *b = s->buf;
  ((struct vs_obj *)i)->gcount = 0;
  if (ios->state != 0) { ios->state |= VS_FAIL; return (uint32_t)-1; }
  int pos = s->rpos;
  if (pos >= b->n) { ios->state |= VS_EOF | VS_FAIL; return (uint32_t)-1; }
  struct vs_tok t = b->t[pos];
  if (t.kind != 0) { __CPROVER_assert(0, "desync: character-level get() hits an integer token (reader out of step with the writer)"); __CPROVER_assume(0); }
  s->rpos = pos + 1;
  ((struct vs_obj *)i)->gcount = 1;
  return (uint32_t)(uint8_t)t.v;
}
void *_ZNSi3getERc(void *i, void *c) {
  uint32_t r = _ZNSi3getEv(i);
  if (r != (uint32_t)-1) *(uint8_t *)c = (uint8_t)r;
  return i;
}
uint32_t _ZNSi4peekEv(void *i) {
  struct vs_ios *ios = vs_ios(i);
  struct vs_state *s = ios->st;
  struct vs_buf *b = s->buf;
  ((struct vs_obj *)i)->gcount = 0;
  if (ios->state != 0) return (uint32_t)-1;
  int pos = s->rpos;
  if (pos >= b->n) { ios->state |= VS_EOF; return (uint32_t)-1; }
  struct vs_tok t = b->t[pos];
  if (t.kind != 0) { __CPROVER_assert(0, "desync: character-level peek() hits an integer token (reader out of step with the writer)"); __CPROVER_assume(0); }
  return (uint32_t)(uint8_t)t.v;
}
void *_ZNSi5ungetEv(void *i) {
  struct vs_state *s = vs_st(i);
  ((struct vs_obj *)i)->gcount = 0;
  vs_ios(i)->state &= ~(uint32_t)VS_EOF;
  if (vs_getstate(i) != 0) { vs_setstate(i, VS_FAIL); return i; }
  if (s->rpos > 0) s->rpos--; else vs_setstate(i, VS_BAD);
  return i;
}
void *_ZNSi7putbackEc(void *i, uint8_t c) { return _ZNSi5ungetEv(i); }

/* libstdc++ leaves the target of operator>> UNTOUCHED when the sentry fails (stream not good on entry, or end of input
   reached while skipping whitespace); a failed parse stores 0, an overflow stores the clamped value */
static _Bool vs_sentry_ok;
static void *vs_read_int(void *i, int64_t *out, int64_t lo, int64_t hi) {
  vs_sentry_ok = 0;
  struct vs_ios *ios = vs_ios(i);
  struct vs_state *s = ios->st;
  struct vs_buf *b = s->buf;
  if (ios->state != 0) { ios->state |= VS_FAIL; return i; }
  int pos = s->rpos;
  int n = b->n;
  while (pos < n && b->t[pos].kind == 0 && vs_is_space(b->t[pos].v)) pos++;
  if (pos >= n) { *out = 0; s->rpos = pos; ios->state |= VS_EOF | VS_FAIL; return i; }
  vs_sentry_ok = 1;
  struct vs_tok t = b->t[pos];
  int64_t v = 0;
  if (t.kind == 1) {
    pos++;
    v = t.v;
  } else {
    /* byte mode: [+-]digits, at most 10 digits (longer runs are outside the model) */
    int nd = 0; _Bool neg = 0;
    if (t.v == '-' || t.v == '+') {
      neg = (t.v == '-');
      if (pos + 1 < n && b->t[pos + 1].kind == 0 && b->t[pos + 1].v >= '0' && b->t[pos + 1].v <= '9') pos++;
      else { *out = 0; s->rpos = pos; ios->state |= VS_FAIL; return i; }
    }
    while (pos < n && b->t[pos].kind == 0 && b->t[pos].v >= '0' && b->t[pos].v <= '9') {
      __CPROVER_assume(nd < 10);
      v = v * 10 + (b->t[pos].v - '0');
      nd++; pos++;
    }
    if (nd == 0) { *out = 0; s->rpos = pos; ios->state |= VS_FAIL; return i; }
    if (neg) v = -v;
  }
  s->rpos = pos;
  if (t.kind == 1 && t.fits32 && lo <= -2147483647 - 1 && hi >= 2147483647) *out = v;   /* inserted from an int: in range */
  else if (v < lo) { *out = lo; ios->state |= VS_FAIL; }
  else if (v > hi) { *out = hi; ios->state |= VS_FAIL; }
  else *out = v;
  if (pos >= n) ios->state |= VS_EOF;
  return i;
}
void *_ZNSirsERi(void *i, void *p) { int64_t v = 0; vs_read_int(i, &v, -2147483647 - 1, 2147483647); if (vs_sentry_ok) *(int32_t *)p = (int32_t)v; return i; }
void *_ZNSirsERj(void *i, void *p) { int64_t v = 0; vs_read_int(i, &v, 0, 4294967295LL); if (vs_sentry_ok) *(uint32_t *)p = (uint32_t)v; return i; }
void *_ZNSi10_M_extractIlEERSiRT_(void *i, void *p) { int64_t v = 0; vs_read_int(i, &v, INT64_MIN, INT64_MAX); if (vs_sentry_ok) *(int64_t *)p = v; return i; }
void *_ZNSi10_M_extractImEERSiRT_(void *i, void *p) { int64_t v = 0; vs_read_int(i, &v, 0, INT64_MAX); if (vs_sentry_ok) *(int64_t *)p = v; return i; }


/* ---- compiler-laid-out file and string streams (std::ofstream / std::ifstream / std::ostringstream objects that
 * real code constructs itself).  Their constructors are header-inlined: they call ios_base(), basic_ios::init(),
 * basic_filebuf(), locale() and store vptrs taken from the real vtable symbols; __ll2c_global_ctors stores the
 * virtual-base offsets into those symbols (ofstream 248, ifstream 256, ostringstream 112, istringstream 120).
 *
 * Fault model (C19): when vs_fault_mode is set, filebuf::open may fail, and every insertion, flush and close of a
 * file stream may fail (badbit / null return).  vs_any_lost records that some requested output lost data:
 * open failed, an insertion failed, or buffered data could not be written at flush/close (explicit or in the
 * destructor). */
int vs_fault_mode;
int vs_any_lost;
int vs_open_calls;
int vs_open_ok;
uint32_t vs_get_open_ok(void) { return vs_open_ok; }
void vs_set_fault_mode(uint32_t m) { vs_fault_mode = m; }
uint32_t vs_get_any_lost(void) { return vs_any_lost; }

void _ZNSt8ios_baseC2Ev(void *ios) { }
void _ZNSt8ios_baseD2Ev(void *ios) { }
void _ZNSt6localeC1Ev(void *l) { }
void _ZNSt6localeD1Ev(void *l) { }
void _ZNSt13basic_filebufIcSt11char_traitsIcEEC1Ev(void *fb) { }
void _ZNSt12__basic_fileIcED1Ev(void *f) { }
void _ZNSt9basic_iosIcSt11char_traitsIcEE4initEPSt15basic_streambufIcS1_E(void *iosv, void *sb) {
  struct vs_ios *ios = iosv;
  struct vs_state *st = vs_new_state(0);
  st->sink = 1;              /* contents of compiler-laid-out streams are not recorded, only the write/fault history */
  ios->state = sb ? 0 : VS_BAD;
  ios->st = st;
  ios->ctype = &vs_the_ctype;
}
/* filebuf lives 240 bytes before the basic_ios subobject in both std::ofstream (8/248) and std::ifstream (16/256) */
void *_ZNSt13basic_filebufIcSt11char_traitsIcEE4openEPKcSt13_Ios_Openmode(void *fb, void *name, uint32_t mode) {
  struct vs_ios *ios = (struct vs_ios *)((uint8_t *)fb + 240);
  struct vs_state *st = ios->st;
  vs_open_calls++;
  if (vs_fault_mode) {
    st->faulty = 1;
    if (nondet_bool()) { st->is_open = 0; if (mode & 16) vs_any_lost = 1; return 0; }   /* ios_base::out == 16 */
  }
  st->is_open = 1;
  st->closed = 0;
  if (mode & 16) vs_open_ok++;
  return fb;
}
void *_ZNSt13basic_filebufIcSt11char_traitsIcEE5closeEv(void *fb) {
  struct vs_ios *ios = (struct vs_ios *)((uint8_t *)fb + 240);
  struct vs_state *st = ios->st;
  if (!st->is_open) return 0;
  st->is_open = 0;
  st->closed = 1;
  if (st->faulty && st->dirty && nondet_bool()) { vs_any_lost = 1; st->lost = 1; return 0; }
  st->dirty = 0;
  return fb;
}


/* ---- std::ostringstream as an opaque object ---------------------------------------------------------------------
 * For TUs compiled with -fno-inline (tuflags) the constructor, destructor and str() of std::ostringstream are
 * calls to the explicit instantiations in libstdc++, modelled here: the object is {vptr, stringbuf[104],
 * basic_ios} with virtual-base offset 112 (typed model vtable, so the offset constant-propagates), insertions
 * record tokens as for every other stream, and str() renders them: CHAR tokens as bytes, INT tokens in decimal
 * (only values in [0, 99999] are inside the model).  The result must fit the small-string buffer (15 bytes).
 * String streams are stack objects: the destructor gives the state and buffer back when they are the newest. */
static void *vs_vtable112[8] = {(char *)0 + 112, 0, 0, 0, 0, 0, 0, 0};
void _ZNSt7__cxx1119basic_ostringstreamIcSt11char_traitsIcESaIcEEC1Ev(void *o) {
  struct vs_ios *ios = (struct vs_ios *)((uint8_t *)o + 112);
  *(void **)o = &vs_vtable112[3];
  ios->state = 0;
  ios->st = vs_new_state(vs_new_buf());
  ios->ctype = &vs_the_ctype;
}
void _ZNSt7__cxx1119basic_ostringstreamIcSt11char_traitsIcESaIcEED1Ev(void *o) {
  struct vs_state *st = ((struct vs_ios *)((uint8_t *)o + 112))->st;
  if (vs_nstate > 0 && st == &vs_states[vs_nstate - 1]) {
    if (vs_nbuf > 0 && st->buf == &vs_bufs[vs_nbuf - 1]) vs_nbuf--;
    vs_nstate--;
  }
}
void _ZNKSt7__cxx1119basic_ostringstreamIcSt11char_traitsIcESaIcEE3strEv(void *ret, void *o) {
  struct vs_string *r = ret;
  struct vs_buf *b = ((struct vs_ios *)((uint8_t *)o + 112))->st->buf;
  uint64_t n = 0;
  r->p = r->buf;
  for (int i = 0; i < VS_CAP; i++) {
    if (i >= b->n) break;
    int64_t v = b->t[i].v;
    if (b->t[i].kind == 0) { if (n < 15) r->buf[n] = (uint8_t)v; n++; continue; }
    if (v < 0 || v > 99999) { __CPROVER_assert(0, "model: integer written to a string stream is outside [0, 99999]"); __CPROVER_assume(0); }
    if (v >= 10000) { if (n < 15) r->buf[n] = (uint8_t)('0' + v / 10000); n++; }
    if (v >= 1000) { if (n < 15) r->buf[n] = (uint8_t)('0' + v / 1000 % 10); n++; }
    if (v >= 100) { if (n < 15) r->buf[n] = (uint8_t)('0' + v / 100 % 10); n++; }
    if (v >= 10) { if (n < 15) r->buf[n] = (uint8_t)('0' + v / 10 % 10); n++; }
    if (n < 15) r->buf[n] = (uint8_t)('0' + v % 10);
    n++;
  }
  if (n > 15) { __CPROVER_assert(0, "model: ostringstream::str() longer than 15 bytes"); __CPROVER_assume(0); }
  r->buf[n] = 0;
  r->len = n;
}

/* out-of-line instances of the std::ofstream / std::ifstream members that are usually header-inlined (the compiler
 * keeps them out of line when they are called more than once): same behaviour as the libstdc++ inline code */
void _ZNSt14basic_ofstreamIcSt11char_traitsIcEE5closeEv(void *o) {
  if (!_ZNSt13basic_filebufIcSt11char_traitsIcEE5closeEv((uint8_t *)o + 8)) vs_ios(o)->state |= VS_FAIL;
}
void _ZNSt14basic_ifstreamIcSt11char_traitsIcEE5closeEv(void *o) {
  if (!_ZNSt13basic_filebufIcSt11char_traitsIcEE5closeEv((uint8_t *)o + 16)) vs_ios(o)->state |= VS_FAIL;
}
void _ZNSt14basic_ofstreamIcSt11char_traitsIcEE4openEPKcSt13_Ios_Openmode(void *o, void *name, uint32_t mode) {
  if (!_ZNSt13basic_filebufIcSt11char_traitsIcEE4openEPKcSt13_Ios_Openmode((uint8_t *)o + 8, name, mode | 16)) vs_ios(o)->state |= VS_FAIL;
  else vs_ios(o)->state = 0;
}
void _ZNSt14basic_ifstreamIcSt11char_traitsIcEE4openEPKcSt13_Ios_Openmode(void *o, void *name, uint32_t mode) {
  if (!_ZNSt13basic_filebufIcSt11char_traitsIcEE4openEPKcSt13_Ios_Openmode((uint8_t *)o + 16, name, mode | 8)) vs_ios(o)->state |= VS_FAIL;
  else vs_ios(o)->state = 0;
}

/* harness API: make a compiler-laid-out input stream (a std::ifstream constructed by the code under test, whose
 * open call the harness replaces) read the tokens written to the model ostream `src`. */
void vs_attach_input(void *stream, void *src) {
  struct vs_ios *ios = vs_ios(stream);
  struct vs_state *st = ios->st;
  st->buf = vs_st(src)->buf;
  st->rpos = 0;
  st->sink = 0;
  st->is_open = 1;
  ios->state = 0;
}
