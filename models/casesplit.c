/* Case split on a symbolic value (opt-in: models=['casesplit.c']).  A harness that must run code on CONSTANTS for each
 * value of a symbolic input writes   for (c = lo; c < hi; c++) if (verif_same(x, c)) { body(c); break; }
 * The comparison lives here, outside the compiler's view: if the harness compared `x == c` itself, clang would replace
 * c by x inside the branch (equality propagation) and the body would run on the symbolic value again. */
#include <stdint.h>
_Bool verif_same(uint32_t a, uint32_t b) { return a == b; }
