/* Environment models shared by all units: allocation, libc string functions,
 * libstdc++ throw helpers, process termination.  Pointer parameters are
 * void* because ll2c emits declared-only functions that way. */
#include <stdint.h>
#include <stddef.h>
#include <stdlib.h>
#include <string.h>

uint32_t verif_crash;

/* a crash (abort / uncaught exception / trap) is never acceptable for any of the
 * properties: it is reported as a failed assertion and the path ends */
#define CRASH(msg) do { verif_crash = 1; __CPROVER_assert(0, msg); __CPROVER_assume(0); } while (0)

void *_Znwm(uint64_t n) { void *p = malloc(n ? n : 1); __CPROVER_assume(p != 0); return p; }
void *_Znam(uint64_t n) { void *p = malloc(n ? n : 1); __CPROVER_assume(p != 0); return p; }
void _ZdlPv(void *p) { free(p); }
void _ZdaPv(void *p) { free(p); }
void _ZdlPvm(void *p, uint64_t n) { free(p); }
void *ll_malloc(uint64_t n) { void *p = malloc(n ? n : 1); __CPROVER_assume(p != 0); return p; }
void ll_free(void *p) { free(p); }

/* memcpy/memmove: clang lowers struct assignment and vector relocation to memcpy/memmove.  A byte-wise copy strips
 * CBMC's pointer provenance from every pointer inside the copied object, while copying characters as pointer-sized
 * chunks makes constant characters symbolic.  ll2c therefore chooses by the static type of the operands: objects that
 * contain pointers go through ll_memcpy_ptr/ll_memmove_ptr (8-byte chunks when size and offsets allow) or a typed
 * struct assignment; everything else (character data) is copied byte by byte. */
#define LL_CHUNKED(d, s, n) (((n) & 7) == 0 && (__CPROVER_POINTER_OFFSET(d) & 7) == 0 && (__CPROVER_POINTER_OFFSET(s) & 7) == 0)
void ll_memcpy(void *d, void *s, uint64_t n) {
  char *a = d; const char *b = s;
  for (uint64_t i = 0; i < n; i++) a[i] = b[i];
}
void ll_memmove(void *d, void *s, uint64_t n) {
  char *a = d; const char *b = s;
  if (!__CPROVER_same_object(d, s) || a <= b) { for (uint64_t i = 0; i < n; i++) a[i] = b[i]; }
  else { for (uint64_t i = n; i > 0; i--) a[i - 1] = b[i - 1]; }
}
void ll_memcpy_ptr(void *d, void *s, uint64_t n) {
  if (LL_CHUNKED(d, s, n)) {
    void **a = d; void **b = s;
    for (uint64_t i = 0; i < n / 8; i++) a[i] = b[i];
  } else {
    char *a = d; const char *b = s;
    for (uint64_t i = 0; i < n; i++) a[i] = b[i];
  }
}
void ll_memmove_ptr(void *d, void *s, uint64_t n) {
  if (LL_CHUNKED(d, s, n)) {
    void **a = d; void **b = s;
    if (!__CPROVER_same_object(d, s) || (char *)d <= (char *)s) { for (uint64_t i = 0; i < n / 8; i++) a[i] = b[i]; }
    else { for (uint64_t i = n / 8; i > 0; i--) a[i - 1] = b[i - 1]; }
  } else {
    char *a = d; const char *b = s;
    if (!__CPROVER_same_object(d, s) || a <= b) { for (uint64_t i = 0; i < n; i++) a[i] = b[i]; }
    else { for (uint64_t i = n; i > 0; i--) a[i - 1] = b[i - 1]; }
  }
}
void ll_memset(void *d, uint8_t c, uint64_t n) { if (n) memset(d, c, n); }

uint64_t ll_strlen(void *s) { const char *p = (const char *)s; uint64_t n = 0; while (p[n]) n++; return n; }
uint32_t ll_memcmp(void *a, void *b, uint64_t n) {
  const unsigned char *x = a, *y = b;
  for (uint64_t i = 0; i < n; i++) { if (x[i] != y[i]) return x[i] < y[i] ? (uint32_t)-1 : 1; }
  return 0;
}
uint32_t ll_bcmp(void *a, void *b, uint64_t n) { return ll_memcmp(a, b, n); }
void *ll_memchr(void *s, uint32_t c, uint64_t n) {
  unsigned char *p = s;
  for (uint64_t i = 0; i < n; i++) if (p[i] == (unsigned char)c) return p + i;
  return 0;
}
uint32_t ll_strcmp(void *a, void *b) {
  const unsigned char *x = a, *y = b; uint64_t i = 0;
  while (x[i] && x[i] == y[i]) i++;
  return x[i] == y[i] ? 0 : (x[i] < y[i] ? (uint32_t)-1 : 1);
}
void *ll_strchr(void *s, uint32_t c) {
  char *p = s; uint64_t i = 0;
  for (;; i++) { if (p[i] == (char)c) return p + i; if (!p[i]) return 0; }
}

void _ZSt24__throw_out_of_range_fmtPKcz(void *fmt, ...) { CRASH("crash: uncaught std::out_of_range"); }
void _ZSt20__throw_length_errorPKc(void *m) { CRASH("crash: uncaught std::length_error"); }
void _ZSt19__throw_logic_errorPKc(void *m) { CRASH("crash: uncaught std::logic_error"); }
void _ZSt17__throw_bad_allocv(void) { CRASH("crash: uncaught std::bad_alloc"); }
void _ZSt20__throw_out_of_rangePKc(void *m) { CRASH("crash: uncaught std::out_of_range"); }
void _ZSt28__throw_bad_array_new_lengthv(void) { CRASH("crash: bad_array_new_length"); }
void _ZSt25__throw_bad_function_callv(void) { CRASH("crash: bad_function_call"); }
void _ZSt21__glibcxx_assert_failPKciS0_S0_(void *f, uint32_t l, void *fn, void *c) { CRASH("crash: _GLIBCXX_ASSERTIONS failure (out-of-range operator[]/back()/front())"); }
void ll_abort(void) { CRASH("crash: abort()"); }
void ll_trap(void) { CRASH("crash: trap"); }
void __assert_fail(void *a, void *f, uint32_t l, void *fn) { CRASH("crash: assert()"); }
void __cxa_pure_virtual(void) { CRASH("crash: pure virtual call"); }
void _ZSt9terminatev(void) { CRASH("crash: std::terminate"); }

/* static-local guards and atexit */
uint32_t __cxa_guard_acquire(void *g) { return *(char *)g == 0; }
void __cxa_guard_release(void *g) { *(char *)g = 1; }
void __cxa_guard_abort(void *g) { }
uint32_t __cxa_atexit(void *f, void *a, void *d) { return 0; }
void _ZNSt8ios_base4InitC1Ev(void *p) { }
void _ZNSt8ios_base4InitD1Ev(void *p) { }

/* process exit: the code is recorded, the optional harness hook verif_at_exit() runs, the path ends */
uint32_t verif_exited, verif_exit_code;
void verif_at_exit(void);
void ll_exit(uint32_t code) { verif_exit_code = code; verif_exited = 1; verif_at_exit(); __CPROVER_assume(0); }
