/* std::string::_M_disjunct(const char *s): "s does not point into this string's buffer".  libstdc++ decides it by
 * relational comparison of unrelated pointers, which symbolic execution cannot fold (addresses of distinct objects have
 * no concrete order) and which then drags the overlap-handling slow path of _M_replace, with symbolic pointer
 * differences as lengths, into every assign(const char *).  Exact model: a pointer into another object is disjoint;
 * within one object the comparison is on offsets.  Use with tuflags=['-fno-inline'] and
 * cut=['_ZNKSt7__cxx1112basic_stringIcSt11char_traitsIcESaIcEE11_M_disjunctEPKc'], models=['strdisjunct.c']. */
#include <stdint.h>
_Bool _ZNKSt7__cxx1112basic_stringIcSt11char_traitsIcESaIcEE11_M_disjunctEPKc(void *self, void *s)
{
  char *data = *(char **)self;
  uint64_t size = *(uint64_t *)((char *)self + 8);
  if (__CPROVER_POINTER_OBJECT(s) != __CPROVER_POINTER_OBJECT(data)) return 1;
  return (char *)s < data || data + size < (char *)s;
}

/* std::allocator<char> is an empty class; with -fno-inline its (extern template) constructors/destructor stay calls */
void _ZNSaIcEC2Ev(void *a) { }
void _ZNSaIcEC2ERKS_(void *a, void *b) { }
void _ZNSaIcED2Ev(void *a) { }
void _ZNSaIcEC1Ev(void *a) { }
void _ZNSaIcEC1ERKS_(void *a, void *b) { }
void _ZNSaIcED1Ev(void *a) { }
