/* Used only by harness/c15_skip.cxx (catalogue entry c15_skip_angle).
 * CPPPreprocessor::get_next_token() as a cut point whose returned CPPToken is never looked at by the loops under test
 * (skip_to_angle_bracket / skip_to_end_nested discard it): the state transition is the harness's c15_skip_event(); the
 * token in the caller's return slot is left unconstructed and the matching destructor CPPToken::~CPPToken(), which those
 * loops run on the discarded temporary, is empty.  Any other use of the token (is_eof(), copies) is outside this model:
 * cppToken.cxx is not linked, so its functions are asserting auto-stubs. */
extern int c15_skip_event(void *pp);
void _ZN15CPPPreprocessor14get_next_tokenEv(void *ret, void *pp) { (void)ret; c15_skip_event(pp); }
void _ZN8CPPTokenD2Ev(void *tok) { (void)tok; }
void _ZN8CPPTokenD1Ev(void *tok) { (void)tok; }
