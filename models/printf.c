/* printf model (opt-in: models=['printf.c']).  Nothing is formatted; every call is recorded so that a harness can use
 * progress messages as an observation point: the format pointer and, when the format contains "%s", the first
 * VP_NCH bytes of the first variadic argument read as a C string.  Native counterpart: the harness defines printf
 * itself under VERIF_NATIVE (see harness/c16_order.cxx). */
#include <stdint.h>
#include <stdarg.h>
#ifndef VP_CAP
#define VP_CAP 8
#endif
#define VP_NCH 4
static uint8_t vp_chars[VP_CAP][VP_NCH];
static int vp_n;          /* number of recorded %s calls */
static int vp_calls;      /* number of all calls */

uint32_t ll_printf(void *fmt, ...) {
  const char *f = fmt;
  int has_s = 0;
  for (int i = 0; f[i]; i++) if (f[i] == '%' && f[i + 1] == 's') { has_s = 1; break; }
  vp_calls++;
  if (has_s) {
    va_list ap;
    va_start(ap, fmt);
    const uint8_t *s = va_arg(ap, const uint8_t *);
    va_end(ap);
    __CPROVER_assert(vp_n < VP_CAP, "model: printf capture capacity exceeded");
    if (vp_n < VP_CAP) {
      int ended = 0;
      for (int j = 0; j < VP_NCH; j++) {
        uint8_t c = ended ? 0 : s[j];
        if (c == 0) ended = 1;
        vp_chars[vp_n][j] = c;
      }
      vp_n++;
    }
  }
  return 0;
}
uint32_t vp_count(void) { return vp_n; }
uint32_t vp_char(uint32_t i, uint32_t j) { return vp_chars[i][j]; }
void vp_reset(void) { vp_n = 0; }
