/* libc environment: ASCII C-locale ctype, pow for the exact cases, misc. */
#include <stdint.h>
uint32_t ll_isspace(uint32_t c) { return c == ' ' || (c >= 9 && c <= 13); }
uint32_t ll_isdigit(uint32_t c) { return c >= '0' && c <= '9'; }
uint32_t ll_isalpha(uint32_t c) { return (c >= 'a' && c <= 'z') || (c >= 'A' && c <= 'Z'); }
uint32_t ll_isalnum(uint32_t c) { return ll_isalpha(c) || ll_isdigit(c); }
uint32_t ll_isupper(uint32_t c) { return c >= 'A' && c <= 'Z'; }
uint32_t ll_islower(uint32_t c) { return c >= 'a' && c <= 'z'; }
uint32_t ll_isxdigit(uint32_t c) { return ll_isdigit(c) || (c >= 'a' && c <= 'f') || (c >= 'A' && c <= 'F'); }
uint32_t ll_ispunct(uint32_t c) { return c > 32 && c < 127 && !ll_isalnum(c); }
uint32_t ll_isprint(uint32_t c) { return c >= 32 && c < 127; }
uint32_t ll_tolower(uint32_t c) { return (c >= 'A' && c <= 'Z') ? c + 32 : c; }
uint32_t ll_toupper(uint32_t c) { return (c >= 'a' && c <= 'z') ? c - 32 : c; }
uint32_t strncasecmp(void *a, void *b, uint64_t n) {
  const unsigned char *x = a, *y = b;
  for (uint64_t i = 0; i < n; i++) {
    uint32_t p = ll_tolower(x[i]), q = ll_tolower(y[i]);
    if (p != q) return p < q ? (uint32_t)-1 : 1;
    if (!p) return 0;
  }
  return 0;
}
uint32_t ll_strncmp(void *a, void *b, uint64_t n) {
  const unsigned char *x = a, *y = b;
  for (uint64_t i = 0; i < n; i++) {
    if (x[i] != y[i]) return x[i] < y[i] ? (uint32_t)-1 : 1;
    if (!x[i]) return 0;
  }
  return 0;
}
/* pow(10, e) is exact for integer e in 0..22; every other argument pair is outside the model */
static const double p10[23] = {1e0, 1e1, 1e2, 1e3, 1e4, 1e5, 1e6, 1e7, 1e8, 1e9, 1e10, 1e11, 1e12, 1e13, 1e14, 1e15,
                               1e16, 1e17, 1e18, 1e19, 1e20, 1e21, 1e22};
double ll_pow(double b, double e) {
  __CPROVER_assume(b == 10.0);
  for (int k = 0; k < 23; k++) if (e == (double)k) return p10[k];
  __CPROVER_assume(0);
  return 0;
}

/* the system strtod is outside the model: reaching it means a harness assumption is wrong */
double ll_strtod(void *s, void *e) { __CPROVER_assert(0, "model: system strtod reached (outside the model)"); __CPROVER_assume(0); return 0; }
