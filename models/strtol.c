/* strtol for bases 2..16 on NUL-terminated digit strings (optional 0x/0X prefix for base 16); no errno, no overflow
 * handling (callers pass short literals).  endptr is written when given. */
#include <stdint.h>
static int strtol_digit(uint8_t c) {
  if (c >= '0' && c <= '9') return c - '0';
  if (c >= 'a' && c <= 'z') return c - 'a' + 10;
  if (c >= 'A' && c <= 'Z') return c - 'A' + 10;
  return 99;
}
int64_t ll_strtol(void *s, void *endp, uint32_t base) {
  const uint8_t *p = (const uint8_t *)s;
  uint64_t i = 0;
  int neg = 0;
  while (p[i] == ' ' || p[i] == '\t' || p[i] == '\n') i++;
  if (p[i] == '-') { neg = 1; i++; } else if (p[i] == '+') i++;
  if (base == 16 && p[i] == '0' && (p[i + 1] == 'x' || p[i + 1] == 'X') && strtol_digit(p[i + 2]) < 16) i += 2;
  int64_t v = 0;
  while (strtol_digit(p[i]) < (int)base) { v = v * (int64_t)base + strtol_digit(p[i]); i++; }
  if (endp) *(uint8_t **)endp = (uint8_t *)p + i;
  return neg ? -v : v;
}
int64_t strtol(void *s, void *endp, uint32_t base) { return ll_strtol(s, endp, base); }
