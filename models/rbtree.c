/* std::_Rb_tree support functions (libstdc++ tree.cc) as a plain, unbalanced
 * binary search tree with the real node layout and the real header
 * maintenance (root / leftmost / rightmost).  The header-only code of
 * std::map / std::set relies on BST order, parent links and the header
 * convention only; balance is a performance property.  Every inserted node is
 * black so that _Rb_tree_decrement's "header is the red node whose
 * grandparent is itself" test keeps working. */
#include <stdint.h>
struct rbn { uint32_t color; struct rbn *parent, *left, *right; };

void _ZSt29_Rb_tree_insert_and_rebalancebPSt18_Rb_tree_node_baseS0_RS_(_Bool insert_left, void *xv, void *pv, void *hv) {
  struct rbn *x = xv, *p = pv, *header = hv;
  x->parent = p; x->left = 0; x->right = 0; x->color = 1; /* black */
  if (insert_left) {
    p->left = x;
    if (p == header) { header->parent = x; header->right = x; }
    else if (p == header->left) header->left = x;
  } else {
    p->right = x;
    if (p == header->right) header->right = x;
  }
}

static struct rbn *rb_inc(struct rbn *x) {
  if (x->right != 0) {
    x = x->right;
    while (x->left != 0) x = x->left;
  } else {
    struct rbn *y = x->parent;
    while (x == y->right) { x = y; y = y->parent; }
    if (x->right != y) x = y;
  }
  return x;
}
static struct rbn *rb_dec(struct rbn *x) {
  if (x->color == 0 && x->parent->parent == x) x = x->right;
  else if (x->left != 0) {
    struct rbn *y = x->left;
    while (y->right != 0) y = y->right;
    x = y;
  } else {
    struct rbn *y = x->parent;
    while (x == y->left) { x = y; y = y->parent; }
    x = y;
  }
  return x;
}
void *_ZSt18_Rb_tree_incrementPSt18_Rb_tree_node_base(void *x) { return rb_inc(x); }
void *_ZSt18_Rb_tree_incrementPKSt18_Rb_tree_node_base(void *x) { return rb_inc(x); }
void *_ZSt18_Rb_tree_decrementPSt18_Rb_tree_node_base(void *x) { return rb_dec(x); }
void *_ZSt18_Rb_tree_decrementPKSt18_Rb_tree_node_base(void *x) { return rb_dec(x); }

void *_ZSt28_Rb_tree_rebalance_for_erasePSt18_Rb_tree_node_baseRS_(void *zv, void *hv) {
  struct rbn *z = zv, *header = hv;
  struct rbn *y = z, *x = 0;
  if (y->left == 0) x = y->right;
  else if (y->right == 0) x = y->left;
  else { y = y->right; while (y->left != 0) y = y->left; x = y->right; }
  if (y != z) {
    z->left->parent = y; y->left = z->left;
    if (y != z->right) {
      if (x) x->parent = y->parent;
      y->parent->left = x;
      y->right = z->right; z->right->parent = y;
    }
    if (header->parent == z) header->parent = y;
    else if (z->parent->left == z) z->parent->left = y;
    else z->parent->right = y;
    y->parent = z->parent;
    y = z;
  } else {
    if (x) x->parent = y->parent;
    if (header->parent == z) header->parent = x;
    else if (z->parent->left == z) z->parent->left = x;
    else z->parent->right = x;
    if (header->left == z) {
      if (z->right == 0) header->left = z->parent;
      else { struct rbn *m = x; while (m->left != 0) m = m->left; header->left = m; }
    }
    if (header->right == z) {
      if (z->left == 0) header->right = z->parent;
      else { struct rbn *m = x; while (m->right != 0) m = m->right; header->right = m; }
    }
  }
  return y;
}
