/* libstdc++ functions that stay out-of-line when a TU is lowered with -fno-inline (tuflags): explicit
 * instantiations that exist in libstdc++.so and are trivial.  Referenced with models=['noinline.c']. */
#include <stdint.h>
void _ZNSaIcEC2Ev(void *a) { }                    /* std::allocator<char>::allocator() */
void _ZNSaIcEC1Ev(void *a) { }
void _ZNSaIcEC2ERKS_(void *a, void *b) { }        /* copy */
void _ZNSaIcEC1ERKS_(void *a, void *b) { }
void _ZNSaIcED2Ev(void *a) { }
void _ZNSaIcED1Ev(void *a) { }
/* std::ostream::operator<<(integer): out-of-line wrappers of _M_insert<T> (modelled in stream.c) */
void *_ZNSo9_M_insertIlEERSoT_(void *o, uint64_t v);
void *_ZNSo9_M_insertImEERSoT_(void *o, uint64_t v);
void *_ZNSo9_M_insertIxEERSoT_(void *o, uint64_t v);
void *_ZNSo9_M_insertIyEERSoT_(void *o, uint64_t v);
void *_ZNSo9_M_insertIbEERSoT_(void *o, _Bool v);
void *_ZNSolsEl(void *o, uint64_t v) { return _ZNSo9_M_insertIlEERSoT_(o, v); }
void *_ZNSolsEm(void *o, uint64_t v) { return _ZNSo9_M_insertImEERSoT_(o, v); }
void *_ZNSolsEx(void *o, uint64_t v) { return _ZNSo9_M_insertIxEERSoT_(o, v); }
void *_ZNSolsEy(void *o, uint64_t v) { return _ZNSo9_M_insertIyEERSoT_(o, v); }
void *_ZNSolsEb(void *o, _Bool v) { return _ZNSo9_M_insertIbEERSoT_(o, v); }
