/* std::allocator<char> constructors/destructor: extern template instantiations of libstdc++ that stay out of line
 * when a TU is lowered with -fno-inline.  They are empty. */
void _ZNSaIcEC1Ev(void *a) { }
void _ZNSaIcEC2Ev(void *a) { }
void _ZNSaIcEC1ERKS_(void *a, void *b) { }
void _ZNSaIcEC2ERKS_(void *a, void *b) { }
void _ZNSaIcED1Ev(void *a) { }
void _ZNSaIcED2Ev(void *a) { }
/* header-inlined basic_ios state queries, out of line under -fno-inline: `this` is the basic_ios subobject whose
 * state word sits at +32 (badbit 1, eofbit 2, failbit 4) - the same layout models/stream.c relies on */
#include <stdint.h>
_Bool _ZNKSt9basic_iosIcSt11char_traitsIcEE4failEv(void *ios) { return (*(uint32_t *)((char *)ios + 32) & 5) != 0; }
_Bool _ZNKSt9basic_iosIcSt11char_traitsIcEE3eofEv(void *ios) { return (*(uint32_t *)((char *)ios + 32) & 2) != 0; }
_Bool _ZNKSt9basic_iosIcSt11char_traitsIcEE4goodEv(void *ios) { return *(uint32_t *)((char *)ios + 32) == 0; }
_Bool _ZNKSt9basic_iosIcSt11char_traitsIcEE3badEv(void *ios) { return (*(uint32_t *)((char *)ios + 32) & 1) != 0; }
_Bool _ZNKSt9basic_iosIcSt11char_traitsIcEEntEv(void *ios) { return (*(uint32_t *)((char *)ios + 32) & 5) != 0; }
