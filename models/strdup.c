/* strdup model (opt-in: models=['strdup.c']): copies of short strings (at most 15 bytes) in a static pool, never freed
 * (the code that uses it, interrogate_request_database, keeps the copy for the life of the process). */
#include <stdint.h>
#ifndef SD_N
#define SD_N 8
#endif
static uint8_t sd_pool[SD_N][16];
static int sd_n;
void *ll_strdup(void *sv) {
  const uint8_t *s = sv;
  __CPROVER_assert(sd_n < SD_N, "model: strdup pool exhausted");
  __CPROVER_assume(sd_n < SD_N);
  uint8_t *d = sd_pool[sd_n++];
  int ended = 0;
  for (int i = 0; i < 16; i++) {
    uint8_t c = ended ? 0 : s[i];
    if (c == 0) ended = 1;
    d[i] = c;
  }
  __CPROVER_assert(ended, "model: strdup of a string longer than 15 bytes");
  __CPROVER_assume(ended);
  return d;
}
