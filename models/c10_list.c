/* (owner: C10 harnesses) std::list::splice support: std::__detail::_List_node_base::_M_transfer of libstdc++ (list.cc),
 * real node layout {next, prev}.  Use together with models/list.c (hook / unhook). */
#include <stdint.h>
struct c10_lnode { struct c10_lnode *next, *prev; };
/* move [first, last) in front of this node */
void _ZNSt8__detail15_List_node_base11_M_transferEPS0_S1_(void *self, void *first, void *last) {
  struct c10_lnode *pos = self, *f = first, *l = last;
  if (pos != l) {
    l->prev->next = pos;
    f->prev->next = l;
    pos->prev->next = f;
    struct c10_lnode *tmp = pos->prev;
    pos->prev = l->prev;
    l->prev = f->prev;
    f->prev = tmp;
  }
}
