/* std::getline(std::istream&, std::string&, char) on top of the token-stream model (models/stream.c: peek()/get()).
 * libstdc++ semantics: sentry(noskipws) - a stream that is not good() gets failbit and nothing is read; the string
 * is erased; characters are appended until the delimiter (extracted, not stored) or end of input (eofbit); failbit
 * if nothing at all was extracted.  The target string must stay within the small-string buffer (15 bytes): real
 * std::string layout { char *p; size_t len; union { char buf[16]; size_t cap; } }. */
#include <stdint.h>
uint32_t _ZNSi4peekEv(void *i);
uint32_t _ZNSi3getEv(void *i);
struct gl_str { char *p; uint64_t len; union { char buf[16]; uint64_t cap; } u; };
static uint32_t *gl_state(void *is) {
  /* what the header-inlined fail()/eof() do: vbase offset at vptr[-3], state word at ios+32 */
  /* the slots of the model's vtable are pointers (null + k), read as a pointer offset so that it constant-folds */
  uint8_t **vptr = *(uint8_t ***)is;
  int64_t off = (int64_t)__CPROVER_POINTER_OFFSET(vptr[-3]);
  return (uint32_t *)((char *)is + off + 32);
}
void *_ZSt7getlineIcSt11char_traitsIcESaIcEERSt13basic_istreamIT_T0_ES7_RNSt7__cxx1112basic_stringIS4_S5_T1_EES4_(void *is, void *sv, uint8_t delim) {
  struct gl_str *s = sv;
  uint32_t *state = gl_state(is);
  if (*state != 0) { *state |= 4; /* failbit */ return is; }
  s->len = 0; s->p[0] = 0;
  uint32_t extracted = 0;
  for (;;) {
    uint32_t c = _ZNSi4peekEv(is);          /* sets eofbit at end of input */
    if (c == (uint32_t)-1) break;
    _ZNSi3getEv(is);
    extracted++;
    if ((uint8_t)c == delim) break;
    __CPROVER_assert(s->p == s->u.buf && s->len < 15, "model: getline target string exceeds the small-string buffer");
    __CPROVER_assume(s->len < 15);
    s->p[s->len] = (char)c; s->len++; s->p[s->len] = 0;
  }
  if (extracted == 0) *state |= 4;
  return is;
}
/* two-argument form (stays out of line under -fno-inline): delimiter '\n' */
void *_ZSt7getlineIcSt11char_traitsIcESaIcEERSt13basic_istreamIT_T0_ES7_RNSt7__cxx1112basic_stringIS4_S5_T1_EE(void *is, void *sv) {
  return _ZSt7getlineIcSt11char_traitsIcESaIcEERSt13basic_istreamIT_T0_ES7_RNSt7__cxx1112basic_stringIS4_S5_T1_EES4_(is, sv, '\n');
}
