// C11: InterrogateDatabase::remap_indices(first, remap) puts the wrappers first on consecutive indices, renumbers every
// other entity after them and rewrites every reference (record fields and the enumeration vectors) consistently.
//
// A small database with concrete, sparse old indices (functions 2 and 7, wrappers 5 and 9, types 3 and 12, element 4,
// make_seq 6, manifest 8) and SYMBOLIC cross references: every index-valued field picks 0 or one of the existing
// entities of the right kind.  Records carry no strings and no vectors (the function copies every record into fresh
// maps and destroys the old ones).  The real IndexRemapper is used.
#include "verif.h"
#include "interrogateDatabase.h"
#include "indexRemapper.h"
#ifndef FIRST
#define FIRST 1
#endif

static int pick3(int a, int b) { int c = nondet_int(); ASSUME(c >= 0 && c <= 2); return c == 0 ? 0 : (c == 1 ? a : b); }
static int pickF() { return pick3(2, 7); }
static int pickW() { return pick3(5, 9); }
static int pickT() { return pick3(3, 12); }

static int g_first;
// the documented renumbering: wrappers, functions, types, manifests, elements, make_seqs, each in old-index order
static int g(int old) {
  switch (old) {
    case 0: return 0;
    case 5: return g_first;       case 9: return g_first + 1;      // wrappers
    case 2: return g_first + 2;   case 7: return g_first + 3;      // functions
    case 3: return g_first + 4;   case 12: return g_first + 5;     // types
    case 8: return g_first + 6;                                    // manifest
    case 4: return g_first + 7;                                    // element
    case 6: return g_first + 8;                                    // make_seq
  }
  return -1;
}

extern "C" void harness_c11_db_remap() {
  InterrogateDatabase *db = new InterrogateDatabase;
  InterrogateFunctionWrapper &w5 = db->_wrapper_map[5], &w9 = db->_wrapper_map[9];
  InterrogateFunction *f2 = new InterrogateFunction, *f7 = new InterrogateFunction;
  db->_function_map[2] = f2; db->_function_map[7] = f7;
  InterrogateType &t3 = db->_type_map[3], &t12 = db->_type_map[12];
  InterrogateManifest &m8 = db->_manifest_map[8];
  InterrogateElement &e4 = db->_element_map[4];
  InterrogateMakeSeq &s6 = db->_make_seq_map[6];
  db->_next_index = 13;

  int w5_fn = w5._function = pickF(), w5_rt = w5._return_type = pickT(), w5_rd = w5._return_value_destructor = pickF();
  int w9_fn = w9._function = pickF(), w9_rt = w9._return_type = pickT();
  int w5_flags = w5._flags = nondet_int();
  int f2_cl = f2->_class = pickT(), f7_cl = f7->_class = pickT();
  int f7_flags = f7->_flags = nondet_int();
  int t3_oc = t3._outer_class = pickT(), t3_wt = t3._wrapped_type = pickT(), t3_dt = t3._destructor = pickF();
  int t12_oc = t12._outer_class = pickT(), t12_wt = t12._wrapped_type = pickT();
  int m8_ty = m8._type = pickT(), m8_gt = m8._getter = pickF();
  int m8_val = m8._int_value = nondet_int();
  int e4_ty = e4._type = pickT(), e4_gt = e4._getter = pickF(), e4_st = e4._setter = pickF(), e4_ln = e4._length_function = pickF();
  int s6_lg = s6._length_getter = pickF(), s6_eg = s6._element_getter = pickF();
  db->_global_types.push_back(12); db->_all_types.push_back(3); db->_all_types.push_back(12);
  db->_global_functions.push_back(7); db->_all_functions.push_back(2); db->_all_functions.push_back(7);
  db->_global_manifests.push_back(8); db->_global_elements.push_back(4);

  // concrete per query: the new indices are the keys of the six fresh std::maps, a symbolic first makes their shape symbolic
  int first = FIRST;
  g_first = first;
  IndexRemapper *remap = new IndexRemapper;
  int next = db->remap_indices(first, *remap);

  ASSERT(next == first + 9 && db->_next_index == first + 9, "C11 remap_indices returns first + number of entities and stores it as the next free index");
  ASSERT(db->_wrapper_map.size() == 2 && db->_function_map.size() == 2 && db->_type_map.size() == 2 && db->_manifest_map.size() == 1 &&
         db->_element_map.size() == 1 && db->_make_seq_map.size() == 1, "C11 remapping keeps the number of entities of every kind");
  ASSERT(db->_wrapper_map.count(first) == 1 && db->_wrapper_map.count(first + 1) == 1, "C11 wrapper indices are the consecutive integers starting at first");
  ASSERT(db->_function_map.count(g(2)) == 1 && db->_function_map.count(g(7)) == 1 && db->_type_map.count(g(3)) == 1 && db->_type_map.count(g(12)) == 1 &&
         db->_manifest_map.count(g(8)) == 1 && db->_element_map.count(g(4)) == 1 && db->_make_seq_map.count(g(6)) == 1,
         "C11 functions, types, manifests, elements and make_seqs follow the wrappers in that order");
  ASSERT(remap->map_from(5) == g(5) && remap->map_from(9) == g(9) && remap->map_from(2) == g(2) && remap->map_from(7) == g(7) &&
         remap->map_from(3) == g(3) && remap->map_from(12) == g(12) && remap->map_from(8) == g(8) && remap->map_from(4) == g(4) &&
         remap->map_from(6) == g(6), "C11 the remapper handed back to the caller maps every old index to its new index");
  {
    const InterrogateFunctionWrapper &a = db->_wrapper_map[g(5)], &b = db->_wrapper_map[g(9)];
    ASSERT(a._function == g(w5_fn) && a._return_type == g(w5_rt) && a._return_value_destructor == g(w5_rd) && a._flags == w5_flags,
           "C11 the first wrapper keeps its content and its references point to the renumbered entities");
    ASSERT(b._function == g(w9_fn) && b._return_type == g(w9_rt), "C11 the second wrapper's references point to the renumbered entities");
  }
  ASSERT(db->_function_map[g(2)] == f2 && db->_function_map[g(7)] == f7, "C11 function records move to their new indices");
  ASSERT(f2->_class == g(f2_cl) && f7->_class == g(f7_cl) && f7->_flags == f7_flags, "C11 function class references point to the renumbered types");
  {
    const InterrogateType &a = db->_type_map[g(3)], &b = db->_type_map[g(12)];
    ASSERT(a._outer_class == g(t3_oc) && a._wrapped_type == g(t3_wt) && a._destructor == g(t3_dt), "C11 references of the first type point to the renumbered entities");
    ASSERT(b._outer_class == g(t12_oc) && b._wrapped_type == g(t12_wt), "C11 references of the second type point to the renumbered entities");
  }
  {
    const InterrogateManifest &m = db->_manifest_map[g(8)];
    ASSERT(m._type == g(m8_ty) && m._getter == g(m8_gt) && m._int_value == m8_val, "C11 manifest references point to the renumbered entities");
    const InterrogateElement &e = db->_element_map[g(4)];
    ASSERT(e._type == g(e4_ty) && e._getter == g(e4_gt) && e._setter == g(e4_st) && e._length_function == g(e4_ln), "C11 element references point to the renumbered entities");
    const InterrogateMakeSeq &s = db->_make_seq_map[g(6)];
    ASSERT(s._length_getter == g(s6_lg) && s._element_getter == g(s6_eg), "C11 make_seq references point to the renumbered functions");
  }
  ASSERT(db->_global_types.size() == 1 && db->_global_types[0] == g(12) && db->_all_types.size() == 2 && db->_all_types[0] == g(3) && db->_all_types[1] == g(12),
         "C11 the type enumeration vectors hold the renumbered live indices");
  ASSERT(db->_global_functions.size() == 1 && db->_global_functions[0] == g(7) && db->_all_functions.size() == 2 && db->_all_functions[0] == g(2) &&
         db->_all_functions[1] == g(7), "C11 the function enumeration vectors hold the renumbered live indices");
  ASSERT(db->_global_manifests.size() == 1 && db->_global_manifests[0] == g(8) && db->_global_elements.size() == 1 && db->_global_elements[0] == g(4),
         "C11 the manifest and element enumeration vectors hold the renumbered live indices");
  WITNESS();
}
