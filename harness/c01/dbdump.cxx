// Dumps the wrappers recorded in an interrogate database (.in) as JSON, through the real query interface
// (libinterrogatedb built from the repository under test).
#include "interrogate_interface.h"
#include "interrogate_request.h"
#include <stdio.h>
#include <string>
static std::string esc(const char *s) {
  std::string o;
  for (; s && *s; ++s) {
    if (*s == '"' || *s == '\\') { o += '\\'; o += *s; }
    else if (*s == '\n') o += "\\n";
    else if ((unsigned char)*s < 32) { char b[8]; snprintf(b, sizeof b, "\\u%04x", *s); o += b; }
    else o += *s;
  }
  return o;
}
static void type_json(TypeIndex t) {
  printf("{\"index\":%d,\"array\":%d,\"array_size\":%d,\"true_name\":\"%s\",\"name\":\"%s\",\"atomic\":%d,\"atomic_token\":%d,\"pointer\":%d,\"const\":%d,\"wrapped\":%d,\"enum\":%d,\"class\":%d",
         t, (int)interrogate_type_is_array(t), interrogate_type_is_array(t) ? interrogate_type_array_size(t) : 0,
         esc(interrogate_type_true_name(t)).c_str(), esc(interrogate_type_name(t)).c_str(), interrogate_type_is_atomic(t),
         interrogate_type_is_atomic(t) ? (int)interrogate_type_atomic_token(t) : -1, interrogate_type_is_pointer(t), interrogate_type_is_const(t),
         interrogate_type_is_wrapped(t), interrogate_type_is_enum(t), (int)(interrogate_type_is_class(t) || interrogate_type_is_struct(t)));
  if (interrogate_type_is_wrapped(t)) { printf(",\"target\":"); type_json(interrogate_type_wrapped_type(t)); }
  printf("}");
}
static void wrapper_json(FunctionWrapperIndex w, const char *kind) {
  FunctionIndex f = interrogate_wrapper_function(w);
  printf("{\"kind\":\"%s\",\"index\":%d,\"unique_name\":\"%s\",\"name\":\"%s\",\"function\":\"%s\",\"function_index\":%d,\"is_method\":%d,\"is_constructor\":%d,\"is_destructor\":%d,\"is_copy_constructor\":%d,\"callable_by_name\":%d,\"has_return\":%d,\"caller_manages\":%d,\"prototype\":\"%s\"",
         kind, w, esc(interrogate_wrapper_unique_name(w)).c_str(), esc(interrogate_wrapper_name(w)).c_str(), esc(interrogate_function_scoped_name(f)).c_str(), f,
         interrogate_function_is_method(f), interrogate_function_is_constructor(f), interrogate_function_is_destructor(f),
         interrogate_wrapper_is_copy_constructor(w), interrogate_wrapper_is_callable_by_name(w), interrogate_wrapper_has_return_value(w),
         interrogate_wrapper_caller_manages_return_value(w), esc(interrogate_function_prototype(f)).c_str());
  if (interrogate_wrapper_has_return_value(w)) { printf(",\"return\":"); type_json(interrogate_wrapper_return_type(w)); }
  printf(",\"params\":[");
  int n = interrogate_wrapper_number_of_parameters(w);
  for (int i = 0; i < n; i++) {
    if (i) printf(",");
    printf("{\"name\":\"%s\",\"is_this\":%d,\"is_optional\":%d,\"type\":", interrogate_wrapper_parameter_has_name(w, i) ? esc(interrogate_wrapper_parameter_name(w, i)).c_str() : "",
           interrogate_wrapper_parameter_is_this(w, i), interrogate_wrapper_parameter_is_optional(w, i));
    type_json(interrogate_wrapper_parameter_type(w, i));
    printf("}");
  }
  printf("]}");
}
int main(int argc, char **argv) {
  interrogate_request_database(argv[1]);
  int nf = interrogate_number_of_functions();
  printf("{\"error\":%d,\"wrappers\":[", (int)interrogate_error_flag());
  bool first = true;
  for (int i = 0; i < nf; i++) {
    FunctionIndex f = interrogate_get_function(i);
    for (int k = 0; k < interrogate_function_number_of_c_wrappers(f); k++) { if (!first) printf(",\n"); first = false; wrapper_json(interrogate_function_c_wrapper(f, k), "c"); }
    for (int k = 0; k < interrogate_function_number_of_python_wrappers(f); k++) { if (!first) printf(",\n"); first = false; wrapper_json(interrogate_function_python_wrapper(f, k), "python"); }
  }
  printf("]}\n");
  return 0;
}
