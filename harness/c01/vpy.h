// Harness view of the CPython model (models/cpython.c); natively these come from harness/c01/vpy_native.cxx.
#ifndef VPY_H
#define VPY_H
#include <Python.h>
extern "C" {
PyObject *vpy_int(long v);
PyObject *vpy_uint(unsigned long v);
PyObject *vpy_ptr(void *p);   // an object address as a Python int (addresses are below 2^63 on LP64 user space)
PyObject *vpy_float(double d);
PyObject *vpy_bool(bool b);
PyObject *vpy_str(const char *s);
PyObject *vpy_none();
PyObject *vpy_tuple(unsigned n);
void vpy_tuple_set(PyObject *t, unsigned i, PyObject *item);
unsigned vpy_kind(PyObject *o);       // 1 int, 2 float, 3 bool, 4 str, 5 tuple, 6 None
unsigned long vpy_ival(PyObject *o);
double vpy_dval(PyObject *o);
const char *vpy_sptr(PyObject *o);
long vpy_slen(PyObject *o);
unsigned vpy_get_error();
}
#endif
