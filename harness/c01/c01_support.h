// Support for generated C01 harnesses: typed nondet values.
#ifndef C01_SUPPORT_H
#define C01_SUPPORT_H
#include "verif.h"
#include <string.h>
template<class T> struct Nd { static T get() { return (T)nondet_ulong(); } };
template<> struct Nd<bool> { static bool get() { return nondet_bool(); } };
template<> struct Nd<double> { static double get() { double d = nondet_double(); ASSUME(d == d); return d; } };
template<> struct Nd<float> { static float get() { float f = (float)nondet_double(); ASSUME(f == f); return f; } };
#ifndef C01_STRMAX
#define C01_STRMAX 3
#endif
static inline const char *verif_make_cstr() {
  char *p = new char[C01_STRMAX + 1];
  int n = nondet_int();
  ASSUME(n >= 0 && n <= C01_STRMAX);
  for (int i = 0; i < C01_STRMAX; i++) { char c = nondet_char(); ASSUME(c != 0); p[i] = c; }
  p[n] = 0;
  return p;
}
static inline bool verif_same_cstr(const char *a, const char *b) {
  if (a == 0 || b == 0) return a == b;
  for (int i = 0; i <= C01_STRMAX + 8; i++) { if (a[i] != b[i]) return false; if (a[i] == 0) return true; }
  return true;
}
template<class T> static inline bool verif_same_scalar(T a, T b) { return a == b; }
// floating results are compared bit for bit (NaN-safe)
template<> inline bool verif_same_scalar<double>(double a, double b) { unsigned long x, y; memcpy(&x, &a, 8); memcpy(&y, &b, 8); return x == y; }
template<> inline bool verif_same_scalar<float>(float a, float b) { unsigned x, y; memcpy(&x, &a, 4); memcpy(&y, &b, 4); return x == y; }
#ifdef VPY_H
// Python argument objects from C++ values, and comparison of a returned Python object with a C++ value
static inline PyObject *vpy_of(bool v) { return vpy_bool(v); }
static inline PyObject *vpy_of(double v) { return vpy_float(v); }
static inline PyObject *vpy_of(float v) { return vpy_float((double)v); }
static inline PyObject *vpy_of(unsigned long v) { return vpy_uint(v); }
static inline PyObject *vpy_of(unsigned long long v) { return vpy_uint((unsigned long)v); }
static inline PyObject *vpy_of(unsigned int v) { return vpy_uint(v); }
static inline PyObject *vpy_of(unsigned short v) { return vpy_uint(v); }
static inline PyObject *vpy_of(unsigned char v) { return vpy_uint(v); }
static inline PyObject *vpy_of(long v) { return vpy_int(v); }
static inline PyObject *vpy_of(long long v) { return vpy_int((long)v); }
static inline PyObject *vpy_of(int v) { return vpy_int(v); }
static inline PyObject *vpy_of(short v) { return vpy_int(v); }
static inline PyObject *vpy_of(signed char v) { return vpy_int(v); }
static inline PyObject *vpy_of(char v) { return vpy_int(v); }
static inline bool vpy_equals(PyObject *o, bool v) { return vpy_kind(o) == 3 && (vpy_ival(o) != 0) == v; }
static inline bool vpy_equals(PyObject *o, double v) { return vpy_kind(o) == 2 && verif_same_scalar<double>(vpy_dval(o), v); }
static inline bool vpy_equals(PyObject *o, float v) { return vpy_kind(o) == 2 && verif_same_scalar<double>(vpy_dval(o), (double)v); }
// a Python string result against a std::string: same length (no truncation at NUL) and same bytes (ASCII range)
#include <string>
static inline bool verif_same_pystr(PyObject *o, const std::string &s) {
  if ((size_t)vpy_slen(o) != s.size()) return false;
  const char *p = vpy_sptr(o);
  for (size_t i = 0; i < C01_STRMAX + 2; i++) if (i < s.size() && p[i] != s[i]) return false;
  return true;
}
template<class T> static inline bool vpy_equals(PyObject *o, T v) { return (vpy_kind(o) == 1 || vpy_kind(o) == 3) && (T)vpy_ival(o) == v; }
#endif
#endif
