// Support for generated C01 harnesses: typed nondet values.
#ifndef C01_SUPPORT_H
#define C01_SUPPORT_H
#include "verif.h"
#include <string.h>
template<class T> struct Nd { static T get() { return (T)nondet_ulong(); } };
template<> struct Nd<bool> { static bool get() { return nondet_bool(); } };
template<> struct Nd<double> { static double get() { double d = nondet_double(); ASSUME(d == d); return d; } };
template<> struct Nd<float> { static float get() { float f = (float)nondet_double(); ASSUME(f == f); return f; } };
#ifndef C01_STRMAX
#define C01_STRMAX 3
#endif
static inline const char *verif_make_cstr() {
  char *p = new char[C01_STRMAX + 1];
  int n = nondet_int();
  ASSUME(n >= 0 && n <= C01_STRMAX);
  for (int i = 0; i < C01_STRMAX; i++) { char c = nondet_char(); ASSUME(c != 0); p[i] = c; }
  p[n] = 0;
  return p;
}
static inline bool verif_same_cstr(const char *a, const char *b) {
  if (a == 0 || b == 0) return a == b;
  for (int i = 0; i <= C01_STRMAX + 8; i++) { if (a[i] != b[i]) return false; if (a[i] == 0) return true; }
  return true;
}
template<class T> static inline bool verif_same_scalar(T a, T b) { return a == b; }
// floating results are compared bit for bit (NaN-safe)
template<> inline bool verif_same_scalar<double>(double a, double b) { unsigned long x, y; memcpy(&x, &a, 8); memcpy(&y, &b, 8); return x == y; }
template<> inline bool verif_same_scalar<float>(float a, float b) { unsigned x, y; memcpy(&x, &a, 4); memcpy(&y, &b, 4); return x == y; }
#endif
