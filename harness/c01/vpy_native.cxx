// Native replay counterpart of models/cpython.c: the same harness API on top of the REAL CPython interpreter.
#include <Python.h>
#include <string.h>
static void init() { static bool done = false; if (!done) { Py_Initialize(); done = true; } }
extern "C" {
PyObject *vpy_int(long v) { init(); return PyLong_FromLong(v); }
PyObject *vpy_uint(unsigned long v) { init(); return PyLong_FromUnsignedLong(v); }
PyObject *vpy_ptr(void *p) { init(); return PyLong_FromVoidPtr(p); }
PyObject *vpy_float(double d) { init(); return PyFloat_FromDouble(d); }
PyObject *vpy_bool(bool b) { init(); return PyBool_FromLong(b); }
PyObject *vpy_str(const char *s) { init(); return PyUnicode_DecodeLatin1(s, strlen(s), 0); }
PyObject *vpy_none() { init(); Py_RETURN_NONE; }
PyObject *vpy_tuple(unsigned n) { init(); return PyTuple_New(n); }
void vpy_tuple_set(PyObject *t, unsigned i, PyObject *item) { PyTuple_SetItem(t, i, item); }
unsigned vpy_kind(PyObject *o) {
  if (PyBool_Check(o)) return 3;
  if (PyLong_Check(o)) return 1;
  if (PyFloat_Check(o)) return 2;
  if (PyUnicode_Check(o)) return 4;
  if (PyTuple_Check(o)) return 5;
  if (o == Py_None) return 6;
  return 0;
}
unsigned long vpy_ival(PyObject *o) {
  if (PyBool_Check(o)) return o == Py_True;
  unsigned long v = PyLong_AsUnsignedLongMask(o);
  return v;
}
double vpy_dval(PyObject *o) { return PyFloat_AsDouble(o); }
const char *vpy_sptr(PyObject *o) { return PyUnicode_AsUTF8(o); }
long vpy_slen(PyObject *o) { Py_ssize_t n = 0; PyUnicode_AsUTF8AndSize(o, &n); return n; }
unsigned vpy_get_error() { return PyErr_Occurred() != 0; }
}
