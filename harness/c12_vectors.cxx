// C12: idf_output_vector / idf_input_vector round-trip for plain indices and for the nested record element types.
#include "verif.h"
#include "vstream.h"
#include "interrogate_datafile.h"
#include "interrogateType.h"
#include "interrogateFunctionWrapper.h"
#include <string>
#include <vector>
#ifndef NMAX
#define NMAX 2
#endif
#ifndef LMAX
#define LMAX 2
#endif

// symbolic content for a default-constructed (SSO) string: length 0..LMAX over all byte values.  Every store uses a
// concrete index: a store at a symbolic offset into a heap object makes CBMC treat the whole object as bytes.
static void sym_string(std::string &s) {
  int len = nondet_int();
  ASSUME(len >= 0 && len <= LMAX);
  for (int i = 0; i < LMAX; i++) { char c = nondet_char(); s._M_local_buf[i] = i < len ? c : (char)0; }
  s._M_local_buf[LMAX] = 0;
  s._M_string_length = (size_t)len;
}

// The length is symbolic, but each length is explored with concrete container structure: the body is a template
// over the length, the dispatcher's taken branch returns, so stream positions and heap layout stay concrete.
#define DISPATCH_LENGTH(body) { int n_sym = nondet_int(); ASSUME(n_sym >= 0 && n_sym <= NMAX); \
  if (n_sym == 0) { body<0>(); return; } \
  if (NMAX >= 1 && n_sym == 1) { body<(NMAX >= 1 ? 1 : 0)>(); return; } \
  if (NMAX >= 2 && n_sym == 2) { body<(NMAX >= 2 ? 2 : 0)>(); return; } \
  if (NMAX >= 3 && n_sym == 3) { body<(NMAX >= 3 ? 3 : 0)>(); return; } \
  if (NMAX >= 4 && n_sym == 4) { body<(NMAX >= 4 ? 4 : 0)>(); return; } }

template<int n> static void vec_int_body() {
  int vals[n + 1];
  std::vector<int> *v = new std::vector<int>;
  for (int i = 0; i < n; i++) { vals[i] = nondet_int(); v->push_back(vals[i]); }
  int follow = nondet_int();
  std::ostream *out = vs_ostream_new();
  idf_output_vector(*out, *v);
  *out << follow << ' ';
  ASSERT(vs_format_error(out) == 0, "C12 every integer in the file is delimited from its neighbours");
  std::istream *in = vs_istream_of(out);
  std::vector<int> *r = new std::vector<int>;
  r->push_back(77);                       // stale content must be replaced, not appended to
  idf_input_vector(*in, *r);
  ASSERT(!in->fail(), "C12 reading back a written vector does not fail");
  ASSERT((int)r->size() == n, "C12 vector<int> read back has the written length");
  for (int i = 0; i < n && i < (int)r->size(); i++) ASSERT((*r)[i] == vals[i], "C12 vector<int> element read back equals the one written");
  int f2 = 0;
  *in >> f2;
  ASSERT(!in->fail() && f2 == follow, "C12 the value following a vector is read back intact");
  std::ostream *out2 = vs_ostream_new();
  idf_output_vector(*out2, *r);
  *out2 << f2 << ' ';
  ASSERT(vs_same_output(out, out2), "C12 re-serialising the read-back vector gives the same file content");
  WITNESS();
}
extern "C" void harness_c12_vec_int() { DISPATCH_LENGTH(vec_int_body) }

template<int n> static void vec_derivation_body() {
  typedef InterrogateType::Derivation D;
  D vals[n + 1];
  std::vector<D> *v = new std::vector<D>;
  for (int i = 0; i < n; i++) {
    vals[i]._flags = nondet_int(); vals[i]._base = nondet_int(); vals[i]._upcast = nondet_int(); vals[i]._downcast = nondet_int();
    v->push_back(vals[i]);
  }
  int follow = nondet_int();
  std::ostream *out = vs_ostream_new();
  idf_output_vector(*out, *v);
  *out << follow << ' ';
  ASSERT(vs_format_error(out) == 0, "C12 every integer in the file is delimited from its neighbours");
  std::istream *in = vs_istream_of(out);
  std::vector<D> *r = new std::vector<D>;
  idf_input_vector(*in, *r);
  ASSERT(!in->fail(), "C12 reading back a written vector does not fail");
  ASSERT((int)r->size() == n, "C12 vector<Derivation> read back has the written length");
  for (int i = 0; i < n && i < (int)r->size(); i++) {
    const D &d = (*r)[i];
    ASSERT(d._flags == vals[i]._flags, "C12 Derivation._flags round-trips");
    ASSERT(d._base == vals[i]._base, "C12 Derivation._base round-trips");
    ASSERT(d._upcast == vals[i]._upcast, "C12 Derivation._upcast round-trips");
    ASSERT(d._downcast == vals[i]._downcast, "C12 Derivation._downcast round-trips");
  }
  int f2 = 0;
  *in >> f2;
  ASSERT(!in->fail() && f2 == follow, "C12 the value following a vector is read back intact");
  std::ostream *out2 = vs_ostream_new();
  idf_output_vector(*out2, *r);
  *out2 << f2 << ' ';
  ASSERT(vs_same_output(out, out2), "C12 re-serialising the read-back vector gives the same file content");
  WITNESS();
}
extern "C" void harness_c12_vec_derivation() { DISPATCH_LENGTH(vec_derivation_body) }

template<int n> static void vec_enumvalue_body() {
  typedef InterrogateType::EnumValue E;
  E *vals = new E[n + 1];
  std::vector<E> *v = new std::vector<E>;
  v->reserve(n);
  for (int i = 0; i < n; i++) {
    sym_string(vals[i]._name); sym_string(vals[i]._scoped_name); sym_string(vals[i]._comment); vals[i]._value = nondet_int();
    v->push_back(vals[i]);
  }
  int follow = nondet_int();
  std::ostream *out = vs_ostream_new();
  idf_output_vector(*out, *v);
  *out << follow << ' ';
  ASSERT(vs_format_error(out) == 0, "C12 every integer in the file is delimited from its neighbours");
  std::istream *in = vs_istream_of(out);
  std::vector<E> *r = new std::vector<E>;
  idf_input_vector(*in, *r);
  ASSERT(!in->fail(), "C12 reading back a written vector does not fail");
  ASSERT((int)r->size() == n, "C12 vector<EnumValue> read back has the written length");
  for (int i = 0; i < n && i < (int)r->size(); i++) {
    const E &e = (*r)[i];
    ASSERT(e._name == vals[i]._name, "C12 EnumValue._name round-trips");
    ASSERT(e._scoped_name == vals[i]._scoped_name, "C12 EnumValue._scoped_name round-trips");
    ASSERT(e._comment == vals[i]._comment, "C12 EnumValue._comment round-trips");
    ASSERT(e._value == vals[i]._value, "C12 EnumValue._value round-trips");
  }
  int f2 = 0;
  *in >> f2;
  ASSERT(!in->fail() && f2 == follow, "C12 the value following a vector is read back intact");
  std::ostream *out2 = vs_ostream_new();
  idf_output_vector(*out2, *r);
  *out2 << f2 << ' ';
  ASSERT(vs_same_output(out, out2), "C12 re-serialising the read-back vector gives the same file content");
  WITNESS();
}
extern "C" void harness_c12_vec_enumvalue() { DISPATCH_LENGTH(vec_enumvalue_body) }

template<int n> static void vec_parameter_body() {
  typedef InterrogateFunctionWrapper::Parameter P;
  P *vals = new P[n + 1];
  std::vector<P> *v = new std::vector<P>;
  v->reserve(n);
  for (int i = 0; i < n; i++) {
    sym_string(vals[i]._name); vals[i]._parameter_flags = nondet_int(); vals[i]._type = nondet_int();
    v->push_back(vals[i]);
  }
  int follow = nondet_int();
  std::ostream *out = vs_ostream_new();
  idf_output_vector(*out, *v);
  *out << follow << ' ';
  ASSERT(vs_format_error(out) == 0, "C12 every integer in the file is delimited from its neighbours");
  std::istream *in = vs_istream_of(out);
  std::vector<P> *r = new std::vector<P>;
  idf_input_vector(*in, *r);
  ASSERT(!in->fail(), "C12 reading back a written vector does not fail");
  ASSERT((int)r->size() == n, "C12 vector<Parameter> read back has the written length");
  for (int i = 0; i < n && i < (int)r->size(); i++) {
    const P &p = (*r)[i];
    ASSERT(p._name == vals[i]._name, "C12 Parameter._name round-trips");
    ASSERT(p._parameter_flags == vals[i]._parameter_flags, "C12 Parameter._parameter_flags round-trips");
    ASSERT(p._type == vals[i]._type, "C12 Parameter._type round-trips");
  }
  int f2 = 0;
  *in >> f2;
  ASSERT(!in->fail() && f2 == follow, "C12 the value following a vector is read back intact");
  std::ostream *out2 = vs_ostream_new();
  idf_output_vector(*out2, *r);
  *out2 << f2 << ' ';
  ASSERT(vs_same_output(out, out2), "C12 re-serialising the read-back vector gives the same file content");
  WITNESS();
}
extern "C" void harness_c12_vec_parameter() { DISPATCH_LENGTH(vec_parameter_body) }
