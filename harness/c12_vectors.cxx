// C12: idf_output_vector / idf_input_vector round-trip for plain indices and Derivation elements (the element types that
// contain strings, EnumValue and Parameter, are in c12_records.cxx where the string-length patterns live).
#include "verif.h"
#include "vstream.h"
#include "interrogate_datafile.h"
#include "interrogateType.h"
#include "interrogateFunctionWrapper.h"
#include <string>
#include <vector>
#ifndef NMAX
#define NMAX 2
#endif
#ifndef LMAX
#define LMAX 2
#endif

// The length is symbolic, but each length is explored with concrete container structure: the body is a template
// over the length, the dispatcher's taken branch returns, so stream positions and heap layout stay concrete.
#define DISPATCH_LENGTH(body) { int n_sym = nondet_int(); ASSUME(n_sym >= 0 && n_sym <= NMAX); \
  if (n_sym == 0) { body<0>(); return; } \
  if (NMAX >= 1 && n_sym == 1) { body<(NMAX >= 1 ? 1 : 0)>(); return; } \
  if (NMAX >= 2 && n_sym == 2) { body<(NMAX >= 2 ? 2 : 0)>(); return; } \
  if (NMAX >= 3 && n_sym == 3) { body<(NMAX >= 3 ? 3 : 0)>(); return; } \
  if (NMAX >= 4 && n_sym == 4) { body<(NMAX >= 4 ? 4 : 0)>(); return; } }

template<int n> static void vec_int_body() {
  int vals[n + 1];
  std::vector<int> *v = new std::vector<int>;
  for (int i = 0; i < n; i++) { vals[i] = nondet_int(); v->push_back(vals[i]); }
  int follow = nondet_int();
  std::ostream *out = vs_ostream_new();
  idf_output_vector(*out, *v);
  *out << follow << ' ';
  ASSERT(vs_format_error(out) == 0, "C12 every integer in the file is delimited from its neighbours");
  std::istream *in = vs_istream_of(out);
  std::vector<int> *r = new std::vector<int>;
  r->push_back(77);                       // stale content must be replaced, not appended to
  idf_input_vector(*in, *r);
  ASSERT(!in->fail(), "C12 reading back a written vector does not fail");
  ASSERT((int)r->size() == n, "C12 vector<int> read back has the written length");
  for (int i = 0; i < n && i < (int)r->size(); i++) ASSERT((*r)[i] == vals[i], "C12 vector<int> element read back equals the one written");
  int f2 = 0;
  *in >> f2;
  ASSERT(!in->fail() && f2 == follow, "C12 the value following a vector is read back intact");
  std::ostream *out2 = vs_ostream_new();
  idf_output_vector(*out2, *r);
  *out2 << f2 << ' ';
  ASSERT(vs_same_output(out, out2), "C12 re-serialising the read-back vector gives the same file content");
  WITNESS();
}
extern "C" void harness_c12_vec_int() { DISPATCH_LENGTH(vec_int_body) }

template<int n> static void vec_derivation_body() {
  typedef InterrogateType::Derivation D;
  D vals[n + 1];
  std::vector<D> *v = new std::vector<D>;
  for (int i = 0; i < n; i++) {
    vals[i]._flags = nondet_int(); vals[i]._base = nondet_int(); vals[i]._upcast = nondet_int(); vals[i]._downcast = nondet_int();
    v->push_back(vals[i]);
  }
  int follow = nondet_int();
  std::ostream *out = vs_ostream_new();
  idf_output_vector(*out, *v);
  *out << follow << ' ';
  ASSERT(vs_format_error(out) == 0, "C12 every integer in the file is delimited from its neighbours");
  std::istream *in = vs_istream_of(out);
  std::vector<D> *r = new std::vector<D>;
  idf_input_vector(*in, *r);
  ASSERT(!in->fail(), "C12 reading back a written vector does not fail");
  ASSERT((int)r->size() == n, "C12 vector<Derivation> read back has the written length");
  for (int i = 0; i < n && i < (int)r->size(); i++) {
    const D &d = (*r)[i];
    ASSERT(d._flags == vals[i]._flags, "C12 Derivation._flags round-trips");
    ASSERT(d._base == vals[i]._base, "C12 Derivation._base round-trips");
    ASSERT(d._upcast == vals[i]._upcast, "C12 Derivation._upcast round-trips");
    ASSERT(d._downcast == vals[i]._downcast, "C12 Derivation._downcast round-trips");
  }
  int f2 = 0;
  *in >> f2;
  ASSERT(!in->fail() && f2 == follow, "C12 the value following a vector is read back intact");
  std::ostream *out2 = vs_ostream_new();
  idf_output_vector(*out2, *r);
  *out2 << f2 << ' ';
  ASSERT(vs_same_output(out, out2), "C12 re-serialising the read-back vector gives the same file content");
  WITNESS();
}
extern "C" void harness_c12_vec_derivation() { DISPATCH_LENGTH(vec_derivation_body) }
