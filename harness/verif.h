// Solver primitives shared by all harnesses.  Compiled by clang (lowered to IR
// -> C -> CBMC) and by g++ (native replay, where replay_rt.cxx defines them).
#ifndef VERIF_H
#define VERIF_H
#include <stdint.h>
extern "C" {
int nondet_int();
unsigned nondet_uint();
long nondet_long();
unsigned long nondet_ulong();
char nondet_char();
unsigned char nondet_uchar();
bool nondet_bool();
double nondet_double();
void __CPROVER_assume(bool);
void __CPROVER_assert(bool, const char *);
void __ll2c_global_ctors();
extern int verif_crash;
}
#define ASSUME(c) __CPROVER_assume(c)
#define ASSERT(c, msg) __CPROVER_assert((c), msg)
// Vacuity witness: every harness ends with WITNESS(); the run is valid only if
// this assertion is reported FAILED (i.e. the end of the harness is reachable).
#define WITNESS() __CPROVER_assert(false, "WITNESS reachable end of harness")
#endif
