// C07: operator precedence and associativity of the REAL generated LALR parser (bison output of cppBison.yxx).
//
// The token script  START_CONST_EXPR  a OP1 b OP2 c  <eof>  is fed to the real cppyyparse() through the real entry
// parse_const_expr() (what CPPExpressionParser::parse_expr / CPPPreprocessor::parse_expr call after the lexer was
// primed with START_CONST_EXPR).  The lexer CPPPreprocessor::get_next_token is cut and replaced by the script: token
// KINDS are concrete (the LALR automaton must run on concrete kinds), the VALUES a, b, c of the INTEGER tokens are
// symbolic.  The resulting CPPExpression tree is evaluated by the real CPPExpression::evaluate() and compared with a
// reference that applies the C++ precedence table written down independently below.
//
// Lowered build: the generated parser is #included into this translation unit (the engine runs bison on the
// cppBison.yxx of the tree under test into the scratch 'gen' directory, which is on the include path) with the initial
// stack depth YYINITDEPTH lowered from 200 to 10 (the three parser stacks are arrays of fat C++ objects whose
// constructors/destructors run for every slot; depth never exceeds 8 here and an overflow would end in the cut
// CPPPreprocessor::error -> the 'accepted' assertion fails and, native replay using depth 200, is reported as an
// encoding error, never as success).  Native replay: the separately compiled real cppBison.cxx is linked.
#include "verif.h"
#include "cppExpression.h"
#include "cppPreprocessor.h"
#include "cppToken.h"
#ifndef VERIF_NATIVE
#define YYINITDEPTH 10
#include "cppBison.cxx"
#else
#include "cppBison.h"
#endif

// ---- the token script (replaces the lexer) ---------------------------------------------------------------------------
#define MAXTOK 12
static int tok_kind[MAXTOK];
static unsigned long long tok_val[MAXTOK];
static int tok_n = 0, tok_pos = 0;
static int parse_errors = 0;

static void tok_reset() { tok_n = 0; tok_pos = 0; }
static void tok_add(int kind, unsigned long long v = 0) { tok_kind[tok_n] = kind; tok_val[tok_n] = v; tok_n++; }

// cut: CPPPreprocessor::get_next_token
CPPToken CPPPreprocessor::get_next_token() {
  int k = 0;
  unsigned long long v = 0;
  if (tok_pos < tok_n) { k = tok_kind[tok_pos]; v = tok_val[tok_pos]; tok_pos++; }
  YYSTYPE lval;
  lval.u.integer = v;
  return CPPToken(k, 1, tok_pos, CPPFile(), std::string(), lval);
}
// cut: diagnostics of the parser (syntax error, memory exhausted, ...)
void CPPPreprocessor::error(const std::string &, const YYLTYPE &) const { parse_errors++; }
void CPPPreprocessor::warning(const std::string &, const YYLTYPE &) const { parse_errors++; }

// ---- reference: the C++ table --------------------------------------------------------------------------------------
// binary operators of integer constant expressions; level = C++ precedence (higher binds tighter); all left-assoc.
static const int OPS[] = {'*', '/', '%', '+', '-', LSHIFT, RSHIFT, '<', LECOMPARE, '>', GECOMPARE, EQCOMPARE, NECOMPARE,
                          '&', '^', '|', ANDAND, OROR};
static const int LEVEL[] = {10, 10, 10, 9, 9, 8, 8, 7, 7, 7, 7, 6, 6, 5, 4, 3, 2, 1};
#define NOPS ((int)(sizeof(OPS) / sizeof(OPS[0])))

struct Ref { bool defined; long v; };
static Ref ref_bin(int op, Ref a, Ref b) {
  Ref r; r.defined = a.defined && b.defined; r.v = 0;
  if (!r.defined) return r;
  long x = a.v, y = b.v;
  switch (op) {
  case '*': r.v = x * y; break;
  case '/': if (y == 0) r.defined = false; else r.v = x / y; break;
  case '%': if (y == 0) r.defined = false; else r.v = x % y; break;
  case '+': r.v = x + y; break;
  case '-': r.v = x - y; break;
  case '|': r.v = x | y; break;
  case '&': r.v = x & y; break;
  case '^': r.v = x ^ y; break;
  case OROR: r.v = (x != 0 || y != 0); break;
  case ANDAND: r.v = (x != 0 && y != 0); break;
  case EQCOMPARE: r.v = x == y; break;
  case NECOMPARE: r.v = x != y; break;
  case LECOMPARE: r.v = x <= y; break;
  case GECOMPARE: r.v = x >= y; break;
  case '<': r.v = x < y; break;
  case '>': r.v = x > y; break;
  case LSHIFT: if (y < 0 || y >= 31 || x < 0) r.defined = false; else r.v = x << y; break;
  case RSHIFT: if (y < 0 || y >= 31) r.defined = false; else r.v = x >> y; break;
  }
  if (r.v > 2147483647L || r.v < -2147483647L - 1) r.defined = false;   // the property's precondition: fits in int
  return r;
}

#ifndef MDMAX
#define MDMAX 63
#endif

static CPPPreprocessor *fake_pp() {
  // the cut lexer does not touch its object; no CPPPreprocessor is constructed (its constructor builds the whole
  // preprocessor state) - the parser only ever calls get_next_token/error/warning on it, all three cut.
  return (CPPPreprocessor *)operator new(sizeof(CPPPreprocessor));
}

static bool is_muldiv(int op) { return op == '*' || op == '/' || op == '%'; }

// one expression  a OP1 b OP2 c  with fresh symbolic literal values
static __attribute__((noinline)) void one_pair(CPPPreprocessor *pp, int i1, int i2) {
  int op1 = OPS[i1], op2 = OPS[i2];
  int va = nondet_int(), vb = nondet_int(), vc = nondet_int();
  // integer literals are non-negative; symbolic-by-symbolic * / % is SAT-hard at full width: small operands there
  int vmax = (is_muldiv(op1) || is_muldiv(op2)) ? MDMAX : 2147483647;
  ASSUME(va >= 0 && va <= vmax && vb >= 0 && vb <= vmax && vc >= 0 && vc <= vmax);
  Ref a, b, c;
  a.defined = b.defined = c.defined = true;
  a.v = va; b.v = vb; c.v = vc;
  tok_reset();
  tok_add(START_CONST_EXPR);
  tok_add(INTEGER, (unsigned long long)va);
  tok_add(op1);
  tok_add(INTEGER, (unsigned long long)vb);
  tok_add(op2);
  tok_add(INTEGER, (unsigned long long)vc);
  CPPExpression *e = parse_const_expr(pp, nullptr, nullptr);
  ASSERT(parse_errors == 0 && e != nullptr, "C07 a OP1 b OP2 c is accepted by the parser");
  if (e == nullptr) return;
  // C++: OP2 binds tighter than OP1 only when its level is strictly higher (equal levels: left-associative)
  Ref want = (LEVEL[i2] > LEVEL[i1]) ? ref_bin(op1, a, ref_bin(op2, b, c)) : ref_bin(op2, ref_bin(op1, a, b), c);
  // (&& and || short-circuit; only fully defined expressions are claimed)
  CPPExpression::Result r = e->evaluate();
  if (want.defined) {
    ASSERT(r._type == CPPExpression::RT_integer, "C07 parsed integer expression evaluates to an integer");
    ASSERT(r._type != CPPExpression::RT_integer || r._u._integer == (int)want.v,
           "C07 value of a OP1 b OP2 c equals the value under C++ precedence and associativity");
  }
}

// PAIRSET 0: OP1 = OPS[ROW], OP2 ranges over the operators with index % NPARTS == PART (the row entries cover all 324
//            ordered pairs).
// PAIRSET 1: the subset that pins the table down level by level: one representative per level (the one whose
//            grouping is observable in the value); for every adjacent pair of levels the expression with the looser
//            operator first (a - b / c), and the same-level pair (a - b - c) for the levels whose operators are not
//            associative in value; residue PART of NPARTS.
#ifndef PAIRSET
#define PAIRSET 1
#endif
#ifndef ROW
#define ROW 0
#endif
#ifndef NPARTS
#define NPARTS 1
#endif
#ifndef PART
#define PART 0
#endif
//                         /  -  >> <  == &   ^   |   &&  ||      (indices into OPS, levels 10 .. 1)
static const int REP[] = {1, 4, 6, 7, 11, 13, 14, 15, 16, 17};
#define NREP 10

extern "C" void harness_c07_parse_pairs() {
  CPPPreprocessor *pp = fake_pp();
  int done = 0;
#if PAIRSET == 0
  for (int i2 = 0; i2 < NOPS; i2++) { if (i2 % NPARTS == PART) { one_pair(pp, ROW, i2); done++; } }
#else
  int k = 0;
  for (int l = 0; l < NREP; l++) {
    if (l + 1 < NREP) {
      if (k++ % NPARTS == PART) { one_pair(pp, REP[l + 1], REP[l]); done++; }   // looser first:   a - b / c
    }
    if (l < 5) { if (k++ % NPARTS == PART) { one_pair(pp, REP[l], REP[l]); done++; } }   // a - b - c
  }
#endif
  ASSERT(done > 0, "C07 harness parsed at least one expression");
  WITNESS();
}
