// C02 Tier A (b),(c): overload ordering comparator and default-argument collapsing of the -python-native generator
// (RemapCompareLess, interfaceMakerPythonNative.cxx:4923; collapse_default_remaps, :4803).
#include "verif.h"
#include "functionRemap.h"
#include "parameterRemap.h"
#include "interfaceMakerPythonNative.h"
#include <new>
#include <map>
#include <set>
#include <string.h>
#include <string>

bool RemapCompareLess(FunctionRemap *in1, FunctionRemap *in2);
int get_type_sort(CPPType *type);
bool mangle_names = true;     // defined in interrogate.cxx (a main file, never linked)

#ifndef NREMAP
#define NREMAP 3
#endif
#ifndef PMAX
#define PMAX 2
#endif

// ---- (b) RemapCompareLess is a strict weak ordering ----------------------------------------------------------
// get_type_sort is cut from the TU and replaced by an uninterpreted table: every parameter slot has its own
// CPPType token with its own symbolic sort value (equal values = same type or same sort class), so every function
// CPPType* -> int is covered and the check is about the comparator alone.
static char type_token[NREMAP][PMAX];
static int sort_value[NREMAP][PMAX];
int get_type_sort(CPPType *type) {
  long off = (char *)type - &type_token[0][0];
  ASSERT(off >= 0 && off < NREMAP * PMAX, "C02 model: get_type_sort called on a parameter type of the remaps");
  return sort_value[off / PMAX][off % PMAX];
}

// raw storage (no constructor: it would need a parsed function): the comparator reads _const_method and
// _parameters[x]._remap->_orig_type only.  noinline + no memset: the allocation keeps its struct type in the IR
// (the translator then gives the solver a typed object instead of a byte array).
static FunctionRemap *__attribute__((noinline)) raw_remap() { return (FunctionRemap *)::operator new(sizeof(FunctionRemap)); }
static ParameterRemap *__attribute__((noinline)) raw_param() { return (ParameterRemap *)::operator new(sizeof(ParameterRemap)); }

static FunctionRemap *the_remaps[NREMAP];

// one combination of parameter counts (concrete: a symbolic vector end makes size() a symbolic pointer division)
static void __attribute__((noinline)) compare_case(const int *count) {
  FunctionRemap **r = the_remaps;
  for (int i = 0; i < NREMAP; i++)
    r[i]->_parameters._M_impl._M_finish = r[i]->_parameters._M_impl._M_start + count[i];
  bool lt[NREMAP][NREMAP];
  for (int i = 0; i < NREMAP; i++)
    for (int j = 0; j < NREMAP; j++)
      lt[i][j] = RemapCompareLess(r[i], r[j]);
  for (int i = 0; i < NREMAP; i++) {
    ASSERT(!lt[i][i], "C02 RemapCompareLess is irreflexive");
    for (int j = 0; j < NREMAP; j++) {
      ASSERT(!(lt[i][j] && lt[j][i]), "C02 RemapCompareLess is asymmetric");
      for (int k = 0; k < NREMAP; k++) {
        ASSERT(!(lt[i][j] && lt[j][k]) || lt[i][k], "C02 RemapCompareLess is transitive");
        bool eij = !lt[i][j] && !lt[j][i], ejk = !lt[j][k] && !lt[k][j], eik = !lt[i][k] && !lt[k][i];
        ASSERT(!(eij && ejk) || eik, "C02 RemapCompareLess: incomparability is transitive (strict weak ordering)");
      }
    }
  }
  // the documented order: non-const methods first, then more parameters first, then higher type sort first
  if (r[0]->_const_method != r[1]->_const_method) {
    ASSERT(lt[0][1] == r[1]->_const_method, "C02 RemapCompareLess puts non-const methods before const methods");
  } else if (count[0] != count[1]) {
    ASSERT(lt[0][1] == (count[0] > count[1]), "C02 RemapCompareLess puts overloads with more parameters first");
  } else if (count[0] >= 1 && sort_value[0][0] != sort_value[1][0]) {
    ASSERT(lt[0][1] == (sort_value[0][0] > sort_value[1][0]), "C02 RemapCompareLess puts the more specific first parameter type first");
  }
}

extern "C" void harness_c02_remap_compare() {
  for (int i = 0; i < NREMAP; i++) {
    FunctionRemap *r = raw_remap();
    the_remaps[i] = r;
    new (&r->_parameters) FunctionRemap::Parameters();
    // the tie-breaker of the comparator: the overloads of a set have distinct signatures
    new (&r->_function_signature) std::string(i == 0 ? "f(A *)" : i == 1 ? "f(B *)" : "f(C *)");
    r->_const_method = nondet_bool();
    r->_parameters.reserve(PMAX);
    for (int x = 0; x < PMAX; x++) {
      ParameterRemap *pr = raw_param();
      pr->_orig_type = (CPPType *)&type_token[i][x];
      sort_value[i][x] = nondet_int();
      r->_parameters.emplace_back();
      r->_parameters[x]._remap = pr;
    }
  }
  int count[3];
  for (count[0] = 0; count[0] <= PMAX; count[0]++)
    for (count[1] = 0; count[1] <= PMAX; count[1]++)
      for (count[2] = 0; count[2] <= PMAX; count[2]++)
        compare_case(count);
  WITNESS();
}

// ---- (c) collapse_default_remaps ------------------------------------------------------------------------------
// Overload i (of NREMAP) is absent or accepts every argument count in [lo_i, hi_i] within 0..AMAX; map_sets is
// built exactly as write_function_for_name does (map_sets[n].insert(remap) for n in lo..hi; max_required_args =
// largest hi).  The ranges are enumerated by concrete loops (a symbolic shape of the map does not finish).
#ifndef AMAX
#define AMAX 2
#endif
#define NOPT (1 + (AMAX + 1) * (AMAX + 2) / 2)     // absent, or one of the ranges
#ifndef OPT_FROM
#define OPT_FROM 0
#endif
#ifndef OPT_TO
#define OPT_TO NOPT
#endif
typedef std::map<int, std::set<FunctionRemap *> > MapSets;
// the overloads are never dereferenced by collapse_default_remaps: fake pointers with concrete integer values keep the
// std::set<FunctionRemap *> ordering (an integer comparison of the addresses) decidable during symbolic execution
#define REMAP_TOKEN(i) ((FunctionRemap *)(uintptr_t)(4096 + 16 * (i)))

static void opt_range(int opt, bool *present, int *lo, int *hi) {
  *present = opt != 0; *lo = 0; *hi = 0;
  int k = 1;
  for (int l = 0; l <= AMAX; l++)
    for (int h = l; h <= AMAX; h++, k++)
      if (k == opt) { *lo = l; *hi = h; }
}

static void __attribute__((noinline)) collapse_case(InterfaceMakerPythonNative *self, const int *opt) {
  bool present[NREMAP]; int lo[NREMAP], hi[NREMAP];
  MapSets *ms = new MapSets;
  int mra0 = 0;
  bool any = false;
  for (int i = 0; i < NREMAP; i++) {
    opt_range(opt[i], &present[i], &lo[i], &hi[i]);
    if (!present[i]) continue;
    any = true;
    if (hi[i] > mra0) mra0 = hi[i];
    for (int n = lo[i]; n <= hi[i]; n++) (*ms)[n].insert(REMAP_TOKEN(i));
  }
  int top = mra0;
  int ret = self->collapse_default_remaps(*ms, mra0);
  if (!any) {
    ASSERT(ret == mra0 && ms->empty(), "C02 collapse_default_remaps leaves an empty overload table alone");
    return;
  }
  ASSERT(ms->size() >= 1, "C02 collapse_default_remaps keeps at least one arity");
  ASSERT(ret >= 0 && ret <= mra0, "C02 collapse_default_remaps returns a minimum within the arities");
  ASSERT(ms->find(top) != ms->end(), "C02 collapse_default_remaps keeps the largest arity");
  // the dispatcher consults entry (k, S) for the argument counts min(ret, k) .. k
  for (int n = 0; n <= AMAX; n++) {
    int consulted = 0;
    bool ok[NREMAP];
    for (int i = 0; i < NREMAP; i++) ok[i] = false;
    for (MapSets::iterator it = ms->begin(); it != ms->end(); ++it) {
      int k = it->first;
      int from = ret < k ? ret : k;
      if (n < from || n > k) continue;
      consulted++;
      for (int i = 0; i < NREMAP; i++) if (it->second.count(REMAP_TOKEN(i))) ok[i] = true;
    }
    ASSERT(consulted <= 1, "C02 after collapsing, every argument count selects at most one overload set");
    for (int i = 0; i < NREMAP; i++) {
      bool accepts = present[i] && lo[i] <= n && n <= hi[i];
      ASSERT(!accepts || ok[i], "C02 an overload that accepted n arguments is still in the set consulted for n after collapsing");
      ASSERT(!ok[i] || present[i], "C02 collapsing invents no overload");
    }
  }
}

extern "C" void harness_c02_collapse_defaults() {
  InterfaceMakerPythonNative *self = (InterfaceMakerPythonNative *)::operator new(sizeof(InterfaceMakerPythonNative));
  int opt[NREMAP];
  // multisets of options (overloads are interchangeable): opt[0] <= opt[1] <= opt[2]
  for (opt[0] = OPT_FROM; opt[0] < OPT_TO; opt[0]++)
    for (opt[1] = opt[0]; opt[1] < NOPT; opt[1]++)
      for (opt[2] = opt[1]; opt[2] < NOPT; opt[2]++) {
        if (nondet_bool()) goto done;        // early stop keeps the end reachable should a case not terminate
        collapse_case(self, opt);
      }
done:
  WITNESS();
}
