// C11 (a): per-record index rewriting.  X::remap_indices(remap) must send EVERY index-valued field of the record
// (scalars, every element of every index vector, and the index fields of the Derivation / Parameter sub-records)
// through remap.map_from, and must leave every other field alone.
//
// IndexRemapper::map_from is cut and replaced by an injective function f chosen by a symbolic key K:
//     f(x) = x rotated left by K bits, K in 1..31       (a bijection on the 32-bit indices, f(0) = 0)
// which mirrors the one property of the real map_from that callers rely on: the "no entity" index 0, which never has
// a mapping, stays 0.  (Pure bit wiring: an f built from x ^ K made the 7000-variable SAT instance take 4 minutes.)
// The oracle below is written from the class definitions (interrogate*.h), field by field: a field forgotten in
// remap_indices - or a non-index field remapped by mistake - fails.
#include "verif.h"
#include "interrogateType.h"
#include "interrogateFunction.h"
#include "interrogateFunctionWrapper.h"
#include "interrogateElement.h"
#include "interrogateManifest.h"
#include "interrogateMakeSeq.h"
#include "indexRemapper.h"
#include <string>
#include <vector>

#ifdef NMAX
#define VMAX NMAX
#endif
#ifndef VMAX
#define VMAX 2
#endif

static int g_key;
static const IndexRemapper *g_remap;       // every call must go to the remapper that was passed in
static bool g_foreign;
static int f(int x) { unsigned u = (unsigned)x; return (int)((u << g_key) | (u >> (32 - g_key))); }
int IndexRemapper::map_from(int from) const {
  if (this != g_remap) g_foreign = true;
  return f(from);
}

// symbolic vector length with concrete structure (see c20_records.cxx)
template<class V> static void set_len(V &v, int n) { v._M_impl._M_finish = v._M_impl._M_start + n; }
static int sym_len() { int n = nondet_int(); ASSUME(n >= 0 && n <= VMAX); return n; }

struct IVec { int n; int m[VMAX]; };
static void fill(std::vector<int> &v, IVec &x) {
  x.n = sym_len();
  v.resize(VMAX);
  for (int i = 0; i < VMAX; i++) { x.m[i] = nondet_int(); v[i] = x.m[i]; }
  set_len(v, x.n);
}
// all stored elements remapped, length unchanged (the slots beyond the length are not part of the vector)
static bool remapped(const std::vector<int> &v, const IVec &x) {
  if ((int)v.size() != x.n) return false;
  bool ok = true;
  for (int i = 0; i < VMAX; i++) if (i < x.n && v[i] != f(x.m[i])) ok = false;
  return ok;
}
static char sym_str(std::string &s) { char c = nondet_char(); ASSUME(c != 0); s.assign(1, c); return c; }
static bool str_is(const std::string &s, char c) { return s.size() == 1 && s[0] == c; }

static IndexRemapper *start() {
  g_key = nondet_int();
  ASSUME(g_key >= 1 && g_key <= 31);
  g_foreign = false;
  IndexRemapper *r = new IndexRemapper;
  g_remap = r;
  return r;
}

// ---- InterrogateType -------------------------------------------------------------------------------------------
extern "C" void harness_c11_remap_type() {
  IndexRemapper *remap = start();
  InterrogateType *t = new InterrogateType;
  // index fields (TypeIndex / FunctionIndex / ElementIndex / MakeSeqIndex)
  int outer = nondet_int(), wrapped = nondet_int(), dtor = nondet_int();
  t->_outer_class = outer; t->_wrapped_type = wrapped; t->_destructor = dtor;
  IVec ctors, elems, meths, casts, seqs, nested;
  fill(t->_constructors, ctors); fill(t->_elements, elems); fill(t->_methods, meths);
  fill(t->_casts, casts); fill(t->_make_seqs, seqs); fill(t->_nested_types, nested);
  int nd = sym_len();
  int dfl[VMAX], dba[VMAX], dup[VMAX], ddn[VMAX];
  t->_derivations.resize(VMAX);
  for (int i = 0; i < VMAX; i++) {
    dfl[i] = nondet_int(); dba[i] = nondet_int(); dup[i] = nondet_int(); ddn[i] = nondet_int();
    InterrogateType::Derivation &d = t->_derivations[i];
    d._flags = dfl[i]; d._base = dba[i]; d._upcast = dup[i]; d._downcast = ddn[i];
  }
  set_len(t->_derivations, nd);
  // non-index fields
  int flags = nondet_int(), atomic = nondet_int(), asize = nondet_int();
  ASSUME(atomic >= 0 && atomic <= 12);
  t->_flags = flags; t->_atomic_token = (AtomicToken)atomic; t->_array_size = asize;
  char cn = sym_str(t->_name), cs = sym_str(t->_scoped_name), ct = sym_str(t->_true_name), cc = sym_str(t->_comment);
  int ne = sym_len();
  int ev[VMAX]; char en[VMAX];
  t->_enum_values.resize(VMAX);
  for (int i = 0; i < VMAX; i++) { ev[i] = nondet_int(); t->_enum_values[i]._value = ev[i]; en[i] = sym_str(t->_enum_values[i]._name); }
  set_len(t->_enum_values, ne);

  t->remap_indices(*remap);

  ASSERT(!g_foreign, "C11 type: indices are looked up in the remapper that was passed in");
  ASSERT(t->_outer_class == f(outer), "C11 type: _outer_class is remapped");
  ASSERT(t->_wrapped_type == f(wrapped), "C11 type: _wrapped_type is remapped");
  ASSERT(t->_destructor == f(dtor), "C11 type: _destructor is remapped");
  ASSERT(remapped(t->_constructors, ctors), "C11 type: every constructor index is remapped");
  ASSERT(remapped(t->_elements, elems), "C11 type: every element index is remapped");
  ASSERT(remapped(t->_methods, meths), "C11 type: every method index is remapped");
  ASSERT(remapped(t->_casts, casts), "C11 type: every cast index is remapped");
  ASSERT(remapped(t->_make_seqs, seqs), "C11 type: every make_seq index is remapped");
  ASSERT(remapped(t->_nested_types, nested), "C11 type: every nested type index is remapped");
  bool der = (int)t->_derivations.size() == nd, derflags = true;
  for (int i = 0; i < VMAX; i++)
    if (i < nd) {
      const InterrogateType::Derivation &d = t->_derivations[i];
      if (d._base != f(dba[i]) || d._upcast != f(dup[i]) || d._downcast != f(ddn[i])) der = false;
      if (d._flags != dfl[i]) derflags = false;
    }
  ASSERT(der, "C11 type: base, upcast and downcast of every derivation are remapped");
  ASSERT(derflags, "C11 type: derivation flags are not an index and stay unchanged");
  ASSERT(t->_flags == flags && (int)t->_atomic_token == atomic && t->_array_size == asize, "C11 type: flags, atomic token and array size stay unchanged");
  ASSERT(str_is(t->_name, cn) && str_is(t->_scoped_name, cs) && str_is(t->_true_name, ct) && str_is(t->_comment, cc), "C11 type: names and comment stay unchanged");
  bool enums = (int)t->_enum_values.size() == ne;
  for (int i = 0; i < VMAX; i++) if (i < ne && (t->_enum_values[i]._value != ev[i] || !str_is(t->_enum_values[i]._name, en[i]))) enums = false;
  ASSERT(enums, "C11 type: enum values are not indices and stay unchanged");
  WITNESS();
}

// ---- InterrogateFunction -----------------------------------------------------------------------------------------
extern "C" void harness_c11_remap_function() {
  IndexRemapper *remap = start();
  InterrogateFunction *fn = new InterrogateFunction;
  int cls = nondet_int();
  fn->_class = cls;
  IVec cw, pw;
  fill(fn->_c_wrappers, cw); fill(fn->_python_wrappers, pw);
  int flags = nondet_int();
  fn->_flags = flags;
  char cn = sym_str(fn->_name), cs = sym_str(fn->_scoped_name), cc = sym_str(fn->_comment), cp = sym_str(fn->_prototype);

  fn->remap_indices(*remap);

  ASSERT(!g_foreign, "C11 function: indices are looked up in the remapper that was passed in");
  ASSERT(fn->_class == f(cls), "C11 function: _class is remapped");
  ASSERT(remapped(fn->_c_wrappers, cw), "C11 function: every C wrapper index is remapped");
  ASSERT(remapped(fn->_python_wrappers, pw), "C11 function: every Python wrapper index is remapped");
  ASSERT(fn->_flags == flags, "C11 function: flags stay unchanged");
  ASSERT(str_is(fn->_name, cn) && str_is(fn->_scoped_name, cs) && str_is(fn->_comment, cc) && str_is(fn->_prototype, cp),
         "C11 function: names, comment and prototype stay unchanged");
  WITNESS();
}

// ---- InterrogateFunctionWrapper ----------------------------------------------------------------------------------
extern "C" void harness_c11_remap_wrapper() {
  IndexRemapper *remap = start();
  InterrogateFunctionWrapper *w = new InterrogateFunctionWrapper;
  int fun = nondet_int(), rt = nondet_int(), rd = nondet_int();
  w->_function = fun; w->_return_type = rt; w->_return_value_destructor = rd;
  int np = sym_len();
  int pf[VMAX], pt[VMAX]; char pn[VMAX];
  w->_parameters.resize(VMAX);
  for (int i = 0; i < VMAX; i++) {
    pf[i] = nondet_int(); pt[i] = nondet_int();
    InterrogateFunctionWrapper::Parameter &p = w->_parameters[i];
    p._parameter_flags = pf[i]; p._type = pt[i];
    pn[i] = sym_str(p._name);
  }
  set_len(w->_parameters, np);
  int flags = nondet_int();
  w->_flags = flags;
  char cn = sym_str(w->_name), cu = sym_str(w->_unique_name), cc = sym_str(w->_comment);

  w->remap_indices(*remap);

  ASSERT(!g_foreign, "C11 wrapper: indices are looked up in the remapper that was passed in");
  ASSERT(w->_function == f(fun), "C11 wrapper: _function is remapped");
  ASSERT(w->_return_type == f(rt), "C11 wrapper: _return_type is remapped");
  ASSERT(w->_return_value_destructor == f(rd), "C11 wrapper: _return_value_destructor is remapped");
  bool types = (int)w->_parameters.size() == np, rest = true;
  for (int i = 0; i < VMAX; i++)
    if (i < np) {
      const InterrogateFunctionWrapper::Parameter &p = w->_parameters[i];
      if (p._type != f(pt[i])) types = false;
      if (p._parameter_flags != pf[i] || !str_is(p._name, pn[i])) rest = false;
    }
  ASSERT(types, "C11 wrapper: the type of every parameter is remapped");
  ASSERT(rest, "C11 wrapper: parameter flags and names stay unchanged");
  ASSERT(w->_flags == flags && str_is(w->_name, cn) && str_is(w->_unique_name, cu) && str_is(w->_comment, cc),
         "C11 wrapper: flags, names and comment stay unchanged");
  WITNESS();
}

// ---- InterrogateElement, InterrogateManifest, InterrogateMakeSeq (scalar index fields only) ---------------------------
extern "C" void harness_c11_remap_scalars() {
  IndexRemapper *remap = start();
  InterrogateElement *e = new InterrogateElement;
  int v[9];
  v[0] = nondet_int(); v[1] = nondet_int(); v[2] = nondet_int(); v[3] = nondet_int(); v[4] = nondet_int();
  v[5] = nondet_int(); v[6] = nondet_int(); v[7] = nondet_int(); v[8] = nondet_int();
  e->_type = v[0]; e->_getter = v[1]; e->_setter = v[2]; e->_has_function = v[3]; e->_clear_function = v[4];
  e->_del_function = v[5]; e->_insert_function = v[6]; e->_getkey_function = v[7]; e->_length_function = v[8];
  int eflags = nondet_int();
  e->_flags = eflags;
  char en = sym_str(e->_name), es = sym_str(e->_scoped_name), ec = sym_str(e->_comment);
  e->remap_indices(*remap);
  ASSERT(e->_type == f(v[0]), "C11 element: _type is remapped");
  ASSERT(e->_getter == f(v[1]), "C11 element: _getter is remapped");
  ASSERT(e->_setter == f(v[2]), "C11 element: _setter is remapped");
  ASSERT(e->_has_function == f(v[3]), "C11 element: _has_function is remapped");
  ASSERT(e->_clear_function == f(v[4]), "C11 element: _clear_function is remapped");
  ASSERT(e->_del_function == f(v[5]), "C11 element: _del_function is remapped");
  ASSERT(e->_insert_function == f(v[6]), "C11 element: _insert_function is remapped");
  ASSERT(e->_getkey_function == f(v[7]), "C11 element: _getkey_function is remapped");
  ASSERT(e->_length_function == f(v[8]), "C11 element: _length_function is remapped");
  ASSERT(e->_flags == eflags && str_is(e->_name, en) && str_is(e->_scoped_name, es) && str_is(e->_comment, ec),
         "C11 element: flags, names and comment stay unchanged");

  InterrogateManifest *m = new InterrogateManifest;
  int mt = nondet_int(), mg = nondet_int(), mflags = nondet_int(), mint = nondet_int();
  m->_type = mt; m->_getter = mg; m->_flags = mflags; m->_int_value = mint;
  char mn = sym_str(m->_name), md = sym_str(m->_definition);
  m->remap_indices(*remap);
  ASSERT(m->_type == f(mt), "C11 manifest: _type is remapped");
  ASSERT(m->_getter == f(mg), "C11 manifest: _getter is remapped");
  ASSERT(m->_flags == mflags && m->_int_value == mint && str_is(m->_name, mn) && str_is(m->_definition, md),
         "C11 manifest: flags, integer value, name and definition stay unchanged");

  InterrogateMakeSeq *s = new InterrogateMakeSeq;
  int sl = nondet_int(), se = nondet_int();
  s->_length_getter = sl; s->_element_getter = se;
  char sn = sym_str(s->_name), ss = sym_str(s->_scoped_name), sc = sym_str(s->_comment);
  s->remap_indices(*remap);
  ASSERT(s->_length_getter == f(sl), "C11 make_seq: _length_getter is remapped");
  ASSERT(s->_element_getter == f(se), "C11 make_seq: _element_getter is remapped");
  ASSERT(str_is(s->_name, sn) && str_is(s->_scoped_name, ss) && str_is(s->_comment, sc), "C11 make_seq: names and comment stay unchanged");
  ASSERT(!g_foreign, "C11 element/manifest/make_seq: indices are looked up in the remapper that was passed in");
  WITNESS();
}
