// C11: every record's remap_indices() rewrites *all* of its index-valued fields through the remapper and nothing else.
//
// IndexRemapper::map_from is cut out of the real code and replaced by the injective function f below (f(0) = 0 like the
// real remapper, which never maps the "no index" value 0; f(i) = i + 1000 otherwise).  The lists of index fields are
// written here from the class definitions (interrogate*.h), independently of the remap_indices() bodies: a field that
// remap_indices() forgets keeps its old value i != f(i) and fails.
#include "verif.h"
#include "interrogateDatabase.h"
#include "indexRemapper.h"
#include <string>
#include <vector>
#ifndef NMAX
#define NMAX 2
#endif

static int f(int i) { return i == 0 ? 0 : i + 1000; }
int IndexRemapper::map_from(int from) const { return f(from); }

// a symbolic index: 0 ("none") or any positive index up to 2^30 (so that f does not overflow)
static int idx() { int i = nondet_int(); ASSUME(i >= 0 && i <= (1 << 30)); return i; }

// one-character strings written straight into the small-string buffer (std::string::operator= drags the whole
// _M_replace overlap analysis into the query) and compared by size and first byte
static void set1(std::string &s, char c) { s._M_local_buf[0] = c; s._M_local_buf[1] = 0; s._M_string_length = 1; }
static bool is1(const std::string &s, char c) { return s.size() == 1 && s[0] == c; }

#define DISPATCH(body) { int n_sym = nondet_int(); ASSUME(n_sym >= 0 && n_sym <= NMAX); \
  if (n_sym == 0) { body<0>(); return; } \
  if (NMAX >= 1 && n_sym == 1) { body<(NMAX >= 1 ? 1 : 0)>(); return; } \
  if (NMAX >= 2 && n_sym == 2) { body<(NMAX >= 2 ? 2 : 0)>(); return; } \
  if (NMAX >= 3 && n_sym == 3) { body<(NMAX >= 3 ? 3 : 0)>(); return; } }

#define MAPPED(field, what) ASSERT(r->field == f(old_##what), "C11 " #what " is rewritten through the index map")
#define KEPT(field, what) ASSERT(r->field == old_##what, "C11 " #what " (not an index) is left unchanged")

template<int N> static void fill(std::vector<int> &v, int *old) { for (int i = 0; i < N; i++) { old[i] = idx(); v.push_back(old[i]); } }
template<int N> static void check(const std::vector<int> &v, const int *old, const char *) {
  ASSERT(v.size() == (size_t)N, "C11 remapping keeps the length of every index vector");
  for (int i = 0; i < N && i < (int)v.size(); i++) ASSERT(v[i] == f(old[i]), "C11 every element of an index vector is rewritten through the index map");
}

// ---- InterrogateType ----
template<int N> static void type_body() {
  InterrogateType *r = new InterrogateType;
  IndexRemapper *remap = new IndexRemapper;
  int old_flags = r->_flags = nondet_int();
  int old_atomic = nondet_int(); r->_atomic_token = (AtomicToken)old_atomic;
  int old_array_size = r->_array_size = nondet_int();
  int old_outer_class = r->_outer_class = idx();
  int old_wrapped_type = r->_wrapped_type = idx();
  int old_destructor = r->_destructor = idx();
  set1(r->_name, 'n'); set1(r->_scoped_name, 's'); set1(r->_true_name, 't'); set1(r->_comment, 'c');
  int o_ctor[N + 1], o_elem[N + 1], o_meth[N + 1], o_cast[N + 1], o_seq[N + 1], o_nest[N + 1];
  fill<N>(r->_constructors, o_ctor); fill<N>(r->_elements, o_elem); fill<N>(r->_methods, o_meth);
  fill<N>(r->_casts, o_cast); fill<N>(r->_make_seqs, o_seq); fill<N>(r->_nested_types, o_nest);
  int o_dflags[N + 1], o_dbase[N + 1], o_dup[N + 1], o_ddown[N + 1], o_eval[N + 1];
  for (int i = 0; i < N; i++) {
    InterrogateType::Derivation d;
    o_dflags[i] = d._flags = nondet_int(); o_dbase[i] = d._base = idx(); o_dup[i] = d._upcast = idx(); o_ddown[i] = d._downcast = idx();
    r->_derivations.push_back(d);
  }
  r->_enum_values.reserve(N);
  for (int i = 0; i < N; i++) {
    r->_enum_values.emplace_back();
    set1(r->_enum_values.back()._name, 'e');
    o_eval[i] = r->_enum_values.back()._value = nondet_int();
  }
  r->remap_indices(*remap);
  MAPPED(_outer_class, outer_class); MAPPED(_wrapped_type, wrapped_type); MAPPED(_destructor, destructor);
  KEPT(_flags, flags); KEPT(_array_size, array_size);
  ASSERT((int)r->_atomic_token == old_atomic, "C11 atomic token (not an index) is left unchanged");
  ASSERT(is1(r->_name, 'n') && is1(r->_scoped_name, 's') && is1(r->_true_name, 't') && is1(r->_comment, 'c'), "C11 names and comment are left unchanged");
  check<N>(r->_constructors, o_ctor, "constructors"); check<N>(r->_elements, o_elem, "elements"); check<N>(r->_methods, o_meth, "methods");
  check<N>(r->_casts, o_cast, "casts"); check<N>(r->_make_seqs, o_seq, "make_seqs"); check<N>(r->_nested_types, o_nest, "nested types");
  ASSERT(r->_derivations.size() == (size_t)N && r->_enum_values.size() == (size_t)N, "C11 remapping keeps the length of every index vector");
  for (int i = 0; i < N && i < (int)r->_derivations.size(); i++) {
    ASSERT(r->_derivations[i]._base == f(o_dbase[i]), "C11 derivation base is rewritten through the index map");
    ASSERT(r->_derivations[i]._upcast == f(o_dup[i]), "C11 derivation upcast is rewritten through the index map");
    ASSERT(r->_derivations[i]._downcast == f(o_ddown[i]), "C11 derivation downcast is rewritten through the index map");
    ASSERT(r->_derivations[i]._flags == o_dflags[i], "C11 derivation flags (not an index) are left unchanged");
  }
  for (int i = 0; i < N && i < (int)r->_enum_values.size(); i++)
    ASSERT(r->_enum_values[i]._value == o_eval[i] && is1(r->_enum_values[i]._name, 'e'), "C11 enum values (not indices) are left unchanged");
  WITNESS();
}
extern "C" void harness_c11_remap_type() { DISPATCH(type_body) }

// ---- InterrogateFunction ----
template<int N> static void function_body() {
  InterrogateFunction *r = new InterrogateFunction;
  IndexRemapper *remap = new IndexRemapper;
  int old_flags = r->_flags = nondet_int();
  int old_class = r->_class = idx();
  set1(r->_name, 'n'); set1(r->_scoped_name, 's'); set1(r->_comment, 'c'); set1(r->_prototype, 'p');
  int o_c[N + 1], o_py[N + 1];
  fill<N>(r->_c_wrappers, o_c); fill<N>(r->_python_wrappers, o_py);
  r->remap_indices(*remap);
  MAPPED(_class, class); KEPT(_flags, flags);
  ASSERT(is1(r->_name, 'n') && is1(r->_scoped_name, 's') && is1(r->_comment, 'c') && is1(r->_prototype, 'p'), "C11 names, comment and prototype are left unchanged");
  check<N>(r->_c_wrappers, o_c, "c wrappers"); check<N>(r->_python_wrappers, o_py, "python wrappers");
  WITNESS();
}
extern "C" void harness_c11_remap_function() { DISPATCH(function_body) }

// ---- InterrogateFunctionWrapper ----
template<int N> static void wrapper_body() {
  InterrogateFunctionWrapper *r = new InterrogateFunctionWrapper;
  IndexRemapper *remap = new IndexRemapper;
  int old_flags = r->_flags = nondet_int();
  int old_function = r->_function = idx();
  int old_return_type = r->_return_type = idx();
  int old_return_value_destructor = r->_return_value_destructor = idx();
  set1(r->_name, 'n'); set1(r->_unique_name, 'u'); set1(r->_comment, 'c');
  int o_pt[N + 1], o_pf[N + 1];
  r->_parameters.reserve(N);
  for (int i = 0; i < N; i++) {
    r->_parameters.emplace_back();
    set1(r->_parameters.back()._name, 'x');
    o_pf[i] = r->_parameters.back()._parameter_flags = nondet_int();
    o_pt[i] = r->_parameters.back()._type = idx();
  }
  r->remap_indices(*remap);
  MAPPED(_function, function); MAPPED(_return_type, return_type); MAPPED(_return_value_destructor, return_value_destructor);
  KEPT(_flags, flags);
  ASSERT(is1(r->_name, 'n') && is1(r->_unique_name, 'u') && is1(r->_comment, 'c'), "C11 names and comment are left unchanged");
  ASSERT(r->_parameters.size() == (size_t)N, "C11 remapping keeps the length of every index vector");
  for (int i = 0; i < N && i < (int)r->_parameters.size(); i++) {
    ASSERT(r->_parameters[i]._type == f(o_pt[i]), "C11 parameter type is rewritten through the index map");
    ASSERT(r->_parameters[i]._parameter_flags == o_pf[i] && is1(r->_parameters[i]._name, 'x'), "C11 parameter flags and name are left unchanged");
  }
  WITNESS();
}
extern "C" void harness_c11_remap_wrapper() { DISPATCH(wrapper_body) }

// ---- InterrogateElement, InterrogateManifest, InterrogateMakeSeq (no vectors) ----
extern "C" void harness_c11_remap_scalars() {
  IndexRemapper *remap = new IndexRemapper;
  {
    InterrogateElement *r = new InterrogateElement;
    int old_flags = r->_flags = nondet_int();
    int old_type = r->_type = idx(), old_getter = r->_getter = idx(), old_setter = r->_setter = idx();
    int old_has_function = r->_has_function = idx(), old_clear_function = r->_clear_function = idx();
    int old_del_function = r->_del_function = idx(), old_length_function = r->_length_function = idx();
    int old_insert_function = r->_insert_function = idx(), old_getkey_function = r->_getkey_function = idx();
    set1(r->_name, 'n'); set1(r->_scoped_name, 's'); set1(r->_comment, 'c');
    r->remap_indices(*remap);
    MAPPED(_type, type); MAPPED(_getter, getter); MAPPED(_setter, setter); MAPPED(_has_function, has_function);
    MAPPED(_clear_function, clear_function); MAPPED(_del_function, del_function); MAPPED(_length_function, length_function);
    MAPPED(_insert_function, insert_function); MAPPED(_getkey_function, getkey_function);
    KEPT(_flags, flags);
    ASSERT(is1(r->_name, 'n') && is1(r->_scoped_name, 's') && is1(r->_comment, 'c'), "C11 names and comment are left unchanged");
  }
  {
    InterrogateManifest *r = new InterrogateManifest;
    int old_flags = r->_flags = nondet_int(), old_int_value = r->_int_value = nondet_int();
    int old_type = r->_type = idx(), old_getter = r->_getter = idx();
    set1(r->_name, 'n'); set1(r->_definition, 'd');
    r->remap_indices(*remap);
    MAPPED(_type, type); MAPPED(_getter, getter); KEPT(_flags, flags); KEPT(_int_value, int_value);
    ASSERT(is1(r->_name, 'n') && is1(r->_definition, 'd'), "C11 name and definition are left unchanged");
  }
  {
    InterrogateMakeSeq *r = new InterrogateMakeSeq;
    int old_length_getter = r->_length_getter = idx(), old_element_getter = r->_element_getter = idx();
    set1(r->_name, 'n'); set1(r->_scoped_name, 's'); set1(r->_comment, 'c');
    r->remap_indices(*remap);
    MAPPED(_length_getter, length_getter); MAPPED(_element_getter, element_getter);
    ASSERT(is1(r->_name, 'n') && is1(r->_scoped_name, 's') && is1(r->_comment, 'c'), "C11 names and comment are left unchanged");
  }
  WITNESS();
}
