// C05: a documentation comment is attached to the declaration it immediately precedes and to no other:
// CPPPreprocessor::get_comment_before / get_comment_on over a list of comment blocks.
#include "verif.h"
#include "cppPreprocessor.h"
#include "cppCommentBlock.h"
#include "cppFile.h"
#include <new>
#ifndef NB
#define NB 3
#endif

static void __attribute__((noinline)) init_pp(CPPPreprocessor *pp) {
  new (&pp->_comments) CPPComments();
}
static void __attribute__((noinline)) init_block(CPPCommentBlock *b, const CPPFile *f, bool other) {
  new (&b->_file) CPPFile(*f);
  if (other) b->_file._filename._filename[0] = 'b';      // same structure, different file name
  new (&b->_comment) std::string();
}

struct In { int first, last; bool other; };

static CPPPreprocessor *setup(int n, In *in, CPPCommentBlock **blk, const CPPFile *fa) {
  // raw CPPPreprocessor: the two lookups only touch _comments
  CPPPreprocessor *pp = (CPPPreprocessor *)operator new(sizeof(CPPPreprocessor));
  init_pp(pp);
  for (int i = 0; i < n; i++) {
    in[i].first = nondet_int(); in[i].last = nondet_int(); in[i].other = nondet_bool();
    ASSUME(in[i].first >= 1 && in[i].last >= in[i].first && in[i].last < 1000000);
    // comments are recorded in order of appearance: within one file later blocks start after earlier ones end
    for (int j = 0; j < i; j++)
      if (in[j].other == in[i].other) ASSUME(in[i].first > in[j].last);
    CPPCommentBlock *b = (CPPCommentBlock *)operator new(sizeof(CPPCommentBlock));
    init_block(b, fa, in[i].other);
    b->_line_number = in[i].first;
    b->_last_line = in[i].last;
    b->_col_number = 1;
    b->_c_style = false;
    blk[i] = b;
    pp->_comments.push_back(b);
  }
  return pp;
}

static void __attribute__((noinline)) scenario_before(int n, const CPPFile *fa) {
  In in[NB + 1]; CPPCommentBlock *blk[NB + 1];
  CPPPreprocessor *pp = setup(n, in, blk, fa);
  int line = nondet_int();
  ASSUME(line >= 1 && line < 1000000);
  CPPCommentBlock *got = pp->get_comment_before(line, *fa);
  // expected: the last block of the queried file that ends on the query line or on the line before it
  CPPCommentBlock *want = nullptr;
  for (int i = 0; i < n; i++)
    if (!in[i].other && (in[i].last == line || in[i].last == line - 1)) want = blk[i];
  ASSERT(got == want, "C05 get_comment_before returns the block ending on the query line or the line before, and no other");
  if (got != nullptr) ASSERT(!(got->_file != *fa), "C05 an attached comment comes from the declaration's own file");
}

static void __attribute__((noinline)) scenario_on(int n, const CPPFile *fa) {
  In in[NB + 1]; CPPCommentBlock *blk[NB + 1];
  CPPPreprocessor *pp = setup(n, in, blk, fa);
  int line = nondet_int();
  ASSUME(line >= 1 && line < 1000000);
  CPPCommentBlock *got = pp->get_comment_on(line, *fa);
  CPPCommentBlock *want = nullptr;
  for (int i = 0; i < n; i++)
    if (!in[i].other && in[i].first == line) want = blk[i];
  ASSERT(got == want, "C05 get_comment_on returns the block of this file that starts on the query line, and no other");
}

extern "C" void harness_c05_comment_before() {
  CPPFile *fa = new CPPFile(Filename("a"));
  for (int n = 0; n <= NB; n++) scenario_before(n, fa);
  WITNESS();
}
extern "C" void harness_c05_comment_on() {
  CPPFile *fa = new CPPFile(Filename("a"));
  for (int n = 0; n <= NB; n++) scenario_on(n, fa);
  WITNESS();
}
