// C13 (b) / C20: request_module gives every module its own contiguous index range in request order, and
// get_fptr -> find_module -> binary_search_module maps ANY wrapper index to the owning module's function pointer
// or to null, and terminates.
#include "verif.h"
#include "interrogateDatabase.h"

#ifndef NMOD
#define NMOD 3          // modules per database
#endif
#ifndef FMAX
#define FMAX 2          // function pointers per module table
#endif
#ifndef CMAX
#define CMAX 1000000    // indices per module
#endif
#ifndef WALL
#define WALL 0          // 1: wrapper index over ALL of int (C20 totality); 0: [-2^30, INT_MAX]
#endif

// The claim "after any history of request_module calls the ranges are contiguous, disjoint and in request order, and
// get_fptr finds the owner" is decided in three queries:
//   harness_c13_request_step  one request_module call on ANY reachable registration state with a SYMBOLIC index count:
//                             the module gets [_next_index, _next_index+count), _next_index advances, the def is appended
//                             iff count > 0   (induction step: contiguity/disjointness/order follow for every history)
//   harness_c13_fptr          get_fptr on ANY state satisfying that invariant (symbolic ranges), any wrapper index
//   harness_c13_history       the two together on real histories of NMOD calls with concrete counts (3^NMOD histories)
// A single query over histories with symbolic counts is out of reach: request_module appends to a std::vector only when
// the count is positive, and a push_back under a symbolic condition makes the vector's buffer pointer and length symbolic
// for everything that follows (no verdict within 14 GB for 3 modules).

static InterrogateModuleDef g_defs[NMOD + 1];
static void *g_cells[NMOD + 1][FMAX];
static char g_target[NMOD + 1][FMAX];

static void table(int i, int nf) {
  for (int k = 0; k < FMAX; k++) g_cells[i][k] = &g_target[i][k];
  g_defs[i].fptrs = g_cells[i];
  g_defs[i].num_fptrs = nf;
  g_defs[i].num_unique_names = 0;
  g_defs[i].database_filename = 0;
}

// reference: owner of wrapper index w among modules 0..k-1 (ranges first[i]..next[i]) with table sizes nf[i]
static void *ref_fptr(int k, const int *first, const int *next, const int *nf, int w) {
  void *want = 0;
  for (int i = 0; i < NMOD; i++)
    if (i < k && w >= first[i] && w < next[i]) {
      int off = w - first[i];
      for (int j = 0; j < FMAX; j++) if (j == off && j < nf[i]) want = &g_target[i][j];
    }
  return want;
}

extern "C" void harness_c13_request_step() {
  for (int k = 0; k < NMOD; k++) {                 // modules already registered (concrete vector structure)
    InterrogateDatabase *db = new InterrogateDatabase;
    for (int i = 0; i < k; i++) { table(i, 0); db->_modules.push_back(&g_defs[i]); }
    int next0 = nondet_int();
    ASSUME(next0 >= 1 && next0 <= 1000 * CMAX);
    db->_next_index = next0;
    InterrogateModuleDef *d = &g_defs[NMOD];
    table(NMOD, 0);
    int first = nondet_int(), c = nondet_int();
    ASSUME(first >= 0 && first <= CMAX && c >= 0 && c <= CMAX);   // what the generated def says before registration
    d->first_index = first;
    d->next_index = first + c;
    db->request_module(d);
    if (c > 0) {
      ASSERT(d->first_index == next0 && d->next_index == next0 + c, "C13 request_module: the module gets the next contiguous index range of its own size");
      ASSERT((int)db->_modules.size() == k + 1 && db->_modules[k] == d, "C13 request_module: the module is registered after all earlier ones");
    } else {
      ASSERT(d->first_index == first && d->next_index == first, "C13 request_module: a module without indices is left untouched");
      ASSERT((int)db->_modules.size() == k, "C13 request_module: a module without indices is not registered");
    }
    ASSERT(db->_next_index == next0 + c, "C13 request_module: the next free index follows the new range");
    bool kept = true;
    for (int i = 0; i < k; i++) if (db->_modules[i] != &g_defs[i]) kept = false;
    ASSERT(kept, "C13 request_module: earlier registrations keep their order");
    ASSERT(db->_requests.empty() && db->_modules_by_hash.empty(), "C13 request_module: no file request / hash entry without file name / unique names");
  }
  WITNESS();
}

extern "C" void harness_c13_fptr() {
  for (int c = 1; c <= NMOD + 1; c++) {
    int k = c <= NMOD ? c : 0;                     // the empty database last (its wrapper index influences nothing)
    InterrogateDatabase *db = new InterrogateDatabase;
    int first[NMOD], next[NMOD], nf[NMOD];
    int running = nondet_int();
    ASSUME(running >= 1 && running <= CMAX);       // the first range starts at 1 in a real history; any start is allowed here
    for (int i = 0; i < k; i++) {
      int cnt = nondet_int();
      ASSUME(cnt >= 1 && cnt <= CMAX);
      nf[i] = nondet_int();
      ASSUME(nf[i] >= 0 && nf[i] <= FMAX);
      table(i, nf[i]);
      first[i] = running; next[i] = running + cnt; running += cnt;
      g_defs[i].first_index = first[i];
      g_defs[i].next_index = next[i];
      db->_modules.push_back(&g_defs[i]);
    }
    int w = nondet_int();
#if !WALL
    ASSUME(w >= -1073741824);
#endif
    void *got = db->get_fptr(w);
    ASSERT(got == ref_fptr(k, first, next, nf, w),
           "C13 get_fptr: the owning module's pointer for an index inside a range with a table entry, null for every other index");
  }
  WITNESS();
}

// real histories: NMOD request_module calls, index counts enumerated concretely over {0,1,2}
extern "C" void harness_c13_history() {
  int npat = 1;
  for (int i = 0; i < NMOD; i++) npat *= 3;
  for (int pat = 0; pat < npat; pat++) {
    InterrogateDatabase *db = new InterrogateDatabase;
    int count[NMOD], nf[NMOD], first[NMOD], next[NMOD];
    int p = pat;
    for (int i = 0; i < NMOD; i++) {
      count[i] = p % 3; p /= 3;
      nf[i] = (i + pat) % (FMAX + 1);
      table(i, nf[i]);
      g_defs[i].first_index = 1;                    // as generated: every module def numbers its own indices from 1
      g_defs[i].next_index = 1 + count[i];
      db->request_module(&g_defs[i]);
    }
    int running = 1, k = 0;
    for (int i = 0; i < NMOD; i++) {
      if (count[i] > 0) {
        ASSERT(g_defs[i].first_index == running && g_defs[i].next_index == running + count[i],
               "C13 history: ranges are contiguous from 1, disjoint and in request order");
        ASSERT(k < (int)db->_modules.size() && db->_modules[k] == &g_defs[i], "C13 history: modules are registered in request order");
        first[k] = running; next[k] = running + count[i];
        running += count[i];
        k++;
      }
    }
    ASSERT((int)db->_modules.size() == k && db->_next_index == running, "C13 history: exactly the modules with indices are registered");
    // wrapper indices -1 .. last+2 (concrete) against the module that owns them
    for (int w = -1; w <= running + 1; w++) {
      void *want = 0;
      for (int i = 0; i < NMOD; i++)
        if (count[i] > 0 && w >= g_defs[i].first_index && w < g_defs[i].next_index && w - g_defs[i].first_index < g_defs[i].num_fptrs)
          want = g_defs[i].fptrs[w - g_defs[i].first_index];
      ASSERT(db->get_fptr(w) == want, "C13 history: get_fptr returns the owning module's pointer or null");
    }
  }
  WITNESS();
}

// request_module with unique names and a database file name: by-hash registration and the lazy-load request list
extern "C" void harness_c13_request_maps() {
  static InterrogateModuleDef d;
  InterrogateDatabase *db = new InterrogateDatabase;
  static InterrogateUniqueNameDef names[1];
  int nu = nondet_int();
  ASSUME(nu >= 0 && nu <= 1);
  bool has_lib = nondet_bool(), has_file = nondet_bool();
  int c = nondet_int();
  ASSUME(c >= 0 && c <= CMAX);
  names[0].name = "aa"; names[0].index_offset = 0;
  d.library_name = has_lib ? "libx" : 0;
  d.library_hash_name = "LIBX";
  d.database_filename = has_file ? "x.in" : 0;
  d.unique_names = names;
  d.num_unique_names = nu;
  d.first_index = 0;
  d.next_index = c;
  db->request_module(&d);
  bool hashed = nu > 0 && has_lib;
  ASSERT(db->_modules_by_hash.size() == (hashed ? 1u : 0u), "C13 request_module: a named module with unique names is registered by hash, others are not");
  if (hashed) {
    ASSERT(db->_modules_by_hash.begin()->second == &d && db->_modules_by_hash.begin()->first.compare("LIBX") == 0,
           "C13 request_module: the hash entry maps the library hash name to the module");
  }
  ASSERT(db->_requests.size() == (has_file ? 1u : 0u) && (!has_file || db->_requests[0] == &d),
         "C13 request_module: a module with a database file is queued for lazy loading, others are not");
  ASSERT(db->_modules.size() == (c > 0 ? 1u : 0u), "C13 request_module: only a module with indices is registered for pointer lookup");
  WITNESS();
}
