// C16 (database clause, part 2): the real main() of interrogate_module.cxx on top of the real database loader.
// "If any database fails to load the tool exits non-zero and leaves no output file" -- for every position of the
// bad database(s) among the NDB files on the command line.
// Real code: main() (option loop, request loop, output file handling, final error test), interrogate_request_database,
// interrogate_number_of_functions, interrogate_error_flag, InterrogateDatabase::request_module / check_latest /
// load_latest.  Stand-ins: the file system and the record parser (c16_dbfiles.h), getopt_long_only (the options are
// "-oc o" and the mode flag, MODE 1 = -python, 2 = -python-native), Filename::unlink (records the call) and
// write_python_table[_native] (ask the database for the number of functions, as the real ones do first, which makes
// the database load the requested files, then write a little).  No write faults here (C19 covers them).
#include "c16_dbfiles.h"
#include "interrogate_interface.h"
#include <getopt.h>
#include <iostream>

extern "C" {
unsigned vs_get_open_ok();
extern int verif_exited, verif_exit_code;
}
#ifndef MODE
#define MODE 2
#endif
int real_main(int, char **) asm("main");

static bool g_unlinked;
static int g_opt_step, g_tables;

void preprocess_argv(int &, char **&) {}
extern const char interrogate_preamble_python_native[];
const char interrogate_preamble_python_native[] = "p\n";
int write_python_table(std::ostream &out) { g_tables++; int n = interrogate_number_of_functions(); out << "a" << n << "\n"; return 1; }
int write_python_table_native(std::ostream &out) { g_tables++; int n = interrogate_number_of_functions(); out << "b" << n << "\n"; return 1; }
bool Filename::unlink() const { g_unlinked = true; return true; }

static char g_optarg[] = "o";
int my_getopt(int argc, char *const *argv, const char *so, const struct option *lo, int *idx) asm("getopt_long_only");
int my_getopt(int argc, char *const *argv, const char *so, const struct option *lo, int *idx) {
  // -oc o, then the mode flag (-python is index 4, -python-native 5 of the real table)
  if (g_opt_step == 0) { g_opt_step = 1; optarg = g_optarg; return lo[0].val; }
  if (g_opt_step == 1) { g_opt_step = 2; return lo[3 + MODE].val; }
  optind = 1;
  return -1;
}
int my_stat(const char *, void *) asm("stat");
int my_stat(const char *, void *) { return -1; }
static int g_errno;
int *my_errno() asm("__errno_location");
int *my_errno() { return &g_errno; }

static void check_exit(int rc) {
  bool fails = any_file_fails();
  ASSERT(!g_bad_name, "C16 model: only requested files are opened and read");
  ASSERT(g_tables == 1, "C16 model: the module table is written once");
  ASSERT(!(fails && rc == 0), "C16 a database that fails to load gives a non-zero exit status");
  // the output file exists only if it was opened successfully
  ASSERT(!(fails && vs_get_open_ok() > 0 && !g_unlinked), "C16 when a database fails to load the output file is removed");
  ASSERT(fails || (rc == 0 && !g_unlinked), "C16 when every database loads the tool succeeds and keeps its output");
}
extern "C" void verif_at_exit() { check_exit(verif_exit_code); }

extern "C" void harness_c16_main() {
  __ll2c_global_ctors();
  make_files();
  static char a0[] = "interrogate_module";
  static char names[4][6] = { "/a.in", "/b.in", "/c.in", "/d.in" };
  char *argv[NDB + 2];
  argv[0] = a0;
  for (int i = 0; i < NDB; i++) argv[i + 1] = names[i];
  argv[NDB + 1] = 0;
  int rc = real_main(NDB + 1, argv);
  check_exit(rc);
  WITNESS();
}
