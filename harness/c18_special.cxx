// C18: pdtoa special values; the Grisu2 digit generator is cut and must not be reached.
#include "verif.h"
#include "pdtoa.h"
void Grisu2_stub(double, char *, int *, int *) asm("_ZL6Grisu2dPcPiS0_");
void Grisu2_stub(double, char *, int *, int *) { ASSERT(false, "C18 pdtoa special value must not reach Grisu2"); }

// ---- special values
extern "C" void harness_c18_special() {
  int cls = nondet_int();
  ASSUME(cls >= 0 && cls < 7);
  union { double d; uint64_t u; } v;
  const uint64_t bits[7] = {0x0ULL, 0x8000000000000000ULL, 0x3FF0000000000000ULL, 0xBFF0000000000000ULL,
                            0x7FF0000000000000ULL, 0xFFF0000000000000ULL, 0x7FF8000000000000ULL};
  v.u = bits[cls];
  char buf[32];
  for (int i = 0; i < 32; i++) buf[i] = 'X';
  pdtoa(v.d, buf);
  const char *want[7] = {"0.0", "-0.0", "1.0", "-1.0", "inf", "-inf", "nan"};
  bool eq = true;
  const char *w = want[cls];
  int i = 0;
  for (; w[i]; i++) if (buf[i] != w[i]) eq = false;
  if (buf[i] != 0) eq = false;
  ASSERT(eq, "C18 pdtoa prints +-0.0, +-1.0, +-inf and nan canonically");
  WITNESS();
}

