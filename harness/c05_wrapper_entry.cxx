// C05: FunctionRemap::make_wrapper_entry describes the callable variant truthfully: ordered parameter names and
// types, which parameter is optional / 'this', return type, ownership of the result, role flags.
// The FunctionRemap is a raw allocation with exactly the fields the function reads filled in; the database's
// add_wrapper and the builder's get_type/get_atomic_string_type are cut and replaced by an injective type
// numbering and a recorder.
#include "verif.h"
#include "functionRemap.h"
#include "parameterRemap.h"
#include "interrogateBuilder.h"
#include "interrogateDatabase.h"
#include "interrogateFunctionWrapper.h"
#include "cppInstance.h"
#include "cppAttributeList.h"
#include "cppCommentBlock.h"
#include "interrogate.h"
#include "c03_native_globals.h"
#include <string>
#include <new>
#ifndef NPMAX
#define NPMAX 3
#endif

static char g_types[NPMAX + 2];            // fake CPPType objects: only their addresses are used
#define TYPE_NO(p) (100 + (int)((const char *)(p) - g_types))
#define STRING_TYPE 7

// ---- stand-ins for the cut functions ----
TypeIndex InterrogateBuilder::get_type(CPPType *type, bool global) {
  ASSERT(!global, "C05 wrapper types are requested as non-global");
  return TYPE_NO(type);
}
TypeIndex InterrogateBuilder::get_atomic_string_type() { return STRING_TYPE; }

static InterrogateDatabase *g_db;
InterrogateDatabase *InterrogateDatabase::get_ptr() { return g_db; }

static bool g_deprecated;
bool CPPAttributeList::has_attribute(const std::string &name) const {
  ASSERT(name.size() == 10 && name[0] == 'd', "C05 only the 'deprecated' attribute is queried");
  return g_deprecated;
}

struct Seen {
  int calls, index, flags, function, return_type, destructor, nparams;
  int pflags[NPMAX], ptype[NPMAX], pnamelen[NPMAX];
  char pname[NPMAX], name0, uname0, comment0;
  int namelen, unamelen, commentlen;
};
static Seen g_seen;
void InterrogateDatabase::add_wrapper(FunctionWrapperIndex index, const InterrogateFunctionWrapper &w) {
  g_seen.calls++;
  g_seen.index = index;
  g_seen.flags = w._flags;
  g_seen.function = w._function;
  g_seen.return_type = w._return_type;
  g_seen.destructor = w._return_value_destructor;
  g_seen.nparams = (int)w._parameters.size();
  for (int i = 0; i < NPMAX; i++)
    if (i < g_seen.nparams) {
      g_seen.pflags[i] = w._parameters[i]._parameter_flags;
      g_seen.ptype[i] = w._parameters[i]._type;
      g_seen.pnamelen[i] = (int)w._parameters[i]._name.size();
      g_seen.pname[i] = w._parameters[i]._name.size() ? w._parameters[i]._name[0] : 0;
    }
  g_seen.namelen = (int)w._name.size();
  g_seen.name0 = w._name.size() ? w._name[0] : 0;
  g_seen.commentlen = (int)w._comment.size();
  g_seen.comment0 = w._comment.size() ? w._comment[0] : 0;
  g_seen.unamelen = (int)w._unique_name.size();
  g_seen.uname0 = w._unique_name.size() ? w._unique_name[0] : 0;
}

// ParameterRemap whose "is an atomic string" answer is symbolic data (the object pointer stays concrete)
class SymRemap : public ParameterRemap {
public:
  SymRemap(CPPType *t) : ParameterRemap(t), _str(false) {}
  virtual bool new_type_is_atomic_string() { return _str; }
  bool _str;
};

static void __attribute__((noinline)) init_instance(CPPInstance *f, CPPCommentBlock *c) {
  f->_leading_comment = c;
}
static void __attribute__((noinline)) init_comment(CPPCommentBlock *c, char ch, bool lead, bool trail) {
  new (&c->_comment) std::string();
  if (lead) c->_comment.push_back(' ');
  c->_comment.push_back(ch);
  if (trail) c->_comment.push_back('\n');
}
static void __attribute__((noinline)) init_db(InterrogateDatabase *db, int next) {
  db->_next_index = next;
}
static void __attribute__((noinline)) init_remap(FunctionRemap *r, CPPInstance *f) {
  new (&r->_parameters) FunctionRemap::Parameters();
  new (&r->_wrapper_name) std::string();
  new (&r->_unique_name) std::string();
  r->_cppfunc = f;
  r->_wrapper_index = 0;
}

struct ParamIn { bool has_name, has_default, is_str; char name; };

static void __attribute__((noinline)) scenario(int n, bool has_comment) {
  ParamIn in[NPMAX];
  // raw objects: only the fields make_wrapper_entry reads are initialised
  CPPInstance *f = (CPPInstance *)operator new(sizeof(CPPInstance));
  // the comment attached to the declaration (or none): the text " x\n"
  char cch = 'x';       // concrete text: a symbolic byte makes trim_blanks' result length symbolic (substr allocation path)
  CPPCommentBlock *cb = (CPPCommentBlock *)operator new(sizeof(CPPCommentBlock));
  init_comment(cb, cch, true, true);      // " x\n": concrete shape (a symbolic length sends substr into its allocation path)
  init_instance(f, has_comment ? cb : nullptr);
  int first_index = nondet_int();
  ASSUME(first_index >= 1 && first_index < 1000000);
  g_db = (InterrogateDatabase *)operator new(sizeof(InterrogateDatabase));
  init_db(g_db, first_index);
  FunctionRemap *r = (FunctionRemap *)operator new(sizeof(FunctionRemap));
  init_remap(r, f);

  r->_has_this = nondet_bool();
  ASSUME(!r->_has_this || n > 0);            // FunctionRemap's constructor adds the 'this' parameter itself
  r->_void_return = nondet_bool();
  r->_extension = nondet_bool();
  r->_flags = nondet_int();
  r->_return_value_needs_management = nondet_bool();
  r->_return_value_destructor = nondet_int();
  output_function_names = nondet_bool();
  g_deprecated = nondet_bool();
  char wn = nondet_char(), un = nondet_char();
  r->_wrapper_name.push_back(wn);
  r->_unique_name.push_back(un);
  SymRemap *ret = new SymRemap((CPPType *)&g_types[NPMAX]);
  ret->_str = nondet_bool();
  r->_return_type = ret;
  for (int i = 0; i < n; i++) {
    in[i].has_name = nondet_bool(); in[i].has_default = nondet_bool(); in[i].is_str = nondet_bool();
    in[i].name = nondet_char();
    FunctionRemap::Parameter p;
    p._has_name = in[i].has_name;
    p._name.push_back(in[i].name);
    SymRemap *pr = new SymRemap((CPPType *)&g_types[i]);
    pr->_str = in[i].is_str;
    if (in[i].has_default) pr->set_default_value((CPPExpression *)&g_types[NPMAX + 1]);
    p._remap = pr;
    r->_parameters.push_back(p);
  }
  int function_index = nondet_int();

  g_seen.calls = 0;
  FunctionWrapperIndex wi = r->make_wrapper_entry(function_index);

  ASSERT(g_seen.calls == 1, "C05 exactly one wrapper record is stored");
  ASSERT(wi == first_index && g_seen.index == wi && r->_wrapper_index == wi && g_db->_next_index == first_index + 1,
         "C05 the wrapper is stored under a fresh index which is returned and remembered");
  ASSERT(g_seen.function == function_index, "C05 wrapper records the function it belongs to");
  ASSERT(g_seen.namelen == 1 && g_seen.name0 == wn && g_seen.unamelen == 1 && g_seen.uname0 == un,
         "C05 wrapper records its wrapper name and unique name");
  ASSERT(has_comment ? (g_seen.commentlen == 1 && g_seen.comment0 == cch) : g_seen.commentlen == 0,
         "C05 the wrapper carries the comment attached to its declaration (blank-trimmed), or none");
  ASSERT(g_seen.nparams == n, "C05 wrapper has exactly the parameters of the callable variant");
  for (int i = 0; i < n; i++) {
    ASSERT(g_seen.pnamelen[i] == 1 && g_seen.pname[i] == in[i].name, "C05 parameter i carries the name of parameter i");
    ASSERT(g_seen.ptype[i] == (in[i].is_str ? STRING_TYPE : TYPE_NO(&g_types[i])), "C05 parameter i carries the type of parameter i");
    ASSERT(((g_seen.pflags[i] & InterrogateFunctionWrapper::PF_has_name) != 0) == in[i].has_name, "C05 has_name flag is truthful");
    ASSERT(((g_seen.pflags[i] & InterrogateFunctionWrapper::PF_is_optional) != 0) == in[i].has_default,
           "C05 a parameter is optional iff it has a default value");
    ASSERT(((g_seen.pflags[i] & InterrogateFunctionWrapper::PF_is_this) != 0) == (i == 0 && r->_has_this),
           "C05 'this' is the first parameter of a method and no other");
    ASSERT((g_seen.pflags[i] & ~7) == 0, "C05 no stray parameter flags");
  }
  int fl = g_seen.flags;
  ASSERT(((fl & InterrogateFunctionWrapper::F_has_return) != 0) == !r->_void_return, "C05 has_return iff the function is not void");
  ASSERT(g_seen.return_type == (ret->_str ? STRING_TYPE : TYPE_NO(&g_types[NPMAX])), "C05 return type is the remapped return type");
  ASSERT(((fl & InterrogateFunctionWrapper::F_caller_manages) != 0) == r->_return_value_needs_management,
         "C05 caller_manages iff the return value needs management");
  ASSERT(g_seen.destructor == (r->_return_value_needs_management ? r->_return_value_destructor : 0),
         "C05 the return value destructor is recorded only for managed return values");
  ASSERT(((fl & InterrogateFunctionWrapper::F_callable_by_name) != 0) == output_function_names, "C05 callable_by_name follows -fnames");
  ASSERT(((fl & InterrogateFunctionWrapper::F_copy_constructor) != 0) == ((r->_flags & FunctionRemap::F_copy_constructor) != 0),
         "C05 copy-constructor role is truthful");
  ASSERT(((fl & InterrogateFunctionWrapper::F_coerce_constructor) != 0) == ((r->_flags & FunctionRemap::F_coerce_constructor) != 0),
         "C05 coerce-constructor role is truthful");
  ASSERT(((fl & InterrogateFunctionWrapper::F_extension) != 0) == r->_extension, "C05 extension role is truthful");
  ASSERT(((fl & InterrogateFunctionWrapper::F_deprecated) != 0) == g_deprecated, "C05 deprecated iff the declaration carries the attribute");
  ASSERT((fl & ~0x7f) == 0, "C05 no stray wrapper flags");
}

extern "C" void harness_c05_wrapper_entry() {
  __ll2c_global_ctors();
  // the number of parameters and the presence of a comment are enumerated (concrete vector / pointer structure)
  for (int n = 0; n <= NPMAX; n++) scenario(n, (n & 1) != 0);
  WITNESS();
}
