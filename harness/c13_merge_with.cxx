// C13 (a): InterrogateType::merge_with chooses the winning definition.
//   result fully defined  iff either side was;   result global  iff either side was;
//   exactly one side fully defined  =>  that side's definition (everything but the global bit) is the result;
//   otherwise the result is wholesale one of the two definitions (both defined: the global one of the other side wins,
//   documented tie rule), never a mixture; the argument is left unchanged.
#include "verif.h"
#include "interrogateType.h"
#include <string>
#include <vector>

#ifndef VMAX
#define VMAX 2
#endif
#ifndef SWAP
#define SWAP 0      // which side gets which concrete shape
#endif

struct Snap {
  int flags, outer, atomic, wrapped, array_size, dtor;
  char name, scoped, truen, comment;        // 0 = empty string, else the single character
  int nctor, ctor[VMAX];
  int nmeth, meth[VMAX];
  int nelem, elem[VMAX], ncast, cast[VMAX], nseq, seq[VMAX], nnest, nest[VMAX];
  int nder, der_flags[VMAX], der_base[VMAX], der_up[VMAX], der_down[VMAX];
  int nenum, enum_val[VMAX];
  char enum_name[VMAX];
  void *cpptype;
};

// Concrete structure, symbolic contents: string lengths and vector lengths are fixed per side (a symbolic length
// sends every std::string/std::vector assignment in operator= down all of its capacity cases with symbolic memmove
// lengths: no verdict within 16 GB); the two sides get different lengths so that a mixture is observable.
static char sym_str(std::string &s, bool empty) {
  if (empty) return 0;
  char c = nondet_char();
  ASSUME(c != 0);
  s.assign(1, c);
  return c;
}

static void fill(std::vector<int> &v, int n, int *m) {
  v.resize(n);
  for (int i = 0; i < n; i++) { m[i] = nondet_int(); v[i] = m[i]; }
}
static bool same(const std::vector<int> &v, int n, const int *m) {
  if ((int)v.size() != n) return false;
  bool ok = true;
  for (int i = 0; i < n; i++) if (v[i] != m[i]) ok = false;
  return ok;
}

static InterrogateType *make(Snap &x, int side) {
  InterrogateType *t = new InterrogateType;
  x.flags = nondet_int(); x.outer = nondet_int(); x.atomic = nondet_int(); x.wrapped = nondet_int();
  x.array_size = nondet_int(); x.dtor = nondet_int();
  ASSUME(x.atomic >= 0 && x.atomic <= 12);
  t->_flags = x.flags; t->_outer_class = x.outer; t->_atomic_token = (AtomicToken)x.atomic; t->_wrapped_type = x.wrapped;
  t->_array_size = x.array_size; t->_destructor = x.dtor;
  x.name = sym_str(t->_name, false); x.scoped = sym_str(t->_scoped_name, side == 0); x.truen = sym_str(t->_true_name, false);
  x.comment = sym_str(t->_comment, side == 1);
  // vector lengths are concrete and only the stored elements are symbolic inputs (an input that influences no
  // assertion is sliced out of the counterexample trace and would misalign the native replay)
  x.nctor = side == 0 ? 1 : VMAX;  fill(t->_constructors, x.nctor, x.ctor);
  x.nmeth = side == 0 ? VMAX : 0;  fill(t->_methods, x.nmeth, x.meth);
  x.nelem = side == 0 ? 0 : 1;     fill(t->_elements, x.nelem, x.elem);
  x.ncast = side == 0 ? 1 : 0;     fill(t->_casts, x.ncast, x.cast);
  x.nseq = side == 0 ? 1 : VMAX;   fill(t->_make_seqs, x.nseq, x.seq);
  x.nnest = side == 0 ? VMAX : 1;  fill(t->_nested_types, x.nnest, x.nest);
#ifdef WITH_DERIV
  x.nder = side == 0 ? 0 : 1;
  t->_derivations.resize(x.nder);
  for (int i = 0; i < x.nder; i++) {
    x.der_flags[i] = nondet_int(); x.der_base[i] = nondet_int(); x.der_up[i] = nondet_int(); x.der_down[i] = nondet_int();
    InterrogateType::Derivation &d = t->_derivations[i];
    d._flags = x.der_flags[i]; d._base = x.der_base[i]; d._upcast = x.der_up[i]; d._downcast = x.der_down[i];
  }
#endif
#ifdef WITH_ENUM
  x.nenum = side == 0 ? 1 : 0;
  t->_enum_values.resize(x.nenum);
  for (int i = 0; i < x.nenum; i++) {
    x.enum_val[i] = nondet_int();
    t->_enum_values[i]._value = x.enum_val[i];
    x.enum_name[i] = sym_str(t->_enum_values[i]._name, false);
  }
#endif
  x.cpptype = nondet_bool() ? (void *)t : (void *)0;     // two distinguishable pointer values
  t->_cpptype = (CPPType *)x.cpptype;
  return t;
}

static bool str_is(const std::string &s, char c) {
  if (c == 0) return s.size() == 0;
  return s.size() == 1 && s[0] == c;
}

// does record r carry definition x (everything except the global bit)?
static bool has_def(const InterrogateType *r, const Snap &x) {
  const int G = 1;   // F_global
  bool ok = (r->_flags & ~G) == (x.flags & ~G) && r->_outer_class == x.outer && (int)r->_atomic_token == x.atomic &&
            r->_wrapped_type == x.wrapped && r->_array_size == x.array_size && r->_destructor == x.dtor &&
            str_is(r->_name, x.name) && str_is(r->_scoped_name, x.scoped) && str_is(r->_true_name, x.truen) && str_is(r->_comment, x.comment) &&
            (void *)r->_cpptype == x.cpptype;
  ok = ok && same(r->_constructors, x.nctor, x.ctor) && same(r->_methods, x.nmeth, x.meth) && same(r->_elements, x.nelem, x.elem) &&
       same(r->_casts, x.ncast, x.cast) && same(r->_make_seqs, x.nseq, x.seq) && same(r->_nested_types, x.nnest, x.nest);
#ifdef WITH_DERIV
  ok = ok && (int)r->_derivations.size() == x.nder;
  for (int i = 0; i < VMAX; i++)
    if (ok && i < x.nder) {
      const InterrogateType::Derivation &d = r->_derivations[i];
      if (d._flags != x.der_flags[i] || d._base != x.der_base[i] || d._upcast != x.der_up[i] || d._downcast != x.der_down[i]) ok = false;
    }
#endif
#ifdef WITH_ENUM
  ok = ok && (int)r->_enum_values.size() == x.nenum;
  for (int i = 0; i < VMAX; i++)
    if (ok && i < x.nenum && (r->_enum_values[i]._value != x.enum_val[i] || !str_is(r->_enum_values[i]._name, x.enum_name[i]))) ok = false;
#endif
  return ok;
}

extern "C" void harness_c13_merge_with() {
  Snap a, b;
  InterrogateType *t = make(a, SWAP ? 1 : 0);
  InterrogateType *o = make(b, SWAP ? 0 : 1);
  const int G = 1, FD = 0x2000;
  bool a_fd = (a.flags & FD) != 0, b_fd = (b.flags & FD) != 0;
  bool a_gl = (a.flags & G) != 0, b_gl = (b.flags & G) != 0;
  ASSERT(t->is_fully_defined() == a_fd && t->is_global() == a_gl, "C13 harness: flag bits as in interrogateType.h");

  t->merge_with(*o);

  ASSERT(t->is_fully_defined() == (a_fd || b_fd), "C13 merge_with: result is fully defined iff either side was");
  ASSERT(t->is_global() == (a_gl || b_gl), "C13 merge_with: result is global iff either side was");
  bool is_a = has_def(t, a), is_b = has_def(t, b);
  if (a_fd && !b_fd) ASSERT(is_a, "C13 merge_with: a fully defined type keeps its definition when merged with a forward declaration");
  if (!a_fd && b_fd) ASSERT(is_b, "C13 merge_with: a forward declaration takes the fully defined side's definition");
  ASSERT(is_a || is_b, "C13 merge_with: the result is wholesale one of the two definitions, never a mixture");
  if (a_fd && b_fd) ASSERT(b_gl ? is_b : is_a, "C13 merge_with: both fully defined - the other side wins iff it is global (documented tie rule)");
  ASSERT(has_def(o, b) && ((o->_flags & G) != 0) == b_gl, "C13 merge_with leaves its argument unchanged");
  WITNESS();
}

// The alternate names (InterrogateComponent::_alt_names, part of the record in the database file format) belong to
// the definition as well: when the other side's definition wins they have to come with it.
extern "C" void harness_c13_merge_alt_names() {
  __ll2c_global_ctors();
  InterrogateType *t = new InterrogateType;        // forward declaration
  InterrogateType *o = new InterrogateType;        // fully defined, carries one alternate name
  o->_flags = 0x2000 | (nondet_bool() ? 1 : 0);
  char c = nondet_char();
  ASSUME(c != 0);
  o->_alt_names.resize(1);
  o->_alt_names[0].assign(1, c);
  t->merge_with(*o);
  ASSERT(t->is_fully_defined(), "C13 merge_with: result is fully defined iff either side was");
  ASSERT(o->get_num_alt_names() == 1, "C13 merge_with leaves its argument unchanged");
  ASSERT(t->get_num_alt_names() == 1 && t->get_alt_name(0).size() == 1 && t->get_alt_name(0)[0] == c,
         "C13 merge_with: the winning definition's alternate names are carried over");
  WITNESS();
}
