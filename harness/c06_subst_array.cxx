// C06 (template instantiation clause): the array type a member of an instantiated class template is printed with has
// the template ARGUMENTS in it, in the element type and in the bound.  The real CPPArrayType::substitute_decl (with the
// real CPPExpression::substitute_decl / CPPInstance::substitute_decl / CPPDeclaration::substitute_decl below it) runs on
//
//     template<class T, int N> struct S {  ELEM member[BOUND];  };        instantiated as  S<float, V>
//
//   ELEM  (ELEMS bit k):  0 int   1 T   2 int[N] (member[BOUND][N])   3 int[C] (member[BOUND][C])
//   BOUND (BOUNDS bit k): 0 the literal C   1 the template parameter N   2 another variable M (not a parameter)   3 none ([])
//
// with the instantiation map {T -> float, N -> literal V}.  V and C are symbolic over all of int; ELEM and BOUND are
// enumerated by concrete loops inside the one query (they shape the object graph and the std::map).
#include "verif.h"
#include "cppArrayType.h"
#include "cppExpression.h"
#include "cppSimpleType.h"
#include "cppClassTemplateParameter.h"
#include "cppInstance.h"
#include "cppIdentifier.h"
#include <stdio.h>

#ifndef ELEMS
#define ELEMS 15
#endif
#ifndef BOUNDS
#define BOUNDS 15
#endif

// the type-interning table (std::set ordered through virtual is_less) is not what is checked here
CPPType *CPPType::new_type(CPPType *type) { return type; }

#define NOINL __attribute__((noinline))

#ifndef VERIF_NATIVE
// CPPDeclaration::SubstDecl is a std::map ordered by the ADDRESSES of the declarations.  The relative order of two heap
// objects is not a constant for symbolic execution (every comparison forks and the shape of the tree, hence every pointer
// read from it, becomes symbolic), so std::less<CPPDeclaration *> (cut from the real TUs, which are lowered with -fno-inline)
// is replaced by one fixed strict total order: the order in which the pointers are first seen -- the address order of a
// bump allocator.  The real std::map code (find / insert / operator[]) runs unchanged on top of it; the native replay uses
// the real address order.
static CPPDeclaration **seen;        // a fresh table per scenario: pointer sets of earlier scenarios do not pile up in it
static int n_seen;
static void new_order() {
  seen = new CPPDeclaration *[32];
  n_seen = 0;
}
static int rank_of(CPPDeclaration *p) {
  for (int i = 0; i < n_seen; i++) {
    if (seen[i] == p) return i;
  }
  if (n_seen < 32) seen[n_seen] = p;
  return n_seen++;
}
namespace std {
template<> NOINL bool less<CPPDeclaration *>::operator()(CPPDeclaration *a, CPPDeclaration *b) const noexcept {
  int ra = rank_of(a);
  int rb = rank_of(b);
  return ra < rb;
}
}
#endif

// a reference to a variable / non-type template parameter, as the parser leaves it after name lookup
NOINL static CPPExpression *var_ref(CPPInstance *inst) {
  CPPExpression *e = new CPPExpression(0);
  e->_type = CPPExpression::T_variable;
  e->_u._variable = inst;
  return e;
}

NOINL static bool evaluates_to(CPPExpression *e, int value) {
  if (e == nullptr) return false;
  CPPExpression::Result r = e->evaluate();
  return r._type == CPPExpression::RT_integer && r._u._integer == value;
}

NOINL static void scenario(int ek, int bk, int V, int C) {
#ifndef VERIF_NATIVE
  new_order();
#endif
  CPPType *t_int = new CPPSimpleType(CPPSimpleType::T_int);
  CPPType *t_float = new CPPSimpleType(CPPSimpleType::T_float);
  CPPClassTemplateParameter *T = new CPPClassTemplateParameter(new CPPIdentifier(std::string("T")));
  CPPInstance *N = new CPPInstance(t_int, std::string("N"));
  CPPInstance *M = new CPPInstance(t_int, std::string("M"));

  CPPDeclaration::SubstDecl *subst = new CPPDeclaration::SubstDecl;       // S<float, V>
  (*subst)[T] = t_float;
  (*subst)[N] = new CPPExpression(V);

  CPPArrayType *inner = nullptr;
  CPPType *elem = t_int;
  if (ek == 1) elem = T;
  if (ek == 2) elem = inner = new CPPArrayType(t_int, var_ref(N));
  if (ek == 3) elem = inner = new CPPArrayType(t_int, new CPPExpression(C));
  CPPExpression *bound = nullptr;
  if (bk == 0) bound = new CPPExpression(C);
  if (bk == 1) bound = var_ref(N);
  if (bk == 2) bound = var_ref(M);
  CPPArrayType *arr = new CPPArrayType(elem, bound);
  bool elem_depends = (ek == 1 || ek == 2), bound_depends = (bk == 1);

  CPPDeclaration *result = arr->substitute_decl(*subst, nullptr, nullptr);
  CPPArrayType *ra = result->as_array_type();
#ifdef VERIF_NATIVE
  static const char *en[4] = {"int", "T", "int[N]", "int[C]"}, *bn[4] = {"C", "N", "M", ""};
  printf("template<class T, int N> struct S { member: array of %s, bound [%s] };  S<float, %d>, C = %d\n", en[ek], bn[bk], V, C);
  if (ra != nullptr) {
    printf("  substitute_decl returned %s; bound: ", ra == arr ? "the template's own array type" : "a new array type");
    if (ra->_bounds == nullptr) {
      printf("none\n");
    } else {
      CPPExpression::Result r = ra->_bounds->evaluate();
      if (r._type == CPPExpression::RT_integer) printf("evaluates to %d\n", r._u._integer);
      else printf("does not evaluate (%s)\n", ra->_bounds == bound ? "still the template's expression" : "other expression");
    }
  }
#endif
  ASSERT(ra != nullptr, "C06 substituting into an array type gives an array type");
  ASSERT(arr->_element_type == elem && arr->_bounds == bound, "C06 the template's own array type is left as written");
  ASSERT((ra == arr) == (!elem_depends && !bound_depends),
         "C06 instantiated array type is the template's own type exactly when neither element type nor bound depend on a parameter");

  // the bound
  if (bk == 0) ASSERT(evaluates_to(ra->_bounds, C), "C06 instantiated array: a literal bound keeps its value");
  if (bk == 1) ASSERT(evaluates_to(ra->_bounds, V), "C06 instantiated array: a bound naming the template parameter N becomes the argument value");
  if (bk == 2) ASSERT(ra->_bounds == bound, "C06 instantiated array: a bound naming an unrelated variable is unchanged");
  if (bk == 3) ASSERT(ra->_bounds == nullptr, "C06 instantiated array: an array of unknown bound stays one");

  // the element type
  if (ek == 0) ASSERT(ra->_element_type == t_int, "C06 instantiated array: a non-dependent element type is unchanged");
  if (ek == 1) ASSERT(ra->_element_type == t_float, "C06 instantiated array: element type T becomes the type argument");
  if (ek == 2) {
    CPPArrayType *ri = ra->_element_type->as_array_type();
    ASSERT(ri != nullptr && ri != inner && ri->_element_type == t_int && evaluates_to(ri->_bounds, V),
           "C06 instantiated array of arrays: the inner bound N becomes the argument value");
    ASSERT(inner->_bounds->_type == CPPExpression::T_variable, "C06 the template's own inner array type is left as written");
  }
  if (ek == 3) ASSERT(ra->_element_type == inner && evaluates_to(inner->_bounds, C), "C06 instantiated array of arrays: a literal inner bound is unchanged");

  // asking again gives the same type (the map remembers it)
  ASSERT(arr->substitute_decl(*subst, nullptr, nullptr) == result, "C06 substituting the same array type twice gives the same type");
}

extern "C" void harness_c06_subst_array() {
  int V = nondet_int(), C = nondet_int();
  for (int ek = 0; ek < 4; ek++) {
    if (!((ELEMS >> ek) & 1)) continue;
    for (int bk = 0; bk < 4; bk++) {
      if (!((BOUNDS >> bk) & 1)) continue;
      scenario(ek, bk, V, C);
    }
  }
  WITNESS();
}
