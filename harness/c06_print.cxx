// C06 (one clause): a printed declaration denotes the type that was built -- same cv-qualification and
// pointer/reference/array structure.
//
// A type is built by applying a modifier list (innermost first) over {*, &, const, [N]} to a CPPSimpleType with
// the real constructors (or, USE_UNROLL, by CPPInstanceIdentifier::unroll_type from the same list), printed as
// the declaration `T v` by the real output_instance() into the stream model, and read back by a small
// recursive-descent READER of C declarators (an inverse of the printer, tolerant of spacing, of east/west const
// and of redundant parentheses).  The modifier list recovered by the reader must equal the list applied.
#include "verif.h"
#include "vstream.h"
#include "cppSimpleType.h"
#include "cppPointerType.h"
#include "cppReferenceType.h"
#include "cppConstType.h"
#include "cppArrayType.h"
#include "cppExpression.h"
#include "cppInstanceIdentifier.h"
#include "cppIdentifier.h"
#include <stdio.h>

#ifndef MAXLEN
#define MAXLEN 2
#endif
#ifndef ALPHA
#define ALPHA 4          // 3: {*, &, const}; 4: {*, &, const, [N]}
#endif
#ifndef NPARTS
#define NPARTS 1         // the shapes are dealt round-robin to NPARTS queries (symbolic execution slows down as
#define PART 0           // the heap of one query grows)
#endif
#ifndef ARRAYS
#define ARRAYS 2         // lists containing an array: 0 = excluded, 1 = only those, 2 = do not care
#endif
#ifndef CONSTARR
#define CONSTARR 0       // const applied directly to an array type (CPPConstType over CPPArrayType; the parser itself always
#endif                   // builds the array over the const element type): 0 = excluded, 1 = only those, 2 = do not care
#ifndef NONAME
#define NONAME 0         // 0: print the declaration `T v`; 1: abstract declarator, output_instance with an empty name (unnamed
#endif                   // parameters); 2: abstract declarator through output() (type names in the database)
#ifndef PTRARR
#define PTRARR 2         // types containing a pointer or reference to an array: 0 = excluded, 1 = only those, 2 = do not care
#endif

// uniquing of structurally equal types (a static std::set ordered by a virtual comparator) is cut: identity
CPPType *CPPType::new_type(CPPType *type) { return type; }

#define NOINL __attribute__((noinline))
enum { M_PTR = 1, M_REF = 2, M_CONST = 3, M_ARR = 4 };
enum { B_INT = 0, B_ULONG = 1, B_CHAR = 2, B_BAD = 9 };

struct TypeDesc {            // base + modifier list, innermost first
  int base;
  int n;
  int m[8];
  int dim[8];
  bool ok;
};

// C++ semantics of applying one modifier.  cv-qualifying an array type qualifies its elements ([dcl.array]), so a
// const is pushed below the arrays it is applied to; a repeated const is idempotent here (the harness never applies
// one, the reader could meet "const int const").
NOINL static void td_apply(TypeDesc &t, int mod, int dim) {
  if (t.n >= 7) { t.ok = false; return; }
  if (mod == M_CONST) {
    int p = t.n;
    while (p > 0 && t.m[p - 1] == M_ARR) p--;
    if (p > 0 && t.m[p - 1] == M_CONST) return;
    for (int k = t.n; k > p; k--) { t.m[k] = t.m[k - 1]; t.dim[k] = t.dim[k - 1]; }
    t.m[p] = M_CONST; t.dim[p] = 0;
    t.n++;
    return;
  }
  t.m[t.n] = mod; t.dim[t.n] = dim; t.n++;
}
NOINL static bool td_equal(const TypeDesc &a, const TypeDesc &b) {
  if (!a.ok || !b.ok || a.base != b.base || a.n != b.n) return false;
  for (int k = 0; k < 8; k++)
    if (k < a.n && (a.m[k] != b.m[k] || (a.m[k] == M_ARR && a.dim[k] != b.dim[k]))) return false;
  return true;
}

// ---- the reader --------------------------------------------------------------------------------------------
// The printed text, one entry per stream token: a byte, or (CBMC stream model only) a whole integer.
#define TMAX 48
static int T_n;
static long T_v[TMAX];
static bool T_int[TMAX];
static char R_name;

static bool is_space(int k) { return !T_int[k] && (T_v[k] == ' ' || T_v[k] == '\n' || T_v[k] == '\t'); }
static bool is_ch(int k, char c) { return k < T_n && !T_int[k] && T_v[k] == c; }
static bool is_alpha(int k) { return k < T_n && !T_int[k] && ((T_v[k] >= 'a' && T_v[k] <= 'z') || T_v[k] == '_'); }
static bool is_digit(int k) { return k < T_n && !T_int[k] && T_v[k] >= '0' && T_v[k] <= '9'; }
NOINL static int skip_ws(int k) { while (k < T_n && is_space(k)) k++; return k; }
// does the word w start at k (and end there)?
NOINL static int word_at(int k, const char *w) {
  int j = 0;
  while (w[j]) { if (!is_ch(k + j, w[j])) return 0; j++; }
  if (is_alpha(k + j) || is_digit(k + j)) return 0;
  return j;
}

// suffixes "[N]..." starting at k: applied to t in REVERSE textual order (a[2][3] is an array of 2 arrays of 3)
NOINL static int read_suffixes(int k, TypeDesc &t) {
  int dims[4]; int nd = 0;
  for (;;) {
    k = skip_ws(k);
    if (!is_ch(k, '[')) break;
    k = skip_ws(k + 1);
    long v = 0; bool any = false;
    if (k < T_n && T_int[k]) { v = T_v[k]; k++; any = true; }
    else while (is_digit(k)) { v = v * 10 + (T_v[k] - '0'); k++; any = true; }
    k = skip_ws(k);
    if (!any || !is_ch(k, ']') || nd >= 4) { t.ok = false; return k; }
    k++;
    dims[nd++] = (int)v;
  }
  for (int q = nd - 1; q >= 0; q--) td_apply(t, M_ARR, dims[q]);
  return k;
}

// declarator in [k, end): ptr-operators, then name or ( declarator ), then suffixes.  [dcl.meaning]: the prefix
// operators apply to T first (left to right), then the suffixes, then whatever the parenthesised declarator says.
NOINL static void read_declarator(int k, int end, TypeDesc &t, int depth) {
  bool after_star = false;       // a cv-qualifier in a declarator is part of a ptr-operator: only after '*' [dcl.decl]
  for (;;) {
    k = skip_ws(k);
    int w;
    if (is_ch(k, '*')) { td_apply(t, M_PTR, 0); k++; after_star = true; }
    else if (is_ch(k, '&')) { td_apply(t, M_REF, 0); k++; after_star = false; }
    else if ((w = word_at(k, "const")) != 0) { if (!after_star) { t.ok = false; return; } td_apply(t, M_CONST, 0); k += w; }
    else break;
  }
  if (k < end && is_ch(k, '(')) {
    int lvl = 0, close = -1;
    for (int j = k; j < end; j++) {
      if (is_ch(j, '(')) lvl++;
      if (is_ch(j, ')')) { lvl--; if (lvl == 0) { close = j; break; } }
    }
    if (close < 0 || depth <= 0) { t.ok = false; return; }
    int after = read_suffixes(close + 1, t);
    if (skip_ws(after) != end) { t.ok = false; return; }
    read_declarator(k + 1, close, t, depth - 1);
    return;
  }
  if (k < end && is_alpha(k)) {
    R_name = (char)T_v[k];
    k++;
    if (is_alpha(k) || is_digit(k)) { t.ok = false; return; }
  } else if (!NONAME) {            // only an abstract declarator may omit the name
    t.ok = false; return;
  }
  k = read_suffixes(k, t);
  if (skip_ws(k) != end) t.ok = false;
}

NOINL static void read_declaration(TypeDesc &t) {
  t.n = 0; t.ok = true; t.base = B_BAD;
  bool c = false, u = false, l = false, i = false, ch = false;
  int k = 0;
  for (;;) {
    k = skip_ws(k);
    int w;
    if ((w = word_at(k, "const")) != 0) { c = true; k += w; }
    else if ((w = word_at(k, "unsigned")) != 0) { u = true; k += w; }
    else if ((w = word_at(k, "long")) != 0) { if (l) t.ok = false; l = true; k += w; }
    else if ((w = word_at(k, "int")) != 0) { i = true; k += w; }
    else if ((w = word_at(k, "char")) != 0) { ch = true; k += w; }
    else break;
  }
  if (ch && !u && !l && !i) t.base = B_CHAR;
  else if (u && l && !ch) t.base = B_ULONG;
  else if (i && !u && !l && !ch) t.base = B_INT;
  else t.ok = false;
  if (c) td_apply(t, M_CONST, 0);
  read_declarator(k, T_n, t, 3);
}

NOINL static void load_tokens(std::ostream *out) {
  T_n = (int)vs_ntokens(out);
  if (T_n > TMAX) T_n = TMAX;
  for (int k = 0; k < T_n; k++) { T_int[k] = vs_tok_kind(out, k) == 1; T_v[k] = (long)vs_tok_val(out, k); }
}

// ---- building ----------------------------------------------------------------------------------------------
NOINL static CPPType *wrap(CPPType *t, int mod, int dim) {
  switch (mod) {
  case M_PTR: return new CPPPointerType(t);
  case M_REF: return new CPPReferenceType(t, CPPReferenceType::VC_lvalue);
  case M_CONST: return new CPPConstType(t);
  default: return new CPPArrayType(t, new CPPExpression(dim));
  }
}

NOINL static bool valid_list(const int *m, int n) {
  bool has_arr = false, ptr_to_arr = false;
  for (int k = 0; k < n; k++) {
    if (m[k] == M_REF && k != n - 1) return false;                 // nothing can be derived from a reference
    if (m[k] == M_CONST && k > 0 && m[k - 1] == M_CONST) return false;
    if (m[k] == M_ARR) has_arr = true;
  }
  // const applied to an array of const elements would be a repeated const
  TypeDesc t; t.n = 0; t.ok = true; t.base = 0;
  for (int k = 0; k < n; k++) {
    int before = t.n;
    td_apply(t, m[k], 2 + k);
    if (t.n == before) return false;
  }
  for (int k = 1; k < t.n; k++) if ((t.m[k] == M_PTR || t.m[k] == M_REF) && t.m[k - 1] == M_ARR) ptr_to_arr = true;
  bool const_on_arr = false;
  for (int k = 1; k < n; k++) if (m[k] == M_CONST && m[k - 1] == M_ARR) const_on_arr = true;
  if (CONSTARR != 2 && const_on_arr != (CONSTARR == 1)) return false;
  if (ARRAYS != 2 && has_arr != (ARRAYS == 1)) return false;
  if (PTRARR != 2 && ptr_to_arr != (PTRARR == 1)) return false;
  return true;
}

NOINL static void check_one(CPPSimpleType *base, int basecode, const int *m, int n, std::ostream *out) {
  TypeDesc want; want.n = 0; want.ok = true; want.base = basecode;
  for (int k = 0; k < n; k++) td_apply(want, m[k], 2 + k);
  CPPType *t;
#ifdef USE_UNROLL
  // the declarator's modifier list as CPPInstanceIdentifier keeps it: outermost first
  CPPInstanceIdentifier *ii = new CPPInstanceIdentifier(nullptr);
  for (int k = n - 1; k >= 0; k--) {
    switch (m[k]) {
    case M_PTR: ii->add_modifier(IIT_pointer); break;
    case M_REF: ii->add_modifier(IIT_reference); break;
    case M_CONST: ii->add_modifier(IIT_const); break;
    default: ii->add_array_modifier(new CPPExpression(2 + k)); break;
    }
  }
  t = ii->unroll_type(base);
#else
  t = base;
  for (int k = 0; k < n; k++) t = wrap(t, m[k], 2 + k);
#endif
  vs_truncate(out, 0);
#if NONAME == 2
  t->output(*out, 0, nullptr, false);
#elif NONAME == 1
  t->output_instance(*out, "", nullptr);
#else
  t->output_instance(*out, "v", nullptr);
#endif
  load_tokens(out);
  TypeDesc got;
  R_name = 0;
  read_declaration(got);
#ifdef VERIF_NATIVE
  // native replay: say which declaration is being checked (the last line printed before ASSERT-FAILED is the culprit)
  printf("applied (innermost first, 1=* 2=& 3=const 4=[N]):");
  for (int k = 0; k < n; k++) printf(" %d", m[k]);
  printf(" to base %d; printed: \"", basecode);
  for (int k = 0; k < T_n; k++) putchar((int)T_v[k]);
  printf("\"; read back:");
  for (int k = 0; k < got.n; k++) printf(" %d", got.m[k]);
  printf(" ok=%d\n", (int)got.ok);
#endif
  ASSERT(got.ok, "C06 printed declaration is a well-formed C++ declaration of the supported shape");
  ASSERT(!got.ok || R_name == (NONAME ? 0 : 'v'), "C06 printed declaration declares the given name (none for an abstract declarator)");
  ASSERT(!got.ok || got.base == want.base, "C06 printed declaration keeps the base type");
  ASSERT(!got.ok || got.base != want.base || td_equal(got, want),
         "C06 printed declaration denotes the type built: same cv-qualification and pointer/reference/array structure");
}

extern "C" void harness_c06_print() {
  __ll2c_global_ctors();      // std::ostringstream vtables of the stream model (every static initialiser of the TUs is skipped)
  CPPSimpleType *bases[3];
  bases[0] = new CPPSimpleType(CPPSimpleType::T_int, 0);
  bases[1] = new CPPSimpleType(CPPSimpleType::T_int, CPPSimpleType::F_unsigned | CPPSimpleType::F_long);
  bases[2] = new CPPSimpleType(CPPSimpleType::T_char, 0);
  std::ostream *out = vs_ostream_new();
  int m[3];
  int total = 1, count = 0;
  for (int k = 0; k < MAXLEN; k++) total *= (ALPHA + 1);
  // every modifier list of length <= MAXLEN: digits of `code` in base ALPHA+1, 0 = end of list
  for (int code = 0; code < total; code++) {
    int c = code, n = 0; bool canon = true, ended = false;
    for (int k = 0; k < MAXLEN; k++) {
      int d = c % (ALPHA + 1); c /= (ALPHA + 1);
      if (d == 0) ended = true; else { if (ended) canon = false; m[n++] = d; }
    }
    if (!canon || !valid_list(m, n)) continue;
    int b = count % 3;          // base types rotate over the shapes
    count++;
    if ((count - 1) % NPARTS != PART) continue;
    check_one(bases[b], b, m, n, out);
  }
  WITNESS();
}
