// C04: InterrogateBuilder::read_command_file splits a .N file into (command, parameters) pairs:
// the command is the first word of the part of the line before '#', the parameters the rest with surrounding
// blanks removed; blank and comment-only lines are skipped; every line is processed.
// insert_param_list splits its argument on blanks with no empty entries.
#include "verif.h"
#include "vstream.h"
#include "interrogateBuilder.h"
#include "c03_native_globals.h"
#include <string>
#ifndef LMAX
#define LMAX 5
#endif
#ifndef L2MAX
#define L2MAX 2
#endif
#define WMAX 8

struct Call { int clen, plen; char c[WMAX + 1], p[WMAX + 1]; };
// recorded calls: flat arrays per field (an array of structs holding char arrays gave a spurious CBMC counterexample)
static int g_clen[3], g_plen[3];
static char g_c[3][WMAX + 1], g_p[3][WMAX + 1];
static int g_ncalls;

// recorder replacing the real do_command
void InterrogateBuilder::do_command(const std::string &command, const std::string &params) {
  if (g_ncalls < 3) {
    int k = g_ncalls;
    int cl = (int)command.size(), pl = (int)params.size();
    g_clen[k] = cl; g_plen[k] = pl;
    const char *cd = command.data(), *pd = params.data();
    for (int i = 0; i < WMAX; i++) { g_c[k][i] = i < cl ? cd[i] : 0; g_p[k][i] = i < pl ? pd[i] : 0; }
  }
  g_ncalls++;
}

static const char ALPHA[5] = {'a', 'b', ' ', '\t', '#'};
static bool blank(char c) { return c == ' ' || c == '\t'; }

static int sym_line(char *buf, int maxlen) {
  int len = nondet_int();
  ASSUME(len >= 0 && len <= maxlen);
  for (int i = 0; i < maxlen; i++) { unsigned char k = nondet_uchar(); ASSUME(k < 5); buf[i] = ALPHA[k]; }
  return len;
}

// reference splitter: returns false if the line carries no command
static bool ref_split(const char *line, int len, Call *out) {
  int end = len;
  for (int i = len - 1; i >= 0; i--) if (line[i] == '#') end = i;
  int p = 0;
  while (p < end && blank(line[p])) p++;
  if (p >= end) return false;
  int q = p;
  while (q < end && !blank(line[q])) q++;
  out->clen = q - p;
  for (int i = 0; i < WMAX; i++) out->c[i] = i < out->clen ? line[p + i] : 0;
  int r = q;
  while (r < end && blank(line[r])) r++;
  int e = end;
  while (e > r && blank(line[e - 1])) e--;
  out->plen = e - r;
  for (int i = 0; i < WMAX; i++) out->p[i] = i < out->plen ? line[r + i] : 0;
  return true;
}
static bool same_call(int k, const Call &b) {
  if (g_clen[k] != b.clen || g_plen[k] != b.plen) return false;
  bool eq = true;
  for (int i = 0; i < WMAX; i++) if (g_c[k][i] != b.c[i] || g_p[k][i] != b.p[i]) eq = false;
  return eq;
}

static InterrogateBuilder *raw_builder() {
  // read_command_file touches no member of the builder (do_command is replaced): a raw allocation is enough
  return (InterrogateBuilder *)operator new(sizeof(InterrogateBuilder));
}

// two lines, both newline-terminated
extern "C" void harness_c04_command_lines() {
  char l1[LMAX + 1], l2[L2MAX + 1], text[LMAX + L2MAX + 3];
  int n1 = sym_line(l1, LMAX), n2 = sym_line(l2, L2MAX);
#ifdef DBGFIX
  ASSUME(n1 == 1 && l1[0] == 'a' && n2 == 2 && l2[0] == 'b' && l2[1] == ' ');
#endif
  int n = 0;
  for (int i = 0; i < LMAX; i++) if (i < n1) text[n++] = l1[i];
  text[n++] = '\n';
  for (int i = 0; i < L2MAX; i++) if (i < n2) text[n++] = l2[i];
  text[n++] = '\n';
  std::istream *in = vs_istream_bytes(text, (unsigned)n);
  g_ncalls = 0;
  raw_builder()->read_command_file(*in);
  Call w1, w2;
  bool h1 = ref_split(l1, n1, &w1), h2 = ref_split(l2, n2, &w2);
  ASSERT(g_ncalls == (h1 ? 1 : 0) + (h2 ? 1 : 0), "C04 every line with a command reaches do_command exactly once, blank/comment lines never");
  int k = 0;
  if (h1) { ASSERT(g_ncalls > k && same_call(k, w1), "C04 command = first word, params = trimmed rest before '#' (line 1)"); k++; }
  if (h2) { ASSERT(g_ncalls > k && same_call(k, w2), "C04 command = first word, params = trimmed rest before '#' (line 2)"); k++; }
  WITNESS();
}

// a file whose last line has no trailing newline: the command on it must still be executed
extern "C" void harness_c04_command_lastline() {
  char l1[LMAX + 1];
  int n1 = sym_line(l1, LMAX);
  std::istream *in = vs_istream_bytes(l1, (unsigned)n1);
  g_ncalls = 0;
  raw_builder()->read_command_file(*in);
  Call w1;
  bool h1 = ref_split(l1, n1, &w1);
  ASSERT(g_ncalls == (h1 ? 1 : 0), "C04 a command on an unterminated last line of the .N file is executed");
  if (h1 && g_ncalls == 1) ASSERT(same_call(0, w1), "C04 command = first word, params = trimmed rest before '#' (last line)");
  WITNESS();
}

// insert_param_list: splits on blanks, no empty entries, every word inserted.
// The set's insert is cut (the explicit specialisation below replaces libstdc++'s _M_insert_unique for
// std::set<std::string>) and records the words, so no red-black tree with symbolic keys is built.
static int g_nwords, g_wlen[4];
static char g_w[4][WMAX + 1];
typedef std::_Rb_tree<std::string, std::string, std::_Identity<std::string>, std::less<std::string>, std::allocator<std::string> > StrTree;
template<> template<>
std::pair<StrTree::iterator, bool> StrTree::_M_insert_unique<std::string>(std::string &&v) {
  if (g_nwords < 4) {
    int k = g_nwords, n = (int)v.size();
    g_wlen[k] = n;
    const char *d = v.data();
    for (int i = 0; i < WMAX; i++) g_w[k][i] = i < n ? d[i] : 0;
  }
  g_nwords++;
  return std::pair<StrTree::iterator, bool>(StrTree::iterator(nullptr), true);
}

extern "C" void harness_c04_param_list() {
  char l1[LMAX + 1];
  int n1 = sym_line(l1, LMAX);
  for (int i = 0; i < LMAX; i++) ASSUME(l1[i] != '#');
  std::string params(l1, (size_t)n1);
  InterrogateBuilder *b = raw_builder();        // insert_param_list only hands the set on to insert()
  g_nwords = 0;
  b->insert_param_list(b->_ignorefile, params);
  // reference: the maximal runs of non-blank characters, in order
  int words = 0;
  bool ok = true;
  for (int i = 0; i < LMAX; i++)
    if (i < n1 && !blank(l1[i]) && (i == 0 || blank(l1[i - 1]))) {
      int e = i;
      for (int j = i; j < LMAX; j++) if (j < n1 && e == j && !blank(l1[j])) e = j + 1;
      if (words < 4) {
        if (g_wlen[words] != e - i) ok = false;
        for (int j = 0; j < LMAX; j++) if (j < e - i && g_w[words][j] != l1[i + j]) ok = false;
      }
      words++;
    }
  ASSERT(g_nwords == words, "C04 insert_param_list inserts one entry per blank-separated word, never an empty one");
  ASSERT(ok, "C04 insert_param_list inserts exactly the blank-separated words, in order");
  WITNESS();
}
