// C12: output()/input() of every record type of the interrogate database mirror each other field for field.
//
// One harness per record type.  Scalars are symbolic over all of int, strings are symbolic byte strings of length
// 0..LMAX (every byte value).  Container *structure* (how many alt names / vector elements) is enumerated through the
// SHAPE template parameter so that heap layout and stream positions stay concrete inside one branch; the branch taken
// is chosen by a symbolic integer, so one query covers all listed shapes.
#include "verif.h"
#include "vstream.h"
#include "interrogate_datafile.h"
#include "interrogateDatabase.h"
#include <string>
#include <vector>
#ifndef LMAX
#define LMAX 2
#endif

// String lengths follow a *pattern* that is concrete inside one branch (a symbolic length would make every later
// stream position symbolic, which symbolic execution cannot afford); pattern p gives the k-th string of a record the
// length p (p <= LMAX), k mod (LMAX+1) (p == LMAX+1) or LMAX - k mod (LMAX+1) (p == LMAX+2).  The contents are
// symbolic over all byte values.  Every store uses a concrete index.
static int g_pat = 0, g_k = 0;
#define NPAT (LMAX + 3)
static int pat_len() {
  int k = g_k++;
  if (g_pat <= LMAX) return g_pat;
  if (g_pat == LMAX + 1) return k % (LMAX + 1);
  return LMAX - k % (LMAX + 1);
}
static void sym_str(std::string &s) {
  int len = pat_len();
  // draw exactly len characters: an unused draw would be sliced out of the counterexample and shift the replay inputs
  for (int i = 0; i < LMAX; i++) { if (i < len) s._M_local_buf[i] = nondet_char(); else s._M_local_buf[i] = 0; }
  s._M_local_buf[LMAX] = 0;
  s._M_string_length = (size_t)len;
}

static void as_file_version(int minor) {
  // what the real reader (load_latest) sets from the file header before calling read()
  InterrogateDatabase::_file_major_version = 3;
  InterrogateDatabase::_file_minor_version = minor;
}

#define SAME(f, what) ASSERT(a->f == b->f, "C12 " what " is read back as written")

// ---- shared part: InterrogateComponent (name + alt names) ----
template<int NALT> static void fill_component(InterrogateComponent *a) {
  sym_str(a->_name);
  a->_alt_names.reserve(NALT);
  for (int i = 0; i < NALT; i++) { a->_alt_names.emplace_back(); sym_str(a->_alt_names.back()); }
}
template<int NALT> static void check_component(const InterrogateComponent *a, const InterrogateComponent *b) {
  SAME(_name, "component name");
  ASSERT(b->_alt_names.size() == (size_t)NALT, "C12 number of alt names is read back as written");
  for (int i = 0; i < NALT && i < (int)b->_alt_names.size(); i++) SAME(_alt_names[i], "alt name");
}

// write a, read into b, compare, re-serialise b; T::output/input are the functions under test
template<class T> static void finish_roundtrip(const T *a, T *b, std::ostream *&out, std::istream *&in) {
  int follow = nondet_int();
  out = vs_ostream_new();
  a->output(*out);
  *out << follow << ' ';
  ASSERT(vs_format_error(out) == 0, "C12 every integer in the file is delimited from its neighbours");
  in = vs_istream_of(out);
  b->input(*in);
  ASSERT(!in->fail(), "C12 reading back a written record does not fail");
  int f2 = 0;
  *in >> f2;
  ASSERT(!in->fail() && f2 == follow, "C12 the value following a record is read back intact");
  std::ostream *out2 = vs_ostream_new();
  b->output(*out2);
  *out2 << f2 << ' ';
  ASSERT(vs_same_output(out, out2), "C12 re-serialising the read-back record gives the same file content");
}

#define DISPATCH_BEGIN int sh_sym = nondet_int(), pat_sym = nondet_int();
// -DONLY_SHAPE=k / -DPAT_MASK=bits restrict one catalogue entry to a slice of the shape x pattern grid
#ifndef ONLY_SHAPE
#define ONLY_SHAPE (-1)
#endif
#ifndef PAT_MASK
#define PAT_MASK (-1)
#endif
// every (shape, pattern) pair is its own call site with literal constants: a loop over patterns would let the
// compiler share one body between iterations, and the merged pattern number would be symbolic
#define PAT_CASE(body, k, p) if ((p) < NPAT && ((PAT_MASK >> (p)) & 1) && sh_sym == (k) && pat_sym == (p)) \
  { g_pat = (p); g_k = 0; body<(k)>(); return; }
#define SHAPE_CASE(body, k) if (ONLY_SHAPE < 0 || ONLY_SHAPE == (k)) { PAT_CASE(body, k, 0) PAT_CASE(body, k, 1) PAT_CASE(body, k, 2) \
  PAT_CASE(body, k, 3) PAT_CASE(body, k, 4) PAT_CASE(body, k, 5) PAT_CASE(body, k, 6) }
#define DISPATCH_END ASSUME(false);

// ---- InterrogateComponent ----
template<int SHAPE> static void component_body() {
  as_file_version(3);
  InterrogateComponent *a = new InterrogateComponent, *b = new InterrogateComponent;
  fill_component<SHAPE>(a);
  std::ostream *out; std::istream *in;
  finish_roundtrip(a, b, out, in);
  check_component<SHAPE>(a, b);
  WITNESS();
}
extern "C" void harness_c12_rec_component() {
  DISPATCH_BEGIN SHAPE_CASE(component_body, 0) SHAPE_CASE(component_body, 1) SHAPE_CASE(component_body, 2) DISPATCH_END
}

// ---- InterrogateManifest ----
template<int SHAPE> static void manifest_body() {
  as_file_version(3);
  InterrogateManifest *a = new InterrogateManifest, *b = new InterrogateManifest;
  fill_component<SHAPE & 1>(a);
  a->_flags = nondet_int(); a->_int_value = nondet_int(); a->_type = nondet_int(); a->_getter = nondet_int();
  sym_str(a->_definition);
  std::ostream *out; std::istream *in;
  finish_roundtrip(a, b, out, in);
  check_component<SHAPE & 1>(a, b);
  SAME(_flags, "manifest flags"); SAME(_int_value, "manifest int value"); SAME(_type, "manifest type");
  SAME(_getter, "manifest getter"); SAME(_definition, "manifest definition");
  WITNESS();
}
extern "C" void harness_c12_rec_manifest() {
  DISPATCH_BEGIN SHAPE_CASE(manifest_body, 0) SHAPE_CASE(manifest_body, 1) DISPATCH_END
}


// ---- InterrogateMakeSeq ----
template<int SHAPE> static void make_seq_body() {
  as_file_version(3);
  InterrogateMakeSeq *a = new InterrogateMakeSeq, *b = new InterrogateMakeSeq;
  fill_component<SHAPE & 1>(a);
  a->_length_getter = nondet_int(); a->_element_getter = nondet_int();
  sym_str(a->_scoped_name); sym_str(a->_comment);
  std::ostream *out; std::istream *in;
  finish_roundtrip(a, b, out, in);
  check_component<SHAPE & 1>(a, b);
  SAME(_length_getter, "make_seq length getter"); SAME(_element_getter, "make_seq element getter");
  SAME(_scoped_name, "make_seq scoped name"); SAME(_comment, "make_seq comment");
  WITNESS();
}
extern "C" void harness_c12_rec_make_seq() {
  DISPATCH_BEGIN SHAPE_CASE(make_seq_body, 0) SHAPE_CASE(make_seq_body, 1) DISPATCH_END
}

// ---- InterrogateElement (current format, minor version 3) ----
static void fill_element_scalars(InterrogateElement *a) {
  a->_flags = nondet_int(); a->_type = nondet_int(); a->_getter = nondet_int(); a->_setter = nondet_int();
  a->_has_function = nondet_int(); a->_clear_function = nondet_int(); a->_del_function = nondet_int();
  a->_length_function = nondet_int(); a->_insert_function = nondet_int(); a->_getkey_function = nondet_int();
}
template<int SHAPE> static void element_body() {
  as_file_version(3);
  InterrogateElement *a = new InterrogateElement, *b = new InterrogateElement;
  fill_component<SHAPE & 1>(a);
  fill_element_scalars(a);
  sym_str(a->_scoped_name); sym_str(a->_comment);
  std::ostream *out; std::istream *in;
  finish_roundtrip(a, b, out, in);
  check_component<SHAPE & 1>(a, b);
  SAME(_flags, "element flags"); SAME(_type, "element type"); SAME(_getter, "element getter"); SAME(_setter, "element setter");
  SAME(_has_function, "element has_function"); SAME(_clear_function, "element clear_function");
  SAME(_del_function, "element del_function"); SAME(_length_function, "element length_function");
  SAME(_insert_function, "element insert_function"); SAME(_getkey_function, "element getkey_function");
  SAME(_scoped_name, "element scoped name"); SAME(_comment, "element comment");
  WITNESS();
}
extern "C" void harness_c12_rec_element() {
  DISPATCH_BEGIN SHAPE_CASE(element_body, 0) SHAPE_CASE(element_body, 1) DISPATCH_END
}

// ---- InterrogateFunction: SHAPE bit0 = one alt name, bit1 = one C wrapper, bit2 = one Python wrapper ----
template<int SHAPE> static void function_body() {
  as_file_version(3);
  InterrogateFunction *a = new InterrogateFunction, *b = new InterrogateFunction;
  fill_component<SHAPE & 1>(a);
  a->_flags = nondet_int(); a->_class = nondet_int();
  sym_str(a->_scoped_name);
  if (SHAPE & 2) a->_c_wrappers.push_back(nondet_int());
  if (SHAPE & 4) a->_python_wrappers.push_back(nondet_int());
  sym_str(a->_comment); sym_str(a->_prototype);
  std::ostream *out; std::istream *in;
  finish_roundtrip(a, b, out, in);
  check_component<SHAPE & 1>(a, b);
  SAME(_flags, "function flags"); SAME(_class, "function class"); SAME(_scoped_name, "function scoped name");
  ASSERT(b->_c_wrappers.size() == ((SHAPE & 2) ? 1u : 0u), "C12 number of C wrappers is read back as written");
  if ((SHAPE & 2) && b->_c_wrappers.size() == 1) SAME(_c_wrappers[0], "function C wrapper index");
  ASSERT(b->_python_wrappers.size() == ((SHAPE & 4) ? 1u : 0u), "C12 number of Python wrappers is read back as written");
  if ((SHAPE & 4) && b->_python_wrappers.size() == 1) SAME(_python_wrappers[0], "function Python wrapper index");
  SAME(_comment, "function comment"); SAME(_prototype, "function prototype");
  WITNESS();
}
extern "C" void harness_c12_rec_function() {
  DISPATCH_BEGIN SHAPE_CASE(function_body, 0) SHAPE_CASE(function_body, 7) SHAPE_CASE(function_body, 2) SHAPE_CASE(function_body, 5) DISPATCH_END
}

// ---- InterrogateFunctionWrapper: SHAPE bit0 = one alt name, bits 1..2 = number of parameters (0..2) ----
template<int SHAPE> static void wrapper_body() {
  as_file_version(3);
  const int NP = SHAPE >> 1;
  InterrogateFunctionWrapper *a = new InterrogateFunctionWrapper, *b = new InterrogateFunctionWrapper;
  fill_component<SHAPE & 1>(a);
  a->_flags = nondet_int(); a->_function = nondet_int(); a->_return_type = nondet_int(); a->_return_value_destructor = nondet_int();
  sym_str(a->_unique_name); sym_str(a->_comment);
  a->_parameters.reserve(NP);
  for (int i = 0; i < NP; i++) {
    a->_parameters.emplace_back();
    InterrogateFunctionWrapper::Parameter &p = a->_parameters.back();
    sym_str(p._name); p._parameter_flags = nondet_int(); p._type = nondet_int();
  }
  std::ostream *out; std::istream *in;
  finish_roundtrip(a, b, out, in);
  check_component<SHAPE & 1>(a, b);
  SAME(_flags, "wrapper flags"); SAME(_function, "wrapper function"); SAME(_return_type, "wrapper return type");
  SAME(_return_value_destructor, "wrapper return value destructor");
  SAME(_unique_name, "wrapper unique name"); SAME(_comment, "wrapper comment");
  ASSERT(b->_parameters.size() == (size_t)NP, "C12 number of parameters is read back as written");
  for (int i = 0; i < NP && i < (int)b->_parameters.size(); i++) {
    SAME(_parameters[i]._name, "parameter name"); SAME(_parameters[i]._parameter_flags, "parameter flags");
    SAME(_parameters[i]._type, "parameter type");
  }
  WITNESS();
}
extern "C" void harness_c12_rec_wrapper() {
  DISPATCH_BEGIN SHAPE_CASE(wrapper_body, 0) SHAPE_CASE(wrapper_body, 3) SHAPE_CASE(wrapper_body, 4) DISPATCH_END
}

// ---- InterrogateType: SHAPE bit0 = one alt name, bits 1..8 = one element in constructors, elements, methods,
//      make_seqs, casts, derivations, enum_values, nested_types; bit 9 = array type (adds _array_size to the file) ----
template<int SHAPE> static void type_body() {
  as_file_version(3);
  InterrogateType *a = new InterrogateType, *b = new InterrogateType;
  fill_component<SHAPE & 1>(a);
  // _flags decides whether _array_size is part of the file, i.e. the number of tokens: it has to be concrete for
  // symbolic execution (a symbolic token count makes every later stream position symbolic).  Two fixed bit patterns,
  // one per value of the array bit; every other scalar is symbolic.
  a->_flags = (SHAPE & 0x200) ? (0x55EA5A5A | InterrogateType::F_array) : (0x2A95A5A5 & ~InterrogateType::F_array);
  sym_str(a->_scoped_name); sym_str(a->_true_name);
  a->_outer_class = nondet_int();
  a->_atomic_token = (AtomicToken)nondet_int();
  a->_wrapped_type = nondet_int();
  // the array size is part of the file only for array types; other types keep the constructor default
  if (SHAPE & 0x200) a->_array_size = nondet_int();
  if (SHAPE & 2) a->_constructors.push_back(nondet_int());
  a->_destructor = nondet_int();
  if (SHAPE & 4) a->_elements.push_back(nondet_int());
  if (SHAPE & 8) a->_methods.push_back(nondet_int());
  if (SHAPE & 16) a->_make_seqs.push_back(nondet_int());
  if (SHAPE & 32) a->_casts.push_back(nondet_int());
  if (SHAPE & 64) {
    InterrogateType::Derivation d;
    d._flags = nondet_int(); d._base = nondet_int(); d._upcast = nondet_int(); d._downcast = nondet_int();
    a->_derivations.push_back(d);
  }
  if (SHAPE & 128) {
    a->_enum_values.reserve(1);
    a->_enum_values.emplace_back();
    InterrogateType::EnumValue &e = a->_enum_values.back();
    sym_str(e._name); sym_str(e._scoped_name); sym_str(e._comment); e._value = nondet_int();
  }
  if (SHAPE & 256) a->_nested_types.push_back(nondet_int());
  sym_str(a->_comment);
  std::ostream *out; std::istream *in;
  finish_roundtrip(a, b, out, in);
  check_component<SHAPE & 1>(a, b);
  SAME(_flags, "type flags"); SAME(_scoped_name, "type scoped name"); SAME(_true_name, "type true name");
  SAME(_outer_class, "type outer class"); SAME(_atomic_token, "type atomic token"); SAME(_wrapped_type, "type wrapped type");
  SAME(_array_size, "type array size"); SAME(_destructor, "type destructor"); SAME(_comment, "type comment");
#define VEC1(f, bit, what) ASSERT(b->f.size() == ((SHAPE & (bit)) ? 1u : 0u), "C12 length of " what " is read back as written"); \
  if ((SHAPE & (bit)) && b->f.size() == 1) SAME(f[0], what)
  VEC1(_constructors, 2, "type constructors"); VEC1(_elements, 4, "type elements"); VEC1(_methods, 8, "type methods");
  VEC1(_make_seqs, 16, "type make_seqs"); VEC1(_casts, 32, "type casts"); VEC1(_nested_types, 256, "type nested types");
  ASSERT(b->_derivations.size() == ((SHAPE & 64) ? 1u : 0u), "C12 length of type derivations is read back as written");
  if ((SHAPE & 64) && b->_derivations.size() == 1) {
    SAME(_derivations[0]._flags, "derivation flags"); SAME(_derivations[0]._base, "derivation base");
    SAME(_derivations[0]._upcast, "derivation upcast"); SAME(_derivations[0]._downcast, "derivation downcast");
  }
  ASSERT(b->_enum_values.size() == ((SHAPE & 128) ? 1u : 0u), "C12 length of type enum values is read back as written");
  if ((SHAPE & 128) && b->_enum_values.size() == 1) {
    SAME(_enum_values[0]._name, "enum value name"); SAME(_enum_values[0]._scoped_name, "enum value scoped name");
    SAME(_enum_values[0]._comment, "enum value comment"); SAME(_enum_values[0]._value, "enum value");
  }
  WITNESS();
}
#ifndef TYPE_SHAPES
#define TYPE_SHAPES SHAPE_CASE(type_body, 0) SHAPE_CASE(type_body, 0x3ff) SHAPE_CASE(type_body, 0x2aa) SHAPE_CASE(type_body, 0x155)
#endif
extern "C" void harness_c12_rec_type() {
  DISPATCH_BEGIN TYPE_SHAPES DISPATCH_END
}

// ---- version gates: InterrogateElement::input reading a file of minor format 0..3 ----
// Reference writer kept here (independent of the code under test): an element record as interrogate 3.<minor> wrote it.
static void ref_string(std::ostream &out, const std::string &s, char ws) {
  out << (unsigned long)s.size() << ws;
  if (s.size() != 0) { for (size_t i = 0; i < s.size(); i++) out.put(s[i]); out << ws; }
}
template<int NALT> static void ref_component(std::ostream &out, const InterrogateComponent *a) {
  ref_string(out, a->_name, ' ');
  out << (unsigned long)NALT << ' ';
  for (int i = 0; i < NALT; i++) ref_string(out, a->_alt_names[i], ' ');
}
// SHAPE bit0 = one alt name, bits 1..2 = minor version of the file
template<int SHAPE> static void element_gate_body() {
  const int MINOR = SHAPE >> 1;
  as_file_version(MINOR);
  InterrogateElement *a = new InterrogateElement, *b = new InterrogateElement;
  fill_component<SHAPE & 1>(a);
  fill_element_scalars(a);
  sym_str(a->_scoped_name); sym_str(a->_comment);
  int follow = nondet_int();
  std::ostream *out = vs_ostream_new();
  ref_component<SHAPE & 1>(*out, a);
  *out << a->_flags << ' ' << a->_type << ' ' << a->_getter << ' ' << a->_setter << ' ';
  if (MINOR >= 1) *out << a->_has_function << ' ' << a->_clear_function << ' ';
  if (MINOR >= 2) *out << a->_del_function << ' ' << a->_length_function << ' ';
  if (MINOR >= 3) *out << a->_insert_function << ' ' << a->_getkey_function << ' ';
  ref_string(*out, a->_scoped_name, ' ');
  ref_string(*out, a->_comment, '\n');
  *out << follow << ' ';
  std::istream *in = vs_istream_of(out);
  b->input(*in);
  ASSERT(!in->fail(), "C12 reading an element of an older 3.x format does not fail");
  int f2 = 0;
  *in >> f2;
  ASSERT(!in->fail() && f2 == follow, "C12 the value following an older-format element is read back intact");
  check_component<SHAPE & 1>(a, b);
  SAME(_flags, "element flags"); SAME(_type, "element type"); SAME(_getter, "element getter"); SAME(_setter, "element setter");
  SAME(_scoped_name, "element scoped name"); SAME(_comment, "element comment");
  if (MINOR >= 1) { SAME(_has_function, "element has_function (3.1+)"); SAME(_clear_function, "element clear_function (3.1+)"); }
  else ASSERT(b->_has_function == 0 && b->_clear_function == 0, "C12 fields absent from a 3.0 file keep the constructor default");
  if (MINOR >= 2) { SAME(_del_function, "element del_function (3.2+)"); SAME(_length_function, "element length_function (3.2+)"); }
  else ASSERT(b->_del_function == 0 && b->_length_function == 0, "C12 fields absent from a 3.0/3.1 file keep the constructor default");
  if (MINOR >= 3) { SAME(_insert_function, "element insert_function (3.3)"); SAME(_getkey_function, "element getkey_function (3.3)"); }
  else ASSERT(b->_insert_function == 0 && b->_getkey_function == 0, "C12 fields absent from a 3.0-3.2 file keep the constructor default");
  if (MINOR == 3) {
    // the current format: the real writer must produce exactly what the reference writer produced
    std::ostream *out2 = vs_ostream_new();
    a->output(*out2);
    *out2 << follow << ' ';
    ASSERT(vs_same_output(out, out2), "C12 InterrogateElement::output writes the 3.3 format of the reference writer");
  }
  WITNESS();
}
extern "C" void harness_c12_element_gates() {
  DISPATCH_BEGIN SHAPE_CASE(element_gate_body, 0) SHAPE_CASE(element_gate_body, 3) SHAPE_CASE(element_gate_body, 4)
  SHAPE_CASE(element_gate_body, 5) SHAPE_CASE(element_gate_body, 6) SHAPE_CASE(element_gate_body, 7) DISPATCH_END
}

// ---- truncation: every proper prefix of a valid record must be rejected (stream failed) without a crash ----
// The record is followed by one more integer, as every record in a database file is (the next index or the next
// section count); the cut position is symbolic (dispatched to concrete positions) and removes at least that integer.
// Integers are single digits and string bytes are letters so that token index == byte index in the native replay.
#ifdef VERIF_NATIVE
// Native replay only: an uninitialised local has whatever the stack held before; paint the stack so that the replay is
// deterministic about it (CBMC treats an uninitialised local as an arbitrary value, which is what C++ says it is).
static void __attribute__((noinline)) paint_stack() {
  volatile unsigned char pad[32768];
  for (unsigned i = 0; i < sizeof pad; i++) pad[i] = 0xEF;
}
#else
static void paint_stack() {}
#endif
// contents are concrete here (only the shape, the length pattern and the cut position are symbolic): they do not matter
// for truncation, and inputs that do not influence the verdict would be sliced out of the counterexample
static void fix_str(std::string &s) {
  int len = pat_len();
  for (int i = 0; i < LMAX; i++) s._M_local_buf[i] = i < len ? (char)('a' + i) : (char)0;
  s._M_local_buf[LMAX] = 0;
  s._M_string_length = (size_t)len;
}
#ifndef CUT_LO
#define CUT_LO 0
#endif
#ifndef CUT_HI
#define CUT_HI 64
#endif
// Monitor: std::vector<std::string>::reserve is replaced by this stand-in (catalogue: cut=[...]).  reserve() only
// changes the capacity, so doing nothing preserves behaviour; the stand-in checks that the requested capacity is a
// count that can have come from the file (the records of this harness have at most one alt name).
#ifdef MONITOR_RESERVE
template<> void std::vector<std::string>::reserve(size_type n) {
  ASSERT(n <= 4, "C12 the number of alt names passed to reserve() was read from the file (not an uninitialised value)");
  ASSUME(n <= 4);
}
#endif

template<int SHAPE> static void truncate_body() {
  const int CUT = SHAPE >> 1;
  if (CUT < CUT_LO || CUT >= CUT_HI) return;
  as_file_version(3);
  InterrogateManifest *a = new InterrogateManifest, *b = new InterrogateManifest;
  fix_str(a->_name);
  if (SHAPE & 1) { a->_alt_names.emplace_back(); fix_str(a->_alt_names.back()); }
  a->_flags = 1; a->_int_value = 2; a->_type = 3; a->_getter = 4;
  fix_str(a->_definition);
  std::ostream *out = vs_ostream_new();
  a->output(*out);
  *out << 5 << ' ';
  if ((unsigned)CUT + 2 > vs_ntokens(out)) return;          // the cut must remove at least the following integer
  vs_truncate(out, CUT);
  std::istream *in = vs_istream_of(out);
  paint_stack();
  b->input(*in);
  int f2 = -1;
  *in >> f2;
  ASSERT(in->fail(), "C12 a truncated record leaves the stream in fail state so that the file is rejected");
  WITNESS();
}
#define CUT2(body, c) SHAPE_CASE(body, 2 * (c)) SHAPE_CASE(body, 2 * (c) + 1)
#define CUT8(body, c) CUT2(body, c) CUT2(body, (c) + 1) CUT2(body, (c) + 2) CUT2(body, (c) + 3) CUT2(body, (c) + 4) CUT2(body, (c) + 5) CUT2(body, (c) + 6) CUT2(body, (c) + 7)
extern "C" void harness_c12_truncate() {
  DISPATCH_BEGIN CUT8(truncate_body, 0) CUT8(truncate_body, 8) CUT8(truncate_body, 16) CUT8(truncate_body, 24) DISPATCH_END
}

// ---- idf_output_vector / idf_input_vector over the element types that contain strings; SHAPE = number of elements ----
template<int N> static void vec_parameter_body() {
  typedef InterrogateFunctionWrapper::Parameter P;
  as_file_version(3);
  std::vector<P> *a = new std::vector<P>, *b = new std::vector<P>;
  a->reserve(N);
  for (int i = 0; i < N; i++) {
    a->emplace_back();
    sym_str(a->back()._name); a->back()._parameter_flags = nondet_int(); a->back()._type = nondet_int();
  }
  int follow = nondet_int();
  std::ostream *out = vs_ostream_new();
  idf_output_vector(*out, *a);
  *out << follow << ' ';
  ASSERT(vs_format_error(out) == 0, "C12 every integer in the file is delimited from its neighbours");
  std::istream *in = vs_istream_of(out);
  idf_input_vector(*in, *b);
  ASSERT(!in->fail(), "C12 reading back a written vector does not fail");
  ASSERT(b->size() == (size_t)N, "C12 vector<Parameter> read back has the written length");
  for (int i = 0; i < N && i < (int)b->size(); i++) {
    ASSERT((*b)[i]._name == (*a)[i]._name, "C12 Parameter._name round-trips");
    ASSERT((*b)[i]._parameter_flags == (*a)[i]._parameter_flags, "C12 Parameter._parameter_flags round-trips");
    ASSERT((*b)[i]._type == (*a)[i]._type, "C12 Parameter._type round-trips");
  }
  int f2 = 0;
  *in >> f2;
  ASSERT(!in->fail() && f2 == follow, "C12 the value following a vector is read back intact");
  std::ostream *out2 = vs_ostream_new();
  idf_output_vector(*out2, *b);
  *out2 << f2 << ' ';
  ASSERT(vs_same_output(out, out2), "C12 re-serialising the read-back vector gives the same file content");
  WITNESS();
}
extern "C" void harness_c12_vec_parameter() {
  DISPATCH_BEGIN SHAPE_CASE(vec_parameter_body, 0) SHAPE_CASE(vec_parameter_body, 1) SHAPE_CASE(vec_parameter_body, 2) DISPATCH_END
}

template<int N> static void vec_enumvalue_body() {
  typedef InterrogateType::EnumValue E;
  as_file_version(3);
  std::vector<E> *a = new std::vector<E>, *b = new std::vector<E>;
  a->reserve(N);
  for (int i = 0; i < N; i++) {
    a->emplace_back();
    sym_str(a->back()._name); sym_str(a->back()._scoped_name); sym_str(a->back()._comment); a->back()._value = nondet_int();
  }
  int follow = nondet_int();
  std::ostream *out = vs_ostream_new();
  idf_output_vector(*out, *a);
  *out << follow << ' ';
  ASSERT(vs_format_error(out) == 0, "C12 every integer in the file is delimited from its neighbours");
  std::istream *in = vs_istream_of(out);
  idf_input_vector(*in, *b);
  ASSERT(!in->fail(), "C12 reading back a written vector does not fail");
  ASSERT(b->size() == (size_t)N, "C12 vector<EnumValue> read back has the written length");
  for (int i = 0; i < N && i < (int)b->size(); i++) {
    ASSERT((*b)[i]._name == (*a)[i]._name, "C12 EnumValue._name round-trips");
    ASSERT((*b)[i]._scoped_name == (*a)[i]._scoped_name, "C12 EnumValue._scoped_name round-trips");
    ASSERT((*b)[i]._comment == (*a)[i]._comment, "C12 EnumValue._comment round-trips");
    ASSERT((*b)[i]._value == (*a)[i]._value, "C12 EnumValue._value round-trips");
  }
  int f2 = 0;
  *in >> f2;
  ASSERT(!in->fail() && f2 == follow, "C12 the value following a vector is read back intact");
  std::ostream *out2 = vs_ostream_new();
  idf_output_vector(*out2, *b);
  *out2 << f2 << ' ';
  ASSERT(vs_same_output(out, out2), "C12 re-serialising the read-back vector gives the same file content");
  WITNESS();
}
extern "C" void harness_c12_vec_enumvalue() {
#ifndef VEC_MAX
#define VEC_MAX 2
#endif
  DISPATCH_BEGIN SHAPE_CASE(vec_enumvalue_body, 0) SHAPE_CASE(vec_enumvalue_body, 1)
#if VEC_MAX >= 2
  SHAPE_CASE(vec_enumvalue_body, 2)
#endif
  DISPATCH_END
}
