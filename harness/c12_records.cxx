// C12: output()/input() of every record type of the interrogate database mirror each other field for field.
//
// One harness per record type.  Scalars are symbolic over all of int, strings are symbolic byte strings of length
// 0..LMAX (every byte value).  Container *structure* (how many alt names / vector elements) is enumerated through the
// SHAPE template parameter so that heap layout and stream positions stay concrete inside one branch; the branch taken
// is chosen by a symbolic integer, so one query covers all listed shapes.
#include "verif.h"
#include "vstream.h"
#include "interrogate_datafile.h"
#include "interrogateDatabase.h"
#include <string>
#include <vector>
#ifndef LMAX
#define LMAX 2
#endif

// String lengths follow a *pattern* that is concrete inside one branch (a symbolic length would make every later
// stream position symbolic, which symbolic execution cannot afford); pattern p gives the k-th string of a record the
// length p (p <= LMAX), k mod (LMAX+1) (p == LMAX+1) or LMAX - k mod (LMAX+1) (p == LMAX+2).  The contents are
// symbolic over all byte values.  Every store uses a concrete index.
static int g_pat = 0, g_k = 0;
#define NPAT (LMAX + 3)
static int pat_len() {
  int k = g_k++;
  if (g_pat <= LMAX) return g_pat;
  if (g_pat == LMAX + 1) return k % (LMAX + 1);
  return LMAX - k % (LMAX + 1);
}
static void sym_str(std::string &s) {
  int len = pat_len();
  for (int i = 0; i < LMAX; i++) { char c = nondet_char(); s._M_local_buf[i] = i < len ? c : (char)0; }
  s._M_local_buf[LMAX] = 0;
  s._M_string_length = (size_t)len;
}

static void as_file_version(int minor) {
  // what the real reader (load_latest) sets from the file header before calling read()
  InterrogateDatabase::_file_major_version = 3;
  InterrogateDatabase::_file_minor_version = minor;
}

#define SAME(f, what) ASSERT(a->f == b->f, "C12 " what " is read back as written")

// ---- shared part: InterrogateComponent (name + alt names) ----
template<int NALT> static void fill_component(InterrogateComponent *a) {
  sym_str(a->_name);
  a->_alt_names.reserve(NALT);
  for (int i = 0; i < NALT; i++) { a->_alt_names.emplace_back(); sym_str(a->_alt_names.back()); }
}
template<int NALT> static void check_component(const InterrogateComponent *a, const InterrogateComponent *b) {
  SAME(_name, "component name");
  ASSERT(b->_alt_names.size() == (size_t)NALT, "C12 number of alt names is read back as written");
  for (int i = 0; i < NALT && i < (int)b->_alt_names.size(); i++) SAME(_alt_names[i], "alt name");
}

// write a, read into b, compare, re-serialise b; T::output/input are the functions under test
template<class T> static void finish_roundtrip(const T *a, T *b, std::ostream *&out, std::istream *&in) {
  int follow = nondet_int();
  out = vs_ostream_new();
  a->output(*out);
  *out << follow << ' ';
  ASSERT(vs_format_error(out) == 0, "C12 every integer in the file is delimited from its neighbours");
  in = vs_istream_of(out);
  b->input(*in);
  ASSERT(!in->fail(), "C12 reading back a written record does not fail");
  int f2 = 0;
  *in >> f2;
  ASSERT(!in->fail() && f2 == follow, "C12 the value following a record is read back intact");
  std::ostream *out2 = vs_ostream_new();
  b->output(*out2);
  *out2 << f2 << ' ';
  ASSERT(vs_same_output(out, out2), "C12 re-serialising the read-back record gives the same file content");
}

#define DISPATCH_BEGIN int sh_sym = nondet_int(), pat_sym = nondet_int();
#define SHAPE_CASE(body, k) for (int p = 0; p < NPAT; p++) if (sh_sym == (k) && pat_sym == p) { g_pat = p; g_k = 0; body<(k)>(); return; }
#define DISPATCH_END ASSUME(false);

// ---- InterrogateComponent ----
template<int SHAPE> static void component_body() {
  as_file_version(3);
  InterrogateComponent *a = new InterrogateComponent, *b = new InterrogateComponent;
  fill_component<SHAPE>(a);
  std::ostream *out; std::istream *in;
  finish_roundtrip(a, b, out, in);
  check_component<SHAPE>(a, b);
  WITNESS();
}
extern "C" void harness_c12_rec_component() {
  DISPATCH_BEGIN SHAPE_CASE(component_body, 0) SHAPE_CASE(component_body, 1) SHAPE_CASE(component_body, 2) DISPATCH_END
}

// ---- InterrogateManifest ----
template<int SHAPE> static void manifest_body() {
  as_file_version(3);
  InterrogateManifest *a = new InterrogateManifest, *b = new InterrogateManifest;
  fill_component<SHAPE & 1>(a);
  a->_flags = nondet_int(); a->_int_value = nondet_int(); a->_type = nondet_int(); a->_getter = nondet_int();
  sym_str(a->_definition);
  std::ostream *out; std::istream *in;
  finish_roundtrip(a, b, out, in);
  check_component<SHAPE & 1>(a, b);
  SAME(_flags, "manifest flags"); SAME(_int_value, "manifest int value"); SAME(_type, "manifest type");
  SAME(_getter, "manifest getter"); SAME(_definition, "manifest definition");
  WITNESS();
}
extern "C" void harness_c12_rec_manifest() {
  DISPATCH_BEGIN SHAPE_CASE(manifest_body, 0) SHAPE_CASE(manifest_body, 1) DISPATCH_END
}
