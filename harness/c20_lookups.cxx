// C20: the six by-name lookups of the query interface are exact at every point of a history of calls: a lookup by each
// of an entity's names returns the index of the entity bearing that name in that table, an unknown name (including a
// name the entity bears in ANOTHER table) returns 0 - and an answer does not depend on which lookups were made before.
//
// Database: type O (index 1: name "O", scoped name "O", true name "tO"), its nested type W (index 2: name "W", scoped
// name "O::W", true name "tW"), manifest m (index 3), element e (index 4: name "e", scoped name "O::e").  So every table
// of one family (type name / scoped name / true name; element name / scoped name) gives a different answer for the same
// query string, and a cache that is considered fresh although it was never built (or was built from another table's
// rebuild function) is visible.
//
// History: for every ORDERED PAIR (F1, F2) of the six lookup functions (36 pairs, F1 == F2 included; -DFIRST=k restricts a
// catalogue entry to F1 == k) a new database is built, F1 is asked each of its query names, then F2 each of its query
// names.  History and names are CONCRETE (see c13_lookups.cxx: a symbolic choice of table or query name makes every cache
// root "node or null" and symbolic execution runs out of memory); every answer at both points is asserted.
#include "verif.h"
#include "interrogateDatabase.h"
// see c13_lookups.cxx: lookup() calls its freshen_* argument through a pointer to member function, which the compiler
// only resolves when lookup() and its inline callers are compiled in one unit.  The native replay links the
// separately compiled interrogateDatabase.cxx as usual.
#ifndef VERIF_NATIVE
#include "interrogateDatabase.cxx"
#endif
#include <string>

#ifndef FIRST
#define FIRST (-1)
#endif

static std::string *str(const char *p) {
  std::string *s = new std::string;
  for (; *p; p++) s->push_back(*p);
  return s;
}
static void set(std::string &s, const char *p) { for (; *p; p++) s.push_back(*p); }

enum { T_O = 1, T_W = 2, M_M = 3, E_E = 4 };

static InterrogateDatabase *new_db() {
  InterrogateDatabase *db = new InterrogateDatabase;
  db->_global_types.reserve(4);
  db->_all_types.reserve(4);
  db->_global_elements.reserve(4);
  db->_global_manifests.reserve(4);
  {
    InterrogateType *t = new InterrogateType;
    set(t->_name, "O"); set(t->_scoped_name, "O"); set(t->_true_name, "tO");
    t->_flags = 0x2001;                     // global, fully defined
    db->add_type(T_O, *t);
  }
  {
    InterrogateType *t = new InterrogateType;
    set(t->_name, "W"); set(t->_scoped_name, "O::W"); set(t->_true_name, "tW");
    t->_flags = 0x2000 | 0x40000;           // fully defined, nested
    t->_outer_class = T_O;
    db->add_type(T_W, *t);
  }
  {
    InterrogateManifest *m = new InterrogateManifest;
    set(m->_name, "m");
    m->_flags = 1; m->_type = T_W;
    db->add_manifest(M_M, *m);
  }
  {
    InterrogateElement *e = new InterrogateElement;
    set(e->_name, "e"); set(e->_scoped_name, "O::e");
    e->_flags = 0; e->_type = T_W;
    db->add_element(E_E, *e);
  }
  return db;
}

#define Q(fn, name, want, what) ASSERT(db->fn(*str(name)) == (want), "C20 " #fn ": " what)
// F: 0 type name, 1 type scoped name, 2 type true name, 3 manifest name, 4 element name, 5 element scoped name
template<int F> static void __attribute__((noinline)) ask(InterrogateDatabase *db) {
  if (F == 0) {
    Q(lookup_type_by_name, "W", T_W, "the nested type is found by its plain name");
    Q(lookup_type_by_name, "O", T_O, "the outer type is found by its plain name");
    Q(lookup_type_by_name, "O::W", 0, "a scoped name is not a plain name");
    Q(lookup_type_by_name, "Z", 0, "unknown name");
  } else if (F == 1) {
    Q(lookup_type_by_scoped_name, "O::W", T_W, "the nested type is found by its scoped name");
    Q(lookup_type_by_scoped_name, "O", T_O, "the outer type is found by its scoped name");
    Q(lookup_type_by_scoped_name, "W", 0, "the plain name of a nested type is not its scoped name");
    Q(lookup_type_by_scoped_name, "tW", 0, "a true name is not a scoped name");
  } else if (F == 2) {
    Q(lookup_type_by_true_name, "tW", T_W, "the nested type is found by its true name");
    Q(lookup_type_by_true_name, "tO", T_O, "the outer type is found by its true name");
    Q(lookup_type_by_true_name, "W", 0, "a plain name is not a true name");
    Q(lookup_type_by_true_name, "O::W", 0, "a scoped name is not a true name");
  } else if (F == 3) {
    Q(lookup_manifest_by_name, "m", M_M, "the manifest is found by its name");
    Q(lookup_manifest_by_name, "W", 0, "a type name is not a manifest name");
  } else if (F == 4) {
    Q(lookup_element_by_name, "e", E_E, "the element is found by its plain name");
    Q(lookup_element_by_name, "O::e", 0, "a scoped name is not a plain name");
  } else {
    Q(lookup_element_by_scoped_name, "O::e", E_E, "the element is found by its scoped name");
    Q(lookup_element_by_scoped_name, "e", 0, "the plain name of a member is not its scoped name");
  }
}

template<int F1, int F2> static void __attribute__((noinline)) history() {
  InterrogateDatabase *db = new_db();
  ask<F1>(db);
  ask<F2>(db);
  // the records themselves are untouched by the lookups
  ASSERT(db->get_type(T_W).get_scoped_name() == *str("O::W") && db->get_type(T_W).get_name() == *str("W") &&
         db->get_element(E_E).get_scoped_name() == *str("O::e") && db->get_manifest(M_M).get_name() == *str("m"),
         "C20 the entity returned by a lookup bears the name asked for");
}

#define ROW(a) if (FIRST < 0 || FIRST == (a)) { history<a, 0>(); history<a, 1>(); history<a, 2>(); history<a, 3>(); history<a, 4>(); history<a, 5>(); }
extern "C" void harness_c20_lookups() {
  __ll2c_global_ctors();
  ROW(0) ROW(1) ROW(2) ROW(3) ROW(4) ROW(5)
  WITNESS();
}
