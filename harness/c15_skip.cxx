// C15 (termination): the error-recovery loops skip_to_angle_bracket() / skip_to_end_nested() consume tokens until the
// nested parse ends.  A file can end anywhere (byte-level truncation inside a template argument list), so they must
// stop at end of file.  get_next_token() is a cut point: a token source driven by a symbolic script with the state
// transitions of the real internal_get_next_token() (returns eof without reading in S_eof / S_end_nested; ',' and
// '>' at paren level 0 end the nested state, '>' also ends the template parameter list; end of input is sticky).
//
// The loops under test discard every token they read.  A CPPToken carries a YYSTYPE and a YYLTYPE with two Filename
// objects, whose construction/destruction per token (std::string assignments, path scanners) is all the symbolic
// execution would be busy with.  So, in the encoded program, get_next_token() is the C function of
// models/c15_toksrc.c: it calls c15_skip_event() below for the state transition and leaves the returned token
// unconstructed; the matching ~CPPToken() is cut and empty (same model file).  The native replay uses the real
// CPPToken (constructor, destructor) around the same c15_skip_event().
#include "verif.h"
#include "cppPreprocessor.h"
#include "cppToken.h"

#ifndef NTOK
#define NTOK 4
#endif

static unsigned char script[NTOK];
static int script_pos;
static int calls;
static int budget;

// one call of get_next_token(): returns the token code (0 = eof)
extern "C" int c15_skip_event(CPPPreprocessor *pp) {
  calls++;
  // decided here, inside the loop under test, so that a loop that never ends is reported by this assertion (and natively
  // as an assertion failure) well before the unwinding bound / the replay's hang timer
  ASSERT(calls <= budget, "C15 error recovery reads each remaining token at most once and stops at end of file (non-termination otherwise)");
  if (calls > budget) ASSUME(false);
  if (pp->_state == CPPPreprocessor::S_eof || pp->_state == CPPPreprocessor::S_end_nested) {
    return 0;
  }
  if (script_pos >= NTOK) {          // physical end of input
    pp->_state = CPPPreprocessor::S_eof;
    return 0;
  }
  unsigned char ev = script[script_pos++];
  if (pp->_state == CPPPreprocessor::S_nested) {
    if (ev == 1) { pp->_state = CPPPreprocessor::S_end_nested; return 0; }                                          // , at level 0
    if (ev == 2) { pp->_parsing_template_params = false; pp->_state = CPPPreprocessor::S_end_nested; return 0; }    // > at level 0
  }
  return 'x';                        // any other token
}

#ifdef VERIF_NATIVE
CPPToken CPPPreprocessor::get_next_token() {
  int t = c15_skip_event(this);
  return t == 0 ? CPPToken::eof() : CPPToken(t);
}
#endif

extern "C" void harness_c15_skip_angle() {
  CPPPreprocessor *pp = new CPPPreprocessor;
  for (int i = 0; i < NTOK; i++) { script[i] = nondet_uchar(); ASSUME(script[i] < 3); }
  script_pos = nondet_int(); ASSUME(script_pos >= 0 && script_pos <= NTOK);      // how much input is left
  calls = 0;
  unsigned st = nondet_uint(); ASSUME(st < 4);
  pp->_state = st == 0 ? CPPPreprocessor::S_normal : st == 1 ? CPPPreprocessor::S_eof
             : st == 2 ? CPPPreprocessor::S_nested : CPPPreprocessor::S_end_nested;
  pp->_parsing_template_params = nondet_bool();
  pp->_paren_nesting = 0;
  int left = NTOK - script_pos;
  budget = left + 1;                 // every remaining token once, plus the read that finds the end of input
  if (nondet_bool()) {
    pp->skip_to_angle_bracket();
    ASSERT(pp->_state == CPPPreprocessor::S_eof || !pp->_parsing_template_params,
           "C15 skip_to_angle_bracket stops only at the closing angle bracket or at end of file");
  } else {
    pp->skip_to_end_nested();
    ASSERT(pp->_state == CPPPreprocessor::S_eof || pp->_state == CPPPreprocessor::S_end_nested,
           "C15 skip_to_end_nested stops only at the end of the nested parse or at end of file");
  }
  ASSERT(calls <= left + 1, "C15 error recovery reads each remaining token at most once and stops at end of file");
  WITNESS();
}
