// C20: unique-name lookup (binary_search_wrapper_hash) is exact and terminates.
#include "verif.h"
#include "interrogateDatabase.h"
#include <string>
#ifndef NMAX
#define NMAX 3
#endif
#ifndef KMAX
#define KMAX 3
#endif

static bool lt2(const char *a, const char *b) {
  return a[0] < b[0] || (a[0] == b[0] && a[1] < b[1]);
}

extern "C" void harness_c20_bsearch() {
  static char names[NMAX][3];
  static InterrogateUniqueNameDef table[NMAX];
  int n = nondet_int();
  ASSUME(n >= 0 && n <= NMAX);
  for (int i = 0; i < NMAX; i++) {
    char a = nondet_char(), b = nondet_char();
    ASSUME(a >= 'a' && a <= 'c' && b >= 'a' && b <= 'c');
    names[i][0] = a; names[i][1] = b; names[i][2] = 0;
    table[i].name = names[i];
    table[i].index_offset = i;
  }
  for (int i = 0; i + 1 < n; i++) ASSUME(lt2(names[i], names[i + 1]));
  // key: length 0..KMAX over {a,b,c}
  int klen = nondet_int();
  ASSUME(klen >= 0 && klen <= KMAX);
  char kb[KMAX + 1];
  for (int i = 0; i < KMAX; i++) { char c = nondet_char(); ASSUME(c >= 'a' && c <= 'c'); kb[i] = c; }
  kb[klen] = 0;
  std::string key(kb);
  InterrogateDatabase *db = new InterrogateDatabase;
  int r = db->binary_search_wrapper_hash(table, table + n, key);
  int ref = -1;
  for (int i = 0; i < n; i++)
    if (klen == 2 && names[i][0] == kb[0] && names[i][1] == kb[1]) ref = i;
  ASSERT(r == ref, "C20 unique-name binary search returns the row's offset, -1 when absent");
  WITNESS();
}

// ---- get_wrapper_by_unique_name: total for names of ANY length (0..KLEN) and content; exact on a one-module database.
// Compositional: binary_search_wrapper_hash is decided on its own by harness_c20_bsearch above; here its real body
// is cut and replaced by a contract stub that records its arguments and returns any result it could return
// (-1 or an offset), so that the query below covers the splitting of the name, the module lookup by hash and the
// index arithmetic for every possible outcome of the search.
#ifndef KLEN
#define KLEN 7
#endif
#ifndef UMAX
#define UMAX 2
#endif
static int g_calls;
static InterrogateUniqueNameDef *g_begin, *g_end;
static char g_name[KLEN + 1];
static int g_namelen;
static int g_result;
#ifdef CUT_BSEARCH
int InterrogateDatabase::binary_search_wrapper_hash(InterrogateUniqueNameDef *begin, InterrogateUniqueNameDef *end,
                                                    const std::string &wrapper_hash_name) {
  g_calls++;
  g_begin = begin; g_end = end;
  g_namelen = (int)wrapper_hash_name.size();
  for (int i = 0; i < KLEN; i++) g_name[i] = (i < g_namelen) ? wrapper_hash_name[i] : 0;
  return g_result;
}
#endif

extern "C" void harness_c20_by_unique_name() {
  static InterrogateUniqueNameDef table[UMAX + 1];
  static InterrogateModuleDef def;
  int n = nondet_int();
  ASSUME(n >= 0 && n <= UMAX);
  int first = nondet_int();
  ASSUME(first >= 1 && first <= 1000000);
  g_result = nondet_int();
  ASSUME(g_result >= -1 && g_result <= 1000000);
  g_calls = 0;
  def.library_name = "libx";
  def.library_hash_name = "LIBX";
  def.unique_names = table;
  def.num_unique_names = n;
  def.first_index = first;
  def.next_index = first + 1000001;
  InterrogateDatabase *db = new InterrogateDatabase;
  db->_modules_by_hash[std::string("LIBX")] = &def;       // what request_module does for a module with unique names
  // the queried name: any NUL-free byte string of length 0..KLEN (the C interface passes any NUL-terminated string)
  int klen = nondet_int();
  ASSUME(klen >= 0 && klen <= KLEN);
  char kb[KLEN + 1];
  for (int i = 0; i < KLEN; i++) { char c = nondet_char(); ASSUME(c != 0); kb[i] = c; }
  kb[klen] = 0;
  std::string key(kb);
  int r = db->get_wrapper_by_unique_name(key);
  bool lib = klen >= 4 && kb[0] == 'L' && kb[1] == 'I' && kb[2] == 'B' && kb[3] == 'X';
  if (!lib) {
    ASSERT(r == 0, "C20 get_wrapper_by_unique_name: a name of an unknown library (any length, any content) returns 0");
    ASSERT(g_calls == 0, "C20 get_wrapper_by_unique_name: no table is searched for an unknown library");
  } else {
    ASSERT(g_calls == 1 && g_begin == table && g_end == table + n, "C20 get_wrapper_by_unique_name searches exactly the module's unique-name table");
    bool same = g_namelen == klen - 4;
    for (int i = 0; i < KLEN - 4; i++) if (i < klen - 4 && g_name[i] != kb[4 + i]) same = false;
    ASSERT(same, "C20 get_wrapper_by_unique_name searches for the name after the 4-character library hash");
    ASSERT(r == (g_result >= 0 ? first + g_result : 0), "C20 get_wrapper_by_unique_name returns first_index+offset when found, 0 when absent");
  }
  WITNESS();
}
