// C20: unique-name lookup (binary_search_wrapper_hash) is exact and terminates.
#include "verif.h"
#include "interrogateDatabase.h"
#include <string>
#ifndef NMAX
#define NMAX 3
#endif
#ifndef KMAX
#define KMAX 3
#endif

static bool lt2(const char *a, const char *b) {
  return a[0] < b[0] || (a[0] == b[0] && a[1] < b[1]);
}

extern "C" void harness_c20_bsearch() {
  static char names[NMAX][3];
  static InterrogateUniqueNameDef table[NMAX];
  int n = nondet_int();
  ASSUME(n >= 0 && n <= NMAX);
  for (int i = 0; i < NMAX; i++) {
    char a = nondet_char(), b = nondet_char();
    ASSUME(a >= 'a' && a <= 'c' && b >= 'a' && b <= 'c');
    names[i][0] = a; names[i][1] = b; names[i][2] = 0;
    table[i].name = names[i];
    table[i].index_offset = i;
  }
  for (int i = 0; i + 1 < n; i++) ASSUME(lt2(names[i], names[i + 1]));
  // key: length 0..KMAX over {a,b,c}
  int klen = nondet_int();
  ASSUME(klen >= 0 && klen <= KMAX);
  char kb[KMAX + 1];
  for (int i = 0; i < KMAX; i++) { char c = nondet_char(); ASSUME(c >= 'a' && c <= 'c'); kb[i] = c; }
  kb[klen] = 0;
  std::string key(kb);
  InterrogateDatabase *db = new InterrogateDatabase;
  int r = db->binary_search_wrapper_hash(table, table + n, key);
  int ref = -1;
  for (int i = 0; i < n; i++)
    if (klen == 2 && names[i][0] == kb[0] && names[i][1] == kb[1]) ref = i;
  ASSERT(r == ref, "C20 unique-name binary search returns the row's offset, -1 when absent");
  WITNESS();
}

// ---- get_wrapper_by_unique_name: total for names of ANY length (0..KLEN) and content; exact on a one-module database.
#ifndef KLEN
#define KLEN 7
#endif
#ifndef UMAX
#define UMAX 2
#endif
extern "C" void harness_c20_by_unique_name() {
  static char names[UMAX][3];
  static InterrogateUniqueNameDef table[UMAX];
  static InterrogateModuleDef def;
  int n = nondet_int();
  ASSUME(n >= 0 && n <= UMAX);
  for (int i = 0; i < UMAX; i++) {
    char a = nondet_char(), b = nondet_char();
    ASSUME(a >= 'a' && a <= 'c' && b >= 'a' && b <= 'c');
    names[i][0] = a; names[i][1] = b; names[i][2] = 0;
    table[i].name = names[i];
    table[i].index_offset = i;
  }
  for (int i = 0; i + 1 < n; i++) ASSUME(lt2(names[i], names[i + 1]));
  int first = nondet_int();
  ASSUME(first >= 1 && first <= 1000000);
  def.library_name = "libx";
  def.library_hash_name = "LIBX";
  def.unique_names = table;
  def.num_unique_names = n;
  def.first_index = first;
  def.next_index = first + UMAX;
  InterrogateDatabase *db = new InterrogateDatabase;
  db->_modules_by_hash[std::string("LIBX")] = &def;       // what request_module does for a module with unique names
  // the queried name: any byte string of length 0..KLEN (the C interface passes any NUL-terminated string)
  int klen = nondet_int();
  ASSUME(klen >= 0 && klen <= KLEN);
  char kb[KLEN + 1];
  for (int i = 0; i < KLEN; i++) { char c = nondet_char(); ASSUME(c != 0); kb[i] = c; }
  kb[klen] = 0;
  std::string key(kb);
  int r = db->get_wrapper_by_unique_name(key);
  int ref = 0;
  if (klen == 6 && kb[0] == 'L' && kb[1] == 'I' && kb[2] == 'B' && kb[3] == 'X')
    for (int i = 0; i < n; i++)
      if (names[i][0] == kb[4] && names[i][1] == kb[5]) ref = first + i;
  ASSERT(r == ref, "C20 get_wrapper_by_unique_name returns first_index+offset of the named wrapper, 0 for every other string");
  WITNESS();
}
