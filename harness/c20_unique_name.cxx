// C20: unique-name lookup (binary_search_wrapper_hash) is exact and terminates.
#include "verif.h"
#include "interrogateDatabase.h"
#include <string>
#ifndef NMAX
#define NMAX 3
#endif
#ifndef KMAX
#define KMAX 3
#endif

static bool lt2(const char *a, const char *b) {
  return a[0] < b[0] || (a[0] == b[0] && a[1] < b[1]);
}

extern "C" void harness_c20_bsearch() {
  static char names[NMAX][3];
  static InterrogateUniqueNameDef table[NMAX];
  int n = nondet_int();
  ASSUME(n >= 0 && n <= NMAX);
  for (int i = 0; i < NMAX; i++) {
    char a = nondet_char(), b = nondet_char();
    ASSUME(a >= 'a' && a <= 'c' && b >= 'a' && b <= 'c');
    names[i][0] = a; names[i][1] = b; names[i][2] = 0;
    table[i].name = names[i];
    table[i].index_offset = i;
  }
  for (int i = 0; i + 1 < n; i++) ASSUME(lt2(names[i], names[i + 1]));
  // key: length 0..KMAX over {a,b,c}
  int klen = nondet_int();
  ASSUME(klen >= 0 && klen <= KMAX);
  char kb[KMAX + 1];
  for (int i = 0; i < KMAX; i++) { char c = nondet_char(); ASSUME(c >= 'a' && c <= 'c'); kb[i] = c; }
  kb[klen] = 0;
  std::string key(kb);
  InterrogateDatabase *db = new InterrogateDatabase;
  int r = db->binary_search_wrapper_hash(table, table + n, key);
  int ref = -1;
  for (int i = 0; i < n; i++)
    if (klen == 2 && names[i][0] == kb[0] && names[i][1] == kb[1]) ref = i;
  ASSERT(r == ref, "C20 unique-name binary search returns the row's offset, -1 when absent");
  WITNESS();
}
