// C06: pointer-to-member-function declarators of DIFFERENT classes with the same signature stay different types:
// `int (Reader::*r)(int)` and `int (Writer::*w)(int)` are built by the real CPPInstanceIdentifier::unroll_type
// (IIT_scoped_pointer over IIT_func), in this order, and printed by the real output_instance; each printed text must
// name its own class.
//
// Type uniquing is what can merge them, so CPPType::new_type is NOT the identity here.  The real new_type keeps a
// std::set ordered by heap ADDRESSES of sub-objects (CPPFunctionType::is_less compares _return_type pointers, ...):
// under CBMC the relative order of two allocations is not a constant, so the shape of that set would be symbolic.
// The harness therefore replaces new_type by the cheapest model that keeps its contract -- "return the first
// registered type that is == to the new one, else register it" -- as a linear search over a small table using the
// REAL equivalence (CPPDeclaration::operator==, i.e. the virtual is_equal of every type class), which is the relation
// the std::set implements when is_less and is_equal agree.
#include "verif.h"
#include "vstream.h"
#include "cppSimpleType.h"
#include "cppPointerType.h"
#include "cppFunctionType.h"
#include "cppParameterList.h"
#include "cppInstance.h"
#include "cppInstanceIdentifier.h"
#include "cppIdentifier.h"
#include <stdio.h>

#define NOINL __attribute__((noinline))

static CPPType *registered[16];
static int n_registered;
CPPType *CPPType::new_type(CPPType *type) {
  for (int k = 0; k < n_registered; k++) {
    if (registered[k] == type) return type;
    if (*registered[k] == *type) return registered[k];      // the real is_equal; the real new_type also deletes `type`
  }
  if (n_registered < 16) registered[n_registered++] = type;
  return type;
}

// T (Owner::*name)(int)  as the parser hands it to unroll_type: modifiers outermost first
NOINL static CPPType *method_pointer(CPPType *ret, const char *owner) {
  CPPParameterList *params = new CPPParameterList;
  params->_parameters.push_back(new CPPInstance(CPPType::new_type(new CPPSimpleType(CPPSimpleType::T_int)), (CPPIdentifier *)nullptr));
  CPPInstanceIdentifier *ii = new CPPInstanceIdentifier(nullptr);
  ii->add_scoped_pointer_modifier(new CPPIdentifier(std::string(owner)));
  ii->add_func_modifier(params, 0);
  return ii->unroll_type(ret);
}

// the printed text with blanks removed must be exactly `want`
NOINL static bool printed_is(std::ostream *out, const char *want) {
  unsigned n = vs_ntokens(out), j = 0;
  for (unsigned k = 0; k < n; k++) {
    if (vs_tok_kind(out, k) != 0) return false;
    char c = (char)vs_tok_val(out, k);
    if (c == ' ') continue;
    if (want[j] == 0 || want[j] != c) return false;
    j++;
  }
  return want[j] == 0;
}

NOINL static void check_print(CPPType *t, const char *name, const char *want, std::ostream *out) {
  vs_truncate(out, 0);
  t->output_instance(*out, std::string(name), nullptr);
#ifdef VERIF_NATIVE
  printf("printed: \"");
  for (unsigned k = 0; k < vs_ntokens(out); k++) putchar((int)vs_tok_val(out, k));
  printf("\"  expected (blanks aside): \"%s\"\n", want);
#endif
  ASSERT(printed_is(out, want), "C06 printed pointer-to-member declaration names the class and signature that were written");
}

extern "C" void harness_c06_memptr() {
  __ll2c_global_ctors();
  std::ostream *out = vs_ostream_new();
  CPPType *t_int = CPPType::new_type(new CPPSimpleType(CPPSimpleType::T_int));
  CPPType *r = method_pointer(t_int, "Reader");        // int (Reader::*r)(int);
  CPPType *w = method_pointer(t_int, "Writer");        // int (Writer::*w)(int);   same signature, other class
  ASSERT(r != w, "C06 method pointers of different classes are different types");
  check_print(r, "r", "int(Reader::*r)(int)", out);
  check_print(w, "w", "int(Writer::*w)(int)", out);
  WITNESS();
}
