// Real libstdc++ code for the out-of-line std::string members: an explicit
// instantiation makes clang emit their definitions as IR, so the checks run
// the library's own _M_append/_M_assign/_M_replace/... instead of a model.
#include <string>
template class std::basic_string<char>;
