// C16 (database clause, part 1): "if any database fails to load" must be remembered until interrogate_module's main()
// asks for it: after NDB databases have been requested by file name (interrogate_request_database, in any order of
// good and bad files) and the first query has made InterrogateDatabase load them (check_latest -> load_latest),
// the error flag is set IFF at least one of them failed to load, whatever the position of the bad file.
// Real code: interrogate_request_database, InterrogateDatabase::request_module / get_num_all_functions /
// check_latest / load_latest / get_error_flag.  File system and record parser: see c16_dbfiles.h.
#include "c16_dbfiles.h"

extern "C" void harness_c16_load() {
  __ll2c_global_ctors();                        // std::cerr for the diagnostics; interrogatedb_path
  make_files();
  static char names[4][6] = { "/a.in", "/b.in", "/c.in", "/d.in" };
  // the command-line order of the files is covered by the symmetry of the file model: every file is symbolic
  for (int i = 0; i < NDB; i++) interrogate_request_database(names[i]);

  InterrogateDatabase *db = InterrogateDatabase::get_ptr();
  ASSERT(!db->get_error_flag(), "C16 no error is reported before any database has been read");
  db->get_num_all_functions();                  // the first query interrogate_module makes: loads what was requested

  ASSERT(!g_bad_name, "C16 model: only requested files are opened and read");
  for (int i = 0; i < NDB; i++) {
    ASSERT(g_open_calls[i] == 1, "C16 every requested database is opened exactly once");
    ASSERT(g_read_calls[i] == ((g_open_ok[i] && g_version_ok[i]) ? 1 : 0),
           "C16 a database is parsed exactly when it could be opened and its version is acceptable");
  }
  ASSERT(db->get_error_flag() == any_file_fails(),
         "C16 the error flag is set after loading iff at least one requested database failed to load");
  ASSERT(db->_requests.empty(), "C16 no request is left pending after the load");
  WITNESS();
}
