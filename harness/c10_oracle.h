// C10 oracle: the C++ rules for the class traits of ONE class `A` (no bases) as a function of its feature bits
// ([class.default.ctor], [class.copy.ctor], [class.dtor], [class.abstract], [meta.unary.prop]).
//
// Shared by the harness (harness/c10_traits.cxx) and by harness/c10_oracle_check.py, which emits every class of the
// bit lattice with static_assert(std::is_*<A>::value == c10_*(bits)) and compiles them with g++ -std=c++17: a
// disagreement there is an oracle bug.  "constructible" is what the compiler's own traits say: an object can be
// created AND destroyed ([meta.unary.prop]: `T t(args...);` is well-formed), so the destructor counts.
#ifndef C10_ORACLE_H
#define C10_ORACLE_H

// kinds of a special member
enum { K_NONE = 0, K_USER = 1, K_DEFAULT = 2, K_DELETE = 3, K_VIRTUAL = 4 /* destructor only: user-provided virtual */,
       K_PURE = 5 /* destructor of a BASE class only: virtual ~B() = 0; (c10d_* functions) */ };
// access, with the numbering of CPPVisibility (V_published = 0 is interrogate's own and means public)
enum { A_PUBLIC = 1, A_PROTECTED = 2, A_PRIVATE = 3 };
// the data member
enum { M_INT = 0, M_CONST_INT = 1, M_INT_REF = 2, M_INT_INIT = 3 /* int m = 0; */, M_CONST_INT_INIT = 4 /* const int m = 0; */ };

struct C10Bits {
  int dc, dc_vis;      // default constructor  A();
  int cc, cc_vis;      // copy constructor     A(const A &);
  int dt, dt_vis;      // destructor           ~A();
  int pv;              // virtual void f() = 0;
  int mem;             // the one non-static data member
};

#ifndef C10_CONSTEXPR
#define C10_CONSTEXPR
#endif

// a const or reference member without initializer: a defaulted default constructor is deleted
C10_CONSTEXPR inline bool c10_member_needs_init(C10Bits b) { return b.mem == M_CONST_INT || b.mem == M_INT_REF; }

C10_CONSTEXPR inline bool c10_abstract(C10Bits b) { return b.pv != 0; }
C10_CONSTEXPR inline bool c10_polymorphic(C10Bits b) { return b.pv != 0 || b.dt == K_VIRTUAL; }
C10_CONSTEXPR inline bool c10_destructible(C10Bits b) {
  return b.dt == K_NONE ? true : (b.dt == K_DELETE ? false : b.dt_vis == A_PUBLIC);
}
// is there a usable default constructor (destructor left aside)?
C10_CONSTEXPR inline bool c10_has_default_ctor(C10Bits b) {
  return b.dc == K_NONE ? (b.cc == K_NONE && !c10_member_needs_init(b))          // implicit, unless another ctor is declared
       : b.dc == K_USER ? b.dc_vis == A_PUBLIC
       : b.dc == K_DEFAULT ? (b.dc_vis == A_PUBLIC && !c10_member_needs_init(b))
       : false;
}
C10_CONSTEXPR inline bool c10_has_copy_ctor(C10Bits b) {
  return b.cc == K_NONE ? true                                                    // implicit: int, const int, int& all copy
       : (b.cc == K_USER || b.cc == K_DEFAULT) ? b.cc_vis == A_PUBLIC
       : false;
}
C10_CONSTEXPR inline bool c10_default_constructible(C10Bits b) {
  return !c10_abstract(b) && c10_destructible(b) && c10_has_default_ctor(b);
}
C10_CONSTEXPR inline bool c10_copy_constructible(C10Bits b) {
  return !c10_abstract(b) && c10_destructible(b) && c10_has_copy_ctor(b);
}

// ---- one user-provided constructor WITH parameters:  class A { <access>: A(<shape>); public: int m; };
enum { S_NOARGS = 0 /* A() */, S_ONE = 1 /* A(int a) */, S_ONE_DEFAULT = 2 /* A(int a = 0) */,
       S_TRAILING_DEFAULT = 3 /* A(int a, int b = 0) */, S_ALL_DEFAULT = 4 /* A(int a = 0, int b = 0) */ };
// callable without arguments only if every parameter has a default argument [class.default.ctor]
C10_CONSTEXPR inline bool c10p_is_default_ctor(int shape) { return shape == S_NOARGS || shape == S_ONE_DEFAULT || shape == S_ALL_DEFAULT; }
C10_CONSTEXPR inline bool c10p_default_constructible(int shape, int vis) { return c10p_is_default_ctor(shape) && vis == A_PUBLIC; }
C10_CONSTEXPR inline bool c10p_copy_constructible(int shape, int vis) { return true; }      // implicit copy constructor

// ---- one base class:  class B { <special members of B, bits b>; int m; };  class A : public B { [void f();] int m; };
// A declares no special member itself (everything implicit); a_overrides != 0: A declares f, which overrides B's pure
// virtual f when B has one (and is an ordinary non-virtual function otherwise): 1 = `void f();` against
// `virtual void f() = 0;`, 2 = `B *f();` against `virtual B *f() = 0;` (identical return type), 3 = `A *f();` against
// `virtual B *f() = 0;` (covariant return type).  b.mem must be M_INT.  A pure virtual destructor of B (K_PURE) does not
// make A abstract: A's implicit destructor overrides it.
// a private VIRTUAL destructor in B makes the program ill-formed (A's implicit destructor would be a deleted function
// overriding a non-deleted one): outside the domain
C10_CONSTEXPR inline bool c10d_well_formed(C10Bits b) { return !((b.dt == K_VIRTUAL || b.dt == K_PURE) && b.dt_vis == A_PRIVATE); }
C10_CONSTEXPR inline bool c10d_abstract(C10Bits b, int a_overrides) { return b.pv != 0 && !a_overrides; }
C10_CONSTEXPR inline bool c10d_polymorphic(C10Bits b, int a_overrides) { return b.pv != 0 || b.dt == K_VIRTUAL || b.dt == K_PURE; }
// A's implicit destructor is deleted when B's is deleted or not accessible from A (private) [class.dtor]
C10_CONSTEXPR inline bool c10d_destructible(C10Bits b, int a_overrides) {
  return b.dt == K_NONE ? true : (b.dt != K_DELETE && b.dt_vis != A_PRIVATE);
}
// B's default / copy constructor usable by A's implicit ones: declared ones must not be deleted or private; an
// undeclared default constructor exists only if B declares no constructor at all
C10_CONSTEXPR inline bool c10d_base_default_ctor(C10Bits b) {
  return b.dc == K_NONE ? b.cc == K_NONE : (b.dc == K_USER || b.dc == K_DEFAULT) ? b.dc_vis != A_PRIVATE : false;
}
C10_CONSTEXPR inline bool c10d_base_copy_ctor(C10Bits b) {
  return b.cc == K_NONE ? true : (b.cc == K_USER || b.cc == K_DEFAULT) ? b.cc_vis != A_PRIVATE : false;
}
C10_CONSTEXPR inline bool c10d_default_constructible(C10Bits b, int a_overrides) {
  return !c10d_abstract(b, a_overrides) && c10d_destructible(b, a_overrides) && c10d_base_default_ctor(b);
}
C10_CONSTEXPR inline bool c10d_copy_constructible(C10Bits b, int a_overrides) {
  return !c10d_abstract(b, a_overrides) && c10d_destructible(b, a_overrides) && c10d_base_copy_ctor(b);
}
#endif
