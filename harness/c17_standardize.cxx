// C17: Filename::standardize is idempotent and never changes which file a path denotes
// (lexical model: no symbolic links; a path is resolved component by component against root or cwd).
//
// Shape of the query.  standardize() branches on every byte and keeps its components in a vector<string>; with
// symbolic bytes the vector's size and buffer pointers become symbolic and symbolic execution does not finish even
// for 2-byte paths (CBMC does not fold 'x == 47' for x = c ? 97 : 98 either, so "concrete structure, symbolic letters"
// is no way out).  The paths are therefore enumerated by a concrete loop that CBMC unrolls inside the query: every
// string over {'/', '.', letter} of length 1..PMAX, where the letter at even offsets is 'a' and at odd offsets 'b'
// (standardize compares components only with "." and "..", never with each other).  The enumeration is split into
// NPARTS residue classes (one catalogue entry each) because symbolic execution slows down quadratically in the number
// of runs per query.
#include "verif.h"
#include "filename.h"
#include <string>
#ifndef PMAX
#define PMAX 4
#endif
#ifndef NPARTS
#define NPARTS 1
#endif
#ifndef PART
#define PART 0
#endif
// COMPONENTS > 0: enumerate by component instead of by byte: optional leading '/', 1..COMPONENTS components from
// {"" (repeated or trailing slash), ".", "..", name} joined by '/', the name being "a" in odd and "b" in even positions.
#ifndef COMPONENTS
#define COMPONENTS 0
#endif
#if COMPONENTS > 0
#define OMAX (3 * COMPONENTS + 3)
#define SMAX (COMPONENTS + 2)
#else
#define OMAX (PMAX + 2)
#define SMAX (PMAX / 2 + 2)
#endif

// Lexical denotation of a path: absolute flag, number of levels above the cwd (relative paths only; the parent of
// the root is the root), and the stack of remaining component names (each name packed into one integer).
struct Den { bool abs; int ups; int n; unsigned long names[SMAX]; };

static void resolve(const char *p, int len, Den &d) {
  d.abs = len > 0 && p[0] == '/';
  d.ups = 0; d.n = 0;
  for (int i = 0; i < SMAX; i++) d.names[i] = 0;
  unsigned long cur = 0; int clen = 0;
  for (int i = 0; i <= OMAX; i++) {
    if (i > len) break;
    bool end = (i == len);
    char c = end ? '/' : p[i];
    if (c == '/') {
      if (clen == 0 || (clen == 1 && cur == (unsigned long)'.')) {
        // empty component (repeated or trailing slash) and "." denote the directory itself
      } else if (clen == 2 && cur == (((unsigned long)'.' << 8) | '.')) {
        if (d.n > 0) { d.n--; if (d.n < SMAX) d.names[d.n] = 0; }
        else if (!d.abs) d.ups++;
      } else {
        if (d.n < SMAX) d.names[d.n] = cur;
        d.n++;
      }
      cur = 0; clen = 0;
    } else {
      cur = (cur << 8) | (unsigned char)c;
      clen++;
    }
  }
}

static bool same_den(const Den &a, const Den &b) {
  if (a.abs != b.abs || a.ups != b.ups || a.n != b.n) return false;
  for (int i = 0; i < SMAX; i++) if (a.names[i] != b.names[i]) return false;
  return true;
}

static void __attribute__((noinline)) check_one(const char *b, int len) {
#ifdef CHECK_NONEMPTY
  {
    // only paths that denote the working directory itself can be normalised to nothing
    Den d0;
    resolve(b, len, d0);
    if (d0.abs || d0.ups != 0 || d0.n != 0) return;
  }
  Filename *f = new Filename(std::string(b, (size_t)len));
  f->standardize();
  size_t n1 = f->_filename.size();
  // The empty Filename "doesn't name anything" (comment in make_canonical; exists()/is_directory() stat("")): a
  // non-empty path, which names the cwd at least, must not be normalised to it.
  ASSERT(n1 > 0, "C17 standardize of a non-empty path does not yield the empty (nothing-denoting) path");
#else
  Filename *f = new Filename(std::string(b, (size_t)len));
  f->standardize();
  char o1[OMAX + 1];
  size_t n1 = f->_filename.size();
  for (int i = 0; i <= OMAX; i++) o1[i] = ((size_t)i < n1) ? f->_filename[i] : 0;
  ASSERT(n1 <= (size_t)OMAX, "C17 standardize does not lengthen the path beyond the harness buffer");
  Den din, dout;
  resolve(b, len, din);
  resolve(o1, (int)n1, dout);
  ASSERT(din.abs == dout.abs, "C17 standardize keeps absolute paths absolute and relative paths relative");
  ASSERT(same_den(din, dout), "C17 standardize output denotes the same file as its input (lexical resolution)");
  // idempotence
  f->standardize();
  size_t n2 = f->_filename.size();
  bool same = n2 == n1;
  for (int i = 0; i < OMAX; i++) if (same && (size_t)i < n1 && f->_filename[i] != o1[i]) same = false;
  ASSERT(same, "C17 standardize is idempotent");
  // the cached component offsets describe the new string
  ASSERT(f->_basename_start <= n2 && f->_dirname_end <= f->_basename_start,
         "C17 standardize leaves consistent basename/dirname offsets");
#endif
}

extern "C" void harness_c17_standardize() {
  int k = 0;
#if COMPONENTS > 0
  for (int lead = 0; lead < 2; lead++) {
    for (int nc = 1; nc <= COMPONENTS; nc++) {
      int total = 1;
      for (int i = 0; i < nc; i++) total *= 4;
      for (int code = 0; code < total; code++, k++) {
        if (k % NPARTS != PART) continue;
        char b[OMAX + 1];
        int len = 0;
        if (lead) b[len++] = '/';
        int c = code;
        for (int i = 0; i < nc; i++) {
          int d = c % 4; c /= 4;
          if (i > 0) b[len++] = '/';
          if (d == 1) b[len++] = '.';
          else if (d == 2) { b[len++] = '.'; b[len++] = '.'; }
          else if (d == 3) b[len++] = (i % 2 == 0 ? 'a' : 'b');
        }
        for (int i = len; i <= OMAX; i++) b[i] = 0;
        if (len > 0) check_one(b, len);
      }
    }
  }
#else
  for (int len = 1; len <= PMAX; len++) {
    int total = 1;
    for (int i = 0; i < len; i++) total *= 3;
    for (int code = 0; code < total; code++, k++) {
      if (k % NPARTS != PART) continue;
      char b[OMAX + 1];
      int c = code;
      for (int i = 0; i < len; i++) {
        int d = c % 3; c /= 3;
        b[i] = d == 0 ? '/' : d == 1 ? '.' : (i % 2 == 0 ? 'a' : 'b');
      }
      for (int i = len; i <= OMAX; i++) b[i] = 0;
      check_one(b, len);
    }
  }
#endif
  WITNESS();
}
