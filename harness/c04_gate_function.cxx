// C04: the export gate of InterrogateBuilder::scan_function(CPPInstance *) for a global function:
// exported iff declared in a local header that is not ignored, not a template, visible enough, neither static nor
// deleted, and its signature involves no protected/private type, no ignoreinvolved type, no rvalue reference.
// The function's type is a harness subclass of CPPType (resolve_type = identity, as_function_type = itself); the
// type predicates are cut and answer with symbolic booleans; get_function is cut and records the export.
#include "verif.h"
#include "interrogateBuilder.h"
#include "interrogateFunction.h"
#include "typeManager.h"
#include "interrogate.h"
#include "cppInstance.h"
#include "cppType.h"
#include "cppFunctionType.h"
#include "cppFile.h"
#include "c03_native_globals.h"
#include <new>

class FakeFnType : public CPPType {
public:
  FakeFnType(const CPPFile &f) : CPPType(f) {}
  virtual CPPType *resolve_type(CPPScope *, CPPScope *) { return this; }
  virtual CPPFunctionType *as_function_type() { return (CPPFunctionType *)this; }   // only handed on to the cut predicates
};

static bool g_protected, g_involved, g_rvalue;
static int g_exports, g_comment_updates; static CPPInstance *g_exported; static int g_export_flags; static CPPScope *g_export_scope;
static CPPStructType *g_export_struct;
bool TypeManager::involves_protected(CPPType *) { return g_protected; }
bool TypeManager::involves_rvalue_reference(CPPType *) { return g_rvalue; }
bool InterrogateBuilder::in_ignoreinvolved(CPPType *) const { return g_involved; }
std::string TypeManager::get_function_name(CPPInstance *) { return std::string(); }
void InterrogateBuilder::update_function_comment(CPPInstance *, CPPScope *) { g_comment_updates++; }
FunctionIndex InterrogateBuilder::get_function(CPPInstance *function, std::string description, CPPStructType *struct_type,
                                               CPPScope *scope, int flags, const std::string &expression) {
  g_exports++; g_exported = function; g_export_flags = flags; g_export_scope = scope; g_export_struct = struct_type;
  return 1;
}

static void __attribute__((noinline)) init_function(CPPInstance *f, CPPType *t, CPPTemplateScope *ts, int vis, int sc) {
  f->_type = t; f->_ident = nullptr; f->_template_scope = ts; f->_vis = (CPPVisibility)vis; f->_storage_class = sc;
}

extern "C" void harness_c04_gate_function() {
  CPPFile *proto = new CPPFile(Filename("a.h"), Filename("a.h"), CPPFile::S_local);
  InterrogateBuilder *b = new InterrogateBuilder;
  min_vis = nondet_bool() ? V_public : V_published;
  std::string ign("a.h");
  bool ignored = nondet_bool();
  if (!ignored) ign[0] = 'b';
  b->_ignorefile.insert(ign);
  g_protected = nondet_bool(); g_involved = nondet_bool(); g_rvalue = nondet_bool();

  CPPInstance *f = (CPPInstance *)operator new(sizeof(CPPInstance));
  bool tmpl = nondet_bool();
  int vis = nondet_int(); ASSUME(vis >= (int)V_published && vis <= (int)V_unknown);
  int sc = nondet_int();
  init_function(f, new FakeFnType(*proto), tmpl ? (CPPTemplateScope *)proto : nullptr, vis, sc);
  new (&f->_file) CPPFile(*proto);
  int source = nondet_int(); ASSUME(source >= (int)CPPFile::S_local && source <= (int)CPPFile::S_none);
  f->_file._source = (CPPFile::Source)source;
  unsigned char e = nondet_uchar(); ASSUME(e < 4);
  static const char EXT[4] = {'h', 'c', 'C', 'i'};
  f->_file._filename._filename[2] = EXT[e];
  bool is_c = (e == 1 || e == 2);

  b->scan_function(f);

  bool want = !tmpl && !is_c && source == (int)CPPFile::S_local && !ignored && vis <= (int)min_vis &&
              (sc & (CPPInstance::SC_static | CPPInstance::SC_deleted)) == 0 && !g_protected && !g_involved && !g_rvalue;
  ASSERT((g_exports != 0) == want,
         "C04 a global function is exported iff local header, not ignored, not a template, visible enough, not static/deleted, no protected/ignored/rvalue type involved");
  if (g_exports)
    ASSERT(g_exports == 1 && g_exported == f && g_export_flags == InterrogateFunction::F_global && g_export_struct == nullptr &&
           g_export_scope == (CPPScope *)&parser, "C04 the function itself is exported once, as a global function of the global scope");
  WITNESS();
}
