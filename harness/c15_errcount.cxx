// C15 ("a run that reported a parse error exits non-zero"): every caller decides success by comparing error counts
// (CPPPreprocessor::parse_expr / parse_type / parse_file, CPPParser, interrogate's main), and the helper parsers for
// #if expressions and type strings run with _verbose == 0.  The contract they rely on: error(msg, loc) counts the
// error whatever the verbosity (only the *printing* depends on it), except in the nested (template argument
// skipping) states; warning(msg, loc) likewise counts every warning.
#include "verif.h"
#include "cppPreprocessor.h"

void CPPPreprocessor::show_line(const YYLTYPE &loc) const {}      // cut point: prints the offending source line

extern "C" void harness_c15_error_count() {
  __ll2c_global_ctors();                      // std::cerr for the stream model
  CPPPreprocessor *pp = new CPPPreprocessor;
  pp->_infile = nullptr;
  int verbose = nondet_int(); ASSUME(verbose >= 0 && verbose <= 2);
  pp->_verbose = verbose;
  unsigned st = nondet_uint(); ASSUME(st < 4);
  pp->_state = st == 0 ? CPPPreprocessor::S_normal : st == 1 ? CPPPreprocessor::S_eof
             : st == 2 ? CPPPreprocessor::S_nested : CPPPreprocessor::S_end_nested;
  int e0 = nondet_int(); ASSUME(e0 >= 0 && e0 < 1000);
  int w0 = nondet_int(); ASSUME(w0 >= 0 && w0 < 1000);
  pp->_error_count = e0;
  pp->_warning_count = w0;
  YYLTYPE loc;
  loc.first_line = nondet_bool() ? 3 : 0; loc.first_column = nondet_bool() ? 5 : 0; loc.last_line = loc.first_line; loc.last_column = loc.first_column;
  if (nondet_bool()) {
    pp->error(std::string("e"), loc);
    bool nested = (st == 2 || st == 3);
    ASSERT(pp->_error_count == e0 + (nested ? 0 : 1), "C15 error() counts every reported error whatever the verbosity (callers decide failure by the count)");
    ASSERT(pp->_warning_count == w0, "C15 error() leaves the warning count alone");
  } else {
    pp->warning(std::string("w"), loc);
    ASSERT(pp->_warning_count == w0 + 1, "C15 warning() counts every warning whatever the verbosity");
    ASSERT(pp->_error_count == e0, "C15 warning() leaves the error count alone");
  }
  WITNESS();
}
