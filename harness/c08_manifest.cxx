// C08 (conformance of macro machinery) and C15 (totality of the same kernels):
// CPPManifest::stringify, CPPManifest::extract_args against small reference
// implementations written from C11 6.10.3 / 6.10.3.2.
//
// The same entry points serve C15 when compiled with -DTOTALITY: the
// well-formedness assumptions and the oracles are dropped, every byte string
// over the alphabet is fed in, and only crashes / memory-safety violations /
// non-termination count (plus the caller's contract on the returned position).
#include "verif.h"
#include "cppManifest.h"
#include "cppPreprocessor.h"
#include "c08_fixedvec.h"
#include <string>
#include <string.h>
#include <new>

#ifndef LMAX
#define LMAX 4
#endif

// A CPPPreprocessor whose only job is to absorb warning() calls (_verbose = 1
// makes warning(msg) return before it touches any other state).
// Only _verbose is ever read through it here, so the object is raw zeroed storage rather than a constructed
// preprocessor (whose member constructors would only add symbolic-execution cost).
static CPPPreprocessor *make_pp() {
  alignas(16) static unsigned char storage[sizeof(CPPPreprocessor)];
  CPPPreprocessor *pp = reinterpret_cast<CPPPreprocessor *>(storage);
  pp->_verbose = 1;
  pp->_warning_count = 0;
  pp->_error_count = 0;
  return pp;
}

// ---------------------------------------------------------------- stringify
// alphabet: a, space, ", ', backslash
static char pick_str_char() {
  unsigned char k = nondet_uchar();
  ASSUME(k < 5);
  return k == 0 ? 'a' : k == 1 ? ' ' : k == 2 ? '"' : k == 3 ? '\'' : '\\';
}

// C11 6.10.3.2p2: the spelling of the argument surrounded by quotes, with a
// backslash inserted before each " and \ character of a character constant or
// string literal, including the delimiting " characters.  Returns the length
// of the reference result; *wellformed is false when a literal is not closed
// (behaviour undefined by 6.4p3, so nothing is claimed).
// *other_quote is set when a literal contains the quote character of the
// other kind (KNOWN deviation class of the code under test).
static int ref_stringify(const char *s, int n, char *out, bool *wellformed, bool *other_quote) {
  int o = 0;
  out[o++] = '"';
  bool inlit = false, esc = false;
  char q = 0;
  *other_quote = false;
  for (int i = 0; i < LMAX; i++) {
    if (i >= n) break;
    char c = s[i];
    if (!inlit) {
      if (c == '"') { inlit = true; q = c; out[o++] = '\\'; out[o++] = c; }
      else if (c == '\'') { inlit = true; q = c; out[o++] = c; }
      else out[o++] = c;
    } else if (esc) {
      if (c == '\\' || c == '"') out[o++] = '\\';
      out[o++] = c;
      esc = false;
    } else if (c == '\\') {
      out[o++] = '\\'; out[o++] = '\\';
      esc = true;
    } else if (c == q) {
      if (q == '"') out[o++] = '\\';
      out[o++] = c;
      inlit = false;
    } else {
      if (c == '"') { out[o++] = '\\'; *other_quote = true; }
      if (c == '\'') *other_quote = true;
      out[o++] = c;
    }
  }
  *wellformed = !inlit;
  out[o++] = '"';
  return o;
}

extern "C" void harness_c08_stringify() {
  int n = nondet_int();
  ASSUME(n >= 0 && n <= LMAX);
  char b[LMAX + 1];
  FILL_SYMBOLIC(b, LMAX, n, pick_str_char);
  char ref[2 * LMAX + 3];
  bool wf, oq;
  int rn = ref_stringify(b, n, ref, &wf, &oq);
#ifndef TOTALITY
  ASSUME(wf);
#ifdef EXCLUDE_OTHER_QUOTE
  ASSUME(!oq);
#endif
#endif
  SYMBOLIC_STRING(src, b, LMAX, n);
  std::string r = CPPManifest::stringify(src);
#ifndef TOTALITY
  // the result is at most 2*LMAX+2 <= 15 bytes, i.e. it lives in the string's own small buffer (the heap path is
  // cut and asserted unreachable): read that buffer directly instead of through the string's data pointer
  bool same = r.size() == (size_t)rn;
  for (int i = 0; i < 2 * LMAX + 2; i++)
    if (same && i < rn && r._M_local_buf[i] != ref[i]) same = false;
  ASSERT(same, "C08 # operator: result is the argument spelling quoted, with \\ before each \" and \\ of string/char literals (C11 6.10.3.2p2)");
#else
  ASSERT(r.size() >= (size_t)n + 2, "C15 stringify returns a quoted string");
#endif
  WITNESS();
}

// ------------------------------------------------------------- extract_args
#ifndef AMAX
#define AMAX 5
#endif
// alphabet: ( ) , " a space   [+ ' and backslash with -DWIDE_ALPHABET]
static char pick_call_char() {
  unsigned char k = nondet_uchar();
#ifdef WIDE_ALPHABET
  ASSUME(k < 8);
#else
  ASSUME(k < 6);
#endif
  return k == 0 ? '(' : k == 1 ? ')' : k == 2 ? ',' : k == 3 ? '"' : k == 4 ? 'a' : k == 5 ? ' ' : k == 6 ? '\'' : '\\';
}

struct RefArgs {
  int n;                 // number of arguments
  int start[AMAX + 1];   // [start, end) of each trimmed argument in the text
  int end[AMAX + 1];
  int pos;               // position just past the matching ')'
  bool wellformed;       // starts (after blanks) with '(' and has a matching ')', all literals closed
  bool open_literal;     // a literal inside the parentheses is not closed before the end of the text
};

// Reference splitter (C11 6.10.3p11): the arguments are separated by the commas
// that are not inside nested parentheses (nor inside string / character
// literals, which are single tokens); surrounding blanks are not part of an
// argument; empty arguments count.
static void ref_split(const char *s, int n, RefArgs *R) {
  R->n = 0; R->pos = 0; R->wellformed = false; R->open_literal = false;
  int i = 0;
  while (i < n && s[i] == ' ') i++;
  if (i >= n || s[i] != '(') return;
  i++;
  int level = 1, st = i;
  bool done = false, bad = false;
  for (int guard = 0; guard < AMAX + 1; guard++) {
    if (i >= n || done || bad) break;
    char c = s[i];
    if (c == '"' || c == '\'') {
      int j = i + 1;
      for (int g2 = 0; g2 < AMAX; g2++) {
        if (j >= n || s[j] == c) break;
        if (s[j] == '\\') j++;
        j++;
      }
      if (j >= n) { bad = true; R->open_literal = true; }
      i = j + 1;
      continue;
    }
    if (c == '(') level++;
    else if (c == ')') {
      level--;
      if (level == 0) { R->start[R->n] = st; R->end[R->n] = i; R->n++; R->pos = i + 1; done = true; }
    } else if (c == ',' && level == 1) {
      R->start[R->n] = st; R->end[R->n] = i; R->n++; st = i + 1;
    }
    i++;
  }
  if (!done || bad) return;
  R->wellformed = true;
  for (int k = 0; k < AMAX + 1; k++) {
    if (k >= R->n) break;
    while (R->start[k] < R->end[k] && s[R->start[k]] == ' ') R->start[k]++;
    while (R->end[k] > R->start[k] && s[R->end[k] - 1] == ' ') R->end[k]--;
  }
  // "F()" : one empty argument for a one-parameter macro, none for a
  // zero-parameter macro; the code under test represents both as no argument
  // (a missing argument expands as empty), which is token-equivalent.
  if (R->n == 1 && R->start[0] == R->end[0]) R->n = 0;
}

extern "C" void harness_c08_extract_args() {
  int n = nondet_int();
  ASSUME(n >= 0 && n <= AMAX);
  char b[AMAX + 1];
  FILL_SYMBOLIC(b, AMAX, n, pick_call_char);
  RefArgs R;
  ref_split(b, n, &R);
#ifndef TOTALITY
  ASSUME(R.wellformed);
#endif
#ifdef EXCLUDE_UNTERMINATED_LITERAL
  // KNOWN crashing class (C15): a string/char literal inside the parentheses that is never closed, e.g. F("a
  ASSUME(!R.open_literal);
#endif
  CPPPreprocessor *pp = make_pp();
  // variadic with no named parameter: neither "Not enough" nor "Too many arguments" can fire (building those
  // message texts needs heap strings, which these harnesses cut away; the texts are not part of the claim)
  CPPManifest *m = new CPPManifest(*pp, std::string("F"), std::string(""));
  m->_has_parameters = true;
  m->_num_parameters = 0;
  m->_variadic_param = 0;
  SYMBOLIC_STRING(expr, b, AMAX, n);
  vector_string *args = new vector_string;   // grows through c08_fixedvec.h
  size_t p = 0;
  m->extract_args(*args, expr, p);
#ifndef TOTALITY
  ASSERT(p == (size_t)R.pos, "C08 extract_args leaves the position just past the matching ')'");
  ASSERT(args->size() == (size_t)R.n, "C08 extract_args splits at exactly the top-level commas (nested parentheses and literals do not split, empty arguments kept)");
  bool same = args->size() == (size_t)R.n;
  for (int k = 0; k < AMAX + 1; k++) {
    if (!same || k >= R.n) break;
    // arguments are at most AMAX <= 15 bytes: they live in the strings' own small buffers, which are read directly
    // (constant offsets inside the vector's storage) instead of through each string's data pointer
    const std::string &a = args->_M_impl._M_start[k];
    int len = R.end[k] - R.start[k];
    if (a._M_string_length != (size_t)len) { same = false; break; }
    for (int j = 0; j < AMAX; j++) {
      if (j >= len) break;
      if (a._M_local_buf[j] != b[R.start[k] + j]) same = false;
    }
  }
  ASSERT(same, "C08 every extracted argument is the text between its separators with surrounding blanks removed");
#else
  // the caller (CPPPreprocessor::expand_manifests, cppPreprocessor.cxx:1089-1100) continues with
  //   expr = expr.substr(0, q) + result + expr.substr(p);
  // so a position beyond the end of the text is an uncaught std::out_of_range there
  std::string rest = expr.substr(p);
  ASSERT(rest.size() <= expr.size(), "C15 extract_args position usable by the caller");
#endif
  WITNESS();
}
