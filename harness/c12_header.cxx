// C12: InterrogateDatabase::load_latest() accepts a database file only if its header matches: major version equal to
// the library's (3), minor version not newer (<= 3); an identifier mismatch, an unreadable file, a version mismatch and
// a failed read() are each reported through the error flag, and read() is not even attempted on a version mismatch.
//
// The file system is cut away: Filename::open_read is replaced by a stand-in that connects the std::ifstream of
// load_latest to a token stream holding a symbolic header; InterrogateDatabase::read is replaced by a recorder.
#include "verif.h"
#include "vstream.h"
#include "interrogateDatabase.h"
#include "filename.h"
#include <fstream>
#include <sstream>

static std::ostream *g_file;       // header of the "file" on disk
static bool g_open_ok;             // whether the file can be opened
static int g_read_calls;           // how often load_latest handed the stream to read()
static bool g_read_result;         // what read() answers
static int g_major_at_read, g_minor_at_read;

#ifdef VERIF_NATIVE
static void attach(std::ifstream &s, std::ostream *src) {
  s.std::ios::rdbuf(new std::stringbuf(static_cast<std::ostringstream *>(src)->str()));
  s.clear();
}
#else
extern "C" void vs_attach_input(std::istream *s, std::ostream *src);
static void attach(std::ifstream &s, std::ostream *src) { vs_attach_input(&s, src); }
#endif

// stand-ins for the two cut functions
bool Filename::open_read(std::ifstream &stream) const {
  if (!g_open_ok) return false;
  attach(stream, g_file);
  return true;
}
bool InterrogateDatabase::read(std::istream &in, InterrogateModuleDef *def) {
  g_read_calls++;
  g_major_at_read = _file_major_version;
  g_minor_at_read = _file_minor_version;
  return g_read_result;
}

extern "C" void harness_c12_header() {
  __ll2c_global_ctors();                        // std::cerr for the diagnostics
  InterrogateDatabase *db = new InterrogateDatabase;
  static InterrogateModuleDef def;
  def.database_filename = "/d";                 // absolute: no search path lookup
  int def_id = nondet_int(), file_id = nondet_int(), major = nondet_int(), minor = nondet_int();
  def.file_identifier = def_id;
  g_open_ok = nondet_bool();
  g_read_result = nondet_bool();
  g_read_calls = 0;
  g_file = vs_ostream_new();
  *g_file << file_id << '\n' << major << ' ' << minor << '\n';
  db->_requests.push_back(&def);
  db->load_latest();

  bool version_ok = (major == 3 && minor <= 3);
  bool id_ok = (def_id == 0 || file_id == def_id);
  if (!g_open_ok) {
    ASSERT(db->_error_flag, "C12 an unreadable database file is reported through the error flag");
    ASSERT(g_read_calls == 0, "C12 nothing is read from a file that could not be opened");
  } else {
    ASSERT(g_read_calls == (version_ok ? 1 : 0), "C12 a file is parsed exactly when its major version is 3 and its minor version at most 3");
    if (g_read_calls == 1)
      ASSERT(g_major_at_read == major && g_minor_at_read == minor, "C12 the record readers see the version numbers of the file being read");
    ASSERT(db->_error_flag == (!version_ok || !id_ok || !g_read_result),
           "C12 the error flag is set exactly for a version mismatch, an identifier mismatch or a failed read");
  }
  ASSERT(db->_requests.empty(), "C12 a request is not retried after load_latest");
  WITNESS();
}
