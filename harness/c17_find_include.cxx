// C17: #include lookup order.  CPPPreprocessor::find_include with the real DSearchPath/Filename path arithmetic; the
// file system is a table of symbolic existence bits (Filename::exists is the cut point).
#include "verif.h"
#include "cppPreprocessor.h"
#include "cppFile.h"
#include "dSearchPath.h"
#include "filename.h"
#include <string.h>

#ifndef NDIRS
#define NDIRS 3
#endif
// KINDS: bit i set = directory i was given with -S (system), clear = -I
#ifndef KINDS
#define KINDS 5
#endif

// the candidate files: 0 = cwd, 1 = the including file's directory, 2.. = search directories in command-line order
#define NCAND (2 + NDIRS)
static const char CAND[5][8] = {"x.h", "inc/x.h", "d1/x.h", "d2/x.h", "d3/x.h"};
static const unsigned CLEN[5] = {3, 7, 6, 6, 6};
static const char DIRS[3][4] = {"d1", "d2", "d3"};
static bool fs_exists[NCAND];
static unsigned sym_bits;     // one symbolic word: bit i = existence of candidate i wherever it is not fixed by the configuration
static int fs_unexpected;

// cut point: the only file-system query find_include makes
bool Filename::exists() const {
  for (int i = 0; i < NCAND; i++) {
    if (_filename.size() == CLEN[i] && memcmp(_filename.data(), CAND[i], _filename.size()) == 0) {
      return fs_exists[i];
    }
  }
  fs_unexpected++;
  return false;
}

// the applicable search list in the order the property states: quotes = cwd, includer's directory, every -I/-S directory in
// command-line order; angle = the -S directories only
static int __attribute__((noinline)) search_list(int kinds, bool angle, int *list) {
  int nlist = 0;
  if (!angle) { for (int i = 0; i < NCAND; i++) list[nlist++] = i; }
  else { for (int i = 0; i < NDIRS; i++) if (kinds & (1 << i)) list[nlist++] = 2 + i; }
  return nlist;
}

// one lookup against the current fs_exists table; want = the candidate the stated order selects (-1: none).
// Returns whether every check held (a constant for symbolic execution when the table and the run were concrete).
static bool __attribute__((noinline)) lookup(CPPPreprocessor *pp, int kinds, bool angle, int want) {
  fs_unexpected = 0;
  Filename *fn = new Filename("x.h");
  CPPFile::Source source = CPPFile::S_none;
  bool found = pp->find_include(*fn, angle, source);

  bool ok = true;
  ASSERT(fs_unexpected == 0, "C17 include lookup only probes the candidate locations");
  if (fs_unexpected != 0) ok = false;
  ASSERT(found == (want >= 0), "C17 include is found exactly when a candidate in the applicable search list exists");
  if (found != (want >= 0)) ok = false;
  if (found && want >= 0) {
    bool same = fn->_filename.size() == CLEN[want] &&
                memcmp(fn->_filename.data(), CAND[want], CLEN[want]) == 0;
    ASSERT(same, "C17 include resolves to the first existing candidate in the stated order");
    CPPFile::Source ws = want == 0 ? CPPFile::S_local : want == 1 ? CPPFile::S_alternate
                         : ((kinds & (1 << (want - 2))) ? CPPFile::S_system : CPPFile::S_alternate);
    ASSERT(source == ws, "C17 include source: local only for the working directory, system for -S, alternate otherwise");
    ASSERT((source == CPPFile::S_local) == (want == 0), "C17 a file is the user's own only when found in the working directory");
    if (!same || source != ws) ok = false;
  }
  return ok;
}

// Phase A configuration: the existence of EVERY candidate is concrete (bit i of vec); the lookup runs on constants, so
// an implementation that consults the candidates in another order (and so merges nothing symbolic) is DECIDED here:
// the assertion about the resolved path fails with a counterexample instead of the query blowing up.
static bool __attribute__((noinline)) run_concrete(CPPPreprocessor *pp, int kinds, bool angle, unsigned vec) {
  int list[NCAND];
  int nlist = search_list(kinds, angle, list);
  for (int i = 0; i < NCAND; i++) fs_exists[i] = (vec >> i) & 1;
  int want = -1;
  for (int j = nlist - 1; j >= 0; j--) if (fs_exists[list[j]]) want = list[j];
  return lookup(pp, kinds, angle, want);
}

// (own function: nested harness loops accumulate their unwind counts)
static bool __attribute__((noinline)) phase_a(CPPPreprocessor *pp, int kinds, bool angle) {
  bool ok = true;
  for (unsigned vec = 0; vec < (1u << NCAND); vec++)
    if (!run_concrete(pp, kinds, angle, vec)) ok = false;
  return ok;
}

// Phase B configuration: directory kinds, include form, and the position (in the applicable search list) of the first
// candidate that exists are concrete; the existence of every other candidate - later in the list or not in the list at
// all - is symbolic.  (Symbolic bits for the candidates that are consulted make CBMC merge the "found" and "not found"
// paths at the shared destructor blocks of find_include, after which the lengths of all path strings are symbolic:
// 15 GB per query.  That is why phase B only runs after phase A found the order intact.)
static void __attribute__((noinline)) run_config(CPPPreprocessor *pp, int kinds, bool angle, int firstpos) {
  int list[NCAND];
  int nlist = search_list(kinds, angle, list);
  if (firstpos > nlist) return;
  for (int i = 0; i < NCAND; i++) {
    int pos = -1;
    for (int j = 0; j < nlist; j++) if (list[j] == i) pos = j;
    if (pos >= 0 && pos < firstpos) fs_exists[i] = false;
    else if (pos >= 0 && pos == firstpos) fs_exists[i] = true;
    else fs_exists[i] = (sym_bits >> i) & 1;
  }
#ifdef CWD_EXISTS
  fs_exists[0] = true;
#endif
  // reference: the order the property states
  int want = firstpos < nlist ? list[firstpos] : -1;
  lookup(pp, kinds, angle, want);
}

extern "C" void harness_c17_find_include() {
  const int kinds = KINDS;
  sym_bits = nondet_uint();
  CPPPreprocessor *pp = new CPPPreprocessor;
  // as interrogate.cxx / parse_file.cxx set the paths up from the command line
  for (int i = 0; i < NDIRS; i++) {
    Filename dir(DIRS[i]);
    if (kinds & (1 << i)) {           // -S dir
      pp->_angle_include_path.append_directory(dir);
      pp->_quote_include_path.append_directory(dir);
      pp->_quote_include_kind.push_back(CPPFile::S_system);
    } else {                          // -I dir
      pp->_quote_include_path.append_directory(dir);
      pp->_quote_include_kind.push_back(CPPFile::S_alternate);
    }
  }
  // the including file is inc/f.h
  CPPPreprocessor::InputFile *in = new CPPPreprocessor::InputFile;
  in->_file = CPPFile(Filename("inc/f.h"), Filename("inc/f.h"), CPPFile::S_alternate);
  pp->_infile = in;

  // Phase A: both include forms x every one of the 2^NCAND existence tables, all concrete
  bool ok = true;
  for (int angle = 0; angle < 2; angle++)
    if (!phase_a(pp, kinds, angle != 0)) ok = false;

  // Phase B: symbolic existence of every candidate the stated order does not consult
  if (ok) {
#ifdef CWD_EXISTS
    // the file exists in the working directory: only the angle-bracket form is meaningful here (quotes find it there)
    for (int angle = 1; angle < 2; angle++)
#else
    for (int angle = 0; angle < 2; angle++)
#endif
      for (int firstpos = 0; firstpos <= NCAND; firstpos++)
        run_config(pp, kinds, angle != 0, firstpos);
  }
  WITNESS();
}
