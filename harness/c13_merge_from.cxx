// C13 (c): InterrogateDatabase::merge_from over whole (tiny) databases, both load orders.
//
// Two database "files" share a type by true name ("S"); what each file says about it is symbolic:
//   global or not, fully defined or forward declared.  File X additionally publishes a global data element of
//   type S, file Y additionally has the pointer type "P" wrapping S and a function wrapper returning S (cross references
//   into the shared type) and
//   the definitions of S carry a derivation from the second shared type "B" (a cross reference INSIDE the record
//   that is merged) whose flags are symbolic as well.
// The files are loaded into an empty database in both orders (concrete loop), the way InterrogateDatabase::read does
// it: every file owns a fresh, disjoint index range and is merged with the real merge_from.
//
// Oracle (the merged database is the disjoint union with equal true names identified):
//   * exactly one type carries each shared true name, and it lives at the index it had in the file loaded first;
//   * it is fully defined iff either file defined it, and then carries the defining file's definition;
//   * it is global iff either file says so;
//   * the global-type enumeration (get_num_global_types/get_global_type) lists exactly the global types, each once;
//     the all-types enumeration lists every type once;
//   * every cross reference (element type, wrapped type, derivation base) points at the surviving index.
#include "verif.h"
#include "interrogateDatabase.h"
#include <string>
#include <vector>

#ifndef WITH_B
#define WITH_B 1        // second shared type "B" (base class of S) with symbolic flags
#endif
#ifndef WITH_W
#define WITH_W 1        // file Y has a function wrapper returning S and taking a P
#endif
#ifndef ORDERS
#define ORDERS 3        // bit 0: order X,Y   bit 1: order Y,X
#endif

static const int G = 1, FD = 0x2000;

struct Side { bool s_gl, s_fd, b_gl, b_fd; };

static void name1(std::string &s, char c) { s.push_back(c); }

// every vector the real code appends to is given room up front, so that no append reallocates (the reallocation path of
// an append under a symbolic condition allocates a symbolic number of bytes)
static InterrogateDatabase *new_db() {
  InterrogateDatabase *db = new InterrogateDatabase;
  db->_global_types.reserve(8);
  db->_all_types.reserve(8);
  db->_global_elements.reserve(4);
  return db;
}

static InterrogateType *new_type(char name, int flags, int mark) {
  InterrogateType *t = new InterrogateType;
  name1(t->_name, name); name1(t->_scoped_name, name); name1(t->_true_name, name);
  t->_flags = flags;
  t->_array_size = mark;        // which file's definition this is (not an index: never remapped)
  return t;
}

static int fl(bool gl, bool fd) { return (gl ? G : 0) | (fd ? FD : 0); }

// file X ("liba"): S, [B], global element e : S.            indices base+0 .. base+2
// file Y ("libb"): [B], S, P = pointer to S.                 indices base+0 .. base+2   (B before S here: other map order)
enum { X_S = 0, X_B = 1, X_E = 2, Y_B = 0, Y_S = 1, Y_P = 2, Y_W = 3 };

static InterrogateDatabase *file_x(int base, const Side &x) {
  InterrogateDatabase *db = new_db();
  InterrogateType *s = new_type('S', fl(x.s_gl, x.s_fd), 100);
#if WITH_B
  InterrogateType *b = new_type('B', fl(x.b_gl, x.b_fd), 101);
  s->_derivations.resize(1);
  s->_derivations[0]._base = base + X_B;
  db->add_type(base + X_B, *b);
#endif
  db->add_type(base + X_S, *s);
  InterrogateElement *e = new InterrogateElement;
  name1(e->_name, 'e'); name1(e->_scoped_name, 'e');
  e->_flags = 1;   // global
  e->_type = base + X_S;
  db->add_element(base + X_E, *e);
  return db;
}

static InterrogateDatabase *file_y(int base, const Side &y) {
  InterrogateDatabase *db = new_db();
  InterrogateType *s = new_type('S', fl(y.s_gl, y.s_fd), 200);
#if WITH_B
  InterrogateType *b = new_type('B', fl(y.b_gl, y.b_fd), 201);
  s->_derivations.resize(1);
  s->_derivations[0]._base = base + Y_B;
  db->add_type(base + Y_B, *b);
#endif
  db->add_type(base + Y_S, *s);
  InterrogateType *p = new_type('P', 0x100 | 0x80 | FD, 202);   // pointer | wrapped | fully defined, not global
  p->_wrapped_type = base + Y_S;
  db->add_type(base + Y_P, *p);
#if WITH_W
  InterrogateFunctionWrapper *w = new InterrogateFunctionWrapper;
  name1(w->_name, 'w');
  w->_return_type = base + Y_S;
  w->_parameters.resize(1);
  w->_parameters[0]._type = base + Y_P;
  db->add_wrapper(base + Y_W, *w);
#endif
  return db;
}

static bool named(const InterrogateType &t, char c) { return t._true_name.size() == 1 && t._true_name[0] == c; }

static int count_named(InterrogateDatabase *m, char c, int &index) {
  int n = 0;
  for (InterrogateDatabase::TypeMap::const_iterator it = m->_type_map.begin(); it != m->_type_map.end(); ++it)
    if (named(it->second, c)) { n++; index = it->first; }
  return n;
}

static void check_shared(InterrogateDatabase *m, char c, int want_index, bool gl, bool fd, bool x_fd, bool y_fd, int x_mark, int y_mark) {
  int index = 0;
  int n = count_named(m, c, index);
  ASSERT(n == 1, "C13 merge_from: types with equal true name are identified (one type per true name)");
  ASSERT(index == want_index, "C13 merge_from: a shared type keeps the index of the file loaded first");
  const InterrogateType &t = m->get_type(want_index);
  ASSERT(t.is_fully_defined() == fd, "C13 merge_from: a shared type is fully defined iff some loaded file defines it");
  ASSERT(t.is_global() == gl, "C13 merge_from: global-ness of a shared type is the union over the loaded files");
  if (x_fd && !y_fd) ASSERT(t._array_size == x_mark, "C13 merge_from: the fully defined definition wins");
  if (y_fd && !x_fd) ASSERT(t._array_size == y_mark, "C13 merge_from: the fully defined definition wins");
  ASSERT(t._array_size == x_mark || t._array_size == y_mark, "C13 merge_from: the merged type carries one of the two definitions");
}

// (own function: nested loops accumulate their unwind counts)
static void __attribute__((noinline)) occurrences(InterrogateDatabase *m, int index, int nall, int nglob, int &in_all, int &in_glob) {
  for (int k = 0; k < 6; k++) {
    if (k < nall && m->get_all_type(k) == index) in_all++;
    if (k < nglob && m->get_global_type(k) == index) in_glob++;
  }
}

static void __attribute__((noinline)) scenario(int order, const Side &x, const Side &y) {
  // the file loaded first owns indices 1.., the second one 11.. (read() hands every file a fresh range)
  int xb = order == 0 ? 1 : 11, yb = order == 0 ? 11 : 1;
  InterrogateDatabase *fx = file_x(xb, x);
  InterrogateDatabase *fy = file_y(yb, y);
  InterrogateDatabase *m = new_db();
  if (order == 0) { m->merge_from(*fx); m->merge_from(*fy); }
  else            { m->merge_from(*fy); m->merge_from(*fx); }

  int s = order == 0 ? xb + X_S : yb + Y_S;     // survivors: the index in the file loaded first
  int b = order == 0 ? xb + X_B : yb + Y_B;
  int p = yb + Y_P, e = xb + X_E;
  int ntypes = WITH_B ? 3 : 2;

  ASSERT((int)m->_type_map.size() == ntypes, "C13 merge_from: the merged database has one type per distinct true name");
  check_shared(m, 'S', s, x.s_gl || y.s_gl, x.s_fd || y.s_fd, x.s_fd, y.s_fd, 100, 200);
#if WITH_B
  check_shared(m, 'B', b, x.b_gl || y.b_gl, x.b_fd || y.b_fd, x.b_fd, y.b_fd, 101, 201);
#endif
  int pi = 0;
  ASSERT(count_named(m, 'P', pi) == 1 && pi == p, "C13 merge_from: a type only one file knows is carried over at its own index");

  // enumerations: every type once in the all-types list; exactly the global ones, once each, in the global list
  int idx[3] = { s, p, b };
  int nall = m->get_num_all_types(), nglob = m->get_num_global_types();
  ASSERT(nall == ntypes, "C13 merge_from: get_num_all_types counts every type of the merged database once");
  int want_glob = 0;
  for (int i = 0; i < ntypes; i++) {
    int in_all = 0, in_glob = 0;
    occurrences(m, idx[i], nall, nglob, in_all, in_glob);
    bool gl = m->get_type(idx[i]).is_global();
    if (gl) want_glob++;
    ASSERT(in_all == 1, "C13 merge_from: every type is enumerated once by get_all_type");
    ASSERT(in_glob == (gl ? 1 : 0), "C13 merge_from: get_global_type enumerates a type exactly once iff it is global");
  }
  ASSERT(nglob == want_glob, "C13 merge_from: get_num_global_types == number of global types");

  // cross references follow the shared type to the surviving index
  ASSERT(m->get_element(e)._type == s, "C13 merge_from: an element's type reference points at the surviving shared type");
  ASSERT(m->get_num_global_elements() == 1 && m->get_global_element(0) == e, "C13 merge_from: global elements are carried over");
  ASSERT(m->get_type(p)._wrapped_type == s, "C13 merge_from: a wrapped-type reference points at the surviving shared type");
#if WITH_W
  const InterrogateFunctionWrapper &w = m->get_wrapper(yb + Y_W);
  ASSERT(w._return_type == s, "C13 merge_from: a function's return type points at the surviving shared type");
  ASSERT(w._parameters.size() == 1 && w._parameters[0]._type == p, "C13 merge_from: a parameter type that only one file knows keeps its index");
#endif
#if WITH_B
  const InterrogateType &st = m->get_type(s);
  ASSERT(st._derivations.size() == 1 && st._derivations[0]._base == b,
         "C13 merge_from: a derivation inside the merged definition points at the surviving base type");
#endif
}

static void sym_side(Side &s) {
  s.s_gl = nondet_bool(); s.s_fd = nondet_bool();
#if WITH_B
  s.b_gl = nondet_bool(); s.b_fd = nondet_bool();
#else
  s.b_gl = s.b_fd = false;
#endif
}

extern "C" void harness_c13_merge_from() {
  __ll2c_global_ctors();
  for (int order = 0; order < 2; order++) {
    if (!((ORDERS >> order) & 1)) continue;
    Side x, y;
    sym_side(x); sym_side(y);
    scenario(order, x, y);
  }
  WITNESS();
}
