// C13 (c): InterrogateDatabase::merge_from over whole (tiny) databases, in a chosen load order.
//
// NFILES (2, 3 or 4) database "files" share two types by true name: "S" and its base class "B".  What each file says about
// each of them is SYMBOLIC: global or not, fully defined or only forward declared (4 bits per file).  Besides:
//   file X ("liba"): a global data element e of type S;
//   file Y ("libb"): the pointer type "P" wrapping S and a function wrapper returning S and taking a P;
//   file Z ("libc"): a global data element g of type B;
//   file W: nothing else;
// and in every file the record of S carries a derivation from that file's B (a cross reference INSIDE a record that is
// merged).  The files are loaded into an empty database in the order selected by ORDER (one catalogue entry per
// permutation), the way InterrogateDatabase::read does it: every file owns a fresh, disjoint index range (the file loaded
// k-th gets 10k+1..) and is merged with the real merge_from.
//
// Oracle (the merged database is the disjoint union with equal true names identified):
//   * exactly one type carries each shared true name, and it lives at the index it had in the file loaded first;
//   * it is fully defined iff some file defines it, and then carries the definition of a file that defines it;
//   * it is global iff some file says so;
//   * the global-type enumeration (get_num_global_types/get_global_type) lists exactly the global types, each once;
//     the all-types enumeration lists every type once;
//   * every cross reference (element type, wrapped type, return type, parameter type, derivation base) points at the
//     surviving index.
#include "verif.h"
#include "interrogateDatabase.h"
#include <string>
#include <vector>

#ifndef NFILES
#define NFILES 2
#endif
#ifndef ORDER
#define ORDER 0         // index into the table of permutations below
#endif

static const int G = 1, FD = 0x2000;
enum { FX = 0, FY = 1, FZ = 2, FW = 3 };

#if NFILES == 2
static const int PERM[2][2] = { { FX, FY }, { FY, FX } };
#elif NFILES == 3
static const int PERM[6][3] = { { FX, FY, FZ }, { FX, FZ, FY }, { FY, FX, FZ }, { FY, FZ, FX }, { FZ, FX, FY }, { FZ, FY, FX } };
#else   // lexicographic, like itertools.permutations in the catalogue
static const int PERM[24][4] = {
    { FX, FY, FZ, FW }, { FX, FY, FW, FZ }, { FX, FZ, FY, FW }, { FX, FZ, FW, FY }, { FX, FW, FY, FZ }, { FX, FW,
    FZ, FY }, { FY, FX, FZ, FW }, { FY, FX, FW, FZ }, { FY, FZ, FX, FW }, { FY, FZ, FW, FX }, { FY, FW, FX, FZ },
    { FY, FW, FZ, FX }, { FZ, FX, FY, FW }, { FZ, FX, FW, FY }, { FZ, FY, FX, FW }, { FZ, FY, FW, FX }, { FZ, FW,
    FX, FY }, { FZ, FW, FY, FX }, { FW, FX, FY, FZ }, { FW, FX, FZ, FY }, { FW, FY, FX, FZ }, { FW, FY, FZ, FX },
    { FW, FZ, FX, FY }, { FW, FZ, FY, FX } };
#endif

struct Side { bool s_gl, s_fd, b_gl, b_fd; };

// offsets of the records inside each file's index range (S and B swap places between files: other map order)
static const int OFF_S[4] = { 0, 1, 1, 0 }, OFF_B[4] = { 1, 0, 0, 1 };
enum { X_E = 2, Y_P = 2, Y_W = 3, Z_G = 2 };
static const int MARK_S[4] = { 100, 200, 300, 400 }, MARK_B[4] = { 101, 201, 301, 401 };

static void name1(std::string &s, char c) { s.push_back(c); }

// every vector the real code appends to is given room up front, so that no append reallocates (the reallocation path of
// an append under a symbolic condition allocates a symbolic number of bytes; _M_realloc_insert is cut: must not be reached)
static InterrogateDatabase *new_db() {
  InterrogateDatabase *db = new InterrogateDatabase;
  db->_global_types.reserve(8);
  db->_all_types.reserve(8);
  db->_global_elements.reserve(4);
  return db;
}

static InterrogateType *new_type(char name, int flags, int mark) {
  InterrogateType *t = new InterrogateType;
  name1(t->_name, name); name1(t->_scoped_name, name); name1(t->_true_name, name);
  t->_flags = flags;
  t->_array_size = mark;        // which file's definition this is (not an index: never remapped)
  return t;
}

static int fl(bool gl, bool fd) { return (gl ? G : 0) | (fd ? FD : 0); }

static void add_global_element(InterrogateDatabase *db, int index, char name, int type) {
  InterrogateElement *e = new InterrogateElement;
  name1(e->_name, name); name1(e->_scoped_name, name);
  e->_flags = 1;   // global
  e->_type = type;
  db->add_element(index, *e);
}

static InterrogateDatabase *make_file(int f, int base, const Side &x) {
  InterrogateDatabase *db = new_db();
  InterrogateType *s = new_type('S', fl(x.s_gl, x.s_fd), MARK_S[f]);
  InterrogateType *b = new_type('B', fl(x.b_gl, x.b_fd), MARK_B[f]);
  s->_derivations.resize(1);
  s->_derivations[0]._base = base + OFF_B[f];
  db->add_type(base + OFF_B[f], *b);
  db->add_type(base + OFF_S[f], *s);
  if (f == FX) add_global_element(db, base + X_E, 'e', base + OFF_S[f]);
  if (f == FZ) add_global_element(db, base + Z_G, 'g', base + OFF_B[f]);
  if (f == FY) {
    InterrogateType *p = new_type('P', 0x100 | 0x80 | FD, 202);   // pointer | wrapped | fully defined, not global
    p->_wrapped_type = base + OFF_S[f];
    db->add_type(base + Y_P, *p);
    InterrogateFunctionWrapper *w = new InterrogateFunctionWrapper;
    name1(w->_name, 'w');
    w->_return_type = base + OFF_S[f];
    w->_parameters.resize(1);
    w->_parameters[0]._type = base + Y_P;
    db->add_wrapper(base + Y_W, *w);
  }
  return db;
}

static bool named(const InterrogateType &t, char c) { return t._true_name.size() == 1 && t._true_name[0] == c; }

static int count_named(InterrogateDatabase *m, char c, int &index) {
  int n = 0;
  for (InterrogateDatabase::TypeMap::const_iterator it = m->_type_map.begin(); it != m->_type_map.end(); ++it)
    if (named(it->second, c)) { n++; index = it->first; }
  return n;
}

static void check_shared(InterrogateDatabase *m, char c, int want_index, const bool *gl, const bool *fd, const int *mark) {
  int index = 0;
  int n = count_named(m, c, index);
  ASSERT(n == 1, "C13 merge_from: types with equal true name are identified (one type per true name)");
  ASSERT(index == want_index, "C13 merge_from: a shared type keeps the index of the file loaded first");
  const InterrogateType &t = m->get_type(want_index);
  bool any_gl = false, any_fd = false, of_a_file = false, of_a_defining_file = false;
  for (int f = 0; f < NFILES; f++) {
    any_gl = any_gl || gl[f]; any_fd = any_fd || fd[f];
    if (t._array_size == mark[f]) { of_a_file = true; if (fd[f]) of_a_defining_file = true; }
  }
  ASSERT(t.is_fully_defined() == any_fd, "C13 merge_from: a shared type is fully defined iff some loaded file defines it");
  ASSERT(t.is_global() == any_gl, "C13 merge_from: global-ness of a shared type is the union over the loaded files");
  ASSERT(of_a_file, "C13 merge_from: the merged type carries the definition of one of the files");
  if (any_fd) ASSERT(of_a_defining_file, "C13 merge_from: the fully defined definition wins");
}

// (own function: nested loops accumulate their unwind counts)
static void __attribute__((noinline)) occurrences(InterrogateDatabase *m, int index, int nall, int nglob, int &in_all, int &in_glob) {
  for (int k = 0; k < 6; k++) {
    if (k < nall && m->get_all_type(k) == index) in_all++;
    if (k < nglob && m->get_global_type(k) == index) in_glob++;
  }
}

static void __attribute__((noinline)) scenario(const int *perm, const Side *side) {
  // the file loaded k-th owns indices 10k+1.. (read() hands every file a fresh range)
  int base[4] = { 0, 0, 0, 0 };
  InterrogateDatabase *m = new_db();
  for (int k = 0; k < NFILES; k++) {
    int f = perm[k];
    base[f] = 10 * k + 1;
    m->merge_from(*make_file(f, base[f], side[f]));
  }

  int first = perm[0];
  int s = base[first] + OFF_S[first], b = base[first] + OFF_B[first];     // survivors: the index in the file loaded first
  int p = base[FY] + Y_P;
  bool s_gl[4], s_fd[4], b_gl[4], b_fd[4];
  for (int f = 0; f < NFILES; f++) { s_gl[f] = side[f].s_gl; s_fd[f] = side[f].s_fd; b_gl[f] = side[f].b_gl; b_fd[f] = side[f].b_fd; }

  ASSERT((int)m->_type_map.size() == 3, "C13 merge_from: the merged database has one type per distinct true name");
  check_shared(m, 'S', s, s_gl, s_fd, MARK_S);
  check_shared(m, 'B', b, b_gl, b_fd, MARK_B);
  int pi = 0;
  ASSERT(count_named(m, 'P', pi) == 1 && pi == p, "C13 merge_from: a type only one file knows is carried over at its own index");

  // enumerations: every type once in the all-types list; exactly the global ones, once each, in the global list
  int idx[3] = { s, p, b };
  int nall = m->get_num_all_types(), nglob = m->get_num_global_types();
  ASSERT(nall == 3, "C13 merge_from: get_num_all_types counts every type of the merged database once");
  int want_glob = 0;
  for (int i = 0; i < 3; i++) {
    int in_all = 0, in_glob = 0;
    occurrences(m, idx[i], nall, nglob, in_all, in_glob);
    bool gl = m->get_type(idx[i]).is_global();
    if (gl) want_glob++;
    ASSERT(in_all == 1, "C13 merge_from: every type is enumerated once by get_all_type");
    ASSERT(in_glob == (gl ? 1 : 0), "C13 merge_from: get_global_type enumerates a type exactly once iff it is global");
  }
  ASSERT(nglob == want_glob, "C13 merge_from: get_num_global_types == number of global types");

  // cross references follow the shared types to the surviving indices
  ASSERT(m->get_element(base[FX] + X_E)._type == s, "C13 merge_from: an element's type reference points at the surviving shared type");
#if NFILES >= 3
  ASSERT(m->get_element(base[FZ] + Z_G)._type == b, "C13 merge_from: an element's type reference points at the surviving shared type");
#endif
  ASSERT(m->get_num_global_elements() == (NFILES >= 3 ? 2 : 1), "C13 merge_from: global elements are carried over");
  ASSERT(m->get_type(p)._wrapped_type == s, "C13 merge_from: a wrapped-type reference points at the surviving shared type");
  const InterrogateFunctionWrapper &w = m->get_wrapper(base[FY] + Y_W);
  ASSERT(w._return_type == s, "C13 merge_from: a function's return type points at the surviving shared type");
  ASSERT(w._parameters.size() == 1 && w._parameters[0]._type == p, "C13 merge_from: a parameter type that only one file knows keeps its index");
  const InterrogateType &st = m->get_type(s);
  ASSERT(st._derivations.size() == 1 && st._derivations[0]._base == b,
         "C13 merge_from: a derivation inside the merged definition points at the surviving base type");
}

extern "C" void harness_c13_merge_from() {
  __ll2c_global_ctors();
  Side side[4];
  for (int f = 0; f < NFILES; f++) {
    side[f].s_gl = nondet_bool(); side[f].s_fd = nondet_bool();
    side[f].b_gl = nondet_bool(); side[f].b_fd = nondet_bool();
  }
  scenario(PERM[ORDER], side);
  WITNESS();
}
