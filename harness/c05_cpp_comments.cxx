// C05: "A documentation comment is attached to the declaration it immediately precedes and to no other."
// Attachment (get_comment_before, harness c05_comment_before) works on the list of CPPCommentBlocks the lexer CAPTURED;
// these harnesses check the capture of `//` comments: CPPPreprocessor::skip_cpp_comment decides whether a `//` line
// continues the previous block or starts a new one, and records text, column and line span of the block.
//
// The claim "a `//` line continues the previous block iff that block is a `//` block that ended on the immediately
// preceding line and only blanks lie in between; otherwise it starts a new block" is decided by two STEP harnesses over
// the lexer state (symbolic scalars, concrete structure), which together are an induction over the bytes of the input:
//
//  harness_c05_cpp_comment_step: ONE `//` comment line read by the real skip_comment -> skip_cpp_comment in an arbitrary
//    lexer state: symbolic flag _last_cpp_comment, symbolic current line L and column C, and a previous block P (present or
//    not, `//` or C style, ending on a symbolic line PL <= L, or < L for a `//` block: such a comment runs to the end of its
//    line).  Expected: P is continued iff the flag is set and PL == L - 1; then P's text grows by this line and P ends
//    on L, nothing else changes; otherwise a new block {L, L, C, "//...\n"} is appended and P is untouched.  Afterwards
//    the flag is set.
//  harness_c05_comment_flag: ONE byte that starts no comment handed to the real skip_comment: the flag survives iff the
//    byte is blank (so the flag means "the last thing read besides blanks was a `//` comment": code, also a lone '/',
//    clears it -- every token starts with such a byte, get_next_token0 fetches it through skip_whitespace/skip_comment);
//    no block is touched.
//
// (A whole-input harness over symbolic bytes was built first: every comparison of the lexer on a symbolic byte is a
// branch whose two sides end at different input positions and with different block lists; after the merge the list tail
// points into the CPPPreprocessor object or into a node, and the encoding of those accesses ran out of 16 GB for a
// single four-byte line.)
//
// Real code: CPPPreprocessor::skip_comment, skip_cpp_comment, peek, get_line_number / get_col_number / get_file,
// CPPCommentBlock, CPPFile, std::list, std::string (except _M_replace, below).
// Replaced (cut): CPPPreprocessor::get -- the real one deletes the finished InputFile and its std::istream at the end of
// the input (a virtual destructor call that fans out over every stream class) -- and InputFile::get / InputFile::peek:
// copies that read a byte array instead of a std::istream, with the original line and column accounting.
#include "verif.h"
#include "cppPreprocessor.h"
#include "cppCommentBlock.h"
#include <string>
#include <stdio.h>

#define NOINL __attribute__((noinline))

// The byte source: InputFile::get / InputFile::peek (cppPreprocessor.cxx:272, :313) copied line by line, with the
// std::istream replaced by the byte array and without the loop that skips '\r' (not in the alphabet): the line and column
// accounting (_line_number / _next_line_number ...) is the original's.
static const char *g_bytes = 0;
static int g_nbytes = 0, g_pos = 0;
int CPPPreprocessor::InputFile::get() {
  if (!_lock_position) {
    _line_number = _next_line_number;
    _col_number = _next_col_number;
  }
  int c = (g_pos < g_nbytes) ? (int)(unsigned char)g_bytes[g_pos++] : EOF;
  switch (c) {
  case EOF:
    break;
  case '\n':
    if (!_lock_position) {
      ++_next_line_number;
      _next_col_number = 1;
    }
    break;
  default:
    if (!_lock_position) {
      ++_next_col_number;
    }
  }
  return c;
}
int CPPPreprocessor::InputFile::peek() {
  return (g_pos < g_nbytes) ? (int)(unsigned char)g_bytes[g_pos] : EOF;
}

// CPPPreprocessor::get (cppPreprocessor.cxx:3094) on ONE non-nested input: at the end of the input the real code pops and
// deletes the InputFile and synthesizes one '\n' ("just in case the file doesn't already end with one"), then returns EOF.
// The copy synthesizes the newline but leaves _infile in place (as harness/c15_scanners.cxx does): a symbolic _infile turns
// every get_file() into a merge of two CPPFile copies.  The inputs end with a newline and nothing is captured after it,
// so no captured block sees the difference.
static bool g_newline_given = false;
int CPPPreprocessor::get() {
  if (_unget != '\0') { int c = _unget; _unget = '\0'; return c; }
  int c = _infile->get();
  if (c == EOF) {
    if (g_newline_given) return EOF;
    g_newline_given = true;
    c = '\n';
  }
  if (c == '\n') _start_of_line = true;
  else if (!isspace(c) && c != '#') _start_of_line = false;
  return c;
}

// std::string::_M_replace (libstdc++, reached from `comment->_comment = "//"`): its aliasing test `_M_disjunct(s)`
// compares the addresses of the literal and of the string's buffer, which is no constant for the solver's front end; the
// (infeasible) overlapping branch then moves bytes between unrelated objects with symbolic sizes (every libc model loop
// unrolls to the bound).  Replaced (cut) under CBMC by the one case that occurs: the whole content of a string that uses
// its local buffer is replaced by a short text from somewhere else.  The native replay uses the real libstdc++.
#ifndef VERIF_NATIVE
std::string *verif_string_replace(std::string *self, size_t pos, size_t len1, const char *s, size_t len2)
  asm("_ZNSt7__cxx1112basic_stringIcSt11char_traitsIcESaIcEE10_M_replaceEmmPKcm");
std::string *verif_string_replace(std::string *self, size_t pos, size_t len1, const char *s, size_t len2) {
  if (pos != 0 || len1 != self->_M_string_length || len2 > 15 || self->_M_dataplus._M_p != self->_M_local_buf) {
    ASSERT(false, "model: std::string::_M_replace outside the modelled case (whole content, local buffer, <= 15 bytes)");
    ASSUME(false);
  }
  for (size_t k = 0; k < 15; k++) { if (k >= len2) break; self->_M_local_buf[k] = s[k]; }
  self->_M_local_buf[len2] = 0;
  self->_M_string_length = len2;
  return self;
}
#endif

static NOINL CPPPreprocessor *make_pp(const char *bytes, int total) {
  CPPPreprocessor *pp = new CPPPreprocessor;
  pp->_verbose = 0;
  pp->_warning_count = 0;
  pp->_error_count = 0;
  pp->_unget = '\0';
  pp->_last_c = '\0';
  pp->_start_of_line = true;
  pp->_save_comments = true;
  pp->_last_cpp_comment = false;
  pp->_error_abort = false;
  pp->_state = CPPPreprocessor::S_normal;
  CPPPreprocessor::InputFile *f = new CPPPreprocessor::InputFile;     // real constructor: line 0 / next line 1, col 1
  f->_in = nullptr;
  f->_lock_position = false;
  g_bytes = bytes; g_nbytes = total; g_pos = 0; g_newline_given = false;
  f->_parent = nullptr;
  f->_prev_last_c = '\0';
  pp->_infile = f;
  return pp;
}


#ifndef T_MIN
#define T_MIN 0           // 1: no empty comment (a `//` directly followed by the end of its line)
#endif
#ifndef T_MAX
#define T_MAX 2           // bytes of text after the `//`
#endif
#define LINE_MAX 1000000
#define COL_MAX 1000

static NOINL bool same_text(const std::string &s, const char *want, int n) {
  if (s.size() != (size_t)n) return false;
  for (int k = 0; k < n; k++)
    if (s[k] != want[k]) return false;
  return true;
}

// kind of previous block: 0 none, 1 a `//` block, 2 a C-style block
static NOINL void step(int prev_kind, int ntext, char text_char) {
  // the line:  //<text>\n  followed by one more byte
  static char b[8];
  int total = 0;
  b[total++] = '/'; b[total++] = '/';
  for (int k = 0; k < ntext; k++) b[total++] = text_char;
  b[total++] = '\n';
  b[total++] = 'z';
  CPPPreprocessor *pp = make_pp(b, total);

  // symbolic lexer state: position of the first '/', flag, previous block
  int L = nondet_int(), C = nondet_int();
  ASSUME(L >= 1 && L <= LINE_MAX && C >= 1 && C <= COL_MAX);
  pp->_infile->_next_line_number = L;
  pp->_infile->_next_col_number = C;
  bool flag = nondet_bool();
  pp->_last_cpp_comment = flag;
  CPPCommentBlock *prev = nullptr;
  int PF = 0, PL = 0, PC = 0;
  const char *prev_text = (prev_kind == 2) ? "/*p*/" : "//p\n";
  const int prev_len = (prev_kind == 2) ? 5 : 4;
  if (prev_kind != 0) {
    PF = nondet_int(); PL = nondet_int(); PC = nondet_int();
    ASSUME(PF >= 1 && PF <= PL && PC >= 1 && PC <= COL_MAX);
    if (prev_kind == 1) ASSUME(PL < L);       // a `//` comment runs to the end of its line
    else { ASSUME(PL <= L); ASSUME(!flag); }  // skip_comment clears the flag before it reads a C comment
    prev = new CPPCommentBlock;
    prev->_line_number = PF; prev->_last_line = PL; prev->_col_number = PC;
    prev->_c_style = (prev_kind == 2);
    for (int k = 0; k < prev_len; k++) prev->_comment.push_back(prev_text[k]);
    pp->_comments.push_back(prev);
  }

  int c = pp->get();                     // the first '/'
  int r = pp->skip_comment(c);           // REAL: peeks the second '/', reads it, skip_cpp_comment(get())

#ifdef VERIF_NATIVE
  printf("prev_kind=%d ntext=%d L=%d C=%d flag=%d PF=%d PL=%d -> %d block(s), back: lines %d..%d col %d len %d\n", prev_kind, ntext,
         L, C, (int)flag, PF, PL, (int)pp->_comments.size(), pp->_comments.back()->_line_number, pp->_comments.back()->_last_line,
         pp->_comments.back()->_col_number, (int)pp->_comments.back()->_comment.size());
#endif

  ASSERT(r == '\n', "C05 a // comment ends with its line");
  ASSERT(pp->_last_cpp_comment, "C05 after a // comment the flag _last_cpp_comment is set");
  // the reference: continue the previous block iff it is a `//` block, nothing but blanks was read since (flag) and it
  // ended on the immediately preceding line
  bool continues = prev_kind == 1 && flag && PL == L - 1;
  char line[8]; int n = 0;
  line[n++] = '/'; line[n++] = '/';
  for (int k = 0; k < ntext; k++) line[n++] = text_char;
  line[n++] = '\n';
  if (continues) {
    ASSERT(pp->_comments.size() == 1 && pp->_comments.back() == prev,
           "C05 a // line continues the previous block iff that block ended on the line before and only blanks lie in between");
    char want[16]; int m = 0;
    for (int k = 0; k < prev_len; k++) want[m++] = prev_text[k];
    for (int k = 0; k < n; k++) want[m++] = line[k];
    ASSERT(same_text(prev->_comment, want, m), "C05 text of a // comment block");
    ASSERT(prev->_line_number == PF, "C05 first line of a // comment block");
    ASSERT(prev->_last_line == L, "C05 last line of a // comment block");
    ASSERT(prev->_col_number == PC && !prev->_c_style, "C05 column of a // comment block");
  } else {
    ASSERT(pp->_comments.size() == (size_t)(prev_kind != 0 ? 2 : 1) && pp->_comments.back() != prev,
           "C05 a // line continues the previous block iff that block ended on the line before and only blanks lie in between");
    const CPPCommentBlock *nb = pp->_comments.back();
    ASSERT(same_text(nb->_comment, line, n), "C05 text of a // comment block");
    ASSERT(nb->_line_number == L, "C05 first line of a // comment block");
    ASSERT(nb->_last_line == L, "C05 last line of a // comment block");
    ASSERT(nb->_col_number == C && !nb->_c_style, "C05 column of a // comment block");
    if (prev != nullptr) {
      ASSERT(pp->_comments.front() == prev && same_text(prev->_comment, prev_text, prev_len) && prev->_line_number == PF &&
             prev->_last_line == PL && prev->_col_number == PC && prev->_c_style == (prev_kind == 2),
             "C05 a block that is not continued is left alone");
    }
  }
}

#ifndef PREV_FROM
#define PREV_FROM 0
#endif
#ifndef PREV_TO
#define PREV_TO 2
#endif
extern "C" void harness_c05_cpp_comment_step() {
  // texts after the `//`: length T_MIN..T_MAX; the first byte enumerated over {a / space}, later bytes alternate
  static const char first[3] = {'a', '/', ' '};
  for (int prev_kind = PREV_FROM; prev_kind <= PREV_TO; prev_kind++)
    for (int ntext = T_MIN; ntext <= T_MAX; ntext++)
      for (int t = 0; t < (ntext == 1 ? 3 : 1); t++)
        step(prev_kind, ntext, first[(t + ntext + 1) % 3]);
  WITNESS();
}

// ---- the flag: one byte that starts no comment ------------------------------------------------------------------------------
extern "C" void harness_c05_comment_flag() {
  static char b[4];
  unsigned char c0 = nondet_uchar(), c1 = nondet_uchar();
  ASSUME(c0 != 0 && c1 != 0 && c0 != '\r' && c1 != '\r');             // '\0' is the empty unget slot, '\r' is dropped by InputFile::get
  ASSUME(!(c0 == '/' && (c1 == '/' || c1 == '*')));                   // c0 starts no comment
  b[0] = (char)c0; b[1] = (char)c1; b[2] = '\n';
  CPPPreprocessor *pp = make_pp(b, 3);
  bool flag = nondet_bool();
  pp->_last_cpp_comment = flag;
  CPPCommentBlock *prev = new CPPCommentBlock;
  prev->_line_number = 1; prev->_last_line = 1; prev->_col_number = 1; prev->_c_style = false;
  pp->_comments.push_back(prev);
  int c = pp->get();
  int r = pp->skip_comment(c);
  bool blank = c0 == ' ' || c0 == '\t' || c0 == '\n' || c0 == '\v' || c0 == '\f';
  ASSERT(r == c0, "C05 a byte that starts no comment is handed back");
  ASSERT(pp->_last_cpp_comment == (blank && flag), "C05 the flag _last_cpp_comment survives blanks only");
  ASSERT(pp->_comments.size() == 1 && pp->_comments.back() == prev && prev->_comment.empty() && prev->_last_line == 1,
         "C05 a byte that starts no comment touches no block");
  ASSERT(g_pos == 1, "C05 a byte that starts no comment consumes nothing else");
  WITNESS();
}
