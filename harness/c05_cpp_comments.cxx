// C05: "A documentation comment is attached to the declaration it immediately precedes and to no other."
// Attachment (get_comment_before, harness c05_comment_before) works on the list of CPPCommentBlocks the lexer CAPTURED;
// this harness checks the capture of `//` comments: CPPPreprocessor::skip_cpp_comment decides whether a `//` line
// continues the previous block or starts a new one, and records text, column and line span of the block.
//
// Real code under test: CPPPreprocessor::skip_comment -> skip_cpp_comment (with the real _last_cpp_comment bookkeeping
// of skip_comment), CPPPreprocessor::peek, get_line_number / get_col_number / get_file, CPPCommentBlock, std::list.
// Replaced (cut): CPPPreprocessor::get -- the real one deletes the finished InputFile and its std::istream at the end of
// the input (a virtual destructor call that fans out over every stream class); see the replacement below -- and
// InputFile::get / InputFile::peek, copies that read a byte array instead of a std::istream (the `while (c == '\r')`
// loop over a symbolic byte of the stream model unrolls to the bound at every get()); std::string::_M_replace (see below).
//
// Driver: what the lexer does between tokens (get_next_token0: `_last_c = skip_whitespace(get())`, skip_whitespace being
// `loop { c = skip_comment(c); if (!isspace(c)) return c; c = get(); }` plus a backslash-newline case, not in the
// alphabet): every byte that is not inside a comment is handed to the real skip_comment and the next byte is fetched with
// get(); a byte that is neither blank nor part of a comment counts as a one-byte token.
//
// Input: TWO `//` comments A and B with a GAP in between:
//     <prefix> // <text A> \n <gap> // <text B> \n
// prefix: P bytes over {space, a} (code or blanks before A on its line); text A / text B: TA / TB bytes over
// {a, space, /}; gap: G bytes over {space, newline, a} (blank lines, indentation of B, code; no comment).  The LENGTHS
// P, TA, G, TB are concrete (every combination within the catalogue's ranges is enumerated by concrete loops inside the
// query, which keeps every input position a constant), the BYTES are symbolic: in particular where the newlines of the
// gap are, i.e. how many lines lie between A and B and whether they are blank.
// (A whole-input harness with symbolic comment positions was tried first: the number of blocks then is symbolic, the
// tail of the std::list points into the CPPPreprocessor object or into a node, and the array encoding of those accesses
// ran out of 16 GB for a single four-byte line.)
//
// Reference (independent scan of the bytes): a `//` comment runs to the end of its line; it continues the previous
// block iff only blanks and ONE newline lie between the end of that block and this `//` (the block ended on the line
// immediately before; no code, no blank line in between); otherwise it starts a new block.  Block text = the lines
// "//...\n" concatenated; first/last line and the column of the first `//` as counted from the bytes.
#include "verif.h"
#include "cppPreprocessor.h"
#include "cppCommentBlock.h"
#include <string>
#include <stdio.h>

#ifndef P_MAX
#define P_MAX 1
#endif
#ifndef T_MIN
#define T_MIN 0           // 1: no empty comment (a `//` directly followed by the end of its line)
#endif
#ifndef TA_MAX
#define TA_MAX 2
#endif
#ifndef TB_MAX
#define TB_MAX 1
#endif
#ifndef G_MAX
#define G_MAX 3
#endif
#define TOTAL_MAX (P_MAX + 3 + TA_MAX + G_MAX + 3 + TB_MAX)
#define RB_MAX 2
#define TEXT_MAX (TOTAL_MAX + 2)
#define NOINL __attribute__((noinline))

// The byte source: InputFile::get / InputFile::peek (cppPreprocessor.cxx:272, :313) copied line by line, with the
// std::istream replaced by the byte array and without the loop that skips '\r' (not in the alphabet): the line and column
// accounting (_line_number / _next_line_number ...) is the original's.
static const char *g_bytes = 0;
static int g_nbytes = 0, g_pos = 0;
int CPPPreprocessor::InputFile::get() {
  if (!_lock_position) {
    _line_number = _next_line_number;
    _col_number = _next_col_number;
  }
  int c = (g_pos < g_nbytes) ? (int)(unsigned char)g_bytes[g_pos++] : EOF;
  switch (c) {
  case EOF:
    break;
  case '\n':
    if (!_lock_position) {
      ++_next_line_number;
      _next_col_number = 1;
    }
    break;
  default:
    if (!_lock_position) {
      ++_next_col_number;
    }
  }
  return c;
}
int CPPPreprocessor::InputFile::peek() {
  return (g_pos < g_nbytes) ? (int)(unsigned char)g_bytes[g_pos] : EOF;
}

// CPPPreprocessor::get (cppPreprocessor.cxx:3094) on ONE non-nested input: at the end of the input the real code pops and
// deletes the InputFile and synthesizes one '\n' ("just in case the file doesn't already end with one"), then returns EOF.
// The copy synthesizes the newline but leaves _infile in place (as harness/c15_scanners.cxx does): a symbolic _infile turns
// every get_file() into a merge of two CPPFile copies.  The inputs end with a newline and nothing is captured after it,
// so no captured block sees the difference.
static bool g_newline_given = false;
int CPPPreprocessor::get() {
  if (_unget != '\0') { int c = _unget; _unget = '\0'; return c; }
  int c = _infile->get();
  if (c == EOF) {
    if (g_newline_given) return EOF;
    g_newline_given = true;
    c = '\n';
  }
  if (c == '\n') _start_of_line = true;
  else if (!isspace(c) && c != '#') _start_of_line = false;
  return c;
}

// std::string::_M_replace (libstdc++, reached from `comment->_comment = "//"`): its aliasing test `_M_disjunct(s)`
// compares the addresses of the literal and of the string's buffer, which is no constant for the solver's front end; the
// (infeasible) overlapping branch then moves bytes between unrelated objects with symbolic sizes and every byte array of
// the program, the input included, becomes symbolic.  Replaced (cut) under CBMC by the one case that occurs: the whole
// content of a string that uses its local buffer is replaced by a short text from somewhere else.
#ifndef VERIF_NATIVE
std::string *verif_string_replace(std::string *self, size_t pos, size_t len1, const char *s, size_t len2)
  asm("_ZNSt7__cxx1112basic_stringIcSt11char_traitsIcESaIcEE10_M_replaceEmmPKcm");
std::string *verif_string_replace(std::string *self, size_t pos, size_t len1, const char *s, size_t len2) {
  if (pos != 0 || len1 != self->_M_string_length || len2 > 15 || self->_M_dataplus._M_p != self->_M_local_buf) {
    ASSERT(false, "model: std::string::_M_replace outside the modelled case (whole content, local buffer, <= 15 bytes)");
    ASSUME(false);
  }
  for (size_t k = 0; k < 15; k++) { if (k >= len2) break; self->_M_local_buf[k] = s[k]; }
  self->_M_local_buf[len2] = 0;
  self->_M_string_length = len2;
  return self;
}
#endif

static NOINL CPPPreprocessor *make_pp(const char *bytes, int total) {
  CPPPreprocessor *pp = new CPPPreprocessor;
  pp->_verbose = 0;
  pp->_warning_count = 0;
  pp->_error_count = 0;
  pp->_unget = '\0';
  pp->_last_c = '\0';
  pp->_start_of_line = true;
  pp->_save_comments = true;
  pp->_last_cpp_comment = false;
  pp->_error_abort = false;
  pp->_state = CPPPreprocessor::S_normal;
  CPPPreprocessor::InputFile *f = new CPPPreprocessor::InputFile;     // real constructor: line 0 / next line 1, col 1
  f->_in = nullptr;
  f->_lock_position = false;
  g_bytes = bytes; g_nbytes = total; g_pos = 0; g_newline_given = false;
  f->_parent = nullptr;
  f->_prev_last_c = '\0';
  pp->_infile = f;
  return pp;
}

static unsigned char pick3() { unsigned char k = nondet_uchar(); ASSUME(k < 3); return k; }
static char pick_prefix() { unsigned char k = nondet_uchar(); ASSUME(k < 2); return k == 0 ? ' ' : 'a'; }
static char pick_text() { unsigned char k = pick3(); return k == 0 ? 'a' : k == 1 ? ' ' : '/'; }
static char pick_gap() { unsigned char k = pick3(); return k == 0 ? ' ' : k == 1 ? '\n' : 'a'; }

struct RefBlock { int first, last, col, len; char text[TEXT_MAX + 1]; };
struct Ref { int nblocks, ntokens, maxtext; bool empty_comment; RefBlock blk[RB_MAX + 1]; };

// the reference scan
static NOINL void reference(const char *b, int total, Ref *r) {
  r->nblocks = 0; r->ntokens = 0; r->maxtext = 0;
  r->empty_comment = false;
  int line = 1, col = 1, skip = 0, textlen = 0;
  bool in_comment = false, only_blank_since = false;
  for (int i = 0; i < TOTAL_MAX; i++) {
    if (i >= total) break;
    char ch = b[i];
    RefBlock *cur = &r->blk[r->nblocks > 0 ? r->nblocks - 1 : 0];
    if (skip > 0) {                      // the second '/' of a `//`
      skip--;
      cur->text[cur->len++] = ch;
      col++;
      continue;
    }
    if (in_comment) {
      cur->text[cur->len++] = ch;
      if (ch == '\n') { in_comment = false; line++; col = 1; }
      else { col++; textlen++; if (textlen > r->maxtext) r->maxtext = textlen; }
      continue;
    }
    if (ch == '/' && i + 1 < total && b[i + 1] == '/') {
      bool continues = only_blank_since && r->nblocks > 0 && cur->last == line - 1;
      if (!continues) {
        cur = &r->blk[r->nblocks++];
        cur->first = line; cur->col = col; cur->len = 0;
      }
      cur->last = line;
      cur->text[cur->len++] = '/';
      skip = 1;
      textlen = 0;
      in_comment = true;
      only_blank_since = true;
      if (i + 2 < total && b[i + 2] == '\n') r->empty_comment = true;
      col++;
      continue;
    }
    if (ch == '\n') { line++; col = 1; continue; }
    if (ch != ' ') { only_blank_since = false; r->ntokens++; }
    col++;
  }
}

static NOINL bool text_equal(const std::string &s, const RefBlock *rb) {
  if (s.size() != (size_t)rb->len) return false;
  for (int k = 0; k < TEXT_MAX; k++) {
    if (k >= rb->len) break;
    if (s[k] != rb->text[k]) return false;
  }
  return true;
}

static NOINL void scenario(int np, int na, int ng, int nb) {
  static char b[TOTAL_MAX + 1];
  int total = 0;
  for (int k = 0; k < np; k++) b[total++] = pick_prefix();
  b[total++] = '/'; b[total++] = '/';
  for (int k = 0; k < na; k++) b[total++] = pick_text();
  b[total++] = '\n';
  for (int k = 0; k < ng; k++) b[total++] = pick_gap();
  b[total++] = '/'; b[total++] = '/';
  for (int k = 0; k < nb; k++) b[total++] = pick_text();
  b[total++] = '\n';

  static Ref ref;
  reference(b, total, &ref);

  CPPPreprocessor *pp = make_pp(b, total);
  int c = pp->get();
  for (int step = 0; step < total + 1; step++) {
    if (c == EOF) break;
    c = pp->skip_comment(c);
    if (c == EOF) break;
    c = pp->get();
  }
  ASSERT(c == EOF, "C05 the whole input was read");

#ifdef VERIF_NATIVE
  printf("input (%d bytes): \"", total);
  for (int i = 0; i < total; i++) { if (b[i] == '\n') printf("\\n"); else putchar(b[i]); }
  printf("\"\nreference: %d block(s)\n", ref.nblocks);
  for (int k = 0; k < ref.nblocks; k++) printf("  lines %d..%d col %d len %d\n", ref.blk[k].first, ref.blk[k].last, ref.blk[k].col, ref.blk[k].len);
  printf("captured: %d block(s)\n", (int)pp->_comments.size());
  for (CPPComments::const_iterator ci = pp->_comments.begin(); ci != pp->_comments.end(); ++ci)
    printf("  lines %d..%d col %d len %d\n", (*ci)->_line_number, (*ci)->_last_line, (*ci)->_col_number, (int)(*ci)->_comment.size());
#endif

  ASSERT((int)pp->_comments.size() == ref.nblocks,
         "C05 a // line continues the previous block iff that block ended on the line before and only blanks lie in between");
  CPPComments::const_iterator ci = pp->_comments.begin();
  for (int k = 0; k < RB_MAX; k++) {
    if (k >= ref.nblocks || ci == pp->_comments.end()) break;
    const CPPCommentBlock *got = *ci;
    const RefBlock *want = &ref.blk[k];
    ASSERT(!got->_c_style, "C05 a // block is not C-style");
    ASSERT(got->_line_number == want->first, "C05 first line of a // comment block");
    ASSERT(got->_last_line == want->last, "C05 last line of a // comment block");
    ASSERT(got->_col_number == want->col, "C05 column of a // comment block");
    ASSERT(text_equal(got->_comment, want), "C05 text of a // comment block");
    ++ci;
  }
}

extern "C" void harness_c05_cpp_comments() {
  for (int np = 0; np <= P_MAX; np++)
    for (int na = T_MIN; na <= TA_MAX; na++)
      for (int ng = 0; ng <= G_MAX; ng++)
        for (int nb = T_MIN; nb <= TB_MAX; nb++)
          scenario(np, na, ng, nb);
  WITNESS();
}
