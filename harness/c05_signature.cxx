// C05: every overload has its own wrapper record.  The key that decides whether two functions of the same name are ONE
// callable variant or TWO is the string TypeManager::get_function_signature (typeManager.cxx): InterrogateBuilder::
// get_function inserts (signature -> function) into InterrogateFunction::_instances and silently keeps the first entry
// when the key is already there (no wrapper record, no prototype, no comment for the second).  So the signature has to
// be INJECTIVE on overloads that C++ tells apart.
//
// The harness runs the real get_function_signature (with the real TypeManager::is_const_ref_to_anything / is_const /
// unwrap_const_reference / unwrap_const and the real get_local_name / output / output_instance printers of the type
// classes) on one-parameter functions `f(P)` whose parameter type P is a real CPPType object graph built in place from
// CPPSimpleType / CPPConstType / CPPReferenceType / CPPPointerType, for every P of the universe below, and compares the
// signatures of a symbolic PAIR (a, b) of them (the pair of type indices is symbolic; the object graphs are concrete and
// enumerated by concrete loops inside the one query: a symbolic pointer in a parameter list sends every virtual call of
// the printers into a case split).
//
// Reference relation (independent of the code): canon(P) = P with top-level cv dropped (what C++ uses to decide whether
// two declarations declare the same function, [dcl.fct]/5).  Two overloads are distinguishable iff their canon differs.
// The one documented exception the code makes on purpose ("C++ can't differentiate these two anyway", any call would be
// ambiguous): `const T &` is keyed like `T`.
// With -DREDECL (harness c05_signature_redecl) the other direction is asserted: two declarations of the same function
// (equal canon: `void f(int); void f(const int);`) have equal signatures, i.e. are recorded as ONE callable variant.
#include "verif.h"
#include "typeManager.h"
#include "cppSimpleType.h"
#include "cppConstType.h"
#include "cppPointerType.h"
#include "cppReferenceType.h"
#include "cppFunctionType.h"
#include "cppParameterList.h"
#include "cppInstance.h"
#include "cppIdentifier.h"
#include "cppParser.h"
#include "c03_native_globals.h"
#include <new>
#include <stdio.h>

#define NOINL __attribute__((noinline))

// ---- the universe of parameter types ----------------------------------------------------------------------------------
// kind of declarator + cv of the thing referred to + top-level const
enum Kind { K_VAL, K_LREF, K_RREF, K_PTR };
struct Desc { int kind; bool inner_const; bool top_const; };
static const Desc universe[] = {
  {K_VAL, false, false},     // 0  T
  {K_VAL, false, true},      // 1  const T              (same function as 0)
  {K_LREF, false, false},    // 2  T &
  {K_LREF, true, false},     // 3  const T &            (keyed like T: the documented exception)
  {K_RREF, false, false},    // 4  T &&
  {K_PTR, false, false},     // 5  T *
  {K_PTR, true, false},      // 6  const T *
  {K_PTR, false, true},      // 7  T *const             (same function as 5)
  {K_PTR, true, true},       // 8  const T *const       (same function as 6)
};
#define NT ((int)(sizeof(universe) / sizeof(universe[0])))
#ifndef T_FROM
#define T_FROM 0
#endif
#ifndef T_TO
#define T_TO NT
#endif

// canon: what C++ compares.  VAL: cv dropped entirely; PTR/REF: the cv of the pointee counts, top-level const does not.
static NOINL int canon(const Desc &d) {
  return d.kind * 2 + ((d.kind != K_VAL && d.inner_const) ? 1 : 0);
}
// the class the code deliberately keys alike: T (and const T) and const T &
static NOINL bool by_value_like(const Desc &d) {
  return d.kind == K_VAL || (d.kind == K_LREF && d.inner_const);
}

static CPPType *g_base;

static NOINL CPPType *build_type(const Desc &d) {
  CPPType *t = g_base;
  switch (d.kind) {
  case K_VAL:
    break;
  case K_LREF:
    if (d.inner_const) t = new CPPConstType(t);
    t = new CPPReferenceType(t, CPPReferenceType::VC_lvalue);
    break;
  case K_RREF:
    if (d.inner_const) t = new CPPConstType(t);
    t = new CPPReferenceType(t, CPPReferenceType::VC_rvalue);
    break;
  case K_PTR:
    if (d.inner_const) t = new CPPConstType(t);
    t = new CPPPointerType(t);
    break;
  }
  if (d.top_const) t = new CPPConstType(t);
  return t;
}

// void f(P p);  -- the function name character is symbolic (the same for every overload: they are overloads)
static NOINL CPPInstance *make_function(CPPType *ptype, char name_char, int fflags) {
  CPPParameterList *params = new CPPParameterList;
  params->_parameters.push_back(new CPPInstance(ptype, new CPPIdentifier(std::string("p"))));
  CPPFunctionType *ftype = new CPPFunctionType(new CPPSimpleType(CPPSimpleType::T_void), params, fflags);
  std::string name;
  name.push_back(name_char);
  return new CPPInstance(ftype, new CPPIdentifier(name));
}

static std::string *g_sig[NT];

static NOINL bool same_string(const std::string *x, const std::string *y) {
  if (x->size() != y->size()) return false;
  for (size_t k = 0; k < x->size(); k++)
    if ((*x)[k] != (*y)[k]) return false;
  return true;
}

extern "C" void harness_c05_signature() {
  __ll2c_global_ctors();
#ifdef BASE_CHAR
  g_base = new CPPSimpleType(CPPSimpleType::T_char);
#else
  g_base = new CPPSimpleType(CPPSimpleType::T_int);
#endif
  char name_char = nondet_char();
  ASSUME((name_char >= 'a' && name_char <= 'z') || name_char == '_');

  bool eq[NT][NT];
  for (int i = T_FROM; i < T_TO; i++) {
    CPPInstance *f = make_function(build_type(universe[i]), name_char, 0);
    g_sig[i] = new std::string(TypeManager::get_function_signature(f, 0));
#ifdef VERIF_NATIVE
    printf("type %d: signature \"%s\"\n", i, g_sig[i]->c_str());
#endif
  }
  for (int i = T_FROM; i < T_TO; i++)
    for (int j = T_FROM; j < T_TO; j++)
      eq[i][j] = same_string(g_sig[i], g_sig[j]);

  int a = nondet_int(), b = nondet_int();
  ASSUME(a >= T_FROM && a < T_TO && b >= T_FROM && b < T_TO);
  const Desc &da = universe[a], &db = universe[b];
  bool same_function = canon(da) == canon(db);
  bool documented = by_value_like(da) && by_value_like(db);
#ifdef VERIF_NATIVE
  printf("pair (%d, %d): \"%s\" / \"%s\"  same_function=%d documented=%d\n", a, b, g_sig[a]->c_str(), g_sig[b]->c_str(),
         (int)same_function, (int)documented);
#endif
#ifndef REDECL
  // injective on distinguishable overloads
  if (!same_function && !documented)
    ASSERT(!eq[a][b], "C05 overloads that C++ tells apart have different signatures (each gets its own wrapper record)");
  // the documented exception: T and const T & are keyed alike
  if (da.kind == K_VAL && !da.top_const && db.kind == K_LREF && db.inner_const)
    ASSERT(eq[a][b], "C05 f(T) and f(const T &) are keyed alike (documented: no call can tell them apart)");
  ASSERT(eq[a][a], "C05 the signature is a function of the declaration");
#else
  // the other direction: two declarations of the SAME function (they differ in top-level const only) are one variant
  if (same_function)
    ASSERT(eq[a][b], "C05 redeclarations that differ only in top-level const of a parameter are one callable variant");
#endif
  WITNESS();
}
