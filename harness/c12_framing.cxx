// C12: the framing of a whole database file - header, module definition, the six section counts - is read by
// InterrogateDatabase::read_new, and every prefix of a valid file that has lost anything but trailing whitespace is
// rejected (read_new returns false, so that read() merges nothing and load_latest raises the error flag).
//
// The file is produced by the REAL InterrogateDatabase::write on a tiny database (so the framing checked is the
// writer's, not a copy of it): SHAPE bit 0 = one manifest, bit 1 = one element, bit 2 = one make_seq; all other
// sections are empty.  The file is cut at a SYMBOLIC token position 0..length (dispatched to concrete positions so that
// stream positions stay concrete inside one branch) and handed to the real read_new the way load_latest does it: the
// three header integers are read first.  Integers are single digits and string bytes are letters, so that token index
// == byte index in the native replay.
//
// Oracle: read_new returns true IFF the last integer of the file survived the cut (the only thing that may be missing
// from an accepted file is the final newline(s), which carry no information: the last record's comment is empty); for the uncut file the database read back
// re-serialises to the same tokens.
#include "verif.h"
#include "vstream.h"
#include "interrogate_datafile.h"
#include "interrogateDatabase.h"
#include <string>

#ifndef SHAPE
#define SHAPE 0
#endif
#ifndef CUT_LO
#define CUT_LO 0
#endif
#ifndef CUT_HI
#define CUT_HI 96
#endif
#ifndef CUT_TOP
#define CUT_TOP CUT_HI      // end of the last slice when one file is spread over several catalogue entries
#endif

static void set(std::string &s, char a) { s.push_back(a); }

static InterrogateModuleDef *new_def(bool named) {
  InterrogateModuleDef *d = new InterrogateModuleDef;
  d->file_identifier = 7;
  d->library_name = named ? "l" : nullptr;
  d->library_hash_name = nullptr;                 // written as "0 ", leaves the reader's pointer alone
  d->module_name = named ? "m" : nullptr;
  d->database_filename = nullptr;
  d->unique_names = nullptr; d->num_unique_names = 0;
  d->fptrs = nullptr; d->num_fptrs = 0;
  d->first_index = 0; d->next_index = 0;
  return d;
}

static InterrogateDatabase *build() {
  InterrogateDatabase *db = new InterrogateDatabase;
  db->_global_manifests.reserve(2);
  db->_global_elements.reserve(2);
  if (SHAPE & 1) {
    InterrogateManifest *m = new InterrogateManifest;
    set(m->_name, 'a'); m->_flags = 1; m->_int_value = 2; m->_type = 3; m->_getter = 4; set(m->_definition, 'b');
    db->add_manifest(1, *m);
  }
  if (SHAPE & 2) {
    InterrogateElement *e = new InterrogateElement;
    set(e->_name, 'c'); set(e->_scoped_name, 'd'); set(e->_comment, 'k'); e->_flags = 1; e->_type = 3; e->_getter = 4; e->_setter = 5;
    db->add_element(2, *e);
  }
  if (SHAPE & 4) {
    InterrogateMakeSeq *s = new InterrogateMakeSeq;
    set(s->_name, 'e'); set(s->_scoped_name, 'f'); s->_length_getter = 4; s->_element_getter = 5;   // empty comment: "0\n"
    db->add_make_seq(3, *s);
  }
  return db;
}

static unsigned __attribute__((noinline)) last_int_token(std::ostream *out) {
  unsigned n = vs_ntokens(out), last = 0;
#ifdef VERIF_NATIVE
  for (unsigned i = 0; i < n; i++) { unsigned long c = vs_tok_val(out, i); if (c >= '0' && c <= '9') last = i; }
#else
  for (unsigned i = 0; i < n; i++) if (vs_tok_kind(out, i) == 1) last = i;
#endif
  return last;
}

template<int CUT> static void framing_body(std::ostream *out, unsigned len, unsigned last) {
  if (CUT < CUT_LO || CUT >= CUT_HI) ASSUME(false);
  if ((unsigned)CUT > len) ASSUME(false);
  vs_truncate(out, CUT);
  std::istream *in = vs_istream_of(out);
  // load_latest: header first (its checks are decided by c12_header), then read() -> temp.read_new()
  int id = -1;
  InterrogateDatabase::_file_major_version = 3;
  InterrogateDatabase::_file_minor_version = 3;
  *in >> id >> InterrogateDatabase::_file_major_version >> InterrogateDatabase::_file_minor_version;
  InterrogateDatabase *temp = new InterrogateDatabase;
  temp->_global_manifests.reserve(2);
  temp->_global_elements.reserve(2);
  InterrogateModuleDef *def2 = new_def(false);
  bool ok = temp->read_new(*in, def2);
  if ((unsigned)CUT <= last) {
    ASSERT(!ok, "C12 a truncated database file is rejected by read_new (nothing is merged, the error flag is raised)");
  } else {
    ASSERT(ok, "C12 a complete database file is accepted by read_new");
    ASSERT(id == 7 && InterrogateDatabase::_file_major_version == 3 && InterrogateDatabase::_file_minor_version == 3,
           "C12 the header is read back as written");
    ASSERT((int)temp->_manifest_map.size() == ((SHAPE & 1) ? 1 : 0) && (int)temp->_element_map.size() == ((SHAPE & 2) ? 1 : 0) &&
           (int)temp->_make_seq_map.size() == ((SHAPE & 4) ? 1 : 0) && temp->_function_map.empty() && temp->_wrapper_map.empty() &&
           temp->_type_map.empty(), "C12 every section is read back with the number of records written");
    ASSERT(def2->library_name != nullptr && def2->library_name[0] == 'l' && def2->library_name[1] == 0 &&
           def2->library_hash_name == nullptr && def2->module_name != nullptr && def2->module_name[0] == 'm' && def2->module_name[1] == 0,
           "C12 the module definition strings are read back as written");
    if ((unsigned)CUT == len) {
      std::ostream *out2 = vs_ostream_new();
      def2->file_identifier = id;
      temp->write(*out2, def2);
      ASSERT(vs_same_output(out, out2), "C12 re-serialising the database read back gives the same file content");
    }
  }
}

// one WITNESS for all cut positions: every reachable WITNESS costs a SAT call and a trace
#define C1(c) if (cut_sym == (c)) { framing_body<(c)>(out, len, last); goto done; }
#define C8(c) C1(c) C1((c) + 1) C1((c) + 2) C1((c) + 3) C1((c) + 4) C1((c) + 5) C1((c) + 6) C1((c) + 7)
extern "C" void harness_c12_framing() {
  // the file: written once by the real writer, before the cut position is chosen
  InterrogateDatabase *db = build();
  std::ostream *out = vs_ostream_new();
  db->write(*out, new_def(true));
  ASSERT(vs_format_error(out) == 0, "C12 every integer in the file is delimited from its neighbours");
  unsigned len = vs_ntokens(out);
  ASSERT(len < CUT_TOP, "C12 harness: the cut ranges of the catalogue entries cover the whole file");
  unsigned last = last_int_token(out);              // the count (or last field) that closes the file
  ASSERT(last + 2 == len || ((SHAPE & 4) && last + 3 == len), "C12 a database file ends with an integer and a newline (two after an empty comment)");
  int cut_sym = nondet_int();
  C8(0) C8(8) C8(16) C8(24) C8(32) C8(40) C8(48) C8(56) C8(64) C8(72) C8(80) C8(88)
  ASSUME(false);
done:
  WITNESS();
}
