// C02 Tier A (a): Python names the -python-native generator gives to classes, methods and operators
// (classNameFromCppName, methodNameFromCppName, checkKeyword; interfaceMakerPythonNative.cxx:59-291).
#include "verif.h"
#include <string>
#ifndef LMAX
#define LMAX 6
#endif

// the real functions (non-static free functions of interfaceMakerPythonNative.cxx)
std::string checkKeyword(std::string &cppName);
std::string classNameFromCppName(const std::string &cppName, bool mangle);
std::string methodNameFromCppName(const std::string &cppName, const std::string &className, bool mangle);
// defined in interrogate.cxx (a main file, never linked): the -nomangle switch
bool mangle_names = true;

// ---- independent reference data -------------------------------------------------------------------------------
// Python 2 + 3 reserved words the generator promises to escape with a leading underscore
static const char *const REF_KEYWORDS[] = {
  "and", "as", "assert", "async", "await", "break", "class", "continue", "def", "del", "elif", "else", "except",
  "exec", "finally", "for", "from", "global", "if", "import", "in", "is", "lambda", "nonlocal", "not", "or", "pass",
  "print", "raise", "return", "try", "while", "with", "yield", 0 };
// identifier-shaped entries of the rename dictionary (name -> fixed Python name, no camelCase folding)
static const char *const REF_FIXED[][2] = {
  { "__bool__", "__bool__" }, { "__nonzero__", "__nonzero__" }, { "__int__", "__int__" }, { "__reduce__", "__reduce__" },
  { "__reduce_ex__", "__reduce_ex__" }, { "__copy__", "__copy__" }, { "__deepcopy__", "__deepcopy__" },
  { "__getstate__", "__getstate__" }, { "__setstate__", "__setstate__" }, { "__new__", "__new__" },
  { "print", "Cprint" }, { 0, 0 } };

static bool is_letter(char c) { return (c >= 'a' && c <= 'z') || (c >= 'A' && c <= 'Z'); }
static bool is_digit(char c) { return c >= '0' && c <= '9'; }
static bool is_idchar(char c) { return is_letter(c) || is_digit(c) || c == '_'; }
static char up(char c) { return (c >= 'a' && c <= 'z') ? (char)(c - 32) : c; }
static bool in_alphabet(char c) { return is_idchar(c) || c == ':' || c == ' '; }

static bool buf_eq(const char *b, int n, const char *lit) {
  int i = 0;
  for (; lit[i]; i++) if (i >= n || b[i] != lit[i]) return false;
  return i == n;
}
static bool ref_is_keyword(const char *b, int n) {
  for (int k = 0; REF_KEYWORDS[k]; k++) if (buf_eq(b, n, REF_KEYWORDS[k])) return true;
  return false;
}
static bool same(const std::string &r, const char *b, int n) {
  if (r.size() != (size_t)n) return false;
  for (int i = 0; i < 2 * LMAX + 2; i++) if (i < n && r[i] != b[i]) return false;
  return true;
}
// valid Python identifier, or dotted sequence of them when dotted
static bool valid_ident(const std::string &r, bool dotted) {
  int n = (int)r.size();
  if (n == 0) return false;
  bool start = true;
  for (int i = 0; i < 2 * LMAX + 2; i++) {
    if (i >= n) break;
    char c = r[i];
    if (c == '.') { if (!dotted || start) return false; start = true; continue; }
    if (start) { if (!(is_letter(c) || c == '_')) return false; start = false; }
    else if (!is_idchar(c)) return false;
  }
  return !start;
}

// std::string of symbolic length n <= LMAX over the bytes of b: a full-length copy cut to n (a constructor with a
// symbolic length makes every later operation walk a symbolic-size memcpy)
static void set_name(std::string &name, const char *b, int n) {
  name.assign(std::string(b, (size_t)LMAX));
  name._M_set_length((size_t)n);
}

// symbolic name: returns length, fills b[0..LMAX]
static int sym_name(char *b) {
  int len = nondet_int();
  ASSUME(len >= 1 && len <= LMAX);
  for (int i = 0; i < LMAX; i++) { char c = nondet_char(); ASSUME(in_alphabet(c)); b[i] = c; }
  b[len] = 0;
  return len;
}

// Well-formed C++ (scoped) name: components [A-Za-z_][A-Za-z0-9_]* joined by "::"; a blank only between two
// identifier characters (as in "unsigned int").  has_words: every component has a character other than '_' (a
// component made of underscores only folds to nothing); letter_words: moreover the first such character of every
// component is a letter (otherwise the camelCase fold of the component starts with a digit).
static bool well_formed(const char *b, int n, bool scoped, bool *letter_words, bool *has_words) {
  bool lw = true, hw = true;
  bool comp_start = true;     // at the first character of a component
  bool seen_word = false;     // component already has a non-separator character
  for (int i = 0; i < LMAX; i++) {
    if (i >= n) break;
    char c = b[i];
    if (c == ':') {
      if (!scoped || comp_start) return false;
      if (!(i + 1 < n && b[i + 1] == ':')) return false;           // pairs only
      if (!(i + 2 < n) || b[i + 2] == ':') return false;           // followed by a component
      if (!seen_word) { lw = false; hw = false; }
      i++; comp_start = true; seen_word = false;
      continue;
    }
    if (c == ' ') {
      if (comp_start || !is_idchar(b[i - 1])) return false;
      if (!(i + 1 < n) || !is_idchar(b[i + 1])) return false;
      continue;
    }
    if (comp_start) { if (is_digit(c)) return false; comp_start = false; }
    if (c != '_' && !seen_word) { seen_word = true; if (!is_letter(c)) lw = false; }
  }
  if (comp_start) return false;
  if (!seen_word) { lw = false; hw = false; }
  *letter_words = lw;
  *has_words = hw;
  return true;
}

// ---- class / enum value / constant names -------------------------------------------------------------------
extern "C" void harness_c02_class_name() {
  char b[LMAX + 1];
  int n = sym_name(b);
  bool lw, hw;
  ASSUME(well_formed(b, n, true, &lw, &hw));
  bool mangle = nondet_bool();
  mangle_names = nondet_bool();                // -nomangle given or not
  bool fold = mangle && mangle_names;
  // a name (component) made of underscores only folds to the empty string (the generator prints an error
  // message for an empty class name): excluded from the camelCase domain
  ASSUME(!fold || hw);
  std::string name;
  set_name(name, b, n);
  std::string r = classNameFromCppName(name, mangle);

  // reference: "::" -> ".", camelCase fold of every '_'/' ' separated word (first letter of each word upper case)
  // when folding, otherwise the C++ name with blanks as '_'
  char ref[2 * LMAX + 2];
  int o = 0;
  bool word_start = true;
  for (int i = 0; i < LMAX; i++) {
    if (i >= n) break;
    char c = b[i];
    if (c == ':') { ref[o++] = '.'; i++; word_start = true; continue; }
    if (fold) {
      if (c == '_' || c == ' ') { word_start = true; continue; }
      ref[o++] = word_start ? up(c) : c;
      word_start = false;
    } else {
      ref[o++] = (c == ' ') ? '_' : c;
    }
  }
  if (ref_is_keyword(ref, o)) {
    for (int i = o; i > 0; i--) ref[i] = ref[i - 1];
    ref[0] = '_'; o++;
  }
  ASSERT(same(r, ref, o), "C02 class name: C++ name with :: as '.', camelCase fold when mangling, keywords prefixed with '_'");
  if (!fold || lw) {
    ASSERT(valid_ident(r, true), "C02 class name is a valid (dotted) Python identifier");
  }
  ASSERT(!ref_is_keyword(r.data(), (int)r.size()), "C02 class name is never a Python keyword");
  WITNESS();
}

// ---- method / property / sequence names ------------------------------------------------------------------------
extern "C" void harness_c02_method_name() {
  char b[LMAX + 1];
  int n = sym_name(b);
  // the "__py__" prefix convention: stripped first, the rest must be a well-formed name
  int skip = (n > 6 && b[0] == '_' && b[1] == '_' && b[2] == 'p' && b[3] == 'y' && b[4] == '_' && b[5] == '_') ? 6 : 0;
  ASSUME(!(n == 6 && buf_eq(b, 6, "__py__")));
  bool lw, hw;
  ASSUME(well_formed(b + skip, n - skip, false, &lw, &hw));
  bool mangle = nondet_bool();
  mangle_names = nondet_bool();
  bool fold = mangle && mangle_names;
  ASSUME(!fold || hw);
  std::string name;
  set_name(name, b, n);
  std::string cls("Cls");
  std::string r = methodNameFromCppName(name, cls, mangle);

  char ref[2 * LMAX + 2];
  int o = 0;
  const char *fixed = 0;
  for (int k = 0; REF_FIXED[k][0]; k++) if (buf_eq(b + skip, n - skip, REF_FIXED[k][0])) fixed = REF_FIXED[k][1];
  if (fixed) {
    for (; fixed[o]; o++) ref[o] = fixed[o];
  } else {
    bool word_start = false;                     // the first word keeps its case: get_foo_bar -> getFooBar
    for (int i = skip; i < LMAX; i++) {
      if (i >= n) break;
      char c = b[i];
      if (fold) {
        if (c == '_' || c == ' ') { word_start = true; continue; }
        ref[o++] = word_start ? up(c) : c;
        word_start = false;
      } else {
        ref[o++] = (c == ' ') ? '_' : c;
      }
    }
  }
  if (ref_is_keyword(ref, o)) {
    for (int i = o; i > 0; i--) ref[i] = ref[i - 1];
    ref[0] = '_'; o++;
  }
  ASSERT(same(r, ref, o), "C02 method name: C++ name, camelCase alias when mangling, fixed special names, keywords prefixed with '_'");
  if (!fold || lw || fixed) {
    ASSERT(valid_ident(r, false), "C02 method name is a valid Python identifier");
  }
  ASSERT(!ref_is_keyword(r.data(), (int)r.size()), "C02 method name is never a Python keyword");
  WITNESS();
}

// ---- method names: concrete examples ------------------------------------------------------------------------------
// (harness_c02_method_name above is NOT catalogued: the 56 guarded `methodName = dictionary[x]._to` assignments on a
// symbolic name do not finish within 400 s even for LMAX = 3; the folding automaton is the one of
// classNameFromCppName, which is covered symbolically, and the dictionary / keyword paths are covered by the keyword
// and operator harnesses.  What remains are these examples of the method-specific rules.)
static const char *const REF_METHOD_EXAMPLES[][3] = {     // C++ name, name with mangle=false, camelCase alias ("print": see keyword_case)
  { "get_foo_bar", "get_foo_bar", "getFooBar" }, { "__py__get_x", "get_x", "getX" },
  { "__init__", "__init__", "Init" }, { "set_2d", "set_2d", "set2d" },
  { "is_a", "is_a", "isA" }, { "x", "x", "x" }, { "_private", "_private", "Private" }, { "getX_", "getX_", "getX" },
  { 0, 0, 0 } };
static void __attribute__((noinline)) method_example(const char *from, const char *plain, const char *camel) {
  std::string cls("Cls");
  std::string name(from);
  mangle_names = true;
  ASSERT(methodNameFromCppName(name, cls, false) == plain, "C02 method name without mangling is the C++ name (special names fixed, __py__ stripped)");
  ASSERT(methodNameFromCppName(name, cls, true) == camel, "C02 camelCase alias of a method name");
  mangle_names = false;
  ASSERT(methodNameFromCppName(name, cls, true) == plain, "C02 -nomangle switches the camelCase alias off");
}
extern "C" void harness_c02_method_examples() {
  for (int k = 0; REF_METHOD_EXAMPLES[k][0]; k++) {
    if (nondet_bool()) goto done;
    method_example(REF_METHOD_EXAMPLES[k][0], REF_METHOD_EXAMPLES[k][1], REF_METHOD_EXAMPLES[k][2]);
  }
done:
  WITNESS();
}

// ---- keywords (concrete list) -----------------------------------------------------------------------------------
// (noinline: one frame per keyword, so that CBMC's per-frame loop counters start afresh)
static void __attribute__((noinline)) keyword_case(const char *k) {
  std::string cls("Cls");
  std::string kw(k);
  std::string esc = std::string("_") + kw;
  std::string w = kw;
  ASSERT(checkKeyword(w) == esc, "C02 checkKeyword prefixes every Python keyword with '_'");
  ASSERT(classNameFromCppName(kw, false) == esc, "C02 a class/constant named like a Python keyword is exposed as _keyword");
  if (kw != "print") {
    ASSERT(methodNameFromCppName(kw, cls, false) == esc, "C02 a method named like a Python keyword is exposed as _keyword");
  }
  // ("print" -> "Cprint" is not checked: `methodName = "Cprint"` grows the string in basic_string::_M_replace, whose
  // aliasing test compares pointers into different objects; the solver leaves that undetermined and walks the
  // overlapping-copy path with a garbage length)
}

#ifndef KW_FROM
#define KW_FROM 0
#endif
#ifndef KW_TO
#define KW_TO 1000
#endif
extern "C" void harness_c02_keywords() {
  mangle_names = true;
  for (int k = 0; REF_KEYWORDS[k]; k++) {
    if (k < KW_FROM || k >= KW_TO) continue;
    if (nondet_bool()) goto done;      // see harness_c16_library_order: keeps the end reachable
    keyword_case(REF_KEYWORDS[k]);
  }
done:
  WITNESS();
}

// ---- operators (concrete list: the spellings cppparser produces, "operator " + token, "unary" appended for unary) ----
static const char *const REF_OPERATORS[][2] = {
#ifndef ONLY_LSHIFT
  { "operator ==", "__eq__" }, { "operator !=", "__ne__" }, { "operator <", "__lt__" }, { "operator >", "__gt__" },
  { "operator <=", "__le__" }, { "operator >=", "__ge__" }, { "operator <=>", "__cmp__" },
#endif
#ifdef ONLY_LSHIFT
  { "operator <<", "__lshift__" },
#endif
#ifndef ONLY_LSHIFT
  { "operator >>", "__rshift__" },
  { "operator ()", "__call__" }, { "operator []", "__getitem__" },
  { "operator ^", "__xor__" }, { "operator %", "__mod__" }, { "operator ~unary", "__invert__" },
  { "operator &", "__and__" }, { "operator |", "__or__" }, { "operator +", "__add__" }, { "operator -", "__sub__" },
  { "operator -unary", "__neg__" }, { "operator *", "__mul__" }, { "operator /", "__div__" },
  { "operator +=", "__iadd__" }, { "operator -=", "__isub__" }, { "operator *=", "__imul__" }, { "operator /=", "__idiv__" },
  { "operator |=", "__ior__" }, { "operator &=", "__iand__" }, { "operator ^=", "__ixor__" },
  { "operator <<=", "__ilshift__" }, { "operator >>=", "__irshift__" },
  { "operator typecast bool", "__bool__" },
  // operators without a Python special method get a plain method name
  { "operator =", "assign" }, { "operator ++unary", "increment" }, { "operator ++", "increment" },
  { "operator --unary", "decrement" }, { "operator --", "decrement" }, { "operator !", "logicalNot" },
  { "operator &&", "logicalAnd" }, { "operator ||", "logicalOr" },
  { "operator ->", "dereference" },
  // not listed: { "operator ,", "concatenate" } -- the only entry whose Python name is longer than the mangled C++
  // name it replaces; see keyword_case for why a growing `methodName = literal` cannot be decided by the engine
#endif
  { 0, 0 } };

static void __attribute__((noinline)) operator_case(const char *from, const char *to, bool mangle) {
  std::string cls("Cls");
  std::string op(from);
  std::string r = methodNameFromCppName(op, cls, mangle);
  ASSERT(r == to, "C02 every C++ operator is exposed under its Python special-method name");
  ASSERT(valid_ident(r, false), "C02 operator method name is a valid Python identifier");
}

#ifndef OP_FROM
#define OP_FROM 0
#endif
#ifndef OP_TO
#define OP_TO 1000
#endif
#ifndef MODES
#define MODES 1       // 1: mangle=false only (the primary name); 3: also mangle=true with and without -nomangle
                      // (3 is not catalogued: with mangle=true the replaced name is shorter than most Python names)
#endif
extern "C" void harness_c02_operator_names() {
  // the settings of (mangle argument, -nomangle) that differ, concretely (everything in this query is concrete:
  // a symbolic flag would make every intermediate string symbolic)
  for (int mode = 0; mode < MODES; mode++) {
    mangle_names = (mode != 2);
    for (int k = 0; REF_OPERATORS[k][0]; k++) {
      if (k < OP_FROM || k >= OP_TO) continue;
      if (nondet_bool()) goto done;      // see harness_c16_library_order: keeps the end reachable
      operator_case(REF_OPERATORS[k][0], REF_OPERATORS[k][1], mode != 0);
    }
  }
done:
  WITNESS();
}
