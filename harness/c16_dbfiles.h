// C16 (database clause): a file-system model for the databases interrogate_module is asked to load.
// NDB database files "/a.in", "/b.in", ... (absolute names: no search-path lookup).  For every file, symbolically:
//   * it can be opened or not (missing / unreadable file),
//   * its header: major and minor version (any int; the identifier is any int and is not checked for requests made by
//     file name, whose expected identifier is 0),
//   * InterrogateDatabase::read() succeeds or fails on its body (garbage / truncated file).
// Filename::open_read and InterrogateDatabase::read are cut from the real code and replaced by the stand-ins below
// (as in c12_header.cxx); everything else of load_latest / request_module / check_latest is the real code.
#ifndef C16_DBFILES_H
#define C16_DBFILES_H
#include "verif.h"
#include "vstream.h"
#include "interrogateDatabase.h"
#include "interrogate_request.h"
#include "filename.h"
#include <fstream>
#include <sstream>
#ifndef NDB
#define NDB 2
#endif

static std::ostream *g_file[NDB];   // header of file i as written to disk
static bool g_open_ok[NDB];         // file i can be opened
static bool g_read_ok[NDB];         // read() succeeds on the body of file i
static bool g_version_ok[NDB];      // header version acceptable (major == 3, minor <= 3)
static int g_open_calls[NDB], g_read_calls[NDB];
static bool g_bad_name;             // a stand-in was called for a file that was never requested

#ifdef VERIF_NATIVE
static void attach(std::ifstream &s, std::ostream *src) {
  s.std::ios::rdbuf(new std::stringbuf(static_cast<std::ostringstream *>(src)->str()));
  s.clear();
}
#else
extern "C" void vs_attach_input(std::istream *s, std::ostream *src);
static void attach(std::ifstream &s, std::ostream *src) { vs_attach_input(&s, src); }
#endif

// "/a.in" -> 0, "/b.in" -> 1, ...
static int file_index(const char *name) {
  if (name == nullptr || name[0] != '/' || name[1] < 'a' || name[1] >= 'a' + NDB) { g_bad_name = true; return 0; }
  return name[1] - 'a';
}

// stand-ins for the two cut functions
bool Filename::open_read(std::ifstream &stream) const {
  int i = file_index(_filename.c_str());
  g_open_calls[i]++;
  if (!g_open_ok[i]) return false;
  attach(stream, g_file[i]);
  return true;
}
bool InterrogateDatabase::read(std::istream &in, InterrogateModuleDef *def) {
  int i = file_index(def->database_filename);
  g_read_calls[i]++;
  return g_read_ok[i];
}

// creates the NDB symbolic files; returns nothing, fills the globals above
static void make_files() {
  for (int i = 0; i < NDB; i++) {
    int file_id = nondet_int(), major = nondet_int(), minor = nondet_int();
    g_open_ok[i] = nondet_bool();
    g_read_ok[i] = nondet_bool();
    g_version_ok[i] = (major == 3 && minor <= 3);
    g_open_calls[i] = g_read_calls[i] = 0;
    g_file[i] = vs_ostream_new();
    *g_file[i] << file_id << '\n' << major << ' ' << minor << '\n';
  }
}
// file i fails to load
static bool file_fails(int i) { return !g_open_ok[i] || !g_version_ok[i] || !g_read_ok[i]; }
static bool any_file_fails() {
  bool f = false;
  for (int i = 0; i < NDB; i++) f = f || file_fails(i);
  return f;
}
#endif
