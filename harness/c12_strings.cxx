// C12: length-prefixed strings of the database file format round-trip for every byte string.
#include "verif.h"
#include "vstream.h"
#include "interrogate_datafile.h"
#include <string>
#ifndef LMAX
#define LMAX 3
#endif

// std::string overload: every byte value, including NUL, space, newline, quote, 0xFF
extern "C" void harness_c12_string_roundtrip() {
  int len = nondet_int();
  ASSUME(len >= 0 && len <= LMAX);
  char b[LMAX + 1];
  for (int i = 0; i < LMAX; i++) b[i] = nondet_char();
  std::string s(b, (size_t)len);
  char ws = nondet_bool() ? ' ' : '\n';
  int follow = nondet_int();
  std::ostream *out = vs_ostream_new();
  idf_output_string(*out, s, ws);
  *out << follow << ' ';
  ASSERT(vs_format_error(out) == 0, "C12 every integer in the file is delimited from its neighbours");
  std::istream *in = vs_istream_of(out);
  std::string r("zz");
  idf_input_string(*in, r);
  ASSERT(!in->fail(), "C12 reading back a written string does not fail");
  bool same = r.size() == (size_t)len;
  for (int i = 0; i < LMAX; i++) if (i < len && same && r[i] != b[i]) same = false;
  ASSERT(same, "C12 string read back equals the string written (all byte values)");
  int f2 = 0;
  *in >> f2;
  ASSERT(!in->fail() && f2 == follow, "C12 the value following a string is read back intact");
  WITNESS();
}

// const char * overload: NUL-free strings, nullptr, empty
extern "C" void harness_c12_cstring_roundtrip() {
  int len = nondet_int();
  ASSUME(len >= 0 && len <= LMAX);
  char b[LMAX + 1];
  for (int i = 0; i < LMAX; i++) { b[i] = nondet_char(); ASSUME(b[i] != 0); }
  b[len] = 0;
  bool is_null = nondet_bool();
  char ws = nondet_bool() ? ' ' : '\n';
  int follow = nondet_int();
  std::ostream *out = vs_ostream_new();
  idf_output_string(*out, is_null ? (const char *)0 : b, ws);
  *out << follow << ' ';
  ASSERT(vs_format_error(out) == 0, "C12 every integer in the file is delimited from its neighbours");
  std::istream *in = vs_istream_of(out);
  const char *r = 0;
  idf_input_string(*in, r);
  ASSERT(!in->fail(), "C12 reading back a written C string does not fail");
  if (is_null || len == 0) {
    ASSERT(r == 0, "C12 empty or null C string leaves the target unchanged");
  } else {
    bool same = r != 0;
    if (same) for (int i = 0; i <= LMAX; i++) if (i <= len && same && r[i] != b[i]) same = false;
    ASSERT(same, "C12 C string read back equals the string written");
  }
  int f2 = 0;
  *in >> f2;
  ASSERT(!in->fail() && f2 == follow, "C12 the value following a C string is read back intact");
  WITNESS();
}
