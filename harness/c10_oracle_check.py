#!/usr/bin/env python3
"""Validates the hand-written C10 oracle (harness/c10_oracle.h) against g++.

Emits every class of the feature-bit lattice used by harness/c10_traits.cxx together with
  static_assert(std::is_default_constructible<A>::value == c10_default_constructible(bits)) ...
(the oracle functions are constexpr here) and compiles the lot with g++ -std=c++17 -fsyntax-only.
A failed static_assert is an ORACLE bug, never a finding about interrogate.

usage: c10_oracle_check.py [--keep FILE]      exit 0 = the oracle agrees with g++ on the whole lattice
"""
import sys, os, subprocess, tempfile, itertools

HERE = os.path.dirname(os.path.abspath(__file__))
KINDS = {0: 'none', 1: 'user', 2: 'default', 3: 'delete', 4: 'virtual'}
ACC = {1: 'public', 2: 'protected', 3: 'private'}


def special(kind, vis, decl):
    """text of one special member"""
    if kind == 0:
        return ''
    tail = {1: ';', 2: ' = default;', 3: ' = delete;', 4: ';', 5: ' = 0;'}[kind]
    virt = 'virtual ' if kind in (4, 5) else ''
    return '  %s: %s%s%s\n' % (ACC[vis], virt, decl, tail)


def member(mem):
    return {0: 'int m;', 1: 'const int m;', 2: 'int &m;', 3: 'int m = 0;', 4: 'const int m = 0;'}[mem]


def lattice(mems, dtor_kinds=(1, 2, 3, 4)):
    ctor = [(0, 1)] + [(k, v) for k in (1, 2, 3) for v in (1, 2, 3)]
    dtor = [(0, 1)] + [(k, v) for k in dtor_kinds for v in (1, 2, 3)]
    for (dc, dcv), (cc, ccv), (dt, dtv), pv, mem in itertools.product(ctor, ctor, dtor, (0, 1), mems):
        yield dc, dcv, cc, ccv, dt, dtv, pv, mem


def emit(mems=(0, 1, 2, 3, 4)):
    out = ['#include <type_traits>', '#define C10_CONSTEXPR constexpr', '#include "c10_oracle.h"']
    n = 0
    for dc, dcv, cc, ccv, dt, dtv, pv, mem in lattice(mems):
        name = 'A%d' % n
        n += 1
        body = special(dc, dcv, '%s()' % name) + special(cc, ccv, '%s(const %s &)' % (name, name)) + special(dt, dtv, '~%s()' % name)
        if pv:
            body += '  public: virtual void f() = 0;\n'
        body += '  public: %s\n' % member(mem)
        out.append('class %s {\n%s};' % (name, body))
        bits = 'C10Bits{%d, %d, %d, %d, %d, %d, %d, %d}' % (dc, dcv, cc, ccv, dt, dtv, pv, mem)
        for trait, fn in (('is_default_constructible', 'c10_default_constructible'), ('is_copy_constructible', 'c10_copy_constructible'),
                          ('is_destructible', 'c10_destructible'), ('is_abstract', 'c10_abstract'), ('is_polymorphic', 'c10_polymorphic')):
            out.append('static_assert(std::%s<%s>::value == %s(%s), "%s %s");' % (trait, name, fn, bits, trait, bits))
    # one constructor with parameters
    shapes = {0: '', 1: 'int a', 2: 'int a = 0', 3: 'int a, int b = 0', 4: 'int a = 0, int b = 0'}
    for shape, params in shapes.items():
        for vis in (1, 2, 3):
            name = 'P%d' % n
            n += 1
            out.append('class %s {\n  %s: %s(%s);\n  public: int m;\n};' % (name, ACC[vis], name, params))
            out.append('static_assert(std::is_default_constructible<%s>::value == c10p_default_constructible(%d, %d), "ctor shape %d access %d");' % (name, shape, vis, shape, vis))
            out.append('static_assert(std::is_copy_constructible<%s>::value == c10p_copy_constructible(%d, %d), "ctor shape copy %d access %d");' % (name, shape, vis, shape, vis))
    # one base class: class B { bits }; class A : public B { [void f();] int m; };
    for dc, dcv, cc, ccv, dt, dtv, pv, mem in lattice((0,), (1, 2, 3, 4, 5)):
        if dt in (4, 5) and dtv == 3:
            continue            # ill-formed, see c10d_well_formed
        for ov in (0, 1, 2, 3):
            bn, an = 'B%d' % n, 'D%d' % n
            n += 1
            body = special(dc, dcv, '%s()' % bn) + special(cc, ccv, '%s(const %s &)' % (bn, bn)) + special(dt, dtv, '~%s()' % bn)
            if pv:
                body += '  public: virtual %s f() = 0;\n' % ('void' if ov < 2 else bn + ' *')
            body += '  public: int m;\n'
            out.append('class %s {\n%s};' % (bn, body))
            fa = {0: '', 1: '  public: void f();\n', 2: '  public: %s *f();\n' % bn, 3: '  public: %s *f();\n' % an}[ov]
            out.append('class %s : public %s {\n%s  public: int m;\n};' % (an, bn, fa))
            bits = 'C10Bits{%d, %d, %d, %d, %d, %d, %d, %d}, %d' % (dc, dcv, cc, ccv, dt, dtv, pv, mem, ov)
            for trait, fn in (('is_default_constructible', 'c10d_default_constructible'), ('is_copy_constructible', 'c10d_copy_constructible'),
                              ('is_destructible', 'c10d_destructible'), ('is_abstract', 'c10d_abstract'), ('is_polymorphic', 'c10d_polymorphic')):
                out.append('static_assert(std::%s<%s>::value == %s(%s), "derived %s %s");' % (trait, an, fn, bits, trait, bits))
    return '\n'.join(out) + '\n', n


def main():
    text, n = emit()
    keep = sys.argv[2] if len(sys.argv) > 2 and sys.argv[1] == '--keep' else None
    with tempfile.TemporaryDirectory(prefix='c10oracle.', dir='/var/tmp') as d:
        path = keep or os.path.join(d, 'lattice.cxx')
        open(path, 'w').write(text)
        p = subprocess.run(['g++', '-std=c++17', '-fsyntax-only', '-w', '-ftemplate-depth=100', '-fmax-errors=20', '-I' + HERE, path],
                           stdout=subprocess.PIPE, stderr=subprocess.STDOUT, text=True)
    if p.returncode != 0:
        errs = [l for l in p.stdout.splitlines() if 'static assertion failed' in l or 'error' in l]
        print('ORACLE DISAGREES WITH g++ (%d classes):' % n)
        print('\n'.join(errs[:40]))
        return 1
    print('oracle agrees with g++ -std=c++17 on %d classes (single classes and base/derived pairs) x 5 traits' % n)
    return 0


if __name__ == '__main__':
    sys.exit(main())
