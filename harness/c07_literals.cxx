// C07: literal decoding.  CPPPreprocessor::get_number (decimal / octal / hex / C++14 binary, digit separators) and
// get_quoted_char / scan_quoted / scan_escape_sequence / hex_val read their input through the istream byte model
// (the real per-character code runs); the decoded value must equal the value the C++ compiler gives the literal.
//
// The literal spellings are enumerated by a concrete loop inside the query (symbolic bytes make every std::string
// of the lexer symbolic-length; symbolic execution does not terminate in this engine - see c09_cond.cxx): every
// spelling of at most LITMAX characters over a reduced digit alphabet per base, plus the escape sequences.  The stream
// model has a pool of 6 buffers, so a residue class holds at most 6 literals.
#include "verif.h"
#include "vstream.h"
#include "cppPreprocessor.h"
#include "cppToken.h"
#include "cppBison.h"
#include <string>

#ifndef SET
#define SET 0          // 0 decimal, 1 octal, 2 hex, 3 binary, 4 character literals / escapes
#endif
#ifndef LITMAX
#define LITMAX 4
#endif
#ifndef NPARTS
#define NPARTS 1
#endif
#ifndef PART
#define PART 0
#endif

static char textbuf[6][16];
static int streams;

// runs the scanner on text[0..n) followed by " ;" and returns the token
static CPPToken *scan(CPPPreprocessor *pp, const char *lit, int n, bool number) {
  char *text = textbuf[streams < 6 ? streams : 5];
  streams++;
  for (int i = 0; i < n; i++) text[i] = lit[i];
  text[n] = ' '; text[n + 1] = ';'; text[n + 2] = '\n';
  CPPPreprocessor::InputFile *in = new CPPPreprocessor::InputFile;
  in->_in = vs_istream_bytes(text, (unsigned)(n + 3));
  pp->_infile = in;
  pp->_unget = '\0';
  int c = pp->get();
  CPPToken *t = new CPPToken(number ? pp->get_number(c) : pp->get_quoted_char(c));
  ASSERT(pp->get() == ' ', "C07 the scanner consumes exactly the literal");
  return t;
}

static int digit_of(char c) { return (c >= '0' && c <= '9') ? c - '0' : (c >= 'a' && c <= 'f') ? c - 'a' + 10 : c - 'A' + 10; }

// alphabets per base (reduced: smallest, largest and a middle digit, both letter cases for hex)
static const char ALPHA[4][8] = {"019", "017", "09aF", "01"};
static const int NALPHA[4] = {3, 3, 4, 2};
static const int BASE[4] = {10, 8, 16, 2};

extern "C" void harness_c07_literals() {
  CPPPreprocessor *pp = new CPPPreprocessor;
  int k = 0, run = 0;
#if SET < 4
  const int set = SET;
  const int plen = (set == 0) ? 0 : (set == 1) ? 1 : 2;           // prefix "", "0", "0x", "0b"
  for (int nd = 1; nd <= LITMAX - plen; nd++) {
    int total = 1;
    for (int i = 0; i < nd; i++) total *= NALPHA[set];
    for (int code = 0; code < total; code++) {
      char lit[LITMAX + 2];
      int n = 0;
      if (set >= 1) lit[n++] = '0';
      if (set == 2) lit[n++] = (code % 2) ? 'X' : 'x';
      if (set == 3) lit[n++] = (code % 2) ? 'B' : 'b';
      long want = 0; int c = code; bool ok = true;
      for (int i = 0; i < nd; i++) {
        char d = ALPHA[set][c % NALPHA[set]]; c /= NALPHA[set];
        if (set == 0 && i == 0 && d == '0') ok = false;           // that would be an octal literal
        lit[n++] = d;
        want = want * BASE[set] + digit_of(d);
      }
      if (!ok) continue;
      if (k++ % NPARTS != PART) continue;
      CPPToken *t = scan(pp, lit, n, true);
      run++;
      ASSERT(t->_token == INTEGER, "C07 an integer literal is scanned as INTEGER");
      ASSERT((long)t->_lval.u.integer == want, "C07 integer literal value equals the value of its decimal/octal/hex/binary spelling");
    }
  }
#else
  // character literals: spelling, value
  static const char CH[][8] = {"'a'", "'0'", "'\\n'", "'\\t'", "'\\r'", "'\\a'", "'\\b'", "'\\f'", "'\\v'", "'\\\\'", "'\\''", "'\\\"'",
                               "'\\?'", "'\\0'", "'\\7'", "'\\17'", "'\\101'", "'\\377'", "'\\x41'", "'\\x7f'", "'\\xA'", "'\\x0'",
                               "'\\e'", "'\\18'"};
  static const int CHLEN[] = {3, 3, 4, 4, 4, 4, 4, 4, 4, 4, 4, 4, 4, 4, 4, 5, 6, 6, 6, 6, 5, 5, 4, 5};
  static const int CHVAL[] = {'a', '0', '\n', '\t', '\r', '\a', '\b', '\f', '\v', '\\', '\'', '"', '?', 0, 7, 017, 0101, (char)0377,
                              0x41, 0x7f, 0xA, 0, 27, 1};
  for (int i = 0; i < (int)(sizeof(CHLEN) / sizeof(CHLEN[0])); i++) {
    if (k++ % NPARTS != PART) continue;
    CPPToken *t = scan(pp, CH[i], CHLEN[i], false);
    run++;
    ASSERT(t->_token == CHAR_TOK, "C07 a character literal is scanned as CHAR_TOK");
    ASSERT((int)t->_lval.u.integer == CHVAL[i], "C07 character literal value equals the value of its (escaped) character");
  }
#endif
  ASSERT(run > 0, "C07 harness: this residue class is not empty");
  WITNESS();
}
