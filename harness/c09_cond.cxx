// C09: conditional inclusion keeps exactly the groups a conforming preprocessor keeps.
//
// Token-level harness.  The REAL process_directive, skip_false_if_block, handle_if_directive (control flow),
// handle_ifdef_directive and handle_ifndef_directive run over a fully symbolic file of NLINES lines; each line is a
// symbolic choice from a menu of directive kinds.  The character level (get, skip_whitespace, skip_comment,
// get_preprocessor_command, get_preprocessor_args) is replaced by a line-level reader that delivers, for line i, the
// characters '#', then the command word and argument string of its kind (or the marker character and a newline), and
// maintains _start_of_line like the real get(): symbolic bytes through the real per-character code do not terminate
// in this engine (one symbolic 9-byte line > 5 min).  The character level is exercised on concrete programs by
// harness/c09_chars.cxx.
// Cut as the plan says: macro expansion and the bison parser inside handle_if_directive (parse_expr returns the
// literal 0/1 of the controlling expression as a real CPPExpression which the real evaluate() evaluates);
// is_manifest_defined is "the name is D"; handle_define_directive / handle_error_directive record that they ran.
#include "verif.h"
#include "cppPreprocessor.h"
#include "cppExpressionParser.h"
#include "cppExpression.h"
#include <string>

#ifndef NLINES
#define NLINES 5
#endif

enum Kind {
  K_IF_T, K_IF_F, K_IFDEF_T, K_IFDEF_F, K_IFNDEF_T, K_IFNDEF_F,
  K_ELIF_T, K_ELIF_F, K_ELIFDEF_T, K_ELIFDEF_F, K_ELIFNDEF_T, K_ELIFNDEF_F,
  K_ELSE, K_ENDIF, K_DEFINE, K_ERROR, K_MARKER, K_COUNT
};
static inline bool is_open(int k) { return k <= K_IFNDEF_F; }
static inline bool is_elif(int k) { return k >= K_ELIF_T && k <= K_ELIFNDEF_F; }
static inline bool cond_true(int k) { return (k % 2) == 0; }           // *_T kinds are even (for open/elif kinds)

// ---- the symbolic file and the line-level reader -------------------------------------------------------------------
static int kind[NLINES + 1];
static int rd_line;          // index of the line being read
static int rd_phase;         // 0 line start, 1 after '#', 2 after the marker character, 3 command pending, 4 args pending
static int cur_line;         // line of the directive whose command word was delivered last
static int protocol_error;
static bool survived[NLINES + 1], defined_at[NLINES + 1], error_at[NLINES + 1];

int CPPPreprocessor::get() {
  if (rd_line >= NLINES) return EOF;
  int k = kind[rd_line];
  switch (rd_phase) {
  case 0:
    if (k == K_MARKER) { rd_phase = 2; _start_of_line = false; return 'M'; }
    rd_phase = 1;
    return '#';                          // '#' leaves _start_of_line as it is (real get())
  case 1:
    rd_phase = 3; _start_of_line = false;
    return 'x';                          // first character of the command word
  case 2:
    rd_line++; rd_phase = 0; _start_of_line = true;
    return '\n';
  default:
    protocol_error = 1;
    return EOF;
  }
}
int CPPPreprocessor::skip_whitespace(int c) { return c; }
int CPPPreprocessor::skip_comment(int c) { return c; }

int CPPPreprocessor::get_preprocessor_command(int c, std::string &command) {
  if (rd_phase != 3 || rd_line >= NLINES) { protocol_error = 1; return EOF; }
  switch (kind[rd_line]) {
  case K_IF_T: case K_IF_F: command = "if"; break;
  case K_IFDEF_T: case K_IFDEF_F: command = "ifdef"; break;
  case K_IFNDEF_T: case K_IFNDEF_F: command = "ifndef"; break;
  case K_ELIF_T: case K_ELIF_F: command = "elif"; break;
  case K_ELIFDEF_T: case K_ELIFDEF_F: command = "elifdef"; break;
  case K_ELIFNDEF_T: case K_ELIFNDEF_F: command = "elifndef"; break;
  case K_ELSE: command = "else"; break;
  case K_ENDIF: command = "endif"; break;
  case K_DEFINE: command = "define"; break;
  case K_ERROR: command = "error"; break;
  default: protocol_error = 1; break;
  }
  cur_line = rd_line;
  rd_phase = 4;
  return ' ';
}

int CPPPreprocessor::get_preprocessor_args(int c, std::string &args) {
  if (rd_phase != 4 || rd_line >= NLINES) { protocol_error = 1; return EOF; }
  switch (kind[rd_line]) {
  case K_IF_T: case K_ELIF_T: args = "1"; break;
  case K_IF_F: case K_ELIF_F: args = "0"; break;
  case K_IFDEF_T: case K_ELIFDEF_T: case K_IFNDEF_F: case K_ELIFNDEF_F: args = "D"; break;
  case K_IFDEF_F: case K_ELIFDEF_F: case K_IFNDEF_T: case K_ELIFNDEF_T: args = "U"; break;
  case K_DEFINE: args = "X"; break;
  case K_ERROR: args = "e"; break;
  default: args = ""; break;
  }
  rd_line++; rd_phase = 0; _start_of_line = true;
  return '\n';
}

// ---- cut points below the conditional logic -------------------------------------------------------------------------
bool CPPPreprocessor::is_manifest_defined(const std::string &name) const {
  return name.size() == 1 && name[0] == 'D';
}
void CPPPreprocessor::expand_manifests(std::string &expr, bool expand_undefined, const CPPManifest::Ignores &ignores) const {}
bool CPPExpressionParser::parse_expr(const std::string &expr, const CPPPreprocessor &filepos) {
  _expr = new CPPExpression((int)(expr.size() == 1 && expr[0] == '1'));
  return true;
}
void CPPPreprocessor::handle_define_directive(const std::string &args, const YYLTYPE &loc) { defined_at[cur_line] = true; }
void CPPPreprocessor::handle_error_directive(const std::string &args, const YYLTYPE &loc) { error_at[cur_line] = true; }

// ---- reference: the conditional-inclusion machine of C11 6.10.1 ------------------------------------------------------
struct Frame { bool parent_active, taken, active, seen_else; };

extern "C" void harness_c09_cond() {
  for (int i = 0; i < NLINES; i++) {
    int k = nondet_int();
    ASSUME(k >= 0 && k < K_COUNT);
    kind[i] = k;
  }
  kind[NLINES] = K_MARKER;

  // reference walk; it also states well-nestedness (the property's precondition)
  bool want_survive[NLINES], want_define[NLINES], want_error[NLINES];
  Frame st[NLINES + 1];
  int depth = 0;
  bool ok = true;
  for (int i = 0; i < NLINES; i++) {
    int k = kind[i];
    bool active = depth == 0 ? true : st[depth - 1].active;
    want_survive[i] = want_define[i] = want_error[i] = false;
    if (is_open(k)) {
      Frame f; f.parent_active = active; f.taken = active && cond_true(k); f.active = f.taken; f.seen_else = false;
      if (depth <= NLINES) st[depth] = f;
      depth++;
    } else if (is_elif(k) || k == K_ELSE) {
      if (depth == 0 || st[depth - 1].seen_else) { ok = false; }
      else {
        Frame &f = st[depth - 1];
        bool c = (k == K_ELSE) ? true : cond_true(k);
        if (k == K_ELSE) f.seen_else = true;
        f.active = f.parent_active && !f.taken && c;
        if (f.active) f.taken = true;
      }
    } else if (k == K_ENDIF) {
      if (depth == 0) ok = false; else depth--;
    } else if (k == K_MARKER) want_survive[i] = active;
    else if (k == K_DEFINE) want_define[i] = active;
    else if (k == K_ERROR) want_error[i] = active;
  }
  ASSUME(ok && depth == 0);

  // driver: the directive dispatch of internal_get_next_token
  CPPPreprocessor *pp = new CPPPreprocessor;
  rd_line = 0; rd_phase = 0; cur_line = 0; protocol_error = 0;
  pp->_start_of_line = true;
  int c = pp->get();
  for (int step = 0; step < 2 * NLINES + 2; step++) {
    if (c == EOF) break;
    if (c == '#' && pp->_start_of_line) {
      c = pp->process_directive(c);
      c = pp->get();
    } else if (c == 'M') {
      survived[rd_line] = true;
      c = pp->get();
    } else {
      c = pp->get();
    }
  }
  ASSERT(c == EOF, "C09 the whole file is consumed");
  ASSERT(protocol_error == 0, "C09 the conditional code reads directives in the order command, arguments");
  bool same = true, defs = true, errs = true;
  for (int i = 0; i < NLINES; i++) {
    if (survived[i] != want_survive[i]) same = false;
    if (defined_at[i] != want_define[i]) defs = false;
    if (error_at[i] != want_error[i]) errs = false;
  }
  ASSERT(same, "C09 the text lines that reach the parser are exactly those in the groups a conforming preprocessor keeps");
  ASSERT(defs, "C09 #define is acted upon exactly in kept groups");
  ASSERT(errs, "C09 #error is acted upon exactly in kept groups");
  WITNESS();
}
