// C09: conditional inclusion keeps exactly the groups a conforming preprocessor keeps.
//
// The REAL process_directive, skip_false_if_block, handle_if_directive (control flow), handle_ifdef_directive and
// handle_ifndef_directive run over every well-nested file of NLINES lines, each line one of 17 kinds (see Kind).
//
// Shape of the query.  Symbolic bytes through the per-character code of cppPreprocessor.cxx do not terminate in this
// engine (one symbolic 9-byte directive line: > 5 min; CBMC folds no comparison of a symbolic byte, so every std::string
// built from the input has a symbolic length).  Making only the line kinds symbolic does not help: after the first
// conditional the read position is symbolic and with it every command string (3 lines: > 10 min, also with
// cbmc --paths).  The files are therefore enumerated by a concrete depth-first loop that CBMC unrolls inside the
// query, over a generated table of the well-nested files; NPARTS residue classes = NPARTS catalogue entries.
// (c09_sym.cxx is the complement: fully symbolic line kinds, made tractable by writing the directive words into the SSO
// buffer directly, a branch-free operator==, deferring the recursion through the condition handlers, and checking one
// dispatch step from an arbitrary reference-consistent state.  Here every function is real and the files are concrete.)
//
// CHARLEVEL=0 (token level): get / skip_whitespace / skip_comment / get_preprocessor_command / get_preprocessor_args
//   are replaced by a line-level reader that delivers '#', the command word and the argument string of line i (or the
//   marker character and a newline) and maintains _start_of_line like the real get().
// CHARLEVEL=1: the real character-level code reads the text of the file through the istream byte model; DECOR selects
//   how the lines are spelled (blanks around '#', trailing /* # */ or // # comments).
// Cut in both modes, as the plan says: macro expansion, the bison parser and expression evaluation inside
// handle_if_directive (parse_expr + evaluate return the truth value of the literal 0/1 controlling expression);
// is_manifest_defined is "the name is D"; handle_define_directive / handle_error_directive record that they ran.
#include "verif.h"
#include "vstream.h"
#include "cppPreprocessor.h"
#include "cppExpressionParser.h"
#include "cppExpression.h"
#include <string>

#ifndef NLINES
#define NLINES 3
#endif
#ifndef NPARTS
#define NPARTS 1
#endif
#ifndef PART
#define PART 0
#endif
#ifndef CHARLEVEL
#define CHARLEVEL 0
#endif
#ifndef DECOR
#define DECOR 0
#endif

enum Kind {
  K_IF_T, K_IF_F, K_IFDEF_T, K_IFDEF_F, K_IFNDEF_T, K_IFNDEF_F,
  K_ELIF_T, K_ELIF_F, K_ELIFDEF_T, K_ELIFDEF_F, K_ELIFNDEF_T, K_ELIFNDEF_F,
  K_ELSE, K_ENDIF, K_DEFINE, K_ERROR, K_MARKER, K_COUNT
};
static inline bool is_open(int k) { return k <= K_IFNDEF_F; }
static inline bool is_elif(int k) { return k >= K_ELIF_T && k <= K_ELIFNDEF_F; }
static inline bool cond_true(int k) { return (k % 2) == 0; }           // the *_T kinds are the even ones

// command word and argument of each kind (2-D arrays: no pointer tables)
static const char WORD[K_COUNT][9] = {"if", "if", "ifdef", "ifdef", "ifndef", "ifndef", "elif", "elif", "elifdef", "elifdef",
                                      "elifndef", "elifndef", "else", "endif", "define", "error", ""};
static const unsigned WLEN[K_COUNT] = {2, 2, 5, 5, 6, 6, 4, 4, 7, 7, 8, 8, 4, 5, 6, 5, 0};
static const char ARG[K_COUNT][2] = {"1", "0", "D", "U", "U", "D", "1", "0", "D", "U", "U", "D", "", "", "X", "e", ""};

static int kind[NLINES + 1];
static int cur_line;         // token level: line of the directive whose command word was delivered last
static int protocol_error;
static bool survived[NLINES + 1], defined_at[NLINES + 1], error_at[NLINES + 1];
static int files_done;
static int line_base;        // character level: line number (0-based) of the first line of the current file

#if !CHARLEVEL
// ---- the line-level reader ------------------------------------------------------------------------------------------
static int rd_line;          // index of the line being read
static int rd_phase;         // 0 line start, 1 after '#', 2 after the marker character, 3 command pending, 4 args pending

int CPPPreprocessor::get() {
  if (rd_line >= NLINES) return EOF;
  int k = kind[rd_line];
  switch (rd_phase) {
  case 0:
    if (k == K_MARKER) { rd_phase = 2; _start_of_line = false; return 'M'; }
    rd_phase = 1;
    return '#';                          // '#' leaves _start_of_line as it is (real get())
  case 1:
    rd_phase = 3; _start_of_line = false;
    return 'x';                          // first character of the command word
  case 2:
    rd_line++; rd_phase = 0; _start_of_line = true;
    return '\n';
  default:
    protocol_error = 1;
    return EOF;
  }
}
int CPPPreprocessor::skip_whitespace(int c) { return c; }
int CPPPreprocessor::skip_comment(int c) { return c; }

int CPPPreprocessor::get_preprocessor_command(int c, std::string &command) {
  if (rd_phase != 3 || rd_line >= NLINES) { protocol_error = 1; return EOF; }
  int k = kind[rd_line];
  command.assign(WORD[k], WLEN[k]);
  cur_line = rd_line;
  rd_phase = 4;
  return ' ';
}

int CPPPreprocessor::get_preprocessor_args(int c, std::string &args) {
  if (rd_phase != 4 || rd_line >= NLINES) { protocol_error = 1; return EOF; }
  int k = kind[rd_line];
  args.assign(ARG[k], ARG[k][0] ? 1 : 0);
  rd_line++; rd_phase = 0; _start_of_line = true;
  return '\n';
}
#define LINE_OF(loc) cur_line
#else
#define LINE_OF(loc) ((loc).first_line - 1 - line_base)
#endif

// ---- cut points below the conditional logic -------------------------------------------------------------------------
bool CPPPreprocessor::is_manifest_defined(const std::string &name) const {
  return name.size() == 1 && name[0] == 'D';
}
void CPPPreprocessor::expand_manifests(std::string &expr, bool expand_undefined, const CPPManifest::Ignores &ignores) const {}
static int if_truth;
static char dummy_expr[sizeof(CPPExpression)] __attribute__((aligned(16)));
bool CPPExpressionParser::parse_expr(const std::string &expr, const CPPPreprocessor &filepos) {
  if_truth = (expr.size() == 1 && expr[0] == '1');
  _expr = reinterpret_cast<CPPExpression *>(dummy_expr);       // never dereferenced: evaluate() is cut as well
  return true;
}
CPPExpression::Result CPPExpression::evaluate() const {
  Result r;
  r._type = RT_integer;
  r._u._pointer = nullptr;        // all bytes of the union defined (the value travels in a register pair)
  r._u._integer = if_truth;
  return r;
}
void CPPPreprocessor::handle_define_directive(const std::string &args, const YYLTYPE &loc) {
  int l = LINE_OF(loc);
  if (l >= 0 && l < NLINES) defined_at[l] = true; else protocol_error = 1;
}
void CPPPreprocessor::handle_error_directive(const std::string &args, const YYLTYPE &loc) {
  int l = LINE_OF(loc);
  if (l >= 0 && l < NLINES) error_at[l] = true; else protocol_error = 1;
}

// ---- one file: reference machine (C11 6.10.1), driver, comparison --------------------------------------------------
struct Frame { bool parent_active, taken, active; };

#if CHARLEVEL
// One stream per file (the stream model has a pool of 6 buffers, so a residue class holds at most 6 files; buffers
// stay below CBMC's 64-element limit for per-element constant propagation where possible).  Every file ends with a
// sentinel line "Z": the driver stops there, the end of the stream is never read.
#define LMAX 24
#define MAXFILES 6
static char textbuf[MAXFILES][NLINES * LMAX + 4];
static char *text;
static int put(int n, const char *s) { while (*s) text[n++] = *s++; return n; }
static int build_text(int n) {
  for (int i = 0; i < NLINES; i++) {
    int k = kind[i];
    if (k == K_MARKER) {
      if (DECOR == 1) n = put(n, "  ");
      n = put(n, "M");
      if (DECOR == 2) n = put(n, " /* #else */");
      if (DECOR == 3) n = put(n, " // #endif");
    } else {
      if (DECOR == 1) n = put(n, "  #  "); else n = put(n, "#");
      n = put(n, WORD[k]);
      if (ARG[k][0]) { n = put(n, " "); n = put(n, ARG[k]); }
      if (DECOR == 1) n = put(n, "  ");
      if (DECOR == 2) n = put(n, " /* # */");
      if (DECOR == 3) n = put(n, " // #");
    }
    n = put(n, "\n");
  }
  n = put(n, "Z\n");
  return n;
}
#endif

static void __attribute__((noinline)) run_file(CPPPreprocessor *pp) {
  bool want_survive[NLINES], want_define[NLINES], want_error[NLINES];
  Frame st[NLINES + 1];
  int depth = 0;
  for (int i = 0; i < NLINES; i++) {
    int k = kind[i];
    bool active = depth == 0 ? true : st[depth - 1].active;
    want_survive[i] = want_define[i] = want_error[i] = false;
    survived[i] = defined_at[i] = error_at[i] = false;
    if (is_open(k)) {
      Frame f; f.parent_active = active; f.taken = active && cond_true(k); f.active = f.taken;
      st[depth] = f;
      depth++;
    } else if (is_elif(k) || k == K_ELSE) {
      Frame &f = st[depth - 1];
      bool c = (k == K_ELSE) ? true : cond_true(k);
      f.active = f.parent_active && !f.taken && c;
      if (f.active) f.taken = true;
    } else if (k == K_ENDIF) depth--;
    else if (k == K_MARKER) want_survive[i] = active;
    else if (k == K_DEFINE) want_define[i] = active;
    else if (k == K_ERROR) want_error[i] = active;
  }

  // driver: the directive dispatch of internal_get_next_token
  protocol_error = 0; cur_line = 0;
#if !CHARLEVEL
  pp->_start_of_line = true;
#endif
  bool consumed = false;
#if CHARLEVEL
  text = textbuf[files_done < MAXFILES ? files_done : MAXFILES - 1];
  files_done++;
  int n = build_text(0);
  CPPPreprocessor::InputFile *in = new CPPPreprocessor::InputFile;
  in->_in = vs_istream_bytes(text, (unsigned)n);
  pp->_infile = in;
  pp->_start_of_line = true;
  pp->_unget = '\0';
  int c = pp->skip_whitespace(pp->get());
  line_base = 0;
  for (int step = 0; step < 2 * NLINES + 2; step++) {
    if (c == 'Z') { consumed = true; break; }
    if (c == EOF) break;
    if (c == '#' && pp->_start_of_line) {
      c = pp->skip_whitespace(pp->process_directive(c));
    } else if (c == 'M') {
      int l = pp->get_line_number() - 1 - line_base;
      if (l >= 0 && l < NLINES) survived[l] = true; else protocol_error = 1;
      c = pp->skip_whitespace(pp->get());
    } else {
      protocol_error = 1;
      break;
    }
  }
#else
  rd_line = 0; rd_phase = 0;
  int c = pp->get();
  for (int step = 0; step < 2 * NLINES + 2; step++) {
    if (c == EOF) { consumed = (rd_line == NLINES); break; }
    if (c == '#' && pp->_start_of_line) {
      c = pp->process_directive(c);
      c = pp->get();
    } else if (c == 'M') {
      survived[rd_line] = true;
      c = pp->get();
    } else {
      c = pp->get();
    }
  }
#endif
  ASSERT(consumed, "C09 the whole file is consumed, nothing beyond it");
  ASSERT(protocol_error == 0, "C09 directives are read as command word then arguments, on their own lines");
  bool same = true, defs = true, errs = true;
  for (int i = 0; i < NLINES; i++) {
    if (survived[i] != want_survive[i]) same = false;
    if (defined_at[i] != want_define[i]) defs = false;
    if (error_at[i] != want_error[i]) errs = false;
  }
  ASSERT(same, "C09 the text lines that reach the parser are exactly those in the groups a conforming preprocessor keeps");
  ASSERT(defs, "C09 #define is acted upon exactly in kept groups");
  ASSERT(errs, "C09 #error is acted upon exactly in kept groups");
}

// ---- enumeration of the well-nested files ------------------------------------------------------------------------------
// The table of all well-nested files of NLINES lines is generated by harness/c09_gen_files.py (enumerating inside the
// query by recursion costs more symbolic-execution time than the code under test).
#include "c09_files.h"
#define CAT2(a, b) a##b
#define CAT(a, b) CAT2(a, b)
#ifndef FILESET
#define FILESET F           // F: all 17 kinds per line; R: 7 classes, spelling by line number
#endif
#define NFILES CAT(CAT(C09_NFILES_, FILESET), NLINES)
#define FILES CAT(CAT(C09_FILES_, FILESET), NLINES)

extern "C" void harness_c09_cond() {
  CPPPreprocessor *pp = new CPPPreprocessor;
  int leaves_run = 0;
  for (int f = PART; f < NFILES; f += NPARTS) {
    for (int i = 0; i < NLINES; i++) kind[i] = FILES[f][i];
    run_file(pp);
    leaves_run++;
  }
  ASSERT(leaves_run > 0, "C09 harness: this residue class is not empty");
  WITNESS();
}
