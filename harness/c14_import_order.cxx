// C14 (reproducible output): the table of externally imported types in the generated code is sorted by a name key
// precisely because the set it comes from (std::set<CPPType *>) is in POINTER order.  The output is independent
// of the heap layout only if that key never ties for two distinct types.
//
// The harness calls the REAL comparator: the lambda of the std::sort in
// InterfaceMakerPythonNative::write_prototypes (interfaceMakerPythonNative.cxx), exported from its TU by symbol
// name (it has internal linkage; clang and g++ mangle a local lambda differently).  If the lambda disappears or
// changes its signature the harness no longer links, which vcheck reports as an error.
// The types are built with the real constructors: nested classes Outer1::Inner1 and Outer2::Inner2 whose enclosing
// scopes hang off a file scope, the shape the parser builds for `class NameTable { class Entry; }`.
#include "verif.h"
#include "cppStructType.h"
#include "cppScope.h"
#include "cppIdentifier.h"
#include "cppParser.h"
#include <stdio.h>

extern CPPParser parser;      // the global scope of interrogate (interrogate.cxx)

#ifdef __clang__
// lowering (clang -O1 -fno-inline): the unused closure argument is removed from the internal function
bool import_less_real(const CPPType *a, const CPPType *b)
  asm("_ZZN26InterfaceMakerPythonNative16write_prototypesERSoPSoENK3$_0clEPK7CPPTypeS5_");
static bool import_less(const CPPType *a, const CPPType *b) { return import_less_real(a, b); }
#else
// native replay (g++ -O0): operator() of the closure type, with its `this`
bool import_less_real(const void *closure, const CPPType *a, const CPPType *b)
  asm("_ZZN26InterfaceMakerPythonNative16write_prototypesERSoPSoENKUlPK7CPPTypeS4_E_clES4_S4_");
static char closure_object;
static bool import_less(const CPPType *a, const CPPType *b) { return import_less_real(&closure_object, a, b); }
#endif

#define NOINL __attribute__((noinline))

// class <name> { ... };  declared in `parent`
NOINL static CPPStructType *make_class(CPPScope *parent, const std::string &name) {
  CPPIdentifier *ident = new CPPIdentifier(name);
  CPPScope *scope = new CPPScope(parent, CPPNameComponent(name), V_private);
  CPPStructType *st = new CPPStructType(CPPExtensionType::T_class, ident, parent, scope, CPPFile());
  scope->set_struct_type(st);
  return st;
}

NOINL static void check_strict_order(const CPPType *a, const CPPType *b) {
  bool ab = import_less(a, b), ba = import_less(b, a);
#ifdef VERIF_NATIVE
  printf("key(a)=\"%s\" key(b)=\"%s\" simple(a)=\"%s\" simple(b)=\"%s\" less(a,b)=%d less(b,a)=%d\n",
         a->get_local_name(&parser).c_str(), b->get_local_name(&parser).c_str(), a->get_simple_name().c_str(),
         b->get_simple_name().c_str(), (int)ab, (int)ba);
#endif
  ASSERT(!(ab && ba), "C14 import-table comparator is asymmetric");
  ASSERT(ab || ba, "C14 import-table comparator never ties for two distinct types: the table order does not depend on heap addresses");
  ASSERT(!import_less(a, a) && !import_less(b, b), "C14 import-table comparator is irreflexive");
}

extern "C" void harness_c14_import_order() {
  __ll2c_global_ctors();
  // The file scope.  In interrogate it is `parser` itself (CPPParser derives from CPPScope); constructing a CPPParser
  // drags in the whole preprocessor, so the classes hang off a plain CPPScope with an empty name instead, which the
  // name functions treat the same way (CPPScope::get_local_name stops at a scope without parent and an empty name
  // adds no prefix).  `&parser` is what the real lambda passes down as the reference scope.
  CPPScope *global = new CPPScope(nullptr, CPPNameComponent(""), V_public);
  CPPStructType *name_table = make_class(global, std::string("NameTable"));
  CPPStructType *slot_table = make_class(global, std::string("SlotTable"));
  CPPStructType *nt_entry = make_class(name_table->get_scope(), std::string("Entry"));   // NameTable::Entry
  CPPStructType *st_entry = make_class(slot_table->get_scope(), std::string("Entry"));   // SlotTable::Entry
  check_strict_order(name_table, slot_table);      // control: different simple names
  check_strict_order(nt_entry, st_entry);          // same simple name, different enclosing class
  check_strict_order(name_table, nt_entry);
  WITNESS();
}
