// C14 (output is a pure function of the inputs): the bookkeeping records of the interface makers (InterfaceMaker::Object,
// ::Function, ::MakeSeq, ::Property) are heap objects.  Every scalar member the generators later READ must be given its
// documented initial value by the REAL constructor; a member left to whatever the recycled heap chunk contained makes
// the generated tables depend on heap contents (MALLOC_PERTURB_, allocator tunables, earlier allocations).
// Here the storage each object is constructed in has SYMBOLIC previous contents (every byte nondet), so a member the
// constructor does not write keeps a symbolic value and its assertion fails.  Object::check_protocols() only ORs bits
// into _protocol_types: its result must be exactly the function of the methods' flags documented in the source.
#include "verif.h"
#include "interfaceMaker.h"
#include "functionRemap.h"
#include "interrogateType.h"
#include "interrogateFunction.h"
#include "interrogateMakeSeq.h"
#include "interrogateElement.h"
#include <new>
#include <string>

typedef InterfaceMaker IM;

// raw storage whose previous contents are symbolic
template<int N> static void *__attribute__((noinline)) stale(void) {
  unsigned char *p = (unsigned char *)::operator new(N);
  for (int i = 0; i < N; i++) p[i] = nondet_uchar();
  return p;
}
// referents that the constructors only bind references to (never read)
static char itype_store[sizeof(InterrogateType)] __attribute__((aligned(16)));
static char ifunc_store[sizeof(InterrogateFunction)] __attribute__((aligned(16)));
static char imseq_store[sizeof(InterrogateMakeSeq)] __attribute__((aligned(16)));
static char ielem_store[sizeof(InterrogateElement)] __attribute__((aligned(16)));

// the protocol bits documented at InterfaceMaker::Object::check_protocols, written independently as a function of the
// OR of the flags of all constructors and methods
static int want_protocols(int flags) {
  int pt = 0;
  bool seq = (flags & FunctionRemap::F_getitem_int) && (flags & FunctionRemap::F_size);
  if (seq) pt |= IM::Object::PT_sequence;
  if (!seq && (flags & FunctionRemap::F_getitem)) pt |= IM::Object::PT_mapping;
  if (flags & FunctionRemap::F_make_copy) pt |= IM::Object::PT_make_copy;
  if (!(flags & FunctionRemap::F_make_copy) && (flags & FunctionRemap::F_copy_constructor)) pt |= IM::Object::PT_copy_constructor;
  if (flags & FunctionRemap::F_iter) pt |= IM::Object::PT_iter;
  return pt;
}

extern "C" void harness_c14_object_init() {
  const InterrogateType &itype = *(const InterrogateType *)itype_store;
  const InterrogateFunction &ifunc = *(const InterrogateFunction *)ifunc_store;
  const InterrogateMakeSeq &imseq = *(const InterrogateMakeSeq *)imseq_store;
  const InterrogateElement &ielem = *(const InterrogateElement *)ielem_store;

  // ---- Object
  IM::Object *obj = new (stale<sizeof(IM::Object)>()) IM::Object(itype);
  ASSERT(&obj->_itype == &itype, "C14 Object constructor binds its type");
  ASSERT(obj->_protocol_types == 0, "C14 Object::_protocol_types starts at 0 whatever the storage held before (check_protocols only ORs bits in)");
  ASSERT(obj->_constructors.empty() && obj->_methods.empty() && obj->_make_seqs.empty() && obj->_properties.empty(),
         "C14 Object starts without constructors, methods, make_seqs, properties");

  // check_protocols on an object without any function: no protocol
  obj->check_protocols();
  ASSERT(obj->_protocol_types == 0, "C14 an object without methods implements no protocol, whatever the heap held before");

  // ---- Function
  std::string name("f");
  IM::Function *fn = new (stale<sizeof(IM::Function)>()) IM::Function(name, itype, ifunc);
  ASSERT(fn->_has_this == false && fn->_flags == 0 && fn->_args_type == IM::AT_unknown,
         "C14 Function starts with _has_this false, _flags 0, _args_type AT_unknown whatever the storage held before");
  ASSERT(fn->_remaps.empty() && fn->_name.size() == 1 && fn->_name[0] == 'f' && &fn->_itype == &itype && &fn->_ifunc == &ifunc,
         "C14 Function constructor binds name, type and function and starts without remaps");
  IM::Function *ctor = new (stale<sizeof(IM::Function)>()) IM::Function(name, itype, ifunc);

  // ---- MakeSeq
  IM::MakeSeq *ms = new (stale<sizeof(IM::MakeSeq)>()) IM::MakeSeq(name, imseq);
  ASSERT(ms->_length_getter == nullptr && ms->_element_getter == nullptr && &ms->_imake_seq == &imseq && ms->_name.size() == 1,
         "C14 MakeSeq starts without getters whatever the storage held before");

  // ---- Property
  IM::Property *pr = new (stale<sizeof(IM::Property)>()) IM::Property(ielem);
  ASSERT(pr->_length_function == nullptr && pr->_has_function == nullptr && pr->_clear_function == nullptr &&
         pr->_deleter == nullptr && pr->_inserter == nullptr && pr->_getkey_function == nullptr && pr->_has_this == false,
         "C14 Property starts without accessor functions and with _has_this false whatever the storage held before");
  ASSERT(pr->_getter_remaps.empty() && pr->_setter_remaps.empty() && &pr->_ielement == &ielem,
         "C14 Property constructor binds its element and starts without remaps");

  // ---- check_protocols: pure function of the flags of the recorded constructors and methods (symbolic flags)
  int f1 = nondet_int(), f2 = nondet_int();
  ctor->_flags = f1;
  fn->_flags = f2;
  obj->_constructors.push_back(ctor);
  obj->_methods.push_back(fn);
  obj->check_protocols();
  ASSERT(obj->_protocol_types == want_protocols(f1 | f2),
         "C14 protocol bits are exactly the documented function of the methods' flags (no stale bits)");
  WITNESS();
}
