// C19 / C14 / C15(exit status): the real main() of interrogate.cxx, whole, with fault schedules symbolic.
//
// Everything main() calls outside its own TU (+ filename.cxx) is defined here as a small stand-in:
// the parser/builder/database entry points perform a few insertions on the stream they are handed,
// getopt_long_only returns a symbolic subset of {-oc, -od, -oh}, getenv/time are symbolic (C14).
#include "verif.h"
#include "vstream.h"
#include "interrogateBuilder.h"
#include "interrogateDatabase.h"
#include "cppParser.h"
#include <getopt.h>
#include <new>
#include <string.h>

extern "C" {
void vs_set_fault_mode(unsigned);
unsigned vs_get_any_lost();
extern int verif_exited, verif_exit_code;
}

#ifndef OPTMASK
#define OPTMASK 7
#endif
int real_main(int, char **) asm("main");

// ---- symbolic scenario
static bool g_parse_ok, g_want_oc, g_want_od, g_want_oh;
static int g_opt_step;
static bool g_env_set;
static char g_env[4];
static long g_time;
static int g_ident_seen, g_ident_calls;
static InterrogateModuleDef g_def;
static InterrogateModuleDef *g_def_code, *g_def_data;
static bool g_wrote_code, g_wrote_data, g_wrote_text, g_built;

// ---- cut points of interrogate.cxx (their TUs are not linked)
void preprocess_argv(int &, char **&) {}
void stub_CPPParser_ctor(CPPParser *self) asm("_ZN9CPPParserC1Ev");
void stub_CPPParser_ctor(CPPParser *self) { new (&self->_explicit_files) std::set<Filename>; }
bool CPPParser::parse_file(const Filename &) { return g_parse_ok; }
void InterrogateBuilder::add_source_file(const std::string &) {}
void InterrogateBuilder::read_command_file(std::istream &) {}
void InterrogateBuilder::build() { g_built = true; }
InterrogateModuleDef *InterrogateBuilder::make_module_def(int file_identifier) {
  g_ident_seen = file_identifier; g_ident_calls++;
  g_def.file_identifier = file_identifier;
  return &g_def;
}
void InterrogateBuilder::write_code(std::ostream &out_code, std::ostream *out_include, InterrogateModuleDef *def) {
  g_wrote_code = true; g_def_code = def;
  out_code << "x" << def->file_identifier << "\n";
}
static InterrogateDatabase *g_db;
InterrogateDatabase *InterrogateDatabase::get_ptr() { return (InterrogateDatabase *)&g_db; }
void InterrogateDatabase::write(std::ostream &out, InterrogateModuleDef *def) const {
  g_wrote_data = true; g_def_data = def;
  out << def->file_identifier << "\n" << "y\n";
}
void InterrogateDatabase::write_text(std::ostream &out) const { g_wrote_text = true; out << "t\n" << "u\n"; }

// path canonicalisation is irrelevant to the property and expensive to execute symbolically: identity stand-ins
void Filename::make_absolute() {}
void Filename::make_absolute(const Filename &) {}

// ---- environment
static char g_optarg_oc[] = "c", g_optarg_od[] = "d", g_optarg_oh[] = "h";
int my_getopt(int argc, char *const *argv, const char *so, const struct option *lo, int *idx) asm("getopt_long_only");
int my_getopt(int argc, char *const *argv, const char *so, const struct option *lo, int *idx) {
  // -oc, -od, -oh in this order, each present or not; the value returned is the one the real table holds
  while (g_opt_step < 3) {
    int k = g_opt_step++;
    bool want = k == 0 ? g_want_oc : (k == 1 ? g_want_od : g_want_oh);
    if (want) { optarg = k == 0 ? g_optarg_oc : (k == 1 ? g_optarg_od : g_optarg_oh); return lo[k].val; }
  }
  optind = 1;
  return -1;
}
char *my_getenv(const char *name) asm("getenv");
char *my_getenv(const char *name) { return g_env_set ? g_env : (char *)0; }
long my_time(long *t) asm("time");
long my_time(long *t) { return g_time; }
long my_strtol(const char *s, char **e, int base) asm("strtol");
long my_strtol(const char *s, char **e, int base) {   // digits only, <= 3 of them (the harness's env alphabet)
  long v = 0;
  for (int i = 0; i < 3 && s[i] >= '0' && s[i] <= '9'; i++) v = v * 10 + (s[i] - '0');
  return v;
}
char *my_getcwd(char *buf, unsigned long n) asm("getcwd");
char *my_getcwd(char *buf, unsigned long n) { buf[0] = '/'; buf[1] = 'w'; buf[2] = 0; return buf; }
int my_chdir(const char *) asm("chdir");
int my_chdir(const char *) { return 0; }
int my_stat(const char *, void *) asm("stat");
int my_stat(const char *, void *) { return -1; }
void my_perror(const char *) asm("perror");
void my_perror(const char *) {}
static int g_errno;
int *my_errno() asm("__errno_location");
int *my_errno() { return &g_errno; }

static void check_exit(int rc) {
  // C19: losing data of a requested output must give a non-zero status
  ASSERT(!(vs_get_any_lost() && rc == 0), "C19 a failed or incomplete output write gives a non-zero exit status");
  // C15 (exit-status clause): a failed parse exits non-zero and writes nothing
  ASSERT(!(!g_parse_ok && (rc == 0 || g_wrote_code || g_wrote_data || g_wrote_text)),
         "C15 a run that reported a parse error exits non-zero and writes no output files");
  // C14: the file identifier is SOURCE_DATE_EPOCH when set and non-empty, else time(); same def in code and database
  if (g_ident_calls > 0) {
    long want = (g_env_set && g_env[0] != 0) ? my_strtol(g_env, 0, 10) : g_time;
    ASSERT(g_ident_seen == (int)want, "C14 file identifier is SOURCE_DATE_EPOCH when set, otherwise the clock");
    ASSERT(!(g_wrote_code && g_wrote_data) || g_def_code == g_def_data, "C14 code and database carry the same file identifier");
  }
}
extern "C" void verif_at_exit() { check_exit(verif_exit_code); }

extern "C" void harness_c19_main() {
  g_parse_ok = nondet_bool();
  // the option subset is concrete per catalogue entry (-DOPTMASK=0..7): a symbolic choice would turn every
  // file-name string into a symbolic-length string at the first merge point
  g_want_oc = (OPTMASK & 1) != 0; g_want_od = (OPTMASK & 2) != 0; g_want_oh = (OPTMASK & 4) != 0;
  g_env_set = nondet_bool();
  for (int i = 0; i < 3; i++) { char c = nondet_char(); ASSUME(c == 0 || (c >= '0' && c <= '9')); g_env[i] = c; }
  g_env[3] = 0;
  g_time = nondet_int();
  ASSUME(g_time >= 0);
  __ll2c_global_ctors();
  vs_set_fault_mode(1);
  static char a0[] = "interrogate", a1[] = "x.h";
  char *argv[3] = {a0, a1, 0};
  int rc = real_main(2, argv);
  check_exit(rc);
  WITNESS();
}
