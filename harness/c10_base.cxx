// C10, one base class:  class B { <special members>; [pure virtual f;] int m; };  class A : public B { [f();] int m; };
// A declares no special member, so its traits are decided by the recursion of CPPStructType::is_* over the base class
// (is_default_constructible(V_protected) etc.) and by get_virtual_funcs matching A::f against B's pure virtual f.
// Same construction and conventions as c10_traits.cxx (which see); oracle c10d_* of c10_oracle.h, validated against
// g++ by c10_oracle_check.py.
#include "verif.h"
#include "cppStructType.h"
#include "cppScope.h"
#include "cppInstance.h"
#include "cppFunctionType.h"
#include "cppFunctionGroup.h"
#include "cppParameterList.h"
#include "cppIdentifier.h"
#include "cppSimpleType.h"
#include "cppConstType.h"
#include "cppReferenceType.h"
#include "cppPointerType.h"
#include "c10_oracle.h"
#include <stdio.h>

#ifndef PRESENCE
#define PRESENCE 0xffff  // bit set over the 16 presence patterns of B (bit p: dc = p&1, cc = p&2, dt = p&4, pv = p&8)
#endif
#ifndef OVERRIDES
#define OVERRIDES 15     // bit 0: A without f; bit 1: A::f `void f()` / B::f `virtual void f() = 0`; bit 2: `B *f()` in both
#endif                   // (identical return type); bit 3: `A *f()` against `virtual B *f() = 0` (covariant return type)
#ifndef DTKINDS
#define DTKINDS 0x1f     // destructor kinds of B to go through when ~B() is declared: bit k-1 for K_USER .. K_PURE
#endif
#ifndef CHECKS
#define CHECKS 0x1f      // 1 default-constructible, 2 copy-constructible, 4 destructible, 8 abstract, 16 polymorphic
#endif

CPPType *CPPType::new_type(CPPType *type) { return type; }

#define NOINL __attribute__((noinline))
static CPPType *t_void, *t_int;

NOINL static CPPInstance *add_function(CPPScope *scope, const char *name, CPPParameterList *params, int flags,
                                       int storage_class, int vis, CPPType *ret = nullptr) {
  CPPFunctionType *ftype = new CPPFunctionType(ret ? ret : t_void, params, flags);
  CPPInstance *inst = new CPPInstance(ftype, std::string(name), storage_class);
  inst->_vis = (CPPVisibility)vis;
  inst->_ident->_native_scope = scope;
  CPPFunctionGroup *fgroup;
  CPPScope::Functions::const_iterator fi = scope->_functions.find(name);
  if (fi == scope->_functions.end()) {
    fgroup = new CPPFunctionGroup(name);
    scope->_functions.insert(CPPScope::Functions::value_type(name, fgroup));
  } else {
    fgroup = (*fi).second;
  }
  fgroup->_instances.push_back(inst);
  return inst;
}

NOINL static CPPStructType *make_class(const char *name, CPPScope *&scope) {
  CPPIdentifier *ident = new CPPIdentifier(std::string(name));
  scope = new CPPScope(nullptr, CPPNameComponent(name), V_private);
  CPPStructType *st = new CPPStructType(CPPExtensionType::T_class, ident, nullptr, scope, CPPFile());
  scope->set_struct_type(st);
  st->_incomplete = false;
  CPPInstance *m = new CPPInstance(t_int, std::string("m"));
  m->_vis = V_public;
  scope->_variables[std::string("m")] = m;
  return st;
}

static int storage_of(int kind) {
  switch (kind) {
  case K_DEFAULT: return CPPInstance::SC_defaulted;
  case K_DELETE: return CPPInstance::SC_deleted;
  case K_VIRTUAL: return CPPInstance::SC_virtual;
  case K_PURE: return CPPInstance::SC_virtual | CPPInstance::SC_pure_virtual;
  default: return 0;
  }
}
static int pick_vis() {
  int vis = nondet_int();
  ASSUME(vis >= A_PUBLIC && vis <= A_PRIVATE);
  return vis;
}

NOINL static void check_traits(CPPStructType *A, C10Bits b, int ov) {
#ifdef VERIF_NATIVE
  printf("class B: default ctor kind=%d access=%d, copy ctor kind=%d access=%d, destructor kind=%d access=%d, pure virtual f=%d; "
         "class A : public B {%s int m; }\n", b.dc, b.dc_vis, b.cc, b.cc_vis, b.dt, b.dt_vis, b.pv,
         ov == 0 ? "" : ov == 1 ? " void f(); /* B: virtual void f() = 0 */" : ov == 2 ? " B *f(); /* B: virtual B *f() = 0 */" : " A *f(); /* B: virtual B *f() = 0 */");
  printf("  (kind: 0 none 1 user 2 =default 3 =delete 4 virtual 5 pure virtual; access: 1 public 2 protected 3 private)\n");
  printf("  interrogate on A: abstract=%d polymorphic=%d destructible=%d default_constructible=%d copy_constructible=%d\n",
         (int)A->is_abstract(), (int)A->is_polymorphic(), (int)A->is_destructible(), (int)A->is_default_constructible(), (int)A->is_copy_constructible());
  printf("  C++ (g++) on A:   abstract=%d polymorphic=%d destructible=%d default_constructible=%d copy_constructible=%d\n",
         (int)c10d_abstract(b, ov), (int)c10d_polymorphic(b, ov), (int)c10d_destructible(b, ov), (int)c10d_default_constructible(b, ov),
         (int)c10d_copy_constructible(b, ov));
#endif
#if CHECKS & 8
  ASSERT(A->is_abstract() == c10d_abstract(b, ov), "C10 derived class: is_abstract equals the C++ rule [class.abstract]");
#endif
#if CHECKS & 16
  ASSERT(A->is_polymorphic() == c10d_polymorphic(b, ov), "C10 derived class: is_polymorphic equals the C++ rule [class.virtual]");
#endif
#if CHECKS & 4
  ASSERT(A->is_destructible() == c10d_destructible(b, ov), "C10 derived class: is_destructible equals std::is_destructible [class.dtor]");
#endif
#if CHECKS & 1
  ASSERT(A->is_default_constructible() == c10d_default_constructible(b, ov),
         "C10 derived class: is_default_constructible equals std::is_default_constructible [class.default.ctor]");
#endif
#if CHECKS & 2
  ASSERT(A->is_copy_constructible() == c10d_copy_constructible(b, ov),
         "C10 derived class: is_copy_constructible equals std::is_copy_constructible [class.copy.ctor]");
#endif
}

NOINL static void check_pair(int presence, int ov) {
  C10Bits b;
  b.dc = K_NONE; b.dc_vis = A_PUBLIC; b.cc = K_NONE; b.cc_vis = A_PUBLIC; b.dt = K_NONE; b.dt_vis = A_PUBLIC;
  b.pv = (presence & 8) ? 1 : 0;
  b.mem = M_INT;

  CPPScope *bs, *as;
  CPPStructType *B = make_class("B", bs);
  CPPInstance *dc = nullptr, *cc = nullptr, *dt = nullptr;
  if (presence & 1) dc = add_function(bs, "B", new CPPParameterList, CPPFunctionType::F_constructor, 0, A_PUBLIC);
  if (presence & 2) {
    CPPParameterList *params = new CPPParameterList;
    CPPType *const_b_ref = new CPPReferenceType(new CPPConstType(B), CPPReferenceType::VC_lvalue);
    params->_parameters.push_back(new CPPInstance(const_b_ref, std::string("copy")));
    cc = add_function(bs, "B", params, CPPFunctionType::F_constructor | CPPFunctionType::F_copy_constructor, 0, A_PUBLIC);
  }
  if (presence & 4) dt = add_function(bs, "~B", new CPPParameterList, CPPFunctionType::F_destructor, 0, A_PUBLIC);
  CPPType *b_ptr = new CPPPointerType(B);
  if (presence & 8) add_function(bs, "f", new CPPParameterList, 0, CPPInstance::SC_virtual | CPPInstance::SC_pure_virtual, A_PUBLIC,
                                 ov >= 2 ? b_ptr : t_void);

  CPPStructType *A = make_class("A", as);
  A->append_derivation(B, V_public, false);              // class A : public B
  if (ov) add_function(as, "f", new CPPParameterList, 0, 0, A_PUBLIC,       // void f();  /  B *f();  /  A *f();
                       ov == 1 ? t_void : ov == 2 ? b_ptr : (CPPType *)new CPPPointerType(A));

  for (int dck = K_USER; dck <= K_DELETE; dck++) {
    if (!dc && dck != K_USER) continue;
    for (int cck = K_USER; cck <= K_DELETE; cck++) {
      if (!cc && cck != K_USER) continue;
      for (int dtk = K_USER; dtk <= K_PURE; dtk++) {
        if (!dt && dtk != K_USER) continue;
        if (dt && !((DTKINDS >> (dtk - 1)) & 1)) continue;
        if (dc) { b.dc = dck; b.dc_vis = pick_vis(); dc->_storage_class = storage_of(dck); dc->_vis = (CPPVisibility)b.dc_vis; }
        if (cc) { b.cc = cck; b.cc_vis = pick_vis(); cc->_storage_class = storage_of(cck); cc->_vis = (CPPVisibility)b.cc_vis; }
        if (dt) { b.dt = dtk; b.dt_vis = pick_vis(); dt->_storage_class = storage_of(dtk); dt->_vis = (CPPVisibility)b.dt_vis; }
        ASSUME(c10d_well_formed(b));
        check_traits(A, b, ov);
      }
    }
  }
}

extern "C" void harness_c10_base() {
  t_void = new CPPSimpleType(CPPSimpleType::T_void);
  t_int = new CPPSimpleType(CPPSimpleType::T_int);
  for (int ov = 0; ov < 4; ov++) {
    if (!((OVERRIDES >> ov) & 1)) continue;
    for (int presence = 0; presence < 16; presence++) {
      if (!((PRESENCE >> presence) & 1)) continue;
      check_pair(presence, ov);
    }
  }
  WITNESS();
}
