// C18: number formatter (pdtoa.cxx) and locale-independent parser (pstrtod.cxx).
#include "verif.h"
#include "pstrtod.h"
#include "pdtoa.h"
#include <string.h>

struct DiyFpLike { uint64_t f; int e; };
void Prettify_real(char *buffer, int length, int k) asm("_ZL8PrettifyPcii");
DiyFpLike GetCachedPower_real(int e, int *K) asm("_ZL14GetCachedPoweriPi");

#ifndef LMAX
#define LMAX 17
#endif

// ---- Prettify: reference *reader* of the printed text (an inverse, not a second printer)
extern "C" void harness_c18_prettify() {
  char buf[48];
  char dig[LMAX];
  int len = nondet_int();
  ASSUME(len >= 1 && len <= LMAX);
  for (int i = 0; i < LMAX; i++) {
    char c = nondet_char();
    ASSUME(c >= '0' && c <= '9');
    dig[i] = c;
    buf[i] = c;
  }
  ASSUME(dig[0] != '0');             // Grisu never emits a leading zero
  int k = nondet_int();
  ASSUME(k >= -340 && k <= 310);
  for (int i = LMAX; i < 48; i++) buf[i] = 'X';
  Prettify_real(buf, len, k);
  // read back: mantissa digits (skipping '.'), position of the point, exponent
  int p = 0, nd = 0, point = -1, exp10 = 0;
  char got[LMAX + 24];
  bool ok = true;
  while (p < 47 && ((buf[p] >= '0' && buf[p] <= '9') || buf[p] == '.')) {
    if (buf[p] == '.') { if (point >= 0) ok = false; point = nd; }
    else { if (nd < LMAX + 24) got[nd] = buf[p]; nd++; }
    p++;
  }
  if (point < 0) point = nd;
  if (buf[p] == 'e') {
    p++;
    bool neg = false;
    if (buf[p] == '-') { neg = true; p++; }
    int e = 0, ed = 0;
    while (p < 47 && buf[p] >= '0' && buf[p] <= '9') { e = e * 10 + (buf[p] - '0'); p++; ed++; }
    if (ed == 0) ok = false;
    exp10 = neg ? -e : e;
  }
  ASSERT(ok, "C18 Prettify output is a well-formed decimal literal");
  ASSERT(p < 47 && buf[p] == 0, "C18 Prettify output is NUL-terminated right after the literal and stays within 25+LMAX bytes");
  // value denoted: 0.got * 10^(point+exp10); the input denotes dig[0..len) * 10^k = 0.dig * 10^(len+k).
  // strip leading zeros of got
  int lead = 0;
  while (lead < nd && lead < LMAX + 24 && got[lead] == '0') lead++;
  int scale_got = point + exp10 - lead;
  int scale_in = len + k;
  ASSERT(scale_got == scale_in, "C18 Prettify keeps the decimal exponent");
  bool same = true;
  for (int i = 0; i < LMAX + 24; i++) {
    char a = (i < len) ? dig[i] : '0';
    char b = (lead + i < nd && lead + i < LMAX + 24) ? got[lead + i] : '0';
    if (a != b) same = false;
  }
  ASSERT(same, "C18 Prettify keeps every significant digit");
  WITNESS();
}

// ---- GetCachedPower: table index in range and the Grisu window holds for every exponent Grisu2 can pass
extern "C" void harness_c18_cachedpower() {
  int e = nondet_int();
  ASSUME(e >= -1137 && e <= 960);
  int K = 0;
  DiyFpLike c = GetCachedPower_real(e, &K);
  int sum = e + c.e + 64;
  ASSERT(sum >= -60 && sum <= -32, "C18 GetCachedPower result lies in the Grisu window alpha..gamma");
  ASSERT(K >= -340 && K <= 348 && ((K + 348) % 8) == 0, "C18 GetCachedPower decimal exponent is a table entry");
  WITNESS();
}

// ---- pstrtod: correct rounding of short decimal literals (Clinger fast-path region)
#ifndef NI
#define NI 2
#endif
#ifndef NF
#define NF 2
#endif
#ifndef EMAX
#define EMAX 3
#endif
extern "C" void harness_c18_pstrtod() {
  char s[NI + NF + 8];
  int p = 0;
  int ni = nondet_int(), nf = nondet_int();
  ASSUME(ni >= 0 && ni <= NI && nf >= 0 && nf <= NF && ni + nf >= 1);
  bool neg = nondet_bool();
  if (neg) s[p++] = '-';
  long m = 0;
  for (int i = 0; i < NI; i++) if (i < ni) { char c = nondet_char(); ASSUME(c >= '0' && c <= '9'); s[p++] = c; m = m * 10 + (c - '0'); }
  bool dot = nondet_bool();
  ASSUME(nf == 0 || dot);
  if (dot) s[p++] = '.';
  for (int i = 0; i < NF; i++) if (i < nf) { char c = nondet_char(); ASSUME(c >= '0' && c <= '9'); s[p++] = c; m = m * 10 + (c - '0'); }
  int ex = nondet_int();
  ASSUME(ex >= -EMAX && ex <= EMAX);
  bool has_e = nondet_bool();
  ASSUME(has_e || ex == 0);
  if (has_e) {
    s[p++] = 'e';
    int a = ex;
    if (a < 0) { s[p++] = '-'; a = -a; }
    s[p++] = (char)('0' + a);
  }
  int end = p;
  s[p++] = 0;
  char *ep = 0;
  double got = pstrtod(s, &ep);
  static const double p10[12] = {1e0, 1e1, 1e2, 1e3, 1e4, 1e5, 1e6, 1e7, 1e8, 1e9, 1e10, 1e11};
  int k = ex - nf;
  // m < 10^(NI+NF) and 10^|k| are exact doubles, so one IEEE operation is the correctly rounded value
  double want = k >= 0 ? (double)m * p10[k] : (double)m / p10[-k];
  if (neg) want = -want;
  ASSERT(ep == s + end, "C18 pstrtod consumes exactly the literal");
  ASSERT(got == want, "C18 pstrtod returns the correctly rounded double of a short decimal literal");
  WITNESS();
}

// ---- pstrtod: no digits => 0.0 and endptr == nptr; integers are exact
extern "C" void harness_c18_pstrtod_nodigits() {
  char s[4];
  for (int i = 0; i < 3; i++) { char c = nondet_char(); ASSUME(c == '.' || c == '+' || c == '-' || c == 'e' || c == ' ' || c == 0 || c == 'x'); s[i] = c; }
  s[3] = 0;
  ASSUME(s[0] != 'e' && s[0] != 'x');   // alphabetic starts go to the system strtod (outside the claim)
  ASSUME(!((s[0] == '+' || s[0] == '-' || s[0] == ' ') && (s[1] == 'e' || s[1] == 'x')));
  ASSUME(!((s[0] == ' ') && (s[1] == '+' || s[1] == '-' || s[1] == ' ') && (s[2] == 'e' || s[2] == 'x')));
  char *ep = 0;
  double got = pstrtod(s, &ep);
  ASSERT(got == 0.0 && ep == s, "C18 pstrtod on text without digits returns 0 and leaves endptr at the start");
  WITNESS();
}

// ---- independent IEEE-754 binary64 decoding of a finite bit pattern: value = f * 2^e exactly
//      (biased exponent 0: no hidden bit, fixed exponent -1074; otherwise hidden bit and biased_e - 1075)
static inline void ieee_decode(unsigned long bits, unsigned long *f, long *e) {
  unsigned long be = (bits >> 52) & 0x7ff;
  unsigned long mant = bits & 0xfffffffffffffUL;
  if (be == 0) { *f = mant; *e = -1074; }
  else { *f = mant | 0x10000000000000UL; *e = (long)be - 1075; }
}

void DiyFp_from_double(DiyFpLike *self, double d) asm("_ZN5DiyFpC2Ed");
void NormalizedBoundaries_real(const DiyFpLike *self, DiyFpLike *minus, DiyFpLike *plus) asm("_ZNK5DiyFp20NormalizedBoundariesEPS_S0_");

// ---- DiyFp(double): the real constructor decodes EVERY finite double exactly (zero, subnormals, normals, both signs:
//      DiyFp ignores the sign bit, Grisu2 is only called on |value|)
extern "C" void harness_c18_diyfp() {
  unsigned long bits = nondet_ulong();
  unsigned long be = (bits >> 52) & 0x7ff;
  ASSUME(be != 0x7ff);                                           // finite
  union { double d; unsigned long u; } v;
  v.u = bits;
  DiyFpLike w;
  w.f = 0xdeadbeefUL; w.e = 12345;
  DiyFp_from_double(&w, v.d);
  unsigned long f; long e;
  ieee_decode(bits, &f, &e);
  ASSERT(w.f == f, "C18 DiyFp(double) significand: hidden bit exactly for normal doubles, none for subnormals");
  ASSERT(w.e == (int)e, "C18 DiyFp(double) exponent: biased_e - 1075 for normals, -1074 for subnormals (f * 2^e is the double)");
  // the decomposition is injective on the magnitude: recompose the bit pattern from (f, e)
  unsigned long back = (w.f >> 52) ? (((unsigned long)(w.e + 1075) << 52) | (w.f & 0xfffffffffffffUL)) : w.f;
  ASSERT(back == (bits & 0x7fffffffffffffffUL), "C18 DiyFp(double) recomposes to the magnitude bit pattern");
  WITNESS();
}

// ---- Grisu boundaries: m- / m+ of a double are the exact midpoints to its neighbours
// Domain: every positive finite non-zero double below the top binade edge: subnormals (biased exponent 0, mantissa != 0),
// the smallest normal binade, and all normals whose successor is finite.
// Precondition of the real NormalizedBoundaries: f != 0 (NormalizeBoundary loops forever on 0 and (f<<1)-1 wraps);
// pdtoa() handles 0.0 before calling Grisu2, so the precondition holds at the only call site.
extern "C" void harness_c18_boundaries() {
  unsigned long bits = nondet_ulong();
  unsigned long ex = (bits >> 52) & 0x7ff;
  ASSUME((bits >> 63) == 0 && ex <= 0x7fd && bits != 0);          // positive, non-zero, successor finite
#ifdef C18_NORMAL_ONLY
  ASSUME(ex >= 2);
#endif
  union { double d; unsigned long u; } v, lo, hi;
  v.u = bits; lo.u = bits - 1; hi.u = bits + 1;                   // predecessor and successor doubles (lo may be +0)
  DiyFpLike w, m, p;
  DiyFp_from_double(&w, v.d);
  NormalizedBoundaries_real(&w, &m, &p);
  // significands and unbiased exponents (value = f * 2^e), decoded independently of the code under test
  unsigned long fv, fl, fh; long ev, el, eh;
  ieee_decode(bits, &fv, &ev);
  ieee_decode(lo.u, &fl, &el);
  ieee_decode(hi.u, &fh, &eh);
  ASSERT(w.f == fv && w.e == (int)ev, "C18 DiyFp(double) decomposes the double exactly");
  // midpoints scaled to the exponent e0 = min(e) - 1:  mid = (a*2^ea + b*2^eb) / 2
  long e0 = (el < ev ? el : ev) - 1;
  unsigned long mid_lo = (fv << (ev - e0 - 1)) + (fl << (el - e0 - 1));
  long e1 = ev - 1;                                              // eh >= ev
  unsigned long mid_hi = (fv << (ev - e1 - 1)) + (fh << (eh - e1 - 1));
  ASSERT(m.e == p.e, "C18 Grisu boundaries share one exponent");
  ASSERT(p.e <= e1 && (e1 - p.e) < 64 && p.f == (mid_hi << (e1 - p.e)) && ((mid_hi << (e1 - p.e)) >> (e1 - p.e)) == mid_hi,
         "C18 upper Grisu boundary is the midpoint to the successor double");
  ASSERT((p.f >> 63) == 1, "C18 upper Grisu boundary is normalised");
  ASSERT(ex == 0 || (e1 - p.e) == 10, "C18 a normal double's boundaries are scaled by exactly 2^10");
  if (bits == 0x0010000000000000UL) {
    // DBL_MIN: the real code treats every f == 2^52 as a binade edge with a narrower lower gap, but the predecessor
    // (largest subnormal) is at the SAME distance as the successor.  The real lower boundary v - 2^-1076 is inside
    // the true rounding interval (tighter than the midpoint v - 2^-1075): sound for round-trip, possibly not shortest.
    // Claimed here: the boundary lies in [midpoint, v).
    unsigned long vs = fv << (ev - e0);                            // v at exponent e0
    ASSERT(m.e <= e0 && (e0 - m.e) < 64 && m.f >= (mid_lo << (e0 - m.e)) && m.f < (vs << (e0 - m.e)),
           "C18 lower Grisu boundary of DBL_MIN lies between the midpoint to the predecessor and the value");
  } else {
    ASSERT(m.e <= e0 && (e0 - m.e) < 64 && m.f == (mid_lo << (e0 - m.e)) && ((mid_lo << (e0 - m.e)) >> (e0 - m.e)) == mid_lo,
           "C18 lower Grisu boundary is the midpoint to the predecessor double");
  }
  ASSERT(m.f < p.f, "C18 Grisu interval is non-empty");
  WITNESS();
}

// ---- pstrtod on long integer literals (mantissa saturation region): within 2^-51 relative of the exact value
#ifndef NLONG
#define NLONG 20
#endif
extern "C" void harness_c18_pstrtod_long() {
  char s[NLONG + 2];
  unsigned __int128 exact = 0;
  for (int i = 0; i < NLONG; i++) {
    char c = nondet_char();
    ASSUME(c >= '0' && c <= '9');
    s[i] = c;
    exact = exact * 10 + (unsigned)(c - '0');
  }
  ASSUME(s[0] != '0');
  s[NLONG] = 0;
  char *ep = 0;
  double got = pstrtod(s, &ep);
  ASSERT(ep == s + NLONG, "C18 pstrtod consumes a long literal completely");
  // a NLONG-digit integer without leading zero lies in [10^(NLONG-1), 10^NLONG]: cheap magnitude bracket that any
  // wrap-around or dropped digit of the mantissa accumulation violates (the 2^-51 relative bound below is only
  // compiled in with -DLONG_PRECISE: it needs a 128-bit product comparison that the SAT back end does not finish)
  static const double p10[23] = {1e0, 1e1, 1e2, 1e3, 1e4, 1e5, 1e6, 1e7, 1e8, 1e9, 1e10, 1e11, 1e12, 1e13, 1e14, 1e15,
                                 1e16, 1e17, 1e18, 1e19, 1e20, 1e21, 1e22};
  ASSERT(got >= p10[NLONG - 1] && got <= p10[NLONG], "C18 pstrtod of a long integer literal has the magnitude of its digit count");
  // leading digits: the first digit d brackets the value in [d*10^(n-1), (d+1)*10^(n-1)]
  double d0 = (double)(s[0] - '0');
  ASSERT(got >= d0 * p10[NLONG - 1] && got <= (d0 + 1.0) * p10[NLONG - 1], "C18 pstrtod of a long integer literal keeps its leading digit");
#ifdef LONG_PRECISE
  unsigned __int128 g = (unsigned __int128)got;                   // doubles >= 2^53 are integers: exact conversion
  unsigned __int128 tol = exact >> 51;
  ASSERT(g >= exact - tol && g <= exact + tol, "C18 pstrtod of a long integer literal is within 2^-51 of the exact value");
#endif
  WITNESS();
}
