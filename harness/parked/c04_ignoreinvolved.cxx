// C04: "ignoreinvolved T" (.N command file) excludes every function whose signature involves T -- in the return type or in
// any parameter.  The real InterrogateBuilder::in_ignoreinvolved(CPPType *) is run on a function type whose return
// type and 0..2 parameter types are symbolic choices between a type named in the command file and one that is not.
// Leaf types and the function type are harness subclasses of CPPType (only get_subtype / get_simple_name /
// as_function_type are reached); the name lookup in_ignoreinvolved(const std::string &) is a cut point ("H" is listed).
#include "verif.h"
#include "interrogateBuilder.h"
#include "interrogate.h"
#include "cppType.h"
#include "cppFunctionType.h"
#include "cppParameterList.h"
#include "cppInstance.h"
#include "cppFile.h"
#include "c03_native_globals.h"
#include <new>

class FakeLeaf : public CPPType {
public:
  FakeLeaf(const CPPFile &f, char n) : CPPType(f), _n(n) {}
  virtual std::string get_simple_name() const { return std::string(1, _n); }
  char _n;
};
class FakeFn : public CPPType {
public:
  FakeFn(const CPPFile &f) : CPPType(f), _fn(nullptr) {}
  virtual SubType get_subtype() const { return ST_function; }
  virtual CPPFunctionType *as_function_type() { return _fn; }
  CPPFunctionType *_fn;
};

bool InterrogateBuilder::in_ignoreinvolved(const std::string &name) const { return name.size() == 1 && name[0] == 'H'; }

static CPPType *listed, *other;
static InterrogateBuilder *g_b;
static CPPFile *proto;

// one signature shape: bit 0 of mask = return type listed, bit 1+i = parameter i listed (concrete: a symbolic choice
// between two type objects makes every virtual call on the type fan out and did not finish in 300 s)
static void __attribute__((noinline)) check_shape(int mask, int npar) {
  CPPFunctionType *ft = (CPPFunctionType *)operator new(sizeof(CPPFunctionType));
  CPPParameterList *pl = (CPPParameterList *)operator new(sizeof(CPPParameterList));
  new (&pl->_parameters) CPPParameterList::Parameters();
  pl->_parameters.reserve(2);
  ft->_return_type = (mask & 1) ? listed : other;
  ft->_parameters = pl;
  bool any = (mask & 1) != 0;
  for (int i = 0; i < npar; i++) {
    CPPInstance *p = (CPPInstance *)operator new(sizeof(CPPInstance));
    bool l = ((mask >> (1 + i)) & 1) != 0;
    p->_type = l ? listed : other;
    pl->_parameters.push_back(p);
    any = any || l;
  }
  FakeFn *fn = new FakeFn(*proto);
  fn->_fn = ft;
  bool got = g_b->in_ignoreinvolved((CPPType *)fn);
  ASSERT(got == any, "C04 ignoreinvolved covers the whole signature: the return type and every parameter type");
}

extern "C" void harness_c04_ignoreinvolved() {
  proto = new CPPFile(Filename("a.h"), Filename("a.h"), CPPFile::S_local);
  g_b = new InterrogateBuilder;
  listed = new FakeLeaf(*proto, 'H');
  other = new FakeLeaf(*proto, 'i');
  for (int mask = 0; mask < (2 << NPAR); mask++) check_shape(mask, NPAR);
  ASSERT(g_b->in_ignoreinvolved(listed) && !g_b->in_ignoreinvolved(other), "C04 ignoreinvolved names exactly the listed types");
  WITNESS();
}
