// C08: argument pre-expansion versus the # and ## operators (C11 6.10.3.1p1): "A parameter in the replacement list,
// unless preceded by a # or ## preprocessing token or followed by a ## preprocessing token, is replaced by the
// corresponding argument after all macros contained therein have been expanded."
//
// Everything on the way from the definition text to the replaced text is the real code:
//   CPPManifest(parser, "F(x) <body>", loc)   name scan, parse_parameters, save_expansion  (builds the ExpansionNodes)
//   CPPManifest::expand -> r_expand           substitutes the argument, stringifies, pastes
//   CPPPreprocessor::expand_manifests         pre-expands the argument against the real _manifests table
//                                             (-> CPPManifest::expand of the argument's macro -> rescan)
// The shape of the body and the argument are symbolic choices; each choice is enumerated by a concrete loop so that
// the definition text itself stays concrete for the nested hand-written scanners (engine/HOWTO.md, "keep pointers
// concrete"): the solver decides all combinations in one query.
#include "verif.h"
#include "cppManifest.h"
#include "cppPreprocessor.h"
#include "vector_string.h"
#include <string>
#include <string.h>

#ifndef VERIF_NATIVE
// Environment of the two hash containers on this path (CPPPreprocessor::_manifests, CPPManifest::Ignores): the two
// libstdc++.so functions their header code calls.  (The native replay links the real libstdc++ ones.)
//  * the bucket-growth policy never asks for a rehash: every element stays in the initial single bucket.  What a
//    hash container stores and finds does not depend on its bucket count (only its iteration order does, which nothing
//    on this path uses), and with one bucket no pointer value is ever reduced modulo a bucket count;
//  * std::_Hash_bytes is some pure function of the bytes (the value is only cached and compared for equality).
namespace std {
namespace __detail {
std::pair<bool, std::size_t> _Prime_rehash_policy::_M_need_rehash(std::size_t, std::size_t, std::size_t) const {
  return std::pair<bool, std::size_t>(false, 0);
}
}
std::size_t _Hash_bytes(const void *p, std::size_t len, std::size_t seed) {
  std::size_t h = seed ^ len;
  for (std::size_t i = 0; i < len; i++) h = h * 131 + ((const unsigned char *)p)[i];
  return h;
}
}
#endif

// what stands in front of the parameter x in the replacement list
enum Pre { PRE_NONE, PRE_PLAIN, PRE_PASTE, PRE_STRINGIFY, PRE_N };     //  "x"   "a x"   "a ## x"   "a #x"
// what follows it
enum Post { POST_NONE, POST_PLAIN, POST_PASTE, POST_N };               //  "x"   "x b"   "x ## b"
// the argument of the call F(<arg>)
enum Arg { ARG_MACRO, ARG_PLAIN, ARG_CHAIN, ARG_N };                   //  N (-> 7)   M (not a macro)   K (-> N -> 7)

struct Text {
  char s[32];
  int n;
  void add(const char *t) { for (int i = 0; t[i] != 0; i++) s[n++] = t[i]; s[n] = 0; }
};

static CPPPreprocessor *g_pp;
static cppyyltype *g_loc;

// The enumeration loops below must reach the solver as written: clang -O1 otherwise folds "call f(i) in the one
// iteration where i == choice" into a single call f(choice) with a symbolic argument.
#ifdef __clang__
#define KEEP_AS_WRITTEN __attribute__((optnone, noinline))
#else
#define KEEP_AS_WRITTEN
#endif

// ---- the definition, as handle_define_directive passes it to the constructor
static __attribute__((noinline)) CPPManifest *define_macro(int pre, int post, bool tight) {
  Text def; def.n = 0;
  def.add("F(x) ");
  if (pre == PRE_PLAIN) def.add("a ");
  if (pre == PRE_PASTE) def.add(tight ? "a##" : "a ## ");
  if (pre == PRE_STRINGIFY) def.add("a #");
  def.add("x");
  if (post == POST_PLAIN) def.add(" b");
  if (post == POST_PASTE) def.add(tight ? "##b" : " ## b");
  CPPManifest *m = new CPPManifest(*g_pp, std::string(def.s, (size_t)def.n), *g_loc);
  ASSERT(m->_has_parameters && m->_num_parameters == 1, "C08 F(x) is a function-like macro with one parameter");
  return m;
}

// ---- the call F(arg) and its reference result
static __attribute__((noinline)) void call_macro(const CPPManifest *m, int pre, int post, int arg) {
  const char *spelling = arg == ARG_MACRO ? "N" : arg == ARG_PLAIN ? "M" : "K";
  const char *expansion = arg == ARG_PLAIN ? "M" : "7";
  vector_string *args = new vector_string;
  args->push_back(std::string(spelling));
  CPPManifest::Ignores *ignores = new CPPManifest::Ignores;
  std::string *r = new std::string(m->expand(*args, false, *ignores));

  // reference: the tokens a conforming preprocessor produces, separated by one blank
  bool operand = pre == PRE_PASTE || pre == PRE_STRINGIFY || post == POST_PASTE;
  Text ref; ref.n = 0;
  if (pre != PRE_NONE) ref.add("a");
  if (pre == PRE_PLAIN || pre == PRE_STRINGIFY) ref.add(" ");
  if (pre == PRE_STRINGIFY) ref.add("\"");
  ref.add(operand ? spelling : expansion);
  if (pre == PRE_STRINGIFY) ref.add("\"");
  if (post == POST_PLAIN) ref.add(" ");
  if (post != POST_NONE) ref.add("b");

  bool same = r->size() == (size_t)ref.n;
  for (int i = 0; i < ref.n; i++)
    if (same && (*r)[i] != ref.s[i]) same = false;
  ASSERT(same, "C08 a parameter is replaced by the macro-expanded argument unless it is an operand of # or ## (then by the argument's spelling): C11 6.10.3.1p1");
}

static KEEP_AS_WRITTEN void scenario(int pre, int post, bool tight, unsigned arg) {
  CPPManifest *m = define_macro(pre, post, tight);
  for (int k = 0; k < ARG_N; k++)
    if ((unsigned)k == arg)
      call_macro(m, pre, post, k);
}

extern "C" KEEP_AS_WRITTEN void harness_c08_arg_expand() {
  CPPPreprocessor *pp = new CPPPreprocessor;
  pp->_verbose = 1;
  g_pp = pp;
  g_loc = new cppyyltype;
  g_loc->first_line = g_loc->last_line = 1;
  g_loc->first_column = g_loc->last_column = 1;
  // the macro table: #define N 7, #define K N   (M stays undefined)
  pp->_manifests[std::string("N")] = new CPPManifest(*pp, std::string("N 7"), *g_loc);
  pp->_manifests[std::string("K")] = new CPPManifest(*pp, std::string("K N"), *g_loc);

  unsigned pre = nondet_uint(); ASSUME(pre < PRE_N);
  unsigned post = nondet_uint(); ASSUME(post < POST_N);
  unsigned arg = nondet_uint(); ASSUME(arg < ARG_N);
  bool tight = nondet_bool();                       // "a##x" or "a ## x"
#ifdef ONLY_PRE
  ASSUME(pre == ONLY_PRE);                          // catalogue entries split the choice of `pre` between them
#endif
  // "#x ## b" pastes a string literal to an identifier: not a valid token, behaviour undefined (6.10.3.3p3)
  ASSUME(!(pre == PRE_STRINGIFY && post == POST_PASTE));
  for (int i = 0; i < PRE_N; i++) {
#ifdef ONLY_PRE
    if (i != ONLY_PRE) continue;
#endif
    for (int j = 0; j < POST_N; j++) {
      if (i == PRE_STRINGIFY && j == POST_PASTE) continue;
      bool has_paste = i == PRE_PASTE || j == POST_PASTE;
      if (!has_paste) ASSUME(!(pre == (unsigned)i && post == (unsigned)j && tight));   // the spacing of ## only matters where there is one
      for (int t = 0; t < 2; t++) {
        if (t != 0 && !has_paste) continue;
        if ((unsigned)i == pre && (unsigned)j == post && (t != 0) == tight)
          scenario(i, j, t != 0, arg);
      }
    }
  }
  WITNESS();
}
