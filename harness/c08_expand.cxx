// C08 Tier B: definition -> expansion of ONE function-like macro through the
// real code (only libstdc++'s vector growth is replaced, see c08_fixedvec.h): CPPManifest(#define text) -> parse_parameters
// -> save_expansion, CPPManifest::extract_args on the call text, then
// CPPManifest::expand -> r_expand -> stringify / CPPPreprocessor::expand_manifests
// (argument pre-expansion against an empty macro table).
//
// The body is every sequence of up to KMAX items from
//     a   b   x   #a   a##b   ,        (+ #b  b##a  x##a  a##x with -DMORE_ITEMS)
// separated by single blanks, enumerated by concrete nested loops so that every
// pointer and every string length stays concrete for the solver (symbolic
// bodies make the scanner's nested loops explode, see HOWTO "keep pointers
// concrete").  The result is compared TOKEN-WISE (blank-insensitive) with the
// replacement list C11 6.10.3.1-6.10.3.3 prescribes for F(p,q).
//
// The same enumeration style gives the C15 totality check of save_expansion /
// r_expand on every short body over a raw character alphabet
// (harness_c15_expansion_chars): no oracle, crashes and memory errors only.
#include "verif.h"
#include "cppManifest.h"
#include "cppPreprocessor.h"
#include "c08_fixedvec.h"   // vector growth without relocation (relocation through the pointer-chunk memcpy model would turn the strings' length fields into non-constants)
#include <string>
#include <vector>

#ifndef KMAX
#define KMAX 3
#endif
#ifdef MORE_ITEMS
#define NITEMS 10
#else
#define NITEMS 6
#endif

static const char *const ITEM_TEXT[10] = { "a", "b", "x", "#a", "a##b", ",", "#b", "b##a", "x##a", "a##x" };

// one expected token per item for the call F(p,q)
static std::string expected_token(int item) {
  switch (item) {
  case 0: return "p";            // parameter a -> argument
  case 1: return "q";            // parameter b -> argument
  case 2: return "x";            // not a parameter: unchanged
  case 3: return "\"p\"";        // #a -> string literal of the argument's spelling
  case 4: return "pq";           // a##b -> concatenation forms one token
  case 5: return ",";
  case 6: return "\"q\"";
  case 7: return "qp";
  case 8: return "xp";
  default: return "px";
  }
}

// pp-token splitter for the result: identifiers/numbers, string literals, single punctuators; blanks separate
static void tokenize(const std::string &r, std::vector<std::string> &out) {
  size_t i = 0;
  while (i < r.size()) {
    char c = r[i];
    if (c == ' ') { i++; continue; }
    size_t j = i;
    if ((c >= 'a' && c <= 'z') || (c >= '0' && c <= '9') || c == '_') {
      while (j < r.size() && ((r[j] >= 'a' && r[j] <= 'z') || (r[j] >= '0' && r[j] <= '9') || r[j] == '_')) j++;
    } else if (c == '"') {
      j++;
      while (j < r.size() && r[j] != '"') { if (r[j] == '\\') j++; j++; }
      j++;
    } else {
      j++;
    }
    out.push_back(r.substr(i, j - i));
    i = j;
  }
}

static int g_checked = 0;

static void check_body(CPPPreprocessor *pp, const int *items, int k) {
  std::string def("F(a,b)");
  for (int i = 0; i < k; i++) { def += ' '; def += ITEM_TEXT[items[i]]; }
  cppyyltype loc;
  loc.first_line = loc.last_line = 1;
  loc.first_column = loc.last_column = 1;
  CPPManifest *m = new CPPManifest(*pp, def, loc);
  ASSERT(m->_has_parameters && m->_num_parameters == 2 && m->_name == "F", "C08 #define F(a,b) ... defines a two-parameter macro F");
  std::string call("(p,q)");
  vector_string args;
  size_t p = 0;
  m->extract_args(args, call, p);
  ASSERT(args.size() == 2 && p == call.size(), "C08 F(p,q) has two arguments");
  std::string r = m->expand(args, false, CPPManifest::Ignores());
  std::vector<std::string> got;
  tokenize(r, got);
  bool same = got.size() == (size_t)k;
  for (int i = 0; same && i < k; i++) same = (got[i] == expected_token(items[i]));
  ASSERT(same, "C08 expansion of F(p,q) is token-wise the replacement list of C11 6.10.3 (parameter substitution, # and ##)");
  g_checked++;
}

extern "C" void harness_c08_expand_items() {
  CPPPreprocessor *pp = new CPPPreprocessor;
  int items[4];
  g_checked = 0;
#ifdef FIRST_ITEM
  // one catalogue entry per first item (the entries run in parallel)
  { items[0] = FIRST_ITEM;
#else
  for (int i0 = 0; i0 < NITEMS; i0++) { items[0] = i0;
#endif
    check_body(pp, items, 1);
    if (KMAX >= 2) for (int i1 = 0; i1 < NITEMS; i1++) { items[1] = i1;
      check_body(pp, items, 2);
      if (KMAX >= 3) for (int i2 = 0; i2 < NITEMS; i2++) { items[2] = i2;
        check_body(pp, items, 3);
        if (KMAX >= 4) for (int i3 = 0; i3 < NITEMS; i3++) { items[3] = i3;
          check_body(pp, items, 4);
        }
      }
    }
  }
  ASSERT(g_checked >= 1, "C08 at least one body was expanded");
  WITNESS();
}

// ---------------------------------------------------------------- C15: raw bodies
#ifndef LMAX
#define LMAX 3
#endif
static const char BODY_ALPHABET[8] = { 'a', 'b', ' ', '#', ',', '(', ')', '.' };
#define NBODY 8

static void run_body(CPPPreprocessor *pp, const char *buf, int n) {
  // -D form: F(a)=<body>, one parameter a; then expansion with too few, exactly enough and too many arguments
  std::string body(buf, (size_t)n);
  CPPManifest *m = new CPPManifest(*pp, std::string("F(a)"), body);
  ASSERT(m->_num_parameters == 1, "C15 F(a) has one parameter");
  vector_string args;
  std::string r0 = m->expand(args, false, CPPManifest::Ignores());
  args.push_back("p");
  std::string r1 = m->expand(args, false, CPPManifest::Ignores());
  args.push_back("q");
  std::string r2 = m->expand(args, false, CPPManifest::Ignores());
  // the #define form on the same text
  cppyyltype loc;
  loc.first_line = loc.last_line = 1;
  loc.first_column = loc.last_column = 1;
  std::string def("F(a) ");
  def += body;
  if (n > 0 && buf[n - 1] != ' ') {       // the directive text reaches the constructor trimmed
    CPPManifest *m2 = new CPPManifest(*pp, def, loc);
    std::string r3 = m2->expand(args, false, CPPManifest::Ignores());
    ASSERT(m2->is_equal(m) || !m2->is_equal(m), "C15 is_equal terminates");
  }
  g_checked++;
}

extern "C" void harness_c15_expansion_chars() {
  CPPPreprocessor *pp = new CPPPreprocessor;
  char buf[5];
  g_checked = 0;
  run_body(pp, buf, 0);
#ifdef FIRST_CHAR
  { buf[0] = BODY_ALPHABET[FIRST_CHAR];
#else
  for (int c0 = 0; c0 < NBODY; c0++) { buf[0] = BODY_ALPHABET[c0];
#endif
    run_body(pp, buf, 1);
    if (LMAX >= 2) for (int c1 = 0; c1 < NBODY; c1++) { buf[1] = BODY_ALPHABET[c1];
      run_body(pp, buf, 2);
      if (LMAX >= 3) for (int c2 = 0; c2 < NBODY; c2++) { buf[2] = BODY_ALPHABET[c2];
        run_body(pp, buf, 3);
        if (LMAX >= 4) for (int c3 = 0; c3 < NBODY; c3++) { buf[3] = BODY_ALPHABET[c3];
          run_body(pp, buf, 4);
        }
      }
    }
  }
  ASSERT(g_checked >= 1, "C15 at least one body was expanded");
  WITNESS();
}
