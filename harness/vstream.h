// Stream handles for harnesses.  Under CBMC these are the token-stream model
// objects of models/stream.c; in native replay they are real std::stringstreams
// (engine/replay_rt.cxx).
#ifndef VSTREAM_H
#define VSTREAM_H
#include <iostream>
extern "C" {
std::ostream *vs_ostream_new();
std::ostream *vs_ostream_sink();
std::istream *vs_istream_of(std::ostream *o);          // reads what was written to o
std::istream *vs_istream_bytes(const char *p, unsigned n);
unsigned vs_ntokens(std::ostream *o);
unsigned vs_tok_kind(std::ostream *o, unsigned i);      // 0 = CHAR, 1 = INT
unsigned long vs_tok_val(std::ostream *o, unsigned i);
unsigned vs_format_error(std::ostream *o);              // an integer was written undelimited
unsigned vs_rpos(std::istream *i);
bool vs_at_end(std::istream *i);
void vs_truncate(std::ostream *o, unsigned n);          // keep only the first n tokens
bool vs_same_output(std::ostream *a, std::ostream *b);
void vs_arm_faults(std::ostream *o);
unsigned vs_lost(std::ostream *o);
}
#endif
