// C04: InterrogateBuilder::define_struct_type - the place where a class reached through get_type (an exported nested
// typedef, a data member, a signature, a base-class list, a forcetype line ...) is either filled with its methods, data
// members and constructors or left an opaque forward reference.  Real define_struct_type + the real
// TypeManager::involves_unpublished / involves_protected + the real CPPStructType traits, on the class graph
//
//     class W {                          // the outer (exported) class
//     <decl_vis>:                        // section the nested class is declared in: published .. private (symbolic)
//       class Impl {                     // declared in a file of symbolic source class / extension / ignorefile'd-ness
//       <m1_vis>: void poke();           // symbolic
//       <m2_vis>: int secret;            // symbolic
//       };
//     };
//
// built in place with the real constructors (CPPStructType, CPPScope, CPPTypeDeclaration, CPPInstance, ...) the way the
// parser leaves it (CPPScope::add_declaration stamps _vis on the declaration it appends to the enclosing scope;
// CPPTypeDeclaration links type->_declaration).  Structure concrete, every visibility / flag symbolic.
// What happens per member (define_method, scan_element), the registration of functions (get_function) and of other types
// (get_type) are cut points that record the call: reaching one of them means "a member of Impl enters the database".
#include "verif.h"
#include "interrogateBuilder.h"
#include "interrogateType.h"
#include "interrogateFunction.h"
#include "typeManager.h"
#include "interrogate.h"
#include "cppStructType.h"
#include "cppTypeDeclaration.h"
#include "cppScope.h"
#include "cppInstance.h"
#include "cppFunctionType.h"
#include "cppFunctionGroup.h"
#include "cppParameterList.h"
#include "cppIdentifier.h"
#include "cppSimpleType.h"
#include "cppFile.h"
#include "c03_native_globals.h"
#include <stdio.h>

#define NOINL __attribute__((noinline))

// ---- cut points ----
// uniquing of structurally equal types (a static std::set ordered by a virtual comparator): identity, as in C10
CPPType *CPPType::new_type(CPPType *type) { return type; }
// TypeManager::resolve_type: a fully specified, named class resolves to itself
CPPType *TypeManager::resolve_type(CPPType *type, CPPScope *scope) { return type; }

static int g_methods, g_elements, g_functions, g_get_types, g_other;
static CPPInstance *g_method0, *g_element0;
static int g_function_flags;
void InterrogateBuilder::define_method(CPPInstance *function, InterrogateType &itype, CPPStructType *struct_type, CPPScope *scope) {
  if (g_methods == 0) g_method0 = function;
  g_methods++;
}
ElementIndex InterrogateBuilder::scan_element(CPPInstance *element, CPPStructType *struct_type, CPPScope *scope) {
  if (g_elements == 0) g_element0 = element;
  g_elements++;
  return 7;
}
FunctionIndex InterrogateBuilder::get_function(CPPInstance *function, std::string description, CPPStructType *struct_type,
                                               CPPScope *scope, int flags, const std::string &expression) {
  g_functions++; g_function_flags |= flags;
  return 8 + g_functions;
}
TypeIndex InterrogateBuilder::get_type(CPPType *type, bool global) { g_get_types++; return 5; }
FunctionIndex InterrogateBuilder::get_cast_function(CPPType *to_type, CPPType *from_type, const std::string &prefix) { g_other++; return 3; }
ElementIndex InterrogateBuilder::get_make_property(CPPMakeProperty *, CPPStructType *, CPPScope *) { g_other++; return 4; }
MakeSeqIndex InterrogateBuilder::get_make_seq(CPPMakeSeq *, CPPStructType *) { g_other++; return 6; }

static int sym_vis() { int v = nondet_int(); ASSUME(v >= (int)V_published && v <= (int)V_unknown); return v; }

NOINL static void set_vis(CPPDeclaration *d, int vis) { d->_vis = (CPPVisibility)vis; }

NOINL static void set_file(CPPStructType *t, int source, char ext) {
  t->_file._source = (CPPFile::Source)source;
  t->_file._filename._filename[2] = ext;
}

// what CPPScope::add_declaration + handle_declaration do with a method declaration
NOINL static CPPInstance *add_method(CPPScope *scope, const char *name, CPPType *ret, int vis) {
  CPPFunctionType *ftype = new CPPFunctionType(ret, new CPPParameterList, 0);
  CPPInstance *inst = new CPPInstance(ftype, std::string(name), 0);
  set_vis(inst, vis);
  inst->_ident->_native_scope = scope;
  CPPFunctionGroup *fgroup = new CPPFunctionGroup(name);
  scope->_functions.insert(CPPScope::Functions::value_type(name, fgroup));
  fgroup->_instances.push_back(inst);
  scope->_declarations.push_back(inst);
  return inst;
}
// ... and with a data member
NOINL static CPPInstance *add_member(CPPScope *scope, const char *name, CPPType *type, int vis) {
  CPPInstance *inst = new CPPInstance(type, std::string(name), 0);
  set_vis(inst, vis);
  inst->_ident->_native_scope = scope;
  scope->_variables.insert(CPPScope::Variables::value_type(name, inst));
  scope->_declarations.push_back(inst);
  return inst;
}

extern "C" void harness_c04_struct_define() {
  InterrogateBuilder *b = new InterrogateBuilder;
  min_vis = nondet_bool() ? V_public : V_published;          // -promiscuous or not

  // one ignorefile entry: "a.h" (the file of the class) or "b.h"
  std::string ign("a.h");
  bool ignored = nondet_bool();
  if (!ignored) ign[0] = 'b';
  b->_ignorefile.insert(ign);

  // the file the classes are declared in (its symbolic source class and extension are written into Impl's own copy below:
  // copying a string with a symbolic byte makes the whole copy symbolic)
  CPPFile *file = new CPPFile(Filename("a.h"), Filename("a.h"), CPPFile::S_local);

  CPPType *t_void = new CPPSimpleType(CPPSimpleType::T_void);
  CPPType *t_int = new CPPSimpleType(CPPSimpleType::T_int);

  // class W { ...
  CPPScope *wscope = new CPPScope(nullptr, CPPNameComponent("W"), V_private);
  CPPStructType *W = new CPPStructType(CPPExtensionType::T_class, new CPPIdentifier(std::string("W")), nullptr, wscope, *file);
  wscope->set_struct_type(W);
  W->_incomplete = false;

  //   <decl_vis>: class Impl { <m1_vis>: void poke(); <m2_vis>: int secret; };
  CPPScope *iscope = new CPPScope(wscope, CPPNameComponent("Impl"), V_private);
  CPPStructType *Impl = new CPPStructType(CPPExtensionType::T_class, new CPPIdentifier(std::string("Impl")), wscope, iscope, *file);
  iscope->set_struct_type(Impl);
  Impl->_incomplete = false;
  int source = nondet_int(); ASSUME(source >= (int)CPPFile::S_local && source <= (int)CPPFile::S_none);
  unsigned char e = nondet_uchar(); ASSUME(e < 4);
  static const char EXT[4] = {'h', 'c', 'C', 'i'};
  set_file(Impl, source, EXT[e]);
  bool is_c = (e == 1 || e == 2);
  int m1_vis = sym_vis(), m2_vis = sym_vis();
  CPPInstance *poke = add_method(iscope, "poke", t_void, m1_vis);
  CPPInstance *secret = add_member(iscope, "secret", t_int, m2_vis);
  int decl_vis = sym_vis();
  CPPTypeDeclaration *decl = new CPPTypeDeclaration(Impl);       // links Impl->_declaration
  set_vis(decl, decl_vis);
  wscope->_declarations.push_back(decl);

  // the state get_type leaves before it calls define_struct_type
  bool forced = nondet_bool();                                    // the class is named by a forcetype line
  InterrogateType *itype = new InterrogateType;
  itype->_flags |= InterrogateType::F_fully_defined;
  itype->_cpptype = Impl;

  b->define_struct_type(*itype, Impl, 5, forced);

  bool fully = (itype->_flags & InterrogateType::F_fully_defined) != 0;
  bool exported = g_methods != 0 || g_elements != 0 || g_functions != 0 || g_get_types != 0 || g_other != 0 ||
                  !itype->_methods.empty() || !itype->_elements.empty() || !itype->_constructors.empty() ||
                  itype->_destructor != 0 || !itype->_casts.empty() || !itype->_nested_types.empty() ||
                  !itype->_derivations.empty() || !itype->_make_seqs.empty();
#ifdef VERIF_NATIVE
  printf("min_vis=%d  class W { <vis %d>: class Impl { <vis %d>: void poke(); <vis %d>: int secret; }; };  file a.%c source=%d ignorefile'd=%d forced=%d\n",
         (int)min_vis, decl_vis, m1_vis, m2_vis, EXT[e], source, (int)ignored, (int)forced);
  printf("  (vis: 0 published 1 public 2 protected 3 private 4 unknown; source: 0 local 1 alternate 2 system 3 none)\n");
  printf("  -> fully_defined=%d define_method calls=%d scan_element calls=%d get_function calls=%d (flags %#x) constructors=%d destructor=%d\n",
         (int)fully, g_methods, g_elements, g_functions, g_function_flags, (int)itype->_constructors.size(), (int)itype->_destructor);
#endif

  // ---- the property's clauses (safety) ----
  // "exported" = anything of Impl recorded / registered; "opaque" = additionally the F_fully_defined mark is withdrawn.
  // (For a class from a .c/.cxx file define_struct_type returns before every other gate and leaves the mark get_type set,
  // with nothing recorded: there only "nothing exported" is claimed.)
  bool is_protected = decl_vis > (int)V_public;                   // declared in a protected: / private: section of W
  ASSERT(!is_protected || !exported,
         "C04 nothing of a nested class declared in a protected/private section is exported: no method, data member, constructor, destructor, nested type or base");
  ASSERT(!is_protected || is_c || !fully,
         "C04 a nested class declared in a protected/private section stays an opaque reference (not fully defined)");
  bool own_visible = decl_vis <= (int)min_vis;
  bool member_visible = m1_vis <= (int)min_vis || m2_vis <= (int)min_vis;
  ASSERT(own_visible || member_visible || (!exported && (is_c || !fully)),
         "C04 a class that neither has the requested visibility nor a member that has it is not defined");
  ASSERT(forced || (source == (int)CPPFile::S_local && !ignored) || (!exported && (is_c || !fully)),
         "C04 a class from a file that was not named on the command line (or is ignorefile'd) is defined only under forcetype");
  ASSERT(!is_c || !exported, "C04 nothing of a class declared in a .c/.cxx file is exported");

  // ---- and the converse, so that the export path itself is exercised (not vacuous) ----
  bool want = !is_c && (forced || (source == (int)CPPFile::S_local && !ignored)) && (own_visible || member_visible) && !is_protected;
  ASSERT(exported == want, "C04 the members of a class are handed on exactly when every gate is open");
  if (want) {
    ASSERT(fully, "C04 an exported class is recorded as fully defined");
    ASSERT(g_methods == 1 && g_method0 == poke, "C04 the method of the exported class is handed to define_method once");
    ASSERT(g_elements == 1 && g_element0 == secret && itype->_elements.size() == 1 && itype->_elements[0] == 7,
           "C04 the data member of the exported class is handed to scan_element once and recorded");
    // no user-declared constructor / destructor: implicit default + copy constructor and destructor are synthesised
    ASSERT(g_functions == 3 && itype->_constructors.size() == 2 && itype->_destructor != 0 &&
           g_function_flags == (InterrogateFunction::F_constructor | InterrogateFunction::F_destructor),
           "C04 implicit constructors and destructor of the exported class are registered");
    ASSERT(g_get_types == 0 && g_other == 0, "C04 no other type, cast, property or sequence is registered for this class");
  }
  WITNESS();
}
