#!/bin/bash
# Real-binary confirmation for C19 counterexamples: build the tools from the repository under test and run them
# against real write faults of this sandbox (/dev/full, a missing directory).  Exit 1 = a lost output was reported
# as success (violation confirmed), exit 0 = every fault gave a non-zero status.
# usage: c19_confirm.sh <repo> <scratch> [interrogate|interrogate_module]
REPO=${1:-/repo}; SCR=${2:-/var/tmp/c19_confirm.$$}; TOOL=${3:-interrogate}
B=$SCR/c19build
mkdir -p $B || exit 2
if [ ! -x $B/bin/interrogate ]; then
  (cmake -G Ninja -S $REPO -B $B -DCMAKE_BUILD_TYPE=Release >$B.log 2>&1 && cmake --build $B -j16 >>$B.log 2>&1) || { echo "build failed"; tail -5 $B.log; exit 2; }
fi
W=$SCR/c19work; mkdir -p $W; cd $W
cat > t.h <<'H'
#define PUBLISHED __published
class A { PUBLISHED: int f(int x); };
H
# write faults through symlinks to /dev/full, so that a tool that unlinks its failed output removes only the link
ln -sf /dev/full full.cxx; ln -sf /dev/full full.in; ln -sf /dev/full full.txt
bad=0
if [ "$TOOL" = interrogate ]; then
  run() { $B/bin/interrogate -DCPPPARSER -D__STDC__=1 -module m -library l "$@" t.h >out.txt 2>&1; rc=$?; echo "interrogate $* -> exit $rc"; [ $rc -eq 0 ] && bad=1; }
  run -c -oc full.cxx -od ok.in
  run -c -oc ok.cxx -od full.in
  run -c -oc ok.cxx -od ok.in -oh full.txt
  run -c -oc $W/missing-dir/x.cxx -od ok.in
  run -c -oc ok.cxx -od $W/missing-dir/x.in
  run -c -oc ok.cxx -od ok.in -oh $W/missing-dir/x.txt
  mkdir -p $W/a-directory
  run -c -oc ok.cxx -od ok.in -oh $W/a-directory
  run -c -oc $W/a-directory -od ok.in
  run -c -oc ok.cxx -od $W/a-directory
else
  $B/bin/interrogate -DCPPPARSER -D__STDC__=1 -module m -library l -c -oc ok.cxx -od ok.in t.h >/dev/null 2>&1
  runm() { $B/bin/interrogate_module "$@" ok.in >out.txt 2>&1; rc=$?; echo "interrogate_module $* -> exit $rc"; [ $rc -eq 0 ] && bad=1; }
  ln -sf /dev/full full.cxx
  runm -module m -library l -python -oc full.cxx
  runm -module m -library l -python -oc $W/missing-dir/x.cxx
fi
exit $bad
