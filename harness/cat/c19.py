"""Catalogue for C19 (and the main()-level clauses of C14 / C15)."""
from cat.common import *

_MAIN_TUS = ['src/interrogate/interrogate.cxx', 'src/dtoolutil/filename.cxx']
_LOOPS = dict(STATIC_INIT_LOOPS)
_LOOPS.update(DIAG_LOOPS)

HARNESSES = [
    dict(id='c19_interrogate_main_%d' % _mask, property='C19', src='c19_main.cxx', entry='harness_c19_main', tus=_MAIN_TUS,
         cut=['_ZN8Filename13make_absoluteEv', '_ZN8Filename13make_absoluteERKS_'], keep=['verif_at_exit'], replay='script', confirm_script='c19_confirm.sh', confirm_args=['interrogate'],
         desc='the real main() of interrogate.cxx for one subset of {-oc,-od,-oh} (8 entries cover all), symbolic parse result and a symbolic fault schedule on every output stream',
         domain='subset of {-oc,-od,-oh}; per stream: open fails or not, each insertion / flush / close fails or not; parse ok or not; SOURCE_DATE_EPOCH unset/empty/<=3 digits; time() any non-negative int',
         oracle='(some requested channel lost data) => exit status != 0; parse error => non-zero exit and no output; file identifier rule',
         bounds=dict(quick=dict(defs=dict(OPTMASK=_mask), unwind=40, unwindset=_LOOPS, cap=900)))
    for _mask in range(8)
] + [
    dict(id='c19_module_main_%d%s' % (_mode, '' if _oc else '_nooc'), property='C19', src='c19_module_main.cxx', entry='harness_c19_module_main',
         tus=['src/interrogate/interrogate_module.cxx', 'src/dtoolutil/filename.cxx'], 
         cut=['_Z18write_python_tableRSo', '_Z25write_python_table_nativeRSo', '_ZNK8Filename6unlinkEv'], keep=['verif_at_exit'],
         replay='script', confirm_script='c19_confirm.sh', confirm_args=['interrogate_module'],
         desc='the real main() of interrogate_module.cxx (mode %s) with/without -oc, symbolic database-load error flag and a symbolic fault schedule on the output stream' % ['-c', '-python', '-python-native'][_mode],
         domain='open fails or not; each insertion / close fails or not; interrogate_error_flag() true or false',
         oracle='(output lost data) => exit status != 0; load error => non-zero exit and output file unlinked',
         bounds=dict(quick=dict(defs=dict(MODE=_mode, WANT_OC=_oc), unwind=40, unwindset=_LOOPS, cap=600)))
    for _mode in range(3) for _oc in (1, 0)
]

PROPERTY_INFO = {
    'C19': dict(level='model_checking',
                explanation='bounded symbolic execution (CBMC) of the real main() with the iostream fault model: fault schedules are symbolic variables',
                outside='write(2)-level partial writes inside libstdc++ filebuf (the model is one level up: any insertion, flush or close may fail); interrogate_module main() unless listed',
                assumptions=['parser/builder/database entry points are stand-ins that perform 2 insertions on the stream they are given',
                             'stream fault model in models/stream.c: data is pending until flush/close; a failing implicit close in a destructor loses data silently']),
}
NOT_APPLICABLE = {}
