"""Catalogue for C15 (totality of the hand-written front-end kernels)."""
from cat.common import *

_TUS = ['src/cppparser/cppManifest.cxx', 'src/cppparser/cppPreprocessor.cxx', 'src/cppparser/cppFile.cxx',
        'src/dtoolutil/filename.cxx', 'src/dtoolutil/dSearchPath.cxx']
_SKIP = ['cppPreprocessor.cxx']
# out-of-range operator[] / back() / front() become "crash:" failures
_GA = ['-D_GLIBCXX_ASSERTIONS']
# TUs are lowered without inlining so that the cut of the std::string heap path removes every copy of it
_TUF = _GA + ['-fno-inline']
# std::string never leaves its 15-byte SSO buffer within the bounds below: the heap path is cut, its auto-stub asserts
# ('model: unmodelled external function ... reached') if a string would ever grow beyond 15 bytes
_CUT_HEAP_STRINGS = ['_ZNSt7__cxx1112basic_stringIcSt11char_traitsIcESaIcEE9_M_createERmm',
                     '_ZNSt7__cxx1112basic_stringIcSt11char_traitsIcESaIcEE9_M_mutateEmmPKcm']
_CUT_VEC_REALLOC = ['_ZNSt6vectorINSt7__cxx1112basic_stringIcSt11char_traitsIcESaIcEEESaIS5_EE17_M_realloc_insertIJS5_EEEvN9__gnu_cxx17__normal_iteratorIPS5_S7_EEDpOT_',
                    '_ZNSt6vectorIN11CPPManifest13ExpansionNodeESaIS1_EE17_M_realloc_insertIJS1_EEEvN9__gnu_cxx17__normal_iteratorIPS1_S3_EEDpOT_']
_SE = '_ZN11CPPManifest14save_expansionERSt6vectorINS_13ExpansionNodeESaIS1_EERKNSt7__cxx1112basic_stringIcSt11char_traitsIcESaIcEEERKS0_ISA_SaISA_EE'
_REXP = '_ZNK11CPPManifest8r_expandERKSt6vectorINS_13ExpansionNodeESaIS1_EERKS0_INSt7__cxx1112basic_stringIcSt11char_traitsIcESaIcEEESaISB_EEbRKSt13unordered_setIPKS_St4hashISI_ESt8equal_toISI_ESaISI_EE'
_EXPM = '_ZNK15CPPPreprocessor16expand_manifestsERNSt7__cxx1112basic_stringIcSt11char_traitsIcESaIcEEEbRKSt13unordered_setIPK11CPPManifestSt4hashISA_ESt8equal_toISA_ESaISA_EE'
# "__VA_ARGS__" / "__VA_OPT__" are compared against every identifier: concrete 11-byte strlen/memcmp
_KW_LOOPS = {'ll_strlen.0': 14, 'll_memcmp.0': 14}

HARNESSES = [
 {'id': 'c15_error_count',
  'property': 'C15',
  'src': 'c15_errcount.cxx',
  'entry': 'harness_c15_error_count',
  'tus': _TUS, 'skip_ctors': _SKIP, 'cut': ['_ZNK15CPPPreprocessor9show_lineERK10cppyyltype'], 'tuflags': ['-fno-inline'], 'models': ['noinline.c'],
  'desc': 'CPPPreprocessor::error / warning count every diagnostic whatever the verbosity (parse_expr, parse_type and the mains decide '
          'failure by the count; the #if and type-string helper parsers run with verbosity 0)',
  'domain': 'verbosity 0..2, every parser state, symbolic previous counts, location with/without line and column, error or warning',
  'oracle': '_error_count == old + 1 after error() unless the state is S_nested/S_end_nested (then unchanged); _warning_count == old + 1 '
            'after warning(); the other counter unchanged',
  'bounds': {'quick': {'defs': {}, 'unwind': 12, 'unwindset': {'ll_strlen.0': 16, 'll_memcpy.0': 16}, 'cap': 300}}},
 {'id': 'c15_define_ctor',
  'property': 'C15',
  'src': 'c15_manifest.cxx',
  'entry': 'harness_c15_define_ctor',
  'tus': _TUS, 'skip_ctors': _SKIP, 'cut': _CUT_HEAP_STRINGS + _CUT_VEC_REALLOC + [_SE], 'models': ['noinline.c'], 'tuflags': _TUF, 'hflags': _GA,
  'nonterm_is_violation': True,
  'desc': 'CPPManifest(parser, "#define" text, loc): name scan, parse_parameters, save_expansion on every short definition',
  'domain': 'every definition text of length 1..LMAX over {a ( ) , space # .} without leading/trailing blank (as handle_define_directive passes it)',
  'oracle': 'no crash (uncaught exception, abort, libstdc++ assertion), no memory-safety failure, every loop ends within LMAX+2 iterations',
  'bounds': {'quick': {'defs': {'LMAX': 4}, 'unwind': 6, 'cap': 600},
             'thorough': {'defs': {'LMAX': 5}, 'unwind': 7, 'cap': 3000}}},
 {'id': 'c15_define_ctor_rest',
  'property': 'C15',
  'src': 'c15_manifest.cxx',
  'entry': 'harness_c15_define_ctor',
  'tus': _TUS, 'skip_ctors': _SKIP, 'cut': _CUT_HEAP_STRINGS + _CUT_VEC_REALLOC + [_SE], 'models': ['noinline.c'], 'tuflags': _TUF, 'hflags': _GA + ['-DEXCLUDE_UNTERMINATED_PARAMS'],
  'nonterm_is_violation': True,
  'desc': 'as c15_define_ctor with the known crashing class excluded (macro name directly followed by "(" without any ")": "#define F(a")',
  'domain': 'as c15_define_ctor, minus texts whose parameter list is never closed',
  'oracle': 'as c15_define_ctor',
  'bounds': {'quick': {'defs': {'LMAX': 4}, 'unwind': 6, 'cap': 600},
             'thorough': {'defs': {'LMAX': 5}, 'unwind': 7, 'cap': 3000}}},
 {'id': 'c15_dash_d_ctor',
  'property': 'C15',
  'src': 'c15_manifest.cxx',
  'entry': 'harness_c15_dash_d_ctor',
  'tus': _TUS, 'skip_ctors': _SKIP, 'cut': _CUT_HEAP_STRINGS + _CUT_VEC_REALLOC + [_SE], 'models': ['noinline.c'], 'tuflags': _TUF, 'hflags': _GA,
  'nonterm_is_violation': True,
  'desc': 'CPPManifest(parser, macro, definition) as built by predefine_macro() for -D name=value',
  'domain': 'every split of a text of length 0..LMAX over {a ( ) , space # .} into name and value (either may be empty)',
  'oracle': 'no crash, no memory-safety failure, bounded termination',
  'bounds': {'quick': {'defs': {'LMAX': 4}, 'unwind': 6, 'cap': 600},
             'thorough': {'defs': {'LMAX': 5}, 'unwind': 7, 'cap': 3000}}},
 {'id': 'c15_stringify',
  'property': 'C15',
  'src': 'c08_manifest.cxx',
  'entry': 'harness_c08_stringify',
  'tus': _TUS, 'skip_ctors': _SKIP, 'cut': _CUT_HEAP_STRINGS, 'models': ['noinline.c'], 'tuflags': _TUF, 'hflags': _GA + ['-DTOTALITY'],
  'nonterm_is_violation': True,
  'desc': 'CPPManifest::stringify on every short byte string over the C08 alphabet, unterminated literals included',
  'domain': 'every text of length 0..LMAX over {a, space, ", \', \\}',
  'oracle': 'no crash, no memory-safety failure, bounded termination; result at least the quoted length',
  'bounds': {'quick': {'defs': {'LMAX': 5}, 'unwind': 15, 'cap': 600},
             'thorough': {'defs': {'LMAX': 6}, 'unwind': 17, 'cap': 3000}}},
 {'id': 'c15_extract_args',
  'property': 'C15',
  'src': 'c08_manifest.cxx',
  'entry': 'harness_c08_extract_args',
  'tus': _TUS, 'skip_ctors': _SKIP, 'cut': _CUT_HEAP_STRINGS + _CUT_VEC_REALLOC, 'models': ['noinline.c'], 'tuflags': _TUF,
  'hflags': _GA + ['-DTOTALITY', '-DWIDE_ALPHABET'],
  'nonterm_is_violation': True,
  'desc': 'CPPManifest::extract_args on every short call text, followed by what its caller expand_manifests does with the returned '
          'position (expr.substr(p), cppPreprocessor.cxx:1100)',
  'domain': 'every text of length 0..AMAX over {( ) , " a space \' \\}, unbalanced and unterminated ones included',
  'oracle': 'no crash (the caller\'s substr(p) must not throw), no memory-safety failure, bounded termination',
  'bounds': {'quick': {'defs': {'AMAX': 4}, 'unwind': 6, 'cap': 600},
             'thorough': {'defs': {'AMAX': 6}, 'unwind': 8, 'cap': 3000}}},
 {'id': 'c15_extract_args_rest',
  'property': 'C15',
  'src': 'c08_manifest.cxx',
  'entry': 'harness_c08_extract_args',
  'tus': _TUS, 'skip_ctors': _SKIP, 'cut': _CUT_HEAP_STRINGS + _CUT_VEC_REALLOC, 'models': ['noinline.c'], 'tuflags': _TUF,
  'hflags': _GA + ['-DTOTALITY', '-DWIDE_ALPHABET', '-DEXCLUDE_UNTERMINATED_LITERAL'],
  'nonterm_is_violation': True,
  'desc': 'as c15_extract_args with the known crashing class excluded (a string/char literal inside the parentheses that is never closed)',
  'domain': 'as c15_extract_args, minus texts with an unterminated literal inside the argument list',
  'oracle': 'as c15_extract_args',
  'bounds': {'quick': {'defs': {'AMAX': 4}, 'unwind': 6, 'cap': 600},
             'thorough': {'defs': {'AMAX': 6}, 'unwind': 8, 'cap': 3000}}},
]

# ---- stream-driven scanners of cppPreprocessor.cxx ------------------------------------------------------------------
_IFGET = ['_ZN15CPPPreprocessor3getEv', '_ZN15CPPPreprocessor4peekEv']   # CPPPreprocessor::get/peek: modelled in the harness (one non-nested input)
_TRIM = '_ZL11trim_blanksRKNSt7__cxx1112basic_stringIcSt11char_traitsIcESaIcEEE'

# diagnostics are built as std::string from literals: "Unclosed string" (15 bytes, still in the small buffer); the comment /
# digit-separator scanners produce longer ones ("digit separator cannot occur at end of digit sequence"), so that entry keeps
# the heap path of std::string and gives the libc loops room for the concrete message text
_MSG = {'ll_strlen.0': 64, 'll_memcpy.0': 64}

def _scan(id_, entry, desc, domain, extra_h=(), q=4, t=6, heap=False):
    return {'id': id_, 'property': 'C15', 'src': 'c15_scanners.cxx', 'entry': entry,
            'tus': _TUS, 'skip_ctors': _SKIP, 'cut': ([] if heap else _CUT_HEAP_STRINGS) + _IFGET, 'export': [_TRIM], 'models': ['noinline.c'],
            'unwindset': (_MSG if heap else {'ll_strlen.0': 20, 'll_memcpy.0': 20}),
            'tuflags': _TUF, 'hflags': _GA + list(extra_h), 'nonterm_is_violation': True,
            'desc': desc, 'domain': domain,
            'oracle': 'no crash (uncaught exception, abort, libstdc++ assertion), no memory-safety failure, every loop ends within the input length',
            'bounds': {'quick': {'defs': {'NMAX': q}, 'unwind': q + 5, 'cap': 600},
                       'thorough': {'defs': {'NMAX': t}, 'unwind': t + 5, 'cap': 3000}}}

HARNESSES += [
 _scan('c15_scan_raw', 'harness_c15_scan_raw',
       'CPPPreprocessor::scan_raw (C++11 raw string R"delim( ... )delim") on the bytes following R", read through get()/InputFile::get()',
       'every byte string of length 0..NMAX over {" ( ) a newline}'),
 _scan('c15_scan_raw_rest', 'harness_c15_scan_raw',
       'as c15_scan_raw with the known crashing class excluded (a quote in the raw string body before the body is as long as the '
       'closing delimiter, e.g. R"(")")',
       'as c15_scan_raw, minus texts whose first body quote comes too early', extra_h=['-DEXCLUDE_EARLY_QUOTE']),
 _scan('c15_scan_quoted', 'harness_c15_scan_quoted',
       'CPPPreprocessor::scan_quoted + scan_escape_sequence (hex, octal, simple escapes) on the bytes following an opening quote',
       'every byte string of length 0..NMAX over {" \\ x 1 a newline}'),
 _scan('c15_comments', 'harness_c15_comments',
       'skip_c_comment, skip_cpp_comment (after the opening /* or //) and skip_digit_separator on the following bytes',
       'every byte string of length 0..NMAX over {* / a \' 1 newline}; which scanner is a symbolic choice', heap=True),
 _scan('c15_trim_blanks', 'harness_c15_trim_blanks',
       'static trim_blanks() of cppPreprocessor.cxx (directive arguments, diagnostics)',
       'every string of length 0..NMAX over {space a newline tab}', q=5, t=8),
]

# ---- error-recovery token loops ---------------------------------------------------------------------------------------
HARNESSES += [
 {'id': 'c15_skip_angle',
  'property': 'C15',
  'src': 'c15_skip.cxx',
  'entry': 'harness_c15_skip_angle',
  'tus': _TUS, 'skip_ctors': _SKIP,
  'cut': ['_ZN15CPPPreprocessor14get_next_tokenEv', '_ZN8CPPTokenD2Ev', '_ZN8CPPTokenD1Ev'],
  'keep': ['c15_skip_event'], 'tuflags': ['-fno-inline'], 'models': ['noinline.c', 'c15_toksrc.c'],
  'nonterm_is_violation': True,
  'desc': 'CPPPreprocessor::skip_to_angle_bracket / skip_to_end_nested (error recovery after a nested template-argument parse) on a token '
          'source that can end anywhere; get_next_token() is a cut point with the state transitions of internal_get_next_token',
  'domain': 'every script of NTOK token events over {other token, "," at level 0, ">" at level 0}, every amount 0..NTOK of input already consumed '
            '(so the file may end at once), every parser state, _parsing_template_params on/off, which of the two loops',
  'oracle': 'the loop ends (at the end of the nested parse / closing angle bracket, or at end of file) after reading each remaining token at '
            'most once plus one read that finds the end of input; no crash, no memory-safety failure',
  'bounds': {'quick': {'defs': {'NTOK': 4}, 'unwind': 8, 'cap': 300},
             'thorough': {'defs': {'NTOK': 10}, 'unwind': 14, 'cap': 1200}}},
]

# ---- CPPExpression::evaluate: totality is part of what the C07 harnesses decide (crash: assertions, division checks) ----
from cat import c07 as _c07
for _h in _c07.HARNESSES:
    if _h['src'] == 'c07_evaluate.cxx':
        HARNESSES.append(dict(_h, id='c15_eval_' + _h['id'][4:], property='C15',
                              desc='(C07 harness %s, run for its totality content) %s' % (_h['id'], _h['desc']),
                              oracle='no abort() on any operator, no division trap, no memory-safety failure (plus the C07 value oracle)'))

PROPERTY_INFO = {'C15': {'level': 'model_checking',
         'explanation': 'bounded symbolic execution (CBMC, memory-safety and unwinding assertions on, libstdc++ assertions on) of the hand-written '
                        'scanners of the front end on every short input over small alphabets; the error-recovery token loops skip_to_angle_bracket / '
                        'skip_to_end_nested on every short token script that can end anywhere (c15_skip_angle)',
         'outside': 'totality of the bison parser and of the token loop as a whole; files longer than the bounds; unbounded-time claims; '
                    'get_number / get_literal (strtol, pstrtod and the CPPToken machinery), get_identifier, expand_defined_function / '
                    'expand_has_include_function; save_expansion and r_expand on symbolic bodies (nested scanners: over budget; the constructors '
                    'are decided with save_expansion stubbed); InterrogateBuilder::read_command_file and show_line (std::getline / std::ifstream '
                    'are not modelled); CPPPreprocessor::get/peek/InputFile::get themselves (the scanner harnesses model them for one non-nested '
                    'input)',
         'assumptions': ['strings stay within the 15-byte small-string buffer inside the bounds (the heap path is cut and asserted unreachable)',
                         'vector growth in cppManifest.cxx is replaced by harness/c08_fixedvec.h (fixed capacity 8, overflow asserted)',
                         'scanner harnesses: CPPPreprocessor::get/peek replaced by a model of one non-nested input (unget slot, bytes, one '
                         'synthesized newline, EOF)',
                         'c15_skip_angle: get_next_token() is replaced by a token source with the state transitions of internal_get_next_token '
                         '(harness/c15_skip.cxx); in the encoded program the discarded CPPToken is left unconstructed and ~CPPToken is empty '
                         '(models/c15_toksrc.c), the native replay uses the real CPPToken']}}

NOT_APPLICABLE = {}
