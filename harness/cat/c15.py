"""Catalogue for C15 (totality of the hand-written front-end kernels)."""
from cat.common import *

_TUS = ['src/cppparser/cppManifest.cxx', 'src/cppparser/cppPreprocessor.cxx', 'src/cppparser/cppFile.cxx',
        'src/dtoolutil/filename.cxx', 'src/dtoolutil/dSearchPath.cxx']
_SKIP = ['cppPreprocessor.cxx']
# out-of-range operator[] / back() / front() become "crash:" failures
_GA = ['-D_GLIBCXX_ASSERTIONS']
# TUs are lowered without inlining so that the cut of the std::string heap path removes every copy of it
_TUF = _GA + ['-fno-inline']
# std::string never leaves its 15-byte SSO buffer within the bounds below: the heap path is cut, its auto-stub asserts
# ('model: unmodelled external function ... reached') if a string would ever grow beyond 15 bytes
_CUT_HEAP_STRINGS = ['_ZNSt7__cxx1112basic_stringIcSt11char_traitsIcESaIcEE9_M_createERmm',
                     '_ZNSt7__cxx1112basic_stringIcSt11char_traitsIcESaIcEE9_M_mutateEmmPKcm']
_CUT_VEC_REALLOC = ['_ZNSt6vectorINSt7__cxx1112basic_stringIcSt11char_traitsIcESaIcEEESaIS5_EE17_M_realloc_insertIJS5_EEEvN9__gnu_cxx17__normal_iteratorIPS5_S7_EEDpOT_',
                    '_ZNSt6vectorIN11CPPManifest13ExpansionNodeESaIS1_EE17_M_realloc_insertIJS1_EEEvN9__gnu_cxx17__normal_iteratorIPS1_S3_EEDpOT_']
_SE = '_ZN11CPPManifest14save_expansionERSt6vectorINS_13ExpansionNodeESaIS1_EERKNSt7__cxx1112basic_stringIcSt11char_traitsIcESaIcEEERKS0_ISA_SaISA_EE'
# "__VA_ARGS__" / "__VA_OPT__" are compared against every identifier: concrete 11-byte strlen/memcmp
_KW_LOOPS = {'ll_strlen.0': 14, 'll_memcmp.0': 14}

HARNESSES = [
 {'id': 'c15_define_ctor',
  'property': 'C15',
  'src': 'c15_manifest.cxx',
  'entry': 'harness_c15_define_ctor',
  'tus': _TUS, 'skip_ctors': _SKIP, 'cut': _CUT_HEAP_STRINGS + _CUT_VEC_REALLOC + [_SE], 'models': ['noinline.c'], 'tuflags': _TUF, 'hflags': _GA,
  'nonterm_is_violation': True,
  'desc': 'CPPManifest(parser, "#define" text, loc): name scan, parse_parameters, save_expansion on every short definition',
  'domain': 'every definition text of length 1..LMAX over {a ( ) , space # .} without leading/trailing blank (as handle_define_directive passes it)',
  'oracle': 'no crash (uncaught exception, abort, libstdc++ assertion), no memory-safety failure, every loop ends within LMAX+2 iterations',
  'bounds': {'quick': {'defs': {'LMAX': 4}, 'unwind': 6, 'cap': 600},
             'thorough': {'defs': {'LMAX': 5}, 'unwind': 7, 'cap': 3000}}},
 {'id': 'c15_define_ctor_rest',
  'property': 'C15',
  'src': 'c15_manifest.cxx',
  'entry': 'harness_c15_define_ctor',
  'tus': _TUS, 'skip_ctors': _SKIP, 'cut': _CUT_HEAP_STRINGS + _CUT_VEC_REALLOC + [_SE], 'models': ['noinline.c'], 'tuflags': _TUF, 'hflags': _GA + ['-DEXCLUDE_UNTERMINATED_PARAMS'],
  'nonterm_is_violation': True,
  'desc': 'as c15_define_ctor with the known crashing class excluded (macro name directly followed by "(" without any ")": "#define F(a")',
  'domain': 'as c15_define_ctor, minus texts whose parameter list is never closed',
  'oracle': 'as c15_define_ctor',
  'bounds': {'quick': {'defs': {'LMAX': 4}, 'unwind': 6, 'cap': 600},
             'thorough': {'defs': {'LMAX': 5}, 'unwind': 7, 'cap': 3000}}},
 {'id': 'c15_dash_d_ctor',
  'property': 'C15',
  'src': 'c15_manifest.cxx',
  'entry': 'harness_c15_dash_d_ctor',
  'tus': _TUS, 'skip_ctors': _SKIP, 'cut': _CUT_HEAP_STRINGS + _CUT_VEC_REALLOC + [_SE], 'models': ['noinline.c'], 'tuflags': _TUF, 'hflags': _GA,
  'nonterm_is_violation': True,
  'desc': 'CPPManifest(parser, macro, definition) as built by predefine_macro() for -D name=value',
  'domain': 'every split of a text of length 0..LMAX over {a ( ) , space # .} into name and value (either may be empty)',
  'oracle': 'no crash, no memory-safety failure, bounded termination',
  'bounds': {'quick': {'defs': {'LMAX': 4}, 'unwind': 6, 'cap': 600},
             'thorough': {'defs': {'LMAX': 5}, 'unwind': 7, 'cap': 3000}}},
]

PROPERTY_INFO = {'C15': {'level': 'model_checking',
         'explanation': 'bounded symbolic execution (CBMC, memory-safety and unwinding assertions on, libstdc++ assertions on) of the hand-written '
                        'scanners of the front end on every short input over small alphabets',
         'outside': 'totality of the bison parser and of the token loop as a whole; files longer than the bounds; unbounded-time claims; '
                    'show_line (needs std::ifstream/getline); the exit-status clause (C19)',
         'assumptions': ['strings stay within the 15-byte small-string buffer inside the bounds (the heap path is cut and asserted unreachable)']}}

NOT_APPLICABLE = {}
