"""C01 is decided by engine/c01check.py (translation validation of generated -c / -python wrappers by solver), not by the
generic harness catalogue.  C11's signature-agreement clause is the same run (the wrapper is declared from the
database signature)."""
HARNESSES = []
PROPERTY_INFO = {
    'C01': dict(level='translation_validation',
                quick_cmd='python3 engine/c01check.py --tier quick --prop C01',
                thorough_cmd='python3 engine/c01check.py --tier thorough --prop C01',
                desc='generated -c and -python (simple back end) wrappers of the corpus corpus/c01/*.h, each declared with the C signature the database records and checked against the direct C++ call on twin symbolic arguments',
                claim='Translation validation by solver: interrogate is built from /repo and run on every corpus header x option set; every wrapper the DATABASE lists is declared from the database signature, called on symbolic arguments/object fields and compared by CBMC with the direct C++ call for that (function, parameter types) key: result, trace cell (overload/default variant), object post-state, result aliasing. A wrapper the corpus does not expect, a corpus function without wrapper, a generated file that does not compile are violations. Per corpus entry, not for all headers.',
                explanation='translation validation by solver of generated code',
                outside='headers outside the corpus; the -python-native back end (C02 covers generator-side kernels of it); for -python: the CPython C API is a model (models/cpython.c: tagged objects, PyArg_ParseTuple/Py*_From*/As* per their documentation; counterexamples are replayed against the real libpython3.11), reference counts and keyword arguments are not compared; the module definition that would register the -fptrs / -unique-names tables at run time (compiled out of the generator with #if 0; the tables themselves are checked against the database by the h_tables harness); -refcount outside corpus s7; classes inside namespaces (interrogate records their functions but emits no -c wrappers); allocation failure',
                assumptions=[]),
}
NOT_APPLICABLE = {}
