"""Catalogue for C02 (Tier A: generator-side kernels of the -python-native back end)."""
from cat.common import *

_IMN = ['src/interrogate/interfaceMakerPythonNative.cxx']
# membuf storage of map/set nodes is a byte array: keep it field-sensitive so that pointers stored in it stay constants
_FS = ['--max-field-sensitivity-array-size', '200']
_CK = '_Z12checkKeywordRNSt7__cxx1112basic_stringIcSt11char_traitsIcESaIcEEE'
_CN = '_Z20classNameFromCppNameRKNSt7__cxx1112basic_stringIcSt11char_traitsIcESaIcEEEb'
_MN = '_Z21methodNameFromCppNameRKNSt7__cxx1112basic_stringIcSt11char_traitsIcESaIcEEES6_b'
# concrete loops of the code under test: keyword table (34 entries), rename dictionary (56), badChars.find (23 chars)
_NAME_LOOPS = {_CK + '.0': 40, _MN + '.0': 16, _MN + '.1': 60, _MN + '.2': 60, _CN + '.0': 16, _CN + '.1': 16,
               'll_memchr.0': 26, 'll_strlen.0': 24, 'll_memcmp.0': 24, 'll_memcpy.0': 24}

HARNESSES = [
 {'id': 'c02_class_name', 'property': 'C02', 'src': 'c02_names.cxx', 'entry': 'harness_c02_class_name', 'tus': _IMN,
  'models': ['printf.c'],
  'desc': 'classNameFromCppName (class, enum value and constant names) on every well-formed scoped C++ name',
  'domain': 'names of length 1..LMAX over [A-Za-z0-9_: ] that are well-formed (components [A-Za-z_][A-Za-z0-9_]* joined by ::, single inner blanks); mangle flag and -nomangle symbolic',
  'oracle': 'equals the reference (:: -> ., camelCase fold of _/blank separated words when mangling, else the C++ name; keyword -> _keyword); valid dotted Python identifier (when folding: if every component has a word starting with a letter); never a Python keyword',
  'bounds': {'quick': {'defs': {'LMAX': 6}, 'unwind': 9, 'unwindset': _NAME_LOOPS, 'cap': 600},
             'thorough': {'defs': {'LMAX': 8}, 'unwind': 11, 'unwindset': _NAME_LOOPS, 'cap': 2400}}},
]

PROPERTY_INFO = {'C02': {'level': 'model_checking',
         'explanation': 'bounded symbolic execution (CBMC) of generator-side kernels of the -python-native back end: name mangling, overload ordering comparator, default-argument collapsing',
         'outside': 'Tier B (the generated dispatch code under a CPython model) and everything at run time: argument conversion, ownership, reference counts, exceptions; write_function_instance and the other emitters',
         'assumptions': []}}

NOT_APPLICABLE = {}
