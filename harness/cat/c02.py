"""Catalogue for C02 (Tier A: generator-side kernels of the -python-native back end)."""
from cat.common import *

_IMN = ['src/interrogate/interfaceMakerPythonNative.cxx']
# membuf storage of map/set nodes is a byte array: keep it field-sensitive so that pointers stored in it stay constants
_FS = ['--max-field-sensitivity-array-size', '200']
_CK = '_Z12checkKeywordRNSt7__cxx1112basic_stringIcSt11char_traitsIcESaIcEEE'
_CN = '_Z20classNameFromCppNameRKNSt7__cxx1112basic_stringIcSt11char_traitsIcESaIcEEEb'
_MN = '_Z21methodNameFromCppNameRKNSt7__cxx1112basic_stringIcSt11char_traitsIcESaIcEEES6_b'
# concrete loops of the code under test: keyword table (34 entries), rename dictionary (56), badChars.find (23 chars)
def _name_loops(lmax, method=False):
    d = {_CK + '.0': 40, 'll_memchr.0': 26, 'll_strlen.0': 24, 'll_memcmp.0': lmax + 3, 'll_memcpy.0': 24}
    if method:
        # .0/.1 the character loop, .2/.3 the rename dictionary (56 entries)
        d.update({_MN + '.0': lmax + 2, _MN + '.1': lmax + 2, _MN + '.2': 60, _MN + '.3': 60, 'll_memmove.0': 24, 'll_memmove.1': 24})
    else:
        d.update({_CN + '.0': lmax + 2, _CN + '.1': lmax + 2})
    return d
# std::string growth beyond the 15-byte SSO buffer never happens for these names: cutting basic_string::_M_mutate turns
# the (infeasible but symbolically explored) reallocation paths into an asserting stub the solver proves unreachable
_MUTATE = '_ZNSt7__cxx1112basic_stringIcSt11char_traitsIcESaIcEE9_M_mutateEmmPKcm'

HARNESSES = [
 {'id': 'c02_class_name', 'property': 'C02', 'src': 'c02_names.cxx', 'entry': 'harness_c02_class_name', 'tus': _IMN,
  'models': ['printf.c'], 'cut': [_MUTATE],
  'desc': 'classNameFromCppName (class, enum value and constant names) on every well-formed scoped C++ name',
  'domain': 'names of length 1..LMAX over [A-Za-z0-9_: ] that are well-formed (components [A-Za-z_][A-Za-z0-9_]* joined by ::, single inner blanks); mangle flag and -nomangle symbolic',
  'oracle': 'equals the reference (:: -> ., camelCase fold of _/blank separated words when mangling, else the C++ name; keyword -> _keyword); valid dotted Python identifier (when folding: if every component has a word starting with a letter); never a Python keyword',
  'bounds': {'quick': {'defs': {'LMAX': 5}, 'unwind': 40, 'unwindset': _name_loops(5), 'cap': 400},
             'thorough': {'defs': {'LMAX': 6}, 'unwind': 40, 'unwindset': _name_loops(6), 'cap': 2400}}},
 {'id': 'c02_method_examples', 'property': 'C02', 'src': 'c02_names.cxx', 'entry': 'harness_c02_method_examples', 'tus': _IMN,
  'models': ['printf.c'],
  'desc': 'methodNameFromCppName on 8 concrete method names (the symbolic variant does not finish, see the harness source)',
  'domain': '8 example names: snake_case, __py__ prefix, __init__, digits, leading/trailing underscore; mangle on/off, -nomangle',
  'oracle': 'expected plain name and camelCase alias per example',
  'bounds': {'quick': {'unwind': 60, 'cap': 400}}},
 {'id': 'c02_remap_compare', 'property': 'C02', 'src': 'c02_remap.cxx', 'entry': 'harness_c02_remap_compare', 'tus': _IMN,
  'cut': ['_Z13get_type_sortP7CPPType'], 'cbmc_flags': _FS,
  'desc': 'RemapCompareLess (std::sort comparator of the overload sets) is a strict weak ordering',
  'domain': '3 FunctionRemaps with symbolic const flag, every combination of 0..2 parameters each (27 concrete combinations inside the query); get_type_sort replaced by an uninterpreted table (one symbolic int per parameter slot)',
  'oracle': 'irreflexive, asymmetric, transitive, incomparability transitive; non-const first, more parameters first, higher type sort first',
  'bounds': {'quick': {'defs': {'NREMAP': 3, 'PMAX': 2}, 'unwind': 40, 'cap': 300}}},
]
for _id, _lo, _hi, _tiers in (('c02_keywords_a', 0, 12, ('quick', 'thorough')), ('c02_keywords_b', 12, 24, ('thorough',)), ('c02_keywords_c', 24, 34, ('thorough',))):
    HARNESSES.append(
 {'id': _id, 'property': 'C02', 'src': 'c02_names.cxx', 'entry': 'harness_c02_keywords', 'tus': _IMN, 'models': ['printf.c'], 'tiers': _tiers,
  'desc': 'checkKeyword / classNameFromCppName / methodNameFromCppName on the Python keywords %d..%d of the list of 34' % (_lo, _hi - 1),
  'domain': 'reserved words of Python 2 and 3 the generator lists (concrete loop; short keywords and all non-keywords are covered symbolically by c02_class_name / c02_method_name)',
  'oracle': 'keyword -> _keyword for classes, constants and methods (method print -> Cprint is outside: see harness source)',
  'bounds': {'quick': {'defs': {'KW_FROM': _lo, 'KW_TO': _hi}, 'unwind': 60, 'cap': 400}}})
_OPDOM = 'operator names (concrete loop over the spellings cppparser produces, all but "operator ,"); mangle=false (the primary name)'
_OPORA = 'each operator maps to its Python special-method name (__eq__, __getitem__, __iadd__, __bool__ ...) or to the documented plain name (assign, increment ...); the result is a valid identifier'
for _id, _lo, _hi, _hf in (('c02_operator_names_a', 0, 20, []), ('c02_operator_names_b', 20, 40, []), ('c02_operator_lshift', 0, 1, ['-DONLY_LSHIFT'])):
    HARNESSES.append(
 {'id': _id, 'property': 'C02', 'src': 'c02_names.cxx', 'entry': 'harness_c02_operator_names', 'tus': _IMN,
  'models': ['printf.c'], 'hflags': _hf,
  'desc': 'methodNameFromCppName on ' + ('operator <<' if _hf else 'every operator except << (entries %d..%d of the list)' % (_lo, _hi - 1)),
  'domain': _OPDOM, 'oracle': _OPORA,
  'bounds': {'quick': {'defs': {'OP_FROM': _lo, 'OP_TO': _hi, 'MODES': 1}, 'unwind': 60, 'cap': 400}}})
HARNESSES += [
]
for _id, _q, _t in (('c02_collapse_a', (0, 1), (0, 1)), ('c02_collapse_b', (1, 2), (1, 2)), ('c02_collapse_c', (2, 7), (2, 3)),
                    ('c02_collapse_d', None, (3, 4)), ('c02_collapse_e', None, (4, 6)), ('c02_collapse_f', None, (6, 11))):
    _b = {}
    if _q:
        _b['quick'] = {'defs': {'AMAX': 2, 'OPT_FROM': _q[0], 'OPT_TO': _q[1]}, 'unwind': 150, 'cap': 400}
    _b['thorough'] = {'defs': {'AMAX': 3, 'OPT_FROM': _t[0], 'OPT_TO': _t[1]}, 'unwind': 300, 'cap': 2400}
    HARNESSES.append(
 {'id': _id, 'property': 'C02', 'src': 'c02_remap.cxx', 'entry': 'harness_c02_collapse_defaults', 'tus': _IMN,
  'cut': ['_Z13get_type_sortP7CPPType'], 'cbmc_flags': _FS, 'nonterm_is_violation': True,
  'tiers': ('quick', 'thorough') if _q else ('thorough',),
  'desc': 'collapse_default_remaps on every overload table of 3 overloads with argument-count ranges within 0..AMAX (slice of the enumeration)',
  'domain': 'every multiset of 3 overloads, each absent or accepting a contiguous range of argument counts in 0..AMAX (enumerated by concrete loops; map_sets built as write_function_for_name does); first overload option in [OPT_FROM, OPT_TO)',
  'oracle': 'at least one arity kept, largest arity kept, returned minimum within the arities; every argument count selects at most one overload set; an overload that accepted n arguments is in the set consulted for n; no overload invented; termination',
  'bounds': _b})
# ---- overload order on real parameter types (c02_typesort.cxx) ----
_P = 'src/cppparser/'
_TS_TUS = _IMN + ['src/interrogate/typeManager.cxx'] + [_P + x for x in (
    'cppSimpleType.cxx', 'cppConstType.cxx', 'cppPointerType.cxx', 'cppReferenceType.cxx', 'cppTypedefType.cxx', 'cppEnumType.cxx',
    'cppStructType.cxx', 'cppExtensionType.cxx', 'cppScope.cxx', 'cppIdentifier.cxx', 'cppNameComponent.cxx', 'cppType.cxx',
    'cppDeclaration.cxx', 'cppAttributeList.cxx', 'cppFile.cxx',
    'cppParser.cxx')] + ['src/dtoolutil/filename.cxx']      # cppParser.cxx only because parse_type is cut (native replay weakens cut symbols in listed TUs)
_TS_CUT = ['_ZN11TypeManager12resolve_typeEP7CPPTypeP8CPPScope', '_ZN9CPPParser10parse_typeERKNSt7__cxx1112basic_stringIcSt11char_traitsIcESaIcEEE',
           '_ZNK7CPPType14get_local_nameB5cxx11EP8CPPScope',
           '_ZNK16CPPExtensionType14get_local_nameB5cxx11EP8CPPScope']
_TS_SKIP = [x.split('/')[-1] for x in _TS_TUS]
_TS_UNIVERSE = ('real type objects: a fundamental type (CPPSimpleType with SYMBOLIC content: bool, char, signed/unsigned char, wchar_t, char8/16/32_t, '
                '[unsigned] short/int/long/long long, float, double, long double, nullptr_t) plain, const-qualified and behind a typedef, in two '
                'independent families (one per overload); concrete compound types: unscoped enum, enum class, const char *, string class by value '
                'and by const reference, Cls *, const Cls &, Cls by value, Der * (Der derives from Cls), int *')
_TS_ORACLE = ('independent of the ranks: per type the Python argument categories its generated extraction accepts (A) and the categories it is '
              'the C++ target of (H); whenever a category of H(a) is accepted by b only by conversion (bool: everything; double/float: int; '
              'const char *: None) or H(a) is a strict non-empty subset of H(b) (derived before base), a must be tried before b; in '
              'particular a bool parameter comes after every other type')
HARNESSES += [
 {'id': 'c02_type_rank', 'property': 'C02', 'src': 'c02_typesort.cxx', 'entry': 'harness_c02_type_rank', 'tus': _TS_TUS,
  'cut': _TS_CUT, 'skip_ctors': _TS_SKIP, 'cbmc_flags': _FS,
  'desc': 'get_type_sort through the real TypeManager predicates ranks every parameter type consistently with what its Python-side extraction accepts',
  'domain': _TS_UNIVERSE + ' (16 classifications by a concrete loop); the PAIR of universe entries compared is symbolic',
  'oracle': _TS_ORACLE + '; bool variants rank alike',
  'bounds': {'quick': {'unwind': 30, 'cap': 300}}},
 {'id': 'c02_type_rank_cref', 'property': 'C02', 'src': 'c02_typesort.cxx', 'entry': 'harness_c02_type_rank', 'tus': _TS_TUS,
  'cut': _TS_CUT, 'skip_ctors': _TS_SKIP, 'cbmc_flags': _FS + ['--no-pointer-check'],
  'desc': 'c02_type_rank with the fundamental type also passed as "const T &" (FAILS on the unchanged tree: get_type_sort gives "const int &" / "const double &" / "const bool &" rank 0, '
          'so f(const int &) is tried after f(double) and after f(bool); known finding)',
  'domain': _TS_UNIVERSE + ' plus const T & of the symbolic fundamental type; the pair of types compared is symbolic; --no-pointer-check',
  'oracle': _TS_ORACLE + '; bool variants rank alike; every type is classified (rank > 0)',
  'bounds': {'quick': {'defs': {'WITH_CREF': 1}, 'unwind': 30, 'cap': 300}}},
 {'id': 'c02_dispatch_sym', 'property': 'C02', 'src': 'c02_typesort.cxx', 'entry': 'harness_c02_dispatch_order', 'tus': _TS_TUS,
  'cut': _TS_CUT, 'skip_ctors': _TS_SKIP, 'cbmc_flags': _FS + ['--no-pointer-check'],
  'desc': 'which of two two-parameter overloads (same first parameter type) the dispatch tries first: real RemapCompareLess -> get_type_sort on real parameter types, one of them a fundamental type with symbolic content',
  'domain': _TS_UNIVERSE + '; pairs (concrete loop): plain fundamental type against each of the 13 entries, const against typedef and typedef against const (content of both symbolic); '
            'the comparator is called directly in both directions (std::sort on a symbolic comparator runs off the array: see the harness source); --no-pointer-check (long run; c02_type_rank checks the same classification code with pointer checks)',
  'oracle': _TS_ORACLE + '; asymmetric',
  'bounds': {'quick': {'defs': {'NPAR': 2, 'PART': 1}, 'unwind': 30, 'cap': 400}}},
 {'id': 'c02_dispatch_sort', 'property': 'C02', 'src': 'c02_typesort.cxx', 'entry': 'harness_c02_dispatch_order', 'tus': _TS_TUS,
  'cut': _TS_CUT, 'skip_ctors': _TS_SKIP, 'cbmc_flags': _FS + ['--no-pointer-check'],
  'desc': 'order in which an overload set of 10 two-parameter overloads (same first parameter type) is tried: std::sort with the real RemapCompareLess, as write_function_forset does',
  'domain': 'concrete scenario: bool, int *, double, int, enum class, const char *, const string &, Cls *, const Cls &, Der * '
            'as second parameter, nullptr_t as first; input in two orders (as listed, reversed); nothing symbolic (a symbolic comparator answer sends std::sort off the array); --no-pointer-check',
  'oracle': 'every overload kept; ' + _TS_ORACLE,
  'bounds': {'quick': {'defs': {'NPAR': 2, 'PART': 2}, 'unwind': 130, 'unwindset': {'ll_ctlz.0': 66}, 'cap': 400}}},
]

PROPERTY_INFO = {'C02': {'level': 'model_checking',
         'explanation': 'bounded symbolic execution (CBMC) of generator-side kernels of the -python-native back end (Tier A of the plan): '
                        'Python names of classes/methods/operators, the overload ordering comparator, the ranking of real parameter types (get_type_sort through '
                        'the real TypeManager predicates) against what each generated extraction accepts, default-argument collapsing; '
                        'container-shaped inputs (overload tables, parameter counts) are enumerated by concrete loops inside the query, scalars are symbolic',
         'outside': 'Tier B (the generated dispatch code under a CPython model) and everything at run time: argument conversion, ownership, '
                    'reference counts, exceptions; write_function_instance and the other emitters (what each extraction accepts is reference '
                    'data of the c02_type_rank / c02_dispatch_* harnesses); parameter types outside their universe (PyObject *, Py_buffer *, wstring, arrays, '
                    'templates, unresolved types; pointer/reference shapes of fundamental types other than const char *, int * and const T &); method names on a symbolic domain (only examples, keywords and operators: the rename-dictionary '
                    'loop on a symbolic name does not finish), "print" -> "Cprint", "operator ," and camelCase aliases of operators (a growing '
                    'std::string = literal is undecidable for the engine); names whose components consist of underscores only',
         'assumptions': ['the rename dictionary / keyword list expected by the harness are the documented ones (copied into the harness as reference data)',
                         'the Python argument categories each parameter type accepts / is the C++ target of (tables in harness/c02_typesort.cxx) are those of '
                         'the extraction code write_function_instance emits (PyObject_IsTrue, PyLong_Check, PyNumber_Check, format units z s# i l k L K d f, '
                         'DTOOL_Call_GetPointerThisClass, Dtool_EnumValue_AsLong); TypeManager::resolve_type is the identity on the resolved types used']}}

NOT_APPLICABLE = {}
