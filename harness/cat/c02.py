"""Catalogue for C02 (Tier A: generator-side kernels of the -python-native back end)."""
from cat.common import *

_IMN = ['src/interrogate/interfaceMakerPythonNative.cxx']
# membuf storage of map/set nodes is a byte array: keep it field-sensitive so that pointers stored in it stay constants
_FS = ['--max-field-sensitivity-array-size', '200']
_CK = '_Z12checkKeywordRNSt7__cxx1112basic_stringIcSt11char_traitsIcESaIcEEE'
_CN = '_Z20classNameFromCppNameRKNSt7__cxx1112basic_stringIcSt11char_traitsIcESaIcEEEb'
_MN = '_Z21methodNameFromCppNameRKNSt7__cxx1112basic_stringIcSt11char_traitsIcESaIcEEES6_b'
# concrete loops of the code under test: keyword table (34 entries), rename dictionary (56), badChars.find (23 chars)
_NAME_LOOPS = {_CK + '.0': 40, _MN + '.0': 16, _MN + '.1': 60, _MN + '.2': 60, _CN + '.0': 16, _CN + '.1': 16,
               'll_memchr.0': 26, 'll_strlen.0': 24, 'll_memcmp.0': 24, 'll_memcpy.0': 24}

HARNESSES = [
 {'id': 'c02_class_name', 'property': 'C02', 'src': 'c02_names.cxx', 'entry': 'harness_c02_class_name', 'tus': _IMN,
  'models': ['printf.c'],
  'desc': 'classNameFromCppName (class, enum value and constant names) on every well-formed scoped C++ name',
  'domain': 'names of length 1..LMAX over [A-Za-z0-9_: ] that are well-formed (components [A-Za-z_][A-Za-z0-9_]* joined by ::, single inner blanks); mangle flag and -nomangle symbolic',
  'oracle': 'equals the reference (:: -> ., camelCase fold of _/blank separated words when mangling, else the C++ name; keyword -> _keyword); valid dotted Python identifier (when folding: if every component has a word starting with a letter); never a Python keyword',
  'bounds': {'quick': {'defs': {'LMAX': 3}, 'unwind': 9, 'unwindset': _NAME_LOOPS, 'cap': 150},
             'thorough': {'defs': {'LMAX': 8}, 'unwind': 11, 'unwindset': _NAME_LOOPS, 'cap': 2400}}},
 {'id': 'c02_remap_compare', 'property': 'C02', 'src': 'c02_remap.cxx', 'entry': 'harness_c02_remap_compare', 'tus': _IMN,
  'cut': ['_Z13get_type_sortP7CPPType'], 'cbmc_flags': _FS,
  'desc': 'RemapCompareLess (std::sort comparator of the overload sets) is a strict weak ordering',
  'domain': '3 FunctionRemaps with symbolic const flag, every combination of 0..2 parameters each (27 concrete combinations inside the query); get_type_sort replaced by an uninterpreted table (one symbolic int per parameter slot)',
  'oracle': 'irreflexive, asymmetric, transitive, incomparability transitive; non-const first, more parameters first, higher type sort first',
  'bounds': {'quick': {'defs': {'NREMAP': 3, 'PMAX': 2}, 'unwind': 40, 'cap': 300}}},
 {'id': 'c02_collapse_defaults', 'property': 'C02', 'src': 'c02_remap.cxx', 'entry': 'harness_c02_collapse_defaults', 'tus': _IMN,
  'cut': ['_Z13get_type_sortP7CPPType'], 'cbmc_flags': _FS, 'nonterm_is_violation': True,
  'desc': 'collapse_default_remaps on every overload table of 3 overloads with argument-count ranges within 0..AMAX',
  'domain': 'every multiset of 3 overloads, each absent or accepting a contiguous range of argument counts in 0..AMAX (enumerated, map_sets built as write_function_for_name does)',
  'oracle': 'at least one arity kept, largest arity kept, returned minimum within the arities; every argument count selects at most one overload set; an overload that accepted n arguments is in the set consulted for n; no overload invented',
  'bounds': {'quick': {'defs': {'AMAX': 2, 'OPT_FROM': 0, 'OPT_TO': 1}, 'unwind': 40, 'cap': 200}}},
]

PROPERTY_INFO = {'C02': {'level': 'model_checking',
         'explanation': 'bounded symbolic execution (CBMC) of generator-side kernels of the -python-native back end: name mangling, overload ordering comparator, default-argument collapsing',
         'outside': 'Tier B (the generated dispatch code under a CPython model) and everything at run time: argument conversion, ownership, reference counts, exceptions; write_function_instance and the other emitters',
         'assumptions': []}}

NOT_APPLICABLE = {}
