"""C15, exit-status clause: a run that reported a parse error exits non-zero and writes no output files
(checked on the real main() of interrogate.cxx, shared harness with C19)."""
from cat.common import *
from cat.c19 import _MAIN_TUS, _LOOPS

HARNESSES = [
    dict(id='c15_parse_error_exit', property='C15', src='c19_main.cxx', entry='harness_c19_main', tus=_MAIN_TUS,
         cut=['_ZN8Filename13make_absoluteEv', '_ZN8Filename13make_absoluteERKS_'], keep=['verif_at_exit'], replay='model',
         desc='real main() of interrogate.cxx with a symbolic parse result: a parse error gives exit(!=0) before any output is opened',
         domain='parse_file returns true/false; all three outputs requested; fault schedule symbolic',
         oracle='parse error => exit status != 0 and write_code / write / write_text never called',
         bounds=dict(quick=dict(defs=dict(OPTMASK=7), unwind=40, unwindset=_LOOPS, cap=600))),
]
PROPERTY_INFO = {}
NOT_APPLICABLE = {}
