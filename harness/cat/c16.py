"""Catalogue for C16."""
from cat.common import *

_CUT = ['interrogate_number_of_functions', 'interrogate_get_function', 'interrogate_function_has_library_name',
        'interrogate_function_library_name', 'interrogate_number_of_global_types', 'interrogate_get_global_type',
        'interrogate_type_is_global', 'interrogate_type_scoped_name', 'interrogate_type_has_module_name',
        'interrogate_type_module_name', 'interrogate_type_has_library_name', 'interrogate_type_library_name',
        'interrogate_type_number_of_derivations', 'interrogate_type_get_derivation', 'interrogate_type_is_typedef',
        'interrogate_type_wrapped_type']
_TUS = ['src/interrogate/interrogate_module.cxx', 'src/interrogatedb/interrogate_interface.cxx']
_FDC = '_ZL21find_dependency_cycleRSt6vectorINSt7__cxx1112basic_stringIcSt11char_traitsIcESaIcEEESaIS5_EERSt3mapIS5_St3setIS5_St4lessIS5_ES6_ESC_SaISt4pairIKS5_SD_EEE'

_SETE = '_ZNSt8_Rb_treeINSt7__cxx1112basic_stringIcSt11char_traitsIcESaIcEEES5_St9_IdentityIS5_ESt4lessIS5_ESaIS5_EE8_M_eraseEPSt13_Rb_tree_nodeIS5_E'
_MAPE = '_ZNSt8_Rb_treeINSt7__cxx1112basic_stringIcSt11char_traitsIcESaIcEEESt4pairIKS5_St3setIS5_St4lessIS5_ESaIS5_EEESt10_Select1stISD_ESA_SaISD_EE8_M_eraseEPSt13_Rb_tree_nodeISD_E'
_US = dict(DIAG_LOOPS)
_US.update({'ll_printf.0': 40, 'll_memcpy.0': 4, 'll_strlen.0': 4, 'll_memcmp.0': 4, 'll_memmove.0': 5, 'll_memmove.1': 5,
            _SETE: 4, _SETE + '.0': 4, _MAPE: 5, _MAPE + '.0': 5, _FDC + '.0': 5, _FDC: 5})

# membuf storage of map/set nodes is a byte array: keep it field-sensitive so that pointers stored in it stay constants
_FS = ['--max-field-sensitivity-array-size', '120', '-DVS_NOBJ=3', '-DVS_NBUF=2', '-DVS_CAP=4']

def _h(hid, desc, domain, quick, thorough=None, tiers=('quick', 'thorough')):
    """quick/thorough: dict(NT, LIBSETS, CODE_FROM, CODE_TO, SKIP3, ncases)"""
    b = {}
    for tier, d in (('quick', quick), ('thorough', thorough or quick)):
        d = dict(d)
        n = d.pop('ncases')
        d['LIBSETS'] = '"%s"' % d['LIBSETS']
        # every loop of this query runs on concrete data: the global bound is only a cap.  It must cover the harness'
        # own enumeration loop (CBMC counts the code loop cumulatively over the library assignments); 18 passes of
        # the ordering loop are far more than 3 libraries with 6 edges can need; recursion is bounded explicitly
        total = (d['CODE_TO'] - d['CODE_FROM']) * (d['LIBSETS'].count(';') + 1)
        b[tier] = dict(defs=d, unwind=max(18, total + 4), unwindset=_US, cap=200 + 60 * n)
    return dict(id=hid, property='C16', src='c16_order.cxx', entry='harness_c16_library_order', tus=_TUS, cut=_CUT,
                models=['printf.c'], cbmc_flags=_FS, desc=desc, domain=domain, nonterm_is_violation=True, bounds=b, tiers=tiers,
                oracle='libraries referenced = libraries contributing a type/function to the module, each exactly once; when the '
                       'library graph is acyclic every library follows the libraries of its bases/typedef targets; the ordering '
                       'loop and find_dependency_cycle terminate (unwinding assertions) also on cyclic graphs')

HARNESSES = []
# all 64 labelled digraphs on three libraries a,b,c (one class per library; edges by base class or typedef);
# thorough: also with two base classes instead of base class + typedef (all 125 codes); one more thorough entry
# registers the classes in reverse order (c,b,a).  Cost grows faster than linearly with the number of cases per
# query (30 cases did not finish in 2000 s on a loaded machine), hence at most 16 cases per entry.
for _d3 in (0, 1, 2, 3, 4):
    for _lo, _hi in ((0, 10), (10, 25)):
        _q = dict(NT=3, LIBSETS='abc-', CODE_FROM=25 * _d3 + _lo, CODE_TO=25 * _d3 + _hi, SKIP3=1, ncases=8)
        _t = dict(NT=3, LIBSETS='abc-', CODE_FROM=25 * _d3 + _lo, CODE_TO=25 * _d3 + _hi, SKIP3=0, ncases=_hi - _lo)
        HARNESSES.append(_h('c16_graph3_%d%s' % (_d3, 'ab'[_lo > 0]),
                            'write_python_table_native + find_dependency_cycle on every dependency graph of 3 libraries (slice %d/%d)' % (_d3, _lo),
                            '3 global classes in libraries a,b,c; each depends on any subset of the other two (base class / typedef); '
                            'dependency codes %d..%d (base 5, one digit per class: none/first/second/both/both)' % (25 * _d3 + _lo, 25 * _d3 + _hi - 1),
                            _q, _t, tiers=('thorough',) if _d3 == 3 else ('quick', 'thorough')))
HARNESSES.append(_h('c16_graph3_rev', 'dependency graphs of 3 libraries with the classes registered in reverse order of the library names',
                    '3 global classes in libraries c,b,a; dependency codes 0..24 without mode 3 (16 graphs)',
                    dict(NT=3, LIBSETS='cba-', CODE_FROM=0, CODE_TO=25, SKIP3=1, ncases=16), tiers=('thorough',)))
HARNESSES.append(_h('c16_funclib', 'a library that contributes only a function, next to two class libraries',
                    '2 global classes in libraries a,b (thorough: also b,a), one function in library c; every dependency set',
                    dict(NT=2, LIBSETS='abc', CODE_FROM=0, CODE_TO=10, SKIP3=1, ncases=8),
                    dict(NT=2, LIBSETS='abc;bac', CODE_FROM=0, CODE_TO=10, SKIP3=1, ncases=16)))
HARNESSES.append(_h('c16_shared_nolib', 'two classes in one library; a global class without library name; function in a class library',
                    '3 global classes with libraries a,a,b (thorough; quick-sized variant: a,a,b and a,(none),b) and a,b,c + a function in library a; dependency sets of a slice of the codes',
                    dict(NT=3, LIBSETS='aab-;a-b-', CODE_FROM=30, CODE_TO=35, SKIP3=1, ncases=8),
                    dict(NT=3, LIBSETS='aab-;abca', CODE_FROM=30, CODE_TO=40, SKIP3=1, ncases=16), tiers=('thorough',)))
HARNESSES.append(_h('c16_foreign_module', 'a class of the module derives from a global class of ANOTHER module present in the same database',
                    '3 global classes in libraries a,b,c, the class in b (thorough: or a) belongs to another module; dependency sets of the first class (thorough: first two)',
                    dict(NT=3, LIBSETS='aBc-', CODE_FROM=0, CODE_TO=5, SKIP3=1, ncases=4),
                    dict(NT=3, LIBSETS='aBc-;Abc-', CODE_FROM=0, CODE_TO=10, SKIP3=1, ncases=16)))

# ---- symbolic dependency graphs (c16_graph.cxx) ----------------------------------------------------------------
# set nodes are 64 bytes, map nodes 112: field-sensitive up to 120 keeps the pointers in them constants but not the
# padding arrays of the stream model; small stream pools (symbolic execution cost grows with them)
_FS2 = ['--max-field-sensitivity-array-size', '120', '-DVS_NOBJ=3', '-DVS_NBUF=2', '-DVS_CAP=4']

def _g(hid, nl, one, zero, desc, lo=0, hi=1, unwind=12, fdc=None, cap=600, tiers=('quick', 'thorough'), td=0, extra_us=None):
    us = dict(_US)
    us.update({_FDC: fdc or nl + 2, _FDC + '.0': nl + 1})
    us.update({'ll_memcpy.0': 80, 'll_memmove.0': 12, 'll_memmove.1': 12})
    us.update({'harness_c16_graph.%d' % i: 80 for i in range(24)})
    us.update(extra_us or {})
    d = dict(NL=nl, E_ONE='%du' % one, E_ZERO='%du' % zero, E_TYPEDEF='%du' % td, CODE_FROM='%du' % lo, CODE_TO='%du' % hi)
    return dict(id=hid, property='C16', src='c16_graph.cxx', entry='harness_c16_graph', tus=_TUS, cut=_CUT,
                models=['printf.c'], cbmc_flags=_FS2, desc=desc, domain='', nonterm_is_violation=True,
                bounds=dict(quick=dict(defs=d, unwind=unwind, unwindset=us, cap=cap)), tiers=tiers, oracle='')
HARNESSES.append(_g('c16_dev2', 2, 0, 0, 'dev', unwind=3, cap=200, extra_us={_SETE: 2, _SETE + '.0': 2, 'll_memcmp.0': 2}))
HARNESSES.append(_g('c16_dev4s', 4, 576, 54713, 'dev', hi=16, unwind=20))
HARNESSES.append(_g('c16_dev4c', 4, 10822, 0xFFFF & ~10822, 'dev', unwind=20))

PROPERTY_INFO = {'C16': {'level': 'model_checking',
         'explanation': 'execution of the real library-ordering code of interrogate_module (write_python_table_native, find_dependency_cycle) by the '
                        'CBMC engine over a model of the interrogate database query interface; the databases are enumerated by concrete loops '
                        'inside each query (all 64 labelled dependency graphs on 3 libraries in the quick tier; symbolic dependency sets make the '
                        'shape of std::map<string, set<string>> symbolic and do not finish), termination is decided by unwinding assertions',
         'outside': 'import/initialisation of the built module; the text of the generated file beyond the order of the library vector (the '
                    'RegisterTypes / BuildInstants / defs[] loops iterate the same vector); more than 3 libraries; command-line order of the '
                    'database files (the query interface is modelled, not loaded); the main() tail (exit status, output file removal) is '
                    'covered by the C19 harness family',
         'assumptions': ['the "Referencing Library" progress message is printed for exactly the elements of the ordered library vector, in order, '
                         'inside the loop that emits the LibraryDef declarations (read off the source); models/printf.c records it']}}

NOT_APPLICABLE = {}
