"""Catalogue for C16."""
from cat.common import *

_CUT = ['interrogate_number_of_functions', 'interrogate_get_function', 'interrogate_function_has_library_name',
        'interrogate_function_library_name', 'interrogate_number_of_global_types', 'interrogate_get_global_type',
        'interrogate_type_is_global', 'interrogate_type_scoped_name', 'interrogate_type_has_module_name',
        'interrogate_type_module_name', 'interrogate_type_has_library_name', 'interrogate_type_library_name',
        'interrogate_type_number_of_derivations', 'interrogate_type_get_derivation', 'interrogate_type_is_typedef',
        'interrogate_type_wrapped_type']
_TUS = ['src/interrogate/interrogate_module.cxx', 'src/interrogatedb/interrogate_interface.cxx']
_FDC = '_ZL21find_dependency_cycleRSt6vectorINSt7__cxx1112basic_stringIcSt11char_traitsIcESaIcEEESaIS5_EERSt3mapIS5_St3setIS5_St4lessIS5_ES6_ESC_SaISt4pairIKS5_SD_EEE'

_SETE = '_ZNSt8_Rb_treeINSt7__cxx1112basic_stringIcSt11char_traitsIcESaIcEEES5_St9_IdentityIS5_ESt4lessIS5_ESaIS5_EE8_M_eraseEPSt13_Rb_tree_nodeIS5_E'
_MAPE = '_ZNSt8_Rb_treeINSt7__cxx1112basic_stringIcSt11char_traitsIcESaIcEEESt4pairIKS5_St3setIS5_St4lessIS5_ESaIS5_EEESt10_Select1stISD_ESA_SaISD_EE8_M_eraseEPSt13_Rb_tree_nodeISD_E'
_US = dict(DIAG_LOOPS)
_US.update({'ll_printf.0': 40, 'll_memcpy.0': 4, 'll_strlen.0': 4, 'll_memcmp.0': 4, 'll_memmove.0': 5, 'll_memmove.1': 5,
            _SETE: 4, _SETE + '.0': 4, _MAPE: 5, _MAPE + '.0': 5, _FDC + '.0': 5, _FDC: 5})

# membuf storage of map/set nodes is a byte array: keep it field-sensitive so that pointers stored in it stay constants
_FS = ['--max-field-sensitivity-array-size', '120', '-DVS_NOBJ=3', '-DVS_NBUF=2', '-DVS_CAP=4']

def _h(hid, desc, domain, quick, thorough=None, tiers=('quick', 'thorough')):
    """quick/thorough: dict(NT, LIBSETS, CODE_FROM, CODE_TO, SKIP3, ncases)"""
    b = {}
    for tier, d in (('quick', quick), ('thorough', thorough or quick)):
        d = dict(d)
        n = d.pop('ncases')
        d['LIBSETS'] = '"%s"' % d['LIBSETS']
        # every loop of this query runs on concrete data: the global bound is only a cap.  It must cover the harness'
        # own enumeration loop (CBMC counts the code loop cumulatively over the library assignments); 18 passes of
        # the ordering loop are far more than 3 libraries with 6 edges can need; recursion is bounded explicitly
        total = (d['CODE_TO'] - d['CODE_FROM']) * (d['LIBSETS'].count(';') + 1)
        b[tier] = dict(defs=d, unwind=max(18, total + 4), unwindset=_US, cap=200 + 60 * n)
    return dict(id=hid, property='C16', src='c16_order.cxx', entry='harness_c16_library_order', tus=_TUS, cut=_CUT,
                models=['printf.c'], cbmc_flags=_FS, desc=desc, domain=domain, nonterm_is_violation=True, bounds=b, tiers=tiers,
                oracle='libraries referenced = libraries contributing a type/function to the module, each exactly once; when the '
                       'library graph is acyclic every library follows the libraries of its bases/typedef targets; the ordering '
                       'loop and find_dependency_cycle terminate (unwinding assertions) also on cyclic graphs')

HARNESSES = []
# all 64 labelled digraphs on three libraries a,b,c (one class per library; edges by base class or typedef);
# thorough: also with two base classes instead of base class + typedef (all 125 codes); one more thorough entry
# registers the classes in reverse order (c,b,a).  Cost grows faster than linearly with the number of cases per
# query (30 cases did not finish in 2000 s on a loaded machine), hence at most 16 cases per entry.
for _d3 in (0, 1, 2, 3, 4):
    for _lo, _hi in ((0, 10), (10, 25)):
        _q = dict(NT=3, LIBSETS='abc-', CODE_FROM=25 * _d3 + _lo, CODE_TO=25 * _d3 + _hi, SKIP3=1, ncases=8)
        _t = dict(NT=3, LIBSETS='abc-', CODE_FROM=25 * _d3 + _lo, CODE_TO=25 * _d3 + _hi, SKIP3=0, ncases=_hi - _lo)
        HARNESSES.append(_h('c16_graph3_%d%s' % (_d3, 'ab'[_lo > 0]),
                            'write_python_table_native + find_dependency_cycle on every dependency graph of 3 libraries (slice %d/%d)' % (_d3, _lo),
                            '3 global classes in libraries a,b,c; each depends on any subset of the other two (base class / typedef); '
                            'dependency codes %d..%d (base 5, one digit per class: none/first/second/both/both)' % (25 * _d3 + _lo, 25 * _d3 + _hi - 1),
                            _q, _t, tiers=('thorough',) if _d3 == 3 else ('quick', 'thorough')))
HARNESSES.append(_h('c16_graph3_rev', 'dependency graphs of 3 libraries with the classes registered in reverse order of the library names',
                    '3 global classes in libraries c,b,a; dependency codes 0..24 without mode 3 (16 graphs)',
                    dict(NT=3, LIBSETS='cba-', CODE_FROM=0, CODE_TO=25, SKIP3=1, ncases=16), tiers=('thorough',)))
HARNESSES.append(_h('c16_funclib', 'a library that contributes only a function, next to two class libraries',
                    '2 global classes in libraries a,b (thorough: also b,a), one function in library c; every dependency set',
                    dict(NT=2, LIBSETS='abc', CODE_FROM=0, CODE_TO=10, SKIP3=1, ncases=8),
                    dict(NT=2, LIBSETS='abc;bac', CODE_FROM=0, CODE_TO=10, SKIP3=1, ncases=16)))
HARNESSES.append(_h('c16_shared_nolib', 'two classes in one library; a global class without library name; function in a class library',
                    '3 global classes with libraries a,a,b (thorough; quick-sized variant: a,a,b and a,(none),b) and a,b,c + a function in library a; dependency sets of a slice of the codes',
                    dict(NT=3, LIBSETS='aab-;a-b-', CODE_FROM=30, CODE_TO=35, SKIP3=1, ncases=8),
                    dict(NT=3, LIBSETS='aab-;abca', CODE_FROM=30, CODE_TO=40, SKIP3=1, ncases=16), tiers=('thorough',)))
HARNESSES.append(_h('c16_foreign_module', 'a class of the module derives from a global class of ANOTHER module present in the same database',
                    '3 global classes in libraries a,b,c, the class in b (thorough: or a) belongs to another module; dependency sets of the first class (thorough: first two)',
                    dict(NT=3, LIBSETS='aBc-', CODE_FROM=0, CODE_TO=5, SKIP3=1, ncases=4),
                    dict(NT=3, LIBSETS='aBc-;Abc-', CODE_FROM=0, CODE_TO=10, SKIP3=1, ncases=16)))

# ---- symbolic dependency graphs on up to 4 libraries (c16_graph.cxx) ----------------------------------------------
# set nodes are 64 bytes, map nodes 112: field-sensitive up to 120 keeps the pointers in them constants but not the
# padding arrays of the stream model; small stream pools (symbolic execution cost grows with them)
_FS2 = ['--max-field-sensitivity-array-size', '120', '-DVS_NOBJ=3', '-DVS_NBUF=2', '-DVS_CAP=4']
_GRAPH_ORACLE = ('exactly NL libraries are referenced, each of them once; for every edge u -> v (the class of library u derives from / is a '
                 'typedef of the class of library v) that is on no dependency cycle (u not reachable from v in the bit matrix), v is '
                 'initialised before u; the ordering loop and find_dependency_cycle terminate (unwinding assertions, replayed natively as a hang)')

def _bit(nl, e):
    return 1 << ((ord(e[0]) - 97) * nl + (ord(e[1]) - 97))

def _mask(nl, edges):
    m = 0
    for e in edges.split():
        m |= _bit(nl, e)
    return m

def _g(hid, nl, one, zero, lo, hi, desc, tiers, td=''):
    """one / zero / td: space separated edges 'ab' = library a depends on library b; every other edge is a free
    (symbolic) bit; lo..hi: the values of the free bits (row-major order) this entry covers"""
    allbits = sum(1 << (u * nl + v) for u in range(nl) for v in range(nl) if u != v)
    one_m, zero_m = _mask(nl, one), _mask(nl, zero)
    free = [chr(97 + u) + chr(97 + v) for u in range(nl) for v in range(nl) if u != v and not (_bit(nl, chr(97 + u) + chr(97 + v)) & (one_m | zero_m))]
    assert hi <= 1 << len(free)
    us = dict(_US)
    # find_dependency_cycle: depth <= NL + 1, at most NL - 1 dependencies per library
    us.update({_FDC: nl + 2, _FDC + '.0': nl + 1})
    # the harness' constant tables are copied with memcpy (64 bytes); its own loops count cumulatively over the nest
    us.update({'ll_memcpy.0': 80, 'll_memmove.0': 12, 'll_memmove.1': 12})
    us.update({'harness_c16_graph.%d' % i: hi - lo + 4 for i in range(4)})
    us.update({'_ZL8run_casej.%d' % i: 80 for i in range(24)})
    d = dict(NL=nl, E_ONE='%du' % one_m, E_ZERO='%du' % zero_m, E_TYPEDEF='%du' % _mask(nl, td), CODE_FROM='%du' % lo, CODE_TO='%du' % hi)
    # each pass of the ordering loop adds a library or breaks an edge: NL + NL*(NL-1) passes at the very most
    return dict(id=hid, property='C16', src='c16_graph.cxx', entry='harness_c16_graph', tus=_TUS, cut=_CUT,
                models=['printf.c', 'casesplit.c'], cbmc_flags=_FS2, desc=desc, nonterm_is_violation=True,
                domain='%d libraries a.., one global class each; edges fixed present: {%s}, fixed absent: {%s}%s; SYMBOLIC edge bits (in this order): '
                       '%s, values %d..%d of the %d-bit vector; the solver picks the value, the harness branches on it so that every '
                       'branch runs the real code on constants' % (nl, one, zero, ('; made by a typedef instead of a base class: {%s}' % td) if td else '',
                                                                    ' '.join(free), lo, hi - 1, len(free)),
                oracle=_GRAPH_ORACLE, tiers=tiers,
                bounds=dict(quick=dict(defs=d, unwind=nl + nl * (nl - 1) + 4, unwindset=us, cap=200 + 40 * (hi - lo))))

# Family T: library a is a pure "tail" (nothing derives from its class; it sorts FIRST, so the cycle search starts from
# it and finds cycles it only leads into), any digraph on b,c,d, any set of edges from a: 9 free bits, 512 graphs.
# free bits in order: ab ac ad bc bd cb cd db dc
_T0 = 'ba ca da'
# quick: the 8 edge sets of the tail for three cyclic shapes of b,c,d
#   232..239: bc cb cd db   (2-cycle b<->c plus 3-cycle b->c->d->b)
#   200..207: bc cd db      (3-cycle), edges ab and cd made by typedefs
#   40..47:   bc cb         (2-cycle, d isolated or used by a only)
HARNESSES.append(_g('c16_tail4_q232', 4, '', _T0, 232, 240, 'tail library a leading into two overlapping cycles of b,c,d (4 libraries)', ('quick',)))
HARNESSES.append(_g('c16_tail4_q200', 4, '', _T0, 200, 208, 'tail library a leading into the 3-cycle b->c->d->b (4 libraries), typedef edges', ('quick',), td='ab cd'))
HARNESSES.append(_g('c16_tail4_q40', 4, '', _T0, 40, 48, 'tail library a leading into the 2-cycle b<->c, fourth library d (4 libraries)', ('quick',)))
# thorough: the whole family, and the mirror family L in which the pure tail is d (sorts LAST)
for _k in range(16):
    HARNESSES.append(_g('c16_tail4_a%02d' % _k, 4, '', _T0, 32 * _k, 32 * _k + 32,
                        'every dependency graph of 4 libraries in which nothing depends on library a (slice %d/16)' % _k, ('thorough',)))
for _k in range(16):
    HARNESSES.append(_g('c16_tail4_d%02d' % _k, 4, '', 'ad bd cd', 32 * _k, 32 * _k + 32,
                        'every dependency graph of 4 libraries in which nothing depends on library d (slice %d/16)' % _k, ('thorough',)))
# all 64 digraphs on 3 libraries and all 4 on 2 through the same harness (edges by base class)
for _k in range(2):
    HARNESSES.append(_g('c16_sym3_%d' % _k, 3, '', '', 32 * _k, 32 * _k + 32, 'every dependency graph of 3 libraries, edge bits symbolic (half %d)' % _k, ('thorough',)))
HARNESSES.append(_g('c16_sym2', 2, '', '', 0, 4, 'every dependency graph of 2 libraries, edge bits symbolic', ('quick', 'thorough')))

# ---- database clause ------------------------------------------------------------------------------------------
_DB = 'src/interrogatedb/'
_OPEN_READ = '_ZNK8Filename9open_readERSt14basic_ifstreamIcSt11char_traitsIcEE'
_DB_READ = '_ZN19InterrogateDatabase4readERSiP20InterrogateModuleDef'
_LOAD_LOOPS = dict(list(STATIC_INIT_LOOPS.items()) + list(DIAG_LOOPS.items()) + [('ll_strdup.0', 17)])
_FILES_DOMAIN = ('%d database files requested by (absolute) name; per file, symbolically: it can be opened or not, header identifier / major / '
                 'minor version over all of int, InterrogateDatabase::read() succeeds or fails on its body; every combination, hence every '
                 'position of the bad file(s); Filename::open_read and InterrogateDatabase::read are stand-ins (as in c12_header)')
for _n, _tiers in ((1, ('thorough',)), (2, ('quick', 'thorough')), (3, ('quick', 'thorough'))):
    HARNESSES.append(dict(
        id='c16_load_%d' % _n, property='C16', src='c16_load.cxx', entry='harness_c16_load',
        tus=[_DB + 'interrogateDatabase.cxx', _DB + 'config_interrogatedb.cxx', _DB + 'interrogate_request.cxx', 'src/dtoolutil/filename.cxx'],
        cut=[_OPEN_READ, _DB_READ], models=['strdup.c'], cbmc_flags=['-DVS_CAP=16'], tiers=_tiers,
        desc='the database-load error is sticky: interrogate_request_database x %d, then the first query (check_latest -> load_latest)' % _n,
        domain=_FILES_DOMAIN % _n,
        oracle='every requested file is opened once and parsed exactly when it opened with an acceptable version; afterwards the error flag is '
               'set IFF at least one file failed to load (could not be opened, version mismatch, or read() failed); no request stays pending',
        bounds={'quick': dict(defs=dict(NDB=_n), unwind=8, unwindset=_LOAD_LOOPS, cap=600)}))

for _mode, _n, _tiers in ((2, 2, ('quick', 'thorough')), (1, 2, ('quick', 'thorough')), (2, 3, ('thorough',)), (1, 3, ('thorough',))):
    HARNESSES.append(dict(
        id='c16_main_%s_%d' % (['c', 'python', 'native'][_mode], _n), property='C16', src='c16_main.cxx', entry='harness_c16_main',
        tus=['src/interrogate/interrogate_module.cxx', _DB + 'interrogateDatabase.cxx', _DB + 'config_interrogatedb.cxx',
             _DB + 'interrogate_request.cxx', _DB + 'interrogate_interface.cxx', 'src/dtoolutil/filename.cxx'],
        cut=[_OPEN_READ, _DB_READ, '_Z18write_python_tableRSo', '_Z25write_python_table_nativeRSo', '_ZNK8Filename6unlinkEv'],
        keep=['verif_at_exit'], models=['strdup.c'], cbmc_flags=['-DVS_CAP=16'], replay='script', confirm_script='c16_confirm.sh', tiers=_tiers,
        desc='the real main() of interrogate_module.cxx (-oc, mode %s) on top of the real database loader with %d database files on the command line'
             % (['-c', '-python', '-python-native'][_mode], _n),
        domain=(_FILES_DOMAIN % _n) + '; getopt_long_only, Filename::unlink and write_python_table[_native] are stand-ins (the latter asks the '
               'database for its number of functions, which triggers the load, and writes a little); no write faults (see C19)',
        oracle='some database failed to load => exit status != 0 and the output file is unlinked; every database loaded => exit status 0 and the '
               'output is kept; counterexamples are confirmed with the real binaries on garbage / truncated / missing files (c16_confirm.sh)',
        bounds={'quick': dict(defs=dict(NDB=_n, MODE=_mode), unwind=40, unwindset=_LOAD_LOOPS, cap=600)}))

PROPERTY_INFO = {'C16': {'level': 'model_checking',
         'explanation': 'execution of the real library-ordering code of interrogate_module (write_python_table_native, find_dependency_cycle) by the '
                        'CBMC engine over a model of the interrogate database query interface.  The dependency graph is given by edge bits: '
                        'in the c16_tail4_* / c16_sym* harnesses the bits are one symbolic bit vector whose value the solver chooses and on which the '
                        'harness branches (every branch executes the real code on constants: a std::set whose membership is symbolic has symbolic '
                        'node pointers and symbolic execution does not finish even for 2 libraries); the older c16_graph3_* harnesses enumerate the '
                        '3-library databases (base class / typedef / missing library name / foreign module variants) in concrete loops.  '
                        'Termination is decided by unwinding assertions.  The database clause is decided on the real loader '
                        '(request_module / check_latest / load_latest) and the real main() of interrogate_module with symbolic per-file '
                        'outcomes (cannot be opened / wrong version / read fails / loads) for 1..3 files',
         'outside': 'import/initialisation of the built module; the text of the generated file beyond the order of the library vector (the '
                    'RegisterTypes / BuildInstants / defs[] loops iterate the same vector); 4 libraries other than the two families "nothing '
                    'depends on the first / on the last library" (1024 of the 4096 labelled digraphs; quick tier: 24 graphs with a tail leading into '
                    'cycles); more than 4 libraries; more than 3 database files; the record parser and the file system below '
                    'InterrogateDatabase::read / Filename::open_read (C12); output write faults in main() (C19); interrogate_module -c mode and '
                    'runs without -oc, which never read the requested databases',
         'assumptions': ['the "Referencing Library" progress message is printed for exactly the elements of the ordered library vector, in order, '
                         'inside the loop that emits the LibraryDef declarations (read off the source); models/printf.c records it',
                         'write_python_table / write_python_table_native first ask the database for its number of functions, which is what '
                         'makes the database read the requested files (read off the source); the stand-ins in c16_main.cxx do the same']}}

NOT_APPLICABLE = {}
