"""Catalogue for C20."""
from cat.common import *

HARNESSES = [{'id': 'c20_bsearch',
  'property': 'C20',
  'src': 'c20_unique_name.cxx',
  'entry': 'harness_c20_bsearch',
  'tus': ['src/interrogatedb/interrogateDatabase.cxx'],
  'desc': 'binary_search_wrapper_hash over a sorted table of symbolic 2-char names with a symbolic key',
  'domain': 'n in 0..NMAX rows, names in {a,b,c}^2 strictly sorted, key in {a,b,c}^(0..KMAX)',
  'oracle': 'linear scan reference; recursion terminates within ceil(log2 n)+2 levels (unwinding assertion)',
  'nonterm_is_violation': True,
  'bounds': {'quick': {'defs': {'NMAX': 3, 'KMAX': 3},
                       'unwind': 5,
                       'unwindset': {'_ZN19InterrogateDatabase26binary_search_wrapper_hashEP24InterrogateUniqueNameDefS1_RKNSt7__cxx1112basic_stringIcSt11char_traitsIcESaIcEEE': 4,
                                     'll_strlen.0': 4,
                                     'll_memcmp.0': 4,
                                     'll_memcpy.0': 4},
                       'cap': 600},
             'thorough': {'defs': {'NMAX': 5, 'KMAX': 3},
                          'unwind': 7,
                          'unwindset': {'_ZN19InterrogateDatabase26binary_search_wrapper_hashEP24InterrogateUniqueNameDefS1_RKNSt7__cxx1112basic_stringIcSt11char_traitsIcESaIcEEE': 5,
                                        'll_strlen.0': 4,
                                        'll_memcmp.0': 4,
                                        'll_memcpy.0': 4},
                          'cap': 3000}}}]

PROPERTY_INFO = {'C20': {'level': 'model_checking',
         'explanation': 'bounded symbolic execution (CBMC) of the real query-interface code lowered from /repo',
         'outside': 'databases larger than the bounds; lazily loaded files (load_latest is cut)',
         'assumptions': []}}

NOT_APPLICABLE = {}
