"""Catalogue for C20."""
from cat.common import *

HARNESSES = [{'id': 'c20_bsearch',
  'property': 'C20',
  'src': 'c20_unique_name.cxx',
  'entry': 'harness_c20_bsearch',
  'tus': ['src/interrogatedb/interrogateDatabase.cxx'],
  'desc': 'binary_search_wrapper_hash over a sorted table of symbolic 2-char names with a symbolic key',
  'domain': 'n in 0..NMAX rows, names in {a,b,c}^2 strictly sorted, key in {a,b,c}^(0..KMAX)',
  'oracle': 'linear scan reference; recursion terminates within ceil(log2 n)+2 levels (unwinding assertion)',
  'nonterm_is_violation': True,
  'bounds': {'quick': {'defs': {'NMAX': 3, 'KMAX': 3},
                       'unwind': 5,
                       'unwindset': {'_ZN19InterrogateDatabase26binary_search_wrapper_hashEP24InterrogateUniqueNameDefS1_RKNSt7__cxx1112basic_stringIcSt11char_traitsIcESaIcEEE': 4,
                                     'll_strlen.0': 4,
                                     'll_memcmp.0': 4,
                                     'll_memcpy.0': 4},
                       'cap': 600},
             'thorough': {'defs': {'NMAX': 5, 'KMAX': 3},
                          'unwind': 7,
                          'unwindset': {'_ZN19InterrogateDatabase26binary_search_wrapper_hashEP24InterrogateUniqueNameDefS1_RKNSt7__cxx1112basic_stringIcSt11char_traitsIcESaIcEEE': 5,
                                        'll_strlen.0': 4,
                                        'll_memcmp.0': 4,
                                        'll_memcpy.0': 4},
                          'cap': 3000}}}]

# ---- L1 record layer -------------------------------------------------------------------------------------------
_DB = 'src/interrogatedb/'
_REC_TUS = [_DB + 'interrogateType.cxx', _DB + 'interrogateFunction.cxx', _DB + 'interrogateComponent.cxx']
_ASSERTS = ['-D_GLIBCXX_ASSERTIONS']


def _rec(id, entry, desc, oracle, unwind=5, cap=600, tus=_REC_TUS, us=None):
    return {'id': id, 'property': 'C20', 'src': 'c20_records.cxx', 'entry': entry, 'tus': tus,
            'tuflags': _ASSERTS, 'hflags': _ASSERTS, 'desc': desc,
            'domain': 'heap-allocated record, every vector of symbolic length 0..VMAX with symbolic contents, position symbolic over ALL of int',
            'oracle': oracle,
            # no large unwindset for the libc model loops: string lengths are 0/1 here and a bound of 80 on a memcpy whose
            # length is symbolic costs 15 GB
            'bounds': {'quick': {'defs': {'VMAX': 2}, 'unwind': unwind, 'unwindset': dict(us or {}), 'cap': cap},
                       'thorough': {'defs': {'VMAX': 3}, 'unwind': unwind + 1, 'unwindset': dict(us or {}), 'cap': 3000}}}


HARNESSES += [
    _rec('c20_rec_type_vectors', 'harness_c20_rec_type_vectors',
         'InterrogateType get_constructor/element/method/make_seq/cast/nested_type + number_of_*',
         'in range => stored entry, out of range => 0, count == stored entries; no crash / memory-safety failure (_GLIBCXX_ASSERTIONS + CBMC pointer checks)'),
    _rec('c20_rec_type_derivs', 'harness_c20_rec_type_derivs',
         'InterrogateType get_derivation/derivation_has_upcast/get_upcast/downcast_is_impossible/has_downcast/get_downcast',
         'in range => stored field / flag bit, out of range => 0 / false; count == stored entries',
         us={'ll_memcpy.0': 80, 'll_memmove.0': 80, 'll_memmove.1': 80}),   # concrete 16-byte Derivation copies
    _rec('c20_rec_type_enums', 'harness_c20_rec_type_enums',
         'InterrogateType get_enum_value_name/scoped_name/comment/get_enum_value',
         'in range => reference to the stored string / stored value, out of range => valid empty string / 0'),
    _rec('c20_rec_alt_names', 'harness_c20_rec_alt_names',
         'InterrogateComponent get_alt_name/get_num_alt_names/has_library_name/has_module_name',
         'in range => stored string, out of range => valid empty string; library/module name null-safe'),
    _rec('c20_rec_function', 'harness_c20_rec_function',
         'InterrogateFunction get_c_wrapper/get_python_wrapper + every scalar accessor',
         'default record neutral; in range => stored entry, out of range => 0; scalars return stored values'),
    _rec('c20_rec_wrapper', 'harness_c20_rec_wrapper',
         'InterrogateFunctionWrapper parameter_get_type/has_name/get_name/is_this/is_optional + every scalar accessor',
         'default record neutral; in range => stored field, out of range => 0 / false / valid empty string'),
    _rec('c20_rec_scalars', 'harness_c20_rec_scalars',
         'every scalar accessor of InterrogateType, InterrogateElement, InterrogateManifest, InterrogateMakeSeq',
         'default-constructed (= bogus) record is neutral for every accessor; accessors return the stored values / flag bits'),
]

# ---- L2 index layer --------------------------------------------------------------------------------------------
_LOAD_LATEST = '_ZN19InterrogateDatabase11load_latestEv'
# std::map nodes keep their value in an __aligned_membuf byte array (408 bytes for InterrogateType): CBMC only keeps arrays of up to 64
# cells field-sensitive by default, beyond that every access to a record inside a map node goes through one monolithic array (x25 formula)
_FAT_NODES = ['--max-field-sensitivity-array-size', '512']
_IDX_TUS = [_DB + 'interrogateDatabase.cxx', _DB + 'interrogateType.cxx', _DB + 'interrogateFunction.cxx', _DB + 'interrogateComponent.cxx']


def _idx(id, entry, desc, unwind=6, cap=600):
    return {'id': id, 'property': 'C20', 'src': 'c20_index.cxx', 'entry': entry, 'tus': _IDX_TUS,
            'cut': [_LOAD_LATEST],   # no file is requested: reaching load_latest is reported by the asserting auto stub
            'cbmc_flags': _FAT_NODES,
            'tuflags': _ASSERTS, 'hflags': _ASSERTS, 'desc': desc,
            'domain': 'one new InterrogateDatabase per entry count 0..NENT, entries built in place, entry keys symbolic over all of int '
                      '(strictly increasing), queried index symbolic over ALL of int',
            'oracle': 'known index => address of the stored record; unknown => a record distinct from every stored one whose every field is '
                      'neutral (0 / empty string / empty vector / null names); no crash, load_latest not reached',
            'bounds': {'quick': {'defs': {'NENT': 2}, 'unwind': unwind, 'cap': cap},
                       'thorough': {'defs': {'NENT': 3}, 'unwind': unwind + 1, 'cap': 3000}}}


HARNESSES += [
    _idx('c20_idx_type', 'harness_c20_idx_type', 'InterrogateDatabase::get_type over all of int'),
    _idx('c20_idx_function', 'harness_c20_idx_function', 'InterrogateDatabase::get_function over all of int'),
    _idx('c20_idx_wrapper', 'harness_c20_idx_wrapper', 'InterrogateDatabase::get_wrapper over all of int'),
    _idx('c20_idx_manifest', 'harness_c20_idx_manifest', 'InterrogateDatabase::get_manifest over all of int'),
    _idx('c20_idx_element', 'harness_c20_idx_element', 'InterrogateDatabase::get_element over all of int'),
    _idx('c20_idx_make_seq', 'harness_c20_idx_make_seq', 'InterrogateDatabase::get_make_seq over all of int'),
    {'id': 'c20_idx_enumerators', 'property': 'C20', 'src': 'c20_index.cxx', 'entry': 'harness_c20_idx_enumerators', 'tus': _IDX_TUS,
     'cut': [_LOAD_LATEST], 'tuflags': _ASSERTS, 'hflags': _ASSERTS,
     'desc': 'get_global_type/get_all_type/get_global_function/get_all_function/get_global_manifest/get_global_element + get_num_*',
     'domain': 'six index vectors of symbolic length 0..VMAX with symbolic contents, position symbolic over ALL of int',
     'oracle': 'count == number of stored entries; in range => stored index, out of range => 0; no crash',
     'bounds': {'quick': {'defs': {'VMAX': 2}, 'unwind': 5, 'cap': 600}, 'thorough': {'defs': {'VMAX': 4}, 'unwind': 7, 'cap': 3000}}},
]

# ---- unique-name lookup through the database ---------------------------------------------------------------------
_BSEARCH = '_ZN19InterrogateDatabase26binary_search_wrapper_hashEP24InterrogateUniqueNameDefS1_RKNSt7__cxx1112basic_stringIcSt11char_traitsIcESaIcEEE'
HARNESSES += [
    {'id': 'c20_by_unique_name', 'property': 'C20', 'src': 'c20_unique_name.cxx', 'entry': 'harness_c20_by_unique_name',
     'tus': [_DB + 'interrogateDatabase.cxx'],
     'cut': [_BSEARCH],    # decided separately by c20_bsearch; replaced here by a contract stub returning ANY of its possible results
     'hflags': ['-DCUT_BSEARCH'],
     'desc': 'InterrogateDatabase::get_wrapper_by_unique_name on a database with one module registered in _modules_by_hash '
             '(compositional: the table search is c20_bsearch)',
     'domain': 'queried name: every NUL-free byte string of length 0..KLEN; module "LIBX" with a table of 0..UMAX rows, first_index in 1..10^6; '
               'search result: -1 or any offset 0..10^6',
     'oracle': 'unknown library (incl. every name shorter than 4 characters) => 0 and no search; known library => the module table is searched '
               'for the characters after the 4-character hash and the result is first_index+offset / 0; no crash (uncaught exception)',
     'bounds': {'quick': {'defs': {'KLEN': 7, 'UMAX': 2}, 'unwind': 10, 'cap': 600},
                'thorough': {'defs': {'KLEN': 12, 'UMAX': 2}, 'unwind': 15, 'cap': 3000}}},
]

# ---- get_fptr totality (the harness is shared with C13: harness/c13_modules.cxx) -----------------------------------
from cat.c13 import _fptr
HARNESSES += [_fptr('c20_fptr_total', 'C20', 1)]


# ---- by-name lookups: histories of calls (the member-pointer trick of c13_lookups.cxx made lookup()/freshen_* affordable) --------------
from cat.c13 import _MF_TUS, _REALLOC_INT, _ERASE
_LK_NAMES = ['lookup_type_by_name', 'lookup_type_by_scoped_name', 'lookup_type_by_true_name', 'lookup_manifest_by_name',
             'lookup_element_by_name', 'lookup_element_by_scoped_name']


def _lk(first):
    b = {'defs': {'FIRST': first}, 'unwind': 10, 'unwindset': {'ll_memmove.0': 40, 'll_memcpy.0': 40, _ERASE: 5}, 'cap': 600}
    return dict(id='c20_lookups_f%d' % first, property='C20', src='c20_lookups.cxx', entry='harness_c20_lookups',
                # interrogateDatabase.cxx is compiled as part of the harness unit (see c20_lookups.cxx: pointer to member function)
                tus=_MF_TUS[1:] + [_DB + 'interrogateManifest.cxx'], hflags=_ASSERTS + ['-DBUILDING_INTERROGATEDB'], tuflags=_ASSERTS,
                cut=[_LOAD_LATEST, _REALLOC_INT], cbmc_flags=_FAT_NODES,
                desc='histories of by-name lookups: %s first, then each of the six lookup_*_by_* functions, on a new database with a nested type' % _LK_NAMES[first],
                domain='CONCRETE histories and names (weak): database = type O, nested type W (plain name "W", scoped name "O::W", true name "tW"), '
                       'manifest m, member element e (scoped name "O::e"); 6 histories: %s asked 2-4 names (each name the entities bear in '
                       'that table, a name they bear in another table, an unknown name), then the second function asked its 2-4 names; '
                       'one catalogue entry per first function, so the six entries cover all 36 ordered pairs' % _LK_NAMES[first],
                oracle='every answer at both points == index of the entity bearing that name in that table, else 0 (in particular the second '
                       'function\'s answers do not depend on the first); records unchanged; load_latest not reached; no crash',
                bounds={'quick': b, 'thorough': b})


HARNESSES += [_lk(f) for f in range(6)]


PROPERTY_INFO = {'C20': {'level': 'model_checking',
         'explanation': 'bounded symbolic execution (CBMC) of the real query-interface code lowered from /repo',
         'outside': 'databases larger than the bounds; lazily loaded files (load_latest is cut: no file is requested in any harness); the by-name '
                    'lookups lookup()/freshen_* are decided on CONCRETE histories only (c20_lookups_f*: every ordered pair of the six lookup '
                    'functions on one database with a nested type, concrete query names; symbolic query names or a symbolic choice of the table '
                    'make every cache root symbolic and ran out of memory, see c13_lookups.cxx; histories longer than two functions and lookups '
                    'interleaved with loads: C13 c13_lookups_k*); the one-line extern "C" wrappers '
                    'of interrogate_interface.cxx themselves (each is get_ptr()->get_K(i).accessor(n), the two layers are decided separately)',
         'assumptions': []}}

NOT_APPLICABLE = {}
