"""Catalogue for C07."""
from cat.common import *

HARNESSES = [{'id': 'c07_binary',
  'property': 'C07',
  'src': 'c07_evaluate.cxx',
  'entry': 'harness_c07_binary',
  'tus': ['src/cppparser/cppExpression.cxx', 'src/cppparser/cppDeclaration.cxx', 'src/cppparser/cppFile.cxx', 'src/dtoolutil/filename.cxx'],
  'desc': 'CPPExpression::evaluate on one binary node over two integer leaves, every binary operator except * / %',
  'domain': 'leaves over all of int; operators + - | & ^ || && == != <= >= <=> < > << >> ,',
  'oracle': 'C++ semantics in 64-bit under the precondition that the result fits in int',
  'bounds': {'quick': {'defs': {'OPSET': 0},
                       'unwind': 22,
                       'unwindset': {'_ZStlsISt11char_traitsIcEERSt13basic_ostreamIcT_ES5_PKc.0': 120,
                                     '_ZSt16__ostream_insertIcSt11char_traitsIcEERSt13basic_ostreamIT_T0_ES6_PKS3_l.0': 120},
                       'cap': 300}}},
 {'id': 'c07_muldiv',
  'property': 'C07',
  'src': 'c07_evaluate.cxx',
  'entry': 'harness_c07_binary',
  'tus': ['src/cppparser/cppExpression.cxx', 'src/cppparser/cppDeclaration.cxx', 'src/cppparser/cppFile.cxx', 'src/dtoolutil/filename.cxx'],
  'desc': 'CPPExpression::evaluate on * / % incl. division by zero and INT_MIN / -1',
  'domain': 'leaves in [-LEAFMAX, LEAFMAX] plus INT_MIN, INT_MAX',
  'oracle': 'C++ semantics; /0 and %0 must give RT_error; no trap (CBMC division checks on the real code)',
  'bounds': {'quick': {'defs': {'OPSET': 1, 'LEAFMAX': 64}, 'unwind': 22, 'cap': 300},
             'thorough': {'defs': {'OPSET': 1, 'LEAFMAX': 256}, 'unwind': 22, 'cap': 3000}}},
 {'id': 'c07_unary',
  'property': 'C07',
  'src': 'c07_evaluate.cxx',
  'entry': 'harness_c07_unary',
  'tus': ['src/cppparser/cppExpression.cxx', 'src/cppparser/cppDeclaration.cxx', 'src/cppparser/cppFile.cxx', 'src/dtoolutil/filename.cxx'],
  'desc': 'CPPExpression::evaluate on unary operators',
  'domain': 'leaf over all of int, 4 unary operators',
  'oracle': 'C++ semantics',
  'bounds': {'quick': {'unwind': 22, 'cap': 300}}}]

HARNESSES += [
    dict(id='c07_enum_increment', property='C07', src='c07_enum.cxx', entry='harness_c07_enum_increment',
         tus=['src/cppparser/cppEnumType.cxx', 'src/cppparser/cppExtensionType.cxx', 'src/cppparser/cppInstance.cxx', 'src/cppparser/cppIdentifier.cxx',
              'src/cppparser/cppNameComponent.cxx', 'src/cppparser/cppExpression.cxx', 'src/cppparser/cppDeclaration.cxx', 'src/cppparser/cppFile.cxx',
              'src/cppparser/cppAttributeList.cxx', 'src/cppparser/cppType.cxx', 'src/dtoolutil/filename.cxx'],
         cut=['_ZN7CPPType8new_typeEPS_'],
         desc='CPPEnumType::add_element: implicit enumerators after an initializer of shape literal / a+n / a-n / (a-n)+1 / n-a / -a',
         domain='a, n symbolic in (-1e5, 1e5); 6 initializer shapes (concrete loop), two implicit successors each',
         oracle='successor value == previous + 1 via the real evaluator; first implicit enumerator is 0',
         bounds=dict(quick=dict(unwind=8, unwindset={'ll_strlen.0': 8, 'll_memcpy.0': 20}, cap=1200))),
]

PROPERTY_INFO = {'C07': {'level': 'model_checking',
         'explanation': 'bounded symbolic execution (CBMC) of CPPExpression::evaluate on trees built by the real constructors',
         'outside': 'operator precedence/associativity (bison tables), references to earlier enumerators/macros (scope lookup), literal lexing '
                    'beyond the encoded scanners',
         'assumptions': []}}

NOT_APPLICABLE = {}

# ---- literal decoding (a_c09c17) ------------------------------------------------------------------------------------
_DISJUNCT = '_ZNKSt7__cxx1112basic_stringIcSt11char_traitsIcESaIcEE11_M_disjunctEPKc'


def _lit(name, setno, litmax, nparts, part, desc):
    us = {'ll_strlen.0': 12, 'll_memcmp.0': 12, 'll_memcpy.0': 20, 'll_memmove.0': 12, 'll_memchr.0': 12, 'vs_istream_bytes.0': 20,
          '_ZN15CPPPreprocessor9InputFile3getEv.0': 2, '_ZN15CPPPreprocessor9InputFile4peekEv.0': 2}
    b = {'defs': {'SET': setno, 'LITMAX': litmax, 'NPARTS': nparts, 'PART': part}, 'unwind': 700, 'unwindset': us, 'cap': 300}
    return dict(id='c07_lit_%s_%d' % (name, part), property='C07', src='c07_literals.cxx', entry='harness_c07_literals',
                tus=['src/cppparser/cppPreprocessor.cxx', 'src/cppparser/cppToken.cxx', 'src/cppparser/cppFile.cxx',
                     'src/cppparser/cppAttributeList.cxx', 'src/dtoolutil/filename.cxx'],
                skip_ctors=['cppPreprocessor.cxx'], tuflags=['-fno-inline'], cut=[_DISJUNCT],
                models=['strdisjunct.c', 'strtol.c', 'list.c'],
                # --pointer-check makes symbolic execution quadratic in the number of dead locals; off for this long
                # concrete enumeration (bounds/overflow/division checks and the base.c crash assertions stay on)
                cbmc_flags=['--no-pointer-check', '--max-field-sensitivity-array-size', '128'], object_bits=16,
                desc='literal decoding through the istream byte model: ' + desc,
                domain='concrete loop over literal spellings (no symbolic input: symbolic bytes make the lexer\'s strings '
                       'symbolic-length and symbolic execution does not terminate): ' + desc + '; residue class %d of %d' % (part, nparts),
                oracle='token kind INTEGER / CHAR_TOK; value equals the reference value of the spelling; exactly the literal is consumed',
                bounds=dict(quick=b, thorough=b))


HARNESSES += (
    [_lit('dec', 0, 2, 2, p, 'get_number on every decimal literal of 1..2 digits over {0,1,9}') for p in range(2)] +
    [_lit('oct', 1, 3, 2, p, 'get_number on every octal literal 0d, 0dd over {0,1,7}') for p in range(2)] +
    [_lit('hex', 2, 4, 4, p, 'get_number on every hex literal 0x/0X + 1..2 digits over {0,9,a,F}') for p in range(4)] +
    [_lit('bin', 3, 4, 1, p, 'get_number on every binary literal 0b/0B + 1..2 digits') for p in range(1)] +
    [_lit('chr', 4, 4, 4, p, 'get_quoted_char / scan_escape_sequence / hex_val on 24 character literals: plain, simple escapes, '
          'octal \\0 \\7 \\17 \\101 \\377, hex \\x41 \\x7f \\xA \\x0, \\e, \\18') for p in range(4)]
)

# ---- the real generated parser: precedence / associativity (t07) ------------------------------------------------------
_PARSE_TUS = ['src/cppparser/cppPreprocessor.cxx', 'src/cppparser/cppExpression.cxx', 'src/cppparser/cppDeclaration.cxx',
              'src/cppparser/cppToken.cxx', 'src/cppparser/cppFile.cxx', 'src/cppparser/cppAttributeList.cxx', 'src/dtoolutil/filename.cxx']
_PARSE_CUT = ['_ZN15CPPPreprocessor14get_next_tokenEv',
              '_ZNK15CPPPreprocessor5errorERKNSt7__cxx1112basic_stringIcSt11char_traitsIcESaIcEEERK10cppyyltype',
              '_ZNK15CPPPreprocessor7warningERKNSt7__cxx1112basic_stringIcSt11char_traitsIcESaIcEEERK10cppyyltype']

_PARSE_OPS = ['*', '/', '%', '+', '-', '<<', '>>', '<', '<=', '>', '>=', '==', '!=', '&', '^', '|', '&&', '||']
_PARSE_NAMES = ['mul', 'div', 'mod', 'add', 'sub', 'shl', 'shr', 'lt', 'le', 'gt', 'ge', 'eq', 'ne', 'and', 'xor', 'or', 'andand', 'oror']


def _parse(hid, defs, tiers, desc, domain, cap):
    return dict(id=hid, property='C07', src='c07_parse.cxx', entry='harness_c07_parse_pairs',
                tus=_PARSE_TUS, cut=_PARSE_CUT, skip_ctors=['cppPreprocessor.cxx'], tiers=tiers,
                # long concrete run (the LALR automaton on concrete token kinds): --pointer-check makes symbolic
                # execution quadratic in the dead locals of the 11000-variable cppyyparse (70 s instead of 15 s per
                # parse); bounds/overflow/division checks and the base.c crash assertions stay on, native replay is ASan
                cbmc_flags=['--no-pointer-check'],
                desc='the REAL generated parser (bison output of the cppBison.yxx under test) driven through parse_const_expr on the '
                     'token script START_CONST_EXPR a OP1 b OP2 c <eof> (lexer cut, replaced by the script), result evaluated by the '
                     'real CPPExpression::evaluate: ' + desc,
                domain=domain + '; token kinds concrete (concrete loop), literal values a, b, c symbolic in [0, INT_MAX] '
                       '([0, 63] when OP1 or OP2 is * / %); parser stack depth YYINITDEPTH lowered 200 -> 10 in the encoded build',
                oracle='parse accepted without diagnostics; whenever the C++ value (C++ precedence levels * / % > + - > << >> > < <= > >= > '
                       '== != > & > ^ > | > && > ||, all left-associative, written down independently in the harness) is defined and '
                       'fits in int, evaluate() returns RT_integer with exactly that value',
                bounds=dict(quick=dict(defs=defs, unwind=30, cap=cap), thorough=dict(defs=defs, unwind=30, cap=cap)))


HARNESSES += (
    [_parse('c07_parse_adj_%d' % p, dict(PAIRSET=1, NPARTS=7, PART=p), ('quick',),
            'level-by-level subset, part %d of 7' % p,
            '14 operator pairs: representatives / - >> < == & ^ | && || of the ten levels; for each adjacent pair of levels the '
            'expression with the looser operator first (a - b / c), plus the same-level pair (a - b - c) for / - >> < ==', 600)
     for p in range(7)] +
    [_parse('c07_parse_row_%s_%d' % (_PARSE_NAMES[r], p), dict(PAIRSET=0, ROW=r, NPARTS=3, PART=p), ('thorough',),
            'OP1 = %s, OP2 = each binary operator with index = %d mod 3' % (_PARSE_OPS[r], p),
            '6 operator pairs (the 54 row entries cover all 324 ordered pairs)', 1500) for r in range(18) for p in range(3)]
)

PROPERTY_INFO['C07']['explanation'] += ('; operator precedence/associativity: bounded symbolic execution of the generated LALR parser '
                                        '(cppyyparse) on three-operand token scripts, value compared with an independent C++ table')
PROPERTY_INFO['C07']['outside'] = ('precedence of ?:, unary operators, casts and of the no_angle_bracket/formal expression grammars '
                                   '(same %left table, other productions); references to earlier enumerators/macros (scope lookup); '
                                   'literal lexing beyond the encoded scanners')
