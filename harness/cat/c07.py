"""Catalogue for C07."""
from cat.common import *

HARNESSES = [{'id': 'c07_binary',
  'property': 'C07',
  'src': 'c07_evaluate.cxx',
  'entry': 'harness_c07_binary',
  'tus': ['src/cppparser/cppExpression.cxx', 'src/cppparser/cppDeclaration.cxx', 'src/cppparser/cppFile.cxx', 'src/dtoolutil/filename.cxx'],
  'desc': 'CPPExpression::evaluate on one binary node over two integer leaves, every binary operator except * / %',
  'domain': 'leaves over all of int; operators + - | & ^ || && == != <= >= <=> < > << >> ,',
  'oracle': 'C++ semantics in 64-bit under the precondition that the result fits in int',
  'bounds': {'quick': {'defs': {'OPSET': 0},
                       'unwind': 22,
                       'unwindset': {'_ZStlsISt11char_traitsIcEERSt13basic_ostreamIcT_ES5_PKc.0': 120,
                                     '_ZSt16__ostream_insertIcSt11char_traitsIcEERSt13basic_ostreamIT_T0_ES6_PKS3_l.0': 120},
                       'cap': 600}}},
 {'id': 'c07_muldiv',
  'property': 'C07',
  'src': 'c07_evaluate.cxx',
  'entry': 'harness_c07_binary',
  'tus': ['src/cppparser/cppExpression.cxx', 'src/cppparser/cppDeclaration.cxx', 'src/cppparser/cppFile.cxx', 'src/dtoolutil/filename.cxx'],
  'desc': 'CPPExpression::evaluate on * / % incl. division by zero and INT_MIN / -1',
  'domain': 'leaves in [-LEAFMAX, LEAFMAX] plus INT_MIN, INT_MAX',
  'oracle': 'C++ semantics; /0 and %0 must give RT_error; no trap (CBMC division checks on the real code)',
  'bounds': {'quick': {'defs': {'OPSET': 1, 'LEAFMAX': 64}, 'unwind': 22, 'cap': 600},
             'thorough': {'defs': {'OPSET': 1, 'LEAFMAX': 4096}, 'unwind': 22, 'cap': 3000}}},
 {'id': 'c07_unary',
  'property': 'C07',
  'src': 'c07_evaluate.cxx',
  'entry': 'harness_c07_unary',
  'tus': ['src/cppparser/cppExpression.cxx', 'src/cppparser/cppDeclaration.cxx', 'src/cppparser/cppFile.cxx', 'src/dtoolutil/filename.cxx'],
  'desc': 'CPPExpression::evaluate on unary operators',
  'domain': 'leaf over all of int, 4 unary operators',
  'oracle': 'C++ semantics',
  'bounds': {'quick': {'unwind': 22, 'cap': 600}}}]

HARNESSES += [
    dict(id='c07_enum_increment', property='C07', src='c07_enum.cxx', entry='harness_c07_enum_increment',
         tus=['src/cppparser/cppEnumType.cxx', 'src/cppparser/cppExtensionType.cxx', 'src/cppparser/cppInstance.cxx', 'src/cppparser/cppIdentifier.cxx',
              'src/cppparser/cppNameComponent.cxx', 'src/cppparser/cppExpression.cxx', 'src/cppparser/cppDeclaration.cxx', 'src/cppparser/cppFile.cxx',
              'src/cppparser/cppAttributeList.cxx', 'src/cppparser/cppType.cxx', 'src/dtoolutil/filename.cxx'],
         cut=['_ZN7CPPType8new_typeEPS_'],
         desc='CPPEnumType::add_element: implicit enumerators after an initializer of shape literal / a+n / a-n / (a-n)+1 / n-a / -a',
         domain='a, n symbolic in (-1e5, 1e5); 6 initializer shapes (concrete loop), two implicit successors each',
         oracle='successor value == previous + 1 via the real evaluator; first implicit enumerator is 0',
         bounds=dict(quick=dict(unwind=8, unwindset={'ll_strlen.0': 8, 'll_memcpy.0': 20}, cap=1200))),
]

PROPERTY_INFO = {'C07': {'level': 'model_checking',
         'explanation': 'bounded symbolic execution (CBMC) of CPPExpression::evaluate on trees built by the real constructors',
         'outside': 'operator precedence/associativity (bison tables), references to earlier enumerators/macros (scope lookup), literal lexing '
                    'beyond the encoded scanners',
         'assumptions': []}}

NOT_APPLICABLE = {}
