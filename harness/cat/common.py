"""Shared constants for catalogue files."""
# loops of the libc models executed by static initialisers on concrete data (string constants): they unroll
# exactly as far as the data requires, the bound only has to be large enough
STATIC_INIT_LOOPS = {'ll_memcpy.0': 80, 'll_strlen.0': 80, 'll_memcmp.0': 80, 'll_memmove.0': 80, 'll_memmove.1': 80}
# diagnostics written to std::cerr: string literals pushed through the stream model byte by byte
DIAG_LOOPS = {'_ZStlsISt11char_traitsIcEERSt13basic_ostreamIcT_ES5_PKc.0': 120,
              '_ZSt16__ostream_insertIcSt11char_traitsIcEERSt13basic_ostreamIT_T0_ES6_PKS3_l.0': 120}
