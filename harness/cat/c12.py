"""Catalogue for C12."""
from cat.common import *

HARNESSES = [{'id': 'c12_string',
  'property': 'C12',
  'src': 'c12_strings.cxx',
  'entry': 'harness_c12_string_roundtrip',
  'tus': ['src/interrogatedb/interrogate_datafile.cxx'],
  'desc': 'idf_output_string/idf_input_string (std::string) round trip followed by an integer',
  'domain': 'every byte string of length 0..LMAX (all 256 byte values), whitespace in {space,newline}, following int over all of int',
  'oracle': 'read-back string equal, stream not failed, following integer intact, integers delimited',
  'bounds': {'quick': {'defs': {'LMAX': 3}, 'unwind': 6, 'cap': 600}, 'thorough': {'defs': {'LMAX': 6}, 'unwind': 9, 'cap': 3000}}},
 {'id': 'c12_cstring',
  'property': 'C12',
  'src': 'c12_strings.cxx',
  'entry': 'harness_c12_cstring_roundtrip',
  'tus': ['src/interrogatedb/interrogate_datafile.cxx'],
  'desc': 'idf_output_string/idf_input_string (const char*) round trip incl. nullptr and empty',
  'domain': 'NUL-free byte strings of length 0..LMAX, nullptr, whitespace in {space,newline}',
  'oracle': 'read-back equal / unchanged for empty, following integer intact',
  'bounds': {'quick': {'defs': {'LMAX': 3}, 'unwind': 6, 'cap': 600}, 'thorough': {'defs': {'LMAX': 6}, 'unwind': 9, 'cap': 3000}}}]


def _h(id, src, entry, tus, desc, domain, oracle, quick, thorough=None, **kw):
    b = {'quick': quick}
    if thorough is not None:
        b['thorough'] = thorough
    d = dict(id=id, property='C12', src=src, entry=entry, tus=tus, desc=desc, domain=domain, oracle=oracle, bounds=b)
    d.update(kw)
    return d

_DF = 'src/interrogatedb/interrogate_datafile.cxx'
_DB = 'src/interrogatedb/'
_STR = {'vs_same_output.0': 50, 'll_strlen.0': 6, 'll_memcmp.0': 6, 'll_memcpy.0': 40, 'll_memcpy.1': 40, 'll_memmove.0': 40, 'll_memmove.1': 40, 'll_memmove.2': 40, 'll_memmove.3': 40}
_BYTEWISE = ['-DLL_MEMCPY_BYTEWISE']

HARNESSES += [
 _h('c12_vec_int', 'c12_vectors.cxx', 'harness_c12_vec_int', [_DF],
    'idf_output_vector/idf_input_vector<int> round trip followed by an integer',
    'vector length 0..NMAX, elements and following int over all of int; target vector pre-filled with stale content',
    'length and elements equal, stream not failed, following integer intact, re-serialises to the same tokens',
    dict(defs=dict(NMAX=2), unwind=5, unwindset=_STR, cap=600), dict(defs=dict(NMAX=4), unwind=7, unwindset=_STR, cap=3000),
    cbmc_flags=['-DVS_NOBJ=4', '-DVS_NBUF=2']),
 _h('c12_vec_derivation', 'c12_vectors.cxx', 'harness_c12_vec_derivation', [_DF, _DB + 'interrogateType.cxx'],
    'idf vector of InterrogateType::Derivation round trip',
    'vector length 0..NMAX, all four fields over all of int',
    'field-wise equality, following integer intact, re-serialises to the same tokens',
    dict(defs=dict(NMAX=2), unwind=5, unwindset=_STR, cap=600), dict(defs=dict(NMAX=3), unwind=6, unwindset=_STR, cap=3000),
    cbmc_flags=['-DVS_NOBJ=4', '-DVS_NBUF=2']),
]

_REC = [_DF, _DB + 'interrogateComponent.cxx', _DB + 'interrogateDatabase.cxx']
_LEN_DOMAIN = ('strings: symbolic contents over all byte values; lengths follow concrete patterns (all strings of length p for '
               'p in 0..LMAX, lengths cycling upwards, lengths cycling downwards over the string fields of the record; the quick '
               'tier runs the patterns all-empty / cycling up / cycling down, the thorough tier all LMAX+3 patterns)')
_QUICK_PATS = 0b11001      # LMAX=2: patterns 0 (all empty), 3 (cycle up), 4 (cycle down)

def _pool(cap):
    # stream pools sized to the harness: symbolic execution time is roughly linear in each pool size; the token array
    # must stay field-sensitive (one SSA symbol per token) or every stream position read becomes symbolic
    return ['-DVS_NOBJ=4', '-DVS_NBUF=2', '-DVS_CAP=%d' % cap] + (['--max-field-sensitivity-array-size', str(cap)] if cap > 64 else [])

def _b(cap, unwind=7, cap_s=600, **defs):
    us = dict(_STR)
    us['vs_same_output.0'] = cap + 2
    return dict(defs=defs, unwind=unwind, unwindset=us, cap=cap_s)

def _rec(name, extra_tus, desc, shapes, vs_cap, hid=None, shape=None, cap_q=600, cap_t=3000, **kw):
    kw.setdefault('cbmc_flags', _BYTEWISE + _pool(vs_cap))
    # every loop of the reader is driven by a length read from the stream; stream positions are concrete, so an unwinding
    # failure means a length was read from the wrong place (misaligned read after a dropped/extra field): a violation,
    # which the native replay then confirms by a field mismatch
    kw.setdefault('nonterm_is_violation', True)
    dq = dict(LMAX=2, PAT_MASK=_QUICK_PATS)
    dt = dict(LMAX=2)
    if shape is not None:
        dq['ONLY_SHAPE'] = shape
        dt['ONLY_SHAPE'] = shape
    return _h(hid or 'c12_rec_' + name, 'c12_records.cxx', 'harness_c12_rec_' + name, _REC + [_DB + t for t in extra_tus], desc,
              'every scalar field over all of int (exceptions stated); ' + _LEN_DOMAIN + '; container shapes: ' + shapes,
              'field-wise equality with the record written, stream not failed, following integer intact, integers delimited, '
              're-serialising the read-back record gives the same token sequence',
              _b(vs_cap, cap_s=cap_q, **dq), _b(vs_cap, cap_s=cap_t, **dt), **kw)

_TYPE_SHAPES = [(0x000, 'no alt name, all vectors empty, not an array', 64),
                (0x3ff, 'one alt name, one element in each of the eight vectors, array type', 112),
                (0x2aa, 'one element in constructors, methods, casts, enum_values; array type', 96),
                (0x155, 'one alt name, one element in elements, make_seqs, derivations, nested_types', 96)]

HARNESSES += [
 _rec('component', [], 'InterrogateComponent::output/input (name + alt names)', '0, 1 or 2 alt names', 24),
 _rec('manifest', ['interrogateManifest.cxx'], 'InterrogateManifest::output/input', '0 or 1 alt name', 32),
 _rec('make_seq', ['interrogateMakeSeq.cxx'], 'InterrogateMakeSeq::output/input', '0 or 1 alt name', 32),
 _rec('element', ['interrogateElement.cxx'], 'InterrogateElement::output/input in the current (3.3) format', '0 or 1 alt name', 48),
 _rec('function', ['interrogateFunction.cxx'], 'InterrogateFunction::output/input',
      '(alt names, C wrappers, Python wrappers) in {(0,0,0), (1,1,1), (0,1,0), (1,0,1)}', 48),
 _rec('wrapper', ['interrogateFunctionWrapper.cxx'], 'InterrogateFunctionWrapper::output/input incl. the parameter vector',
      '(alt names, parameters) in {(0,0), (1,1), (0,2)}', 64),
] + [
 _rec('type', ['interrogateType.cxx'], 'InterrogateType::output/input incl. all eight vectors, derivations and enum values (shape 0x%03x)' % sh,
      what + '; _flags is one of two fixed bit patterns (array bit clear / set: it decides whether _array_size is in the file, '
      'and a symbolic token count is unaffordable), _array_size symbolic for array types and the constructor default otherwise',
      cap, hid='c12_rec_type_%03x' % sh, shape=sh, **({} if sh in (0x000, 0x3ff) else {'tiers': ('thorough',)}))
 for sh, what, cap in _TYPE_SHAPES
] + [
 dict(_rec('wrapper', ['interrogateFunctionWrapper.cxx'], 'idf vector of InterrogateFunctionWrapper::Parameter round trip followed by an integer',
           '0, 1 or 2 parameters', 32, hid='c12_vec_parameter'), entry='harness_c12_vec_parameter'),
 dict(_rec('type', ['interrogateType.cxx'], 'idf vector of InterrogateType::EnumValue (three strings + value) round trip followed by an integer',
           '0 or 1 enum value (two elements of three strings each did not finish within the cap)', 48, hid='c12_vec_enumvalue'), entry='harness_c12_vec_enumvalue'),
]
HARNESSES[-1]['bounds']['quick']['defs']['VEC_MAX'] = 1
HARNESSES[-1]['bounds']['thorough']['defs']['VEC_MAX'] = 1


HARNESSES += [
 dict(_rec('element', ['interrogateElement.cxx'], 'InterrogateElement::input on files of minor format 3.0, 3.1, 3.2, 3.3 written by a reference writer kept in the harness',
      '(minor version, alt names) in {(0,0), (1,1), (2,0), (2,1), (3,0), (3,1)}; _file_minor_version set as load_latest does', 48,
      hid='c12_element_gates'), entry='harness_c12_element_gates',
      oracle='fields present in that minor format equal the values written, fields absent keep the constructor default 0, stream not '
             'failed, following integer intact; for 3.3 the real output() produces exactly the reference writer\'s tokens'),
]

_RESERVE = '_ZNSt6vectorINSt7__cxx1112basic_stringIcSt11char_traitsIcESaIcEEESaIS5_EE7reserveEm'

def _trunc(hid, lo, hi, what, monitor):
    h = _rec('manifest', ['interrogateManifest.cxx'],
             'InterrogateManifest::input (through InterrogateComponent::input, idf_input_string) on proper prefixes of a valid record: ' + what,
             '0 or 1 alt name; concrete contents (single-digit integers, letters: token index = byte index in the native replay); '
             'symbolic cut position in %d..%d tokens, always removing at least the integer that follows the record' % (lo, hi - 1), 32, hid=hid)
    h['entry'] = 'harness_c12_truncate'
    h['oracle'] = ('no crash (uncaught exception, abort, memory-safety violation); the stream is in fail state after the record and the '
                   'following integer have been read, so that read_new() returns false; uninitialised locals are arbitrary values'
                   + ('; vector<string>::reserve is replaced by a monitor asserting that the requested count is <= 4' if monitor else ''))
    for t, pm in (('quick', 0b00010), ('thorough', 0b01110)):
        h['bounds'][t]['defs'].update(PAT_MASK=pm, CUT_LO=lo, CUT_HI=hi)
        if monitor:
            h['bounds'][t]['defs']['MONITOR_RESERVE'] = 1
    if monitor:
        h['cut'] = [_RESERVE]
    return h

HARNESSES += [
 _trunc('c12_truncate_head', 0, 6, 'cut inside the name or before the alt-name count', True),
 _trunc('c12_truncate_tail', 6, 32, 'cut after the alt-name count', False),
]

_OPEN_READ = '_ZNK8Filename9open_readERSt14basic_ifstreamIcSt11char_traitsIcEE'
_DB_READ = '_ZN19InterrogateDatabase4readERSiP20InterrogateModuleDef'
HARNESSES += [
 dict(id='c12_header', property='C12', src='c12_header.cxx', entry='harness_c12_header',
      tus=[_DB + 'interrogateDatabase.cxx', _DB + 'config_interrogatedb.cxx', 'src/dtoolutil/filename.cxx'],
      cut=[_OPEN_READ, _DB_READ],
      desc='InterrogateDatabase::load_latest header logic: identifier, major and minor version checks, unreadable file, failed read',
      domain='file identifier, expected identifier, major and minor version over all of int; open succeeds or fails; read() succeeds or fails; '
             'absolute file name (no search path); Filename::open_read and InterrogateDatabase::read replaced by stand-ins',
      oracle='read() is called exactly when the file opens and major == 3 and minor <= 3, and then sees these version numbers; the error '
             'flag is set iff open failed, or version mismatch, or (expected identifier != 0 and differs), or read() failed; the request is consumed',
      bounds={'quick': dict(defs=dict(), unwind=8, unwindset=dict(list(STATIC_INIT_LOOPS.items()) + list(DIAG_LOOPS.items())), cap=600)},
      cbmc_flags=['-DVS_CAP=16']),
]

# ---- whole-file framing: the real write() of a tiny database, cut at a symbolic position, through the real read_new ----
_FRAME_TUS = _REC + [_DB + t for t in ('interrogateManifest.cxx', 'interrogateElement.cxx', 'interrogateMakeSeq.cxx', 'interrogateFunction.cxx',
                                      'interrogateFunctionWrapper.cxx', 'interrogateType.cxx', 'indexRemapper.cxx')]
_FRAME_SHAPES = {0: ('every section empty', 36, 32), 2: ('one element with a comment (the record before the MakeSeq section), other sections empty', 72, 68)}

def _frame(shape, lo, hi, tiers):
    what, cap, top = _FRAME_SHAPES[shape]
    us = dict(_STR)
    us['vs_same_output.0'] = cap + 2
    us['_ZL14last_int_tokenPSo.0'] = us['_ZL14last_int_tokenPSo.1'] = cap + 2
    b = dict(defs=dict(SHAPE=shape, CUT_LO=lo, CUT_HI=hi, CUT_TOP=top), unwind=8, unwindset=us, cap=600)
    return dict(id='c12_framing_s%d_%d' % (shape, lo), property='C12', src='c12_framing.cxx', entry='harness_c12_framing',
                tus=_FRAME_TUS if shape else _REC,
                desc='whole-file framing: InterrogateDatabase::write of a tiny database (%s), cut at any token position in %d..%d, read by '
                     'the real read_new after the header integers' % (what, lo, hi - 1),
                domain='database: %s, module definition with library name "l", no hash name, module name "m"; concrete contents (single-digit '
                       'integers, letters: token index = byte index in the native replay); SYMBOLIC cut position over %d..min(%d, file length) '
                       '(prefixes and, in the last slice, the whole file; the slices of one shape together cover every prefix)' % (what, lo, hi - 1),
                oracle='read_new returns true IFF the last integer of the file survived the cut (only the final newline may be missing), so '
                       'every prefix that lost data is rejected and read() merges nothing; the complete file is accepted, its header, module '
                       'strings and section sizes are as written and the database read back re-serialises to the same tokens; no crash',
                bounds={t: b for t in tiers}, tiers=tiers, cbmc_flags=_BYTEWISE + _pool(cap))

# SHAPE=2 (one element with a comment: 66 tokens) did not finish within 400 s even for a slice of 16 cut positions (the record copy made by
# add_element and the string reads dominate); only the empty database is in the catalogue
HARNESSES += [_frame(0, 0, 32, ('quick', 'thorough'))]

PROPERTY_INFO = {'C12': {'level': 'model_checking',
         'explanation': 'bounded symbolic execution (CBMC) of the real serialisation code over a token-stream model of iostreams: '
                        'string and vector primitives, output()/input() of every record type, the InterrogateElement version gates '
                        'against a reference writer kept in the harness, prefixes of a valid record, prefixes of a whole (empty) database file through write/read_new, and the load_latest header logic',
         'outside': 'real decimal text (the stream model keeps integers as whole tokens and asserts that they are delimited; a cut '
                    'inside a number is therefore not explored); whole NON-EMPTY databases through InterrogateDatabase::write/read_new (the record '
                    'copies made by add_type/add_wrapper; a one-function one-type harness did not finish in 600 s and was dropped, nor did a '
                    'one-element database cut at 16 positions in 400 s; the framing itself - header, module strings, the six section counts - '
                    'is decided on the empty database for every cut position by c12_framing_s0_0); files larger than the bounds; string lengths above LMAX and combinations of string '
                    'lengths other than the listed patterns at record level (the string primitive itself is checked for every length '
                    '0..LMAX with symbolic length); InterrogateType::_flags other than two fixed bit patterns; std::ifstream and the file '
                    'system (Filename::open_read is a stand-in in c12_header); the query interface on top of the loaded database',
         'assumptions': ['iostream model models/stream.c: integers are whole tokens, characters are byte tokens; operator>> leaves its '
                         'target untouched when the sentry fails, as libstdc++ does',
                         'uninitialised locals hold arbitrary values (CBMC semantics); the native replay of c12_truncate_head paints the '
                         'stack to make that deterministic']}}

NOT_APPLICABLE = {}
