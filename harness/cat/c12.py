"""Catalogue for C12."""
from cat.common import *

HARNESSES = [{'id': 'c12_string',
  'property': 'C12',
  'src': 'c12_strings.cxx',
  'entry': 'harness_c12_string_roundtrip',
  'tus': ['src/interrogatedb/interrogate_datafile.cxx'],
  'desc': 'idf_output_string/idf_input_string (std::string) round trip followed by an integer',
  'domain': 'every byte string of length 0..LMAX (all 256 byte values), whitespace in {space,newline}, following int over all of int',
  'oracle': 'read-back string equal, stream not failed, following integer intact, integers delimited',
  'bounds': {'quick': {'defs': {'LMAX': 3}, 'unwind': 6, 'cap': 600}, 'thorough': {'defs': {'LMAX': 6}, 'unwind': 9, 'cap': 3000}}},
 {'id': 'c12_cstring',
  'property': 'C12',
  'src': 'c12_strings.cxx',
  'entry': 'harness_c12_cstring_roundtrip',
  'tus': ['src/interrogatedb/interrogate_datafile.cxx'],
  'desc': 'idf_output_string/idf_input_string (const char*) round trip incl. nullptr and empty',
  'domain': 'NUL-free byte strings of length 0..LMAX, nullptr, whitespace in {space,newline}',
  'oracle': 'read-back equal / unchanged for empty, following integer intact',
  'bounds': {'quick': {'defs': {'LMAX': 3}, 'unwind': 6, 'cap': 600}, 'thorough': {'defs': {'LMAX': 6}, 'unwind': 9, 'cap': 3000}}}]

PROPERTY_INFO = {'C12': {'level': 'model_checking',
         'explanation': 'bounded symbolic execution (CBMC) of the real serialisation code over a token-stream model of iostreams',
         'outside': 'real decimal text (the stream model asserts delimitation of integers instead); files larger than the bounds; std::ifstream '
                    'itself',
         'assumptions': ['iostream model models/stream.c: integers are whole tokens, characters are byte tokens']}}

NOT_APPLICABLE = {}
