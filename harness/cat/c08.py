"""Catalogue for C08."""
from cat.common import *

_TUS = ['src/cppparser/cppManifest.cxx', 'src/cppparser/cppPreprocessor.cxx', 'src/cppparser/cppFile.cxx',
        'src/dtoolutil/filename.cxx', 'src/dtoolutil/dSearchPath.cxx']
_SKIP = ['cppPreprocessor.cxx']
# std::string never leaves its 15-byte SSO buffer within the bounds below: the out-of-line heap path is cut, its auto-stub
# asserts ('model: unmodelled external function ... reached') if a string would ever grow beyond 15 bytes
_CUT_HEAP_STRINGS = ['_ZNSt7__cxx1112basic_stringIcSt11char_traitsIcESaIcEE9_M_createERmm',
                     '_ZNSt7__cxx1112basic_stringIcSt11char_traitsIcESaIcEE9_M_mutateEmmPKcm']

# vector growth is replaced by harness/c08_fixedvec.h (one allocation of VCAP elements; overflow asserts)
_CUT_VEC_REALLOC = ['_ZNSt6vectorINSt7__cxx1112basic_stringIcSt11char_traitsIcESaIcEEESaIS5_EE17_M_realloc_insertIJS5_EEEvN9__gnu_cxx17__normal_iteratorIPS5_S7_EEDpOT_',
                    '_ZNSt6vectorIN11CPPManifest13ExpansionNodeESaIS1_EE17_M_realloc_insertIJS1_EEEvN9__gnu_cxx17__normal_iteratorIPS1_S3_EEDpOT_']

HARNESSES = [
 {'id': 'c08_stringify',
  'property': 'C08',
  'src': 'c08_manifest.cxx',
  'entry': 'harness_c08_stringify',
  'tus': _TUS, 'skip_ctors': _SKIP, 'cut': _CUT_HEAP_STRINGS,
  'desc': 'CPPManifest::stringify (the # operator) against a reference written from C11 6.10.3.2p2',
  'domain': 'every argument spelling of length 0..LMAX over {a, space, ", \', \\} whose string/char literals are closed',
  'oracle': 'result == quote + spelling with \\ inserted before each " and \\ inside string/char literals (delimiting " included) + quote',
  'bounds': {'quick': {'defs': {'LMAX': 5}, 'unwind': 15, 'cap': 600},
             'thorough': {'defs': {'LMAX': 6}, 'unwind': 17, 'cap': 3000}}},
 {'id': 'c08_stringify_rest',
  'property': 'C08',
  'src': 'c08_manifest.cxx',
  'entry': 'harness_c08_stringify',
  'tus': _TUS, 'skip_ctors': _SKIP, 'cut': _CUT_HEAP_STRINGS,
  'hflags': ['-DEXCLUDE_OTHER_QUOTE'],
  'desc': 'as c08_stringify, with the class of the known deviation excluded (a literal containing the quote character of the other kind, '
          "e.g. \"it's\" or '\"'), so that the rest of the input space is still decided",
  'domain': 'as c08_stringify, minus spellings in which a string literal contains \' or a character literal contains "',
  'oracle': 'as c08_stringify',
  'bounds': {'quick': {'defs': {'LMAX': 5}, 'unwind': 15, 'cap': 600},
             'thorough': {'defs': {'LMAX': 6}, 'unwind': 17, 'cap': 3000}}},
 {'id': 'c08_extract_args',
  'property': 'C08',
  'src': 'c08_manifest.cxx',
  'entry': 'harness_c08_extract_args',
  'tus': _TUS, 'skip_ctors': _SKIP, 'cut': _CUT_HEAP_STRINGS + _CUT_VEC_REALLOC,
  'desc': 'CPPManifest::extract_args (argument splitting of a function-like macro call in #if / pre-expansion text)',
  'domain': 'every call text of length 0..AMAX over {( ) , " a space} that starts (after blanks) with ( and has a matching ), literals closed',
  'oracle': 'arguments == reference split at top-level commas only, blanks trimmed, empty arguments kept; position just past the matching )',
  'bounds': {'quick': {'defs': {'AMAX': 5}, 'unwind': 7, 'cap': 600},
             'thorough': {'defs': {'AMAX': 7}, 'unwind': 9, 'cap': 3000}}},
 {'id': 'c08_self_suppress',
  'property': 'C08',
  'src': 'c08_rescan.cxx',
  'entry': 'harness_c08_self_suppress',
  'tus': _TUS, 'skip_ctors': _SKIP, 'cut': ['_ZN15CPPPreprocessor9InputFile13connect_inputERKNSt7__cxx1112basic_stringIcSt11char_traitsIcESaIcEEE'], 'tuflags': ['-fno-inline'], 'models': ['noinline.c'],
  'desc': 'suppression of self-referential expansion on the lexer path: push_expansion / should_ignore_manifest as one inductive step',
  'domain': 'three macros of symbolic kind (object-like, function-like with 0 or 1 parameters); a stack of up to DEPTH pending expansions of '
            'symbolically chosen macros that are not suppressed at that moment',
  'oracle': 'after push_expansion(text, m): should_ignore_manifest(m) holds, and every macro suppressed before is still suppressed (hence the '
            'expansion depth is bounded by the number of macros and a self-referential macro is left unexpanded as C11 6.10.3.4p2 requires)',
  'bounds': {'quick': {'defs': {'DEPTH': 3}, 'unwind': 6, 'cap': 300},
             'thorough': {'defs': {'DEPTH': 4}, 'unwind': 7, 'cap': 1200}}},
] + [
 {'id': 'c08_arg_expand_' + _nm,
  'property': 'C08',
  'src': 'c08_expand.cxx',
  'entry': 'harness_c08_arg_expand',
  'tus': _TUS, 'skip_ctors': _SKIP, 'models': ['noinline.c'], 'hflags': ['-DONLY_PRE=%d' % _k],
  # a long run of concrete code (every scenario is executed with constant data): --pointer-check makes symbolic execution
  # quadratic in its length (engine/HOWTO.md section 5); crashes via models/base.c, bounds checks and the native
  # ASan/UBSan replay still apply
  'cbmc_flags': ['--no-pointer-check'],
  'desc': 'argument pre-expansion versus # and ## (C11 6.10.3.1p1) through the real definition constructor (parse_parameters, save_expansion), '
          'the real CPPManifest::expand / r_expand and the real CPPPreprocessor::expand_manifests against the _manifests table; '
          'definitions whose parameter is ' + _what,
  'domain': 'definitions "F(x) <body>" with the parameter ' + _what + ' and followed by nothing / a plain token / ##, ## written with or '
            'without surrounding blanks; the call argument is an object-like macro name (N -> 7), a macro whose expansion needs rescanning '
            '(K -> N -> 7) or a plain identifier; all combinations (symbolic choices, enumerated inside the one query)',
  'oracle': 'the replaced text equals the conforming token sequence: the argument appears macro-expanded iff the parameter is not an operand of # or ##, '
            'otherwise as its spelling (quoted for #), pasted operands adjacent, other tokens separated by one blank',
  'bounds': {'quick': {'defs': {}, 'unwind': 40, 'cap': 300}}}
 for (_k, _nm, _what) in [(0, 'first', 'the first token of the replacement list'), (1, 'plain', 'preceded by a plain token'),
                          (2, 'paste', 'preceded by ## (right-hand operand of a paste)'), (3, 'stringify', 'preceded by #')]
]

PROPERTY_INFO = {'C08': {'level': 'model_checking',
         'explanation': 'bounded symbolic execution (CBMC) of the real CPPManifest::stringify and CPPManifest::extract_args against references '
                        'written from C11 6.10.3 / 6.10.3.2 over every short text of a small alphabet; argument pre-expansion versus # / ## '
                        '(6.10.3.1p1) end to end through the real definition constructor, save_expansion, r_expand and expand_manifests over an '
                        'enumerated family of one-parameter definitions and three kinds of argument (c08_arg_expand_*)',
         'outside': 'definition -> expansion of a whole macro on arbitrary symbolic bodies (constructor + save_expansion + r_expand: the nested '
                    'hand-written scanners exceed the solver budget there; the c08_arg_expand_* entries decide the family of bodies listed in '
                    'their domain, with concrete texts per choice; totality on short texts is under C15); variadic parameters, __VA_OPT__, '
                    'several parameters, function-like macros as arguments; rescanning and nested expansion as token sequences (the suppression of self-referential expansion is decided as an '
                    'inductive step on push_expansion/should_ignore_manifest, not on expanded text), multi-line invocations, #undef/push_macro, the lexer-driven path get_identifier -> expand_manifest -> '
                    'push_expansion; white-space normalisation of arguments before stringification; the "Not enough / Too many arguments" warnings',
         'assumptions': ['inputs with unterminated string/character literals are excluded from the conformance oracles (undefined behaviour per '
                         'C11 6.4p3); they are covered for totality under C15',
                         'F() is represented as zero arguments (a missing argument expands as empty): token-equivalent to one empty argument',
                         'c08_arg_expand_*: the bucket-growth policy of the two libstdc++ hash containers on the path (_manifests, Ignores) never '
                         'rehashes and std::_Hash_bytes is a simple polynomial (harness/c08_expand.cxx; container contents do not depend on either); '
                         'run without --pointer-check (long concrete runs; bounds checks, crash models and the native ASan replay still apply)']}}

NOT_APPLICABLE = {}
