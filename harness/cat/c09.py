"""Catalogue for C09."""
from cat.common import *

_S = 'NSt7__cxx1112basic_stringIcSt11char_traitsIcESaIcEEE'
_DISJUNCT = '_ZNKSt7__cxx1112basic_stringIcSt11char_traitsIcESaIcEE11_M_disjunctEPKc'
_LOC = 'RK10cppyyltype'
# character level and everything below the conditional logic: defined by the harness
_COND_CUT = [
    '_ZN15CPPPreprocessor3getEv',
    '_ZN15CPPPreprocessor15skip_whitespaceEi',
    '_ZN15CPPPreprocessor12skip_commentEi',
    '_ZN15CPPPreprocessor24get_preprocessor_commandEiR' + _S,
    '_ZN15CPPPreprocessor21get_preprocessor_argsEiR' + _S,
    '_ZNK15CPPPreprocessor19is_manifest_definedERK' + _S,
    '_ZNK15CPPPreprocessor16expand_manifestsER' + _S + 'bRKSt13unordered_setIPK11CPPManifestSt4hashISA_ESt8equal_toISA_ESaISA_EE',
    '_ZN19CPPExpressionParser10parse_exprERK' + _S + 'RK15CPPPreprocessor',
    '_ZN15CPPPreprocessor23handle_define_directiveERK' + _S + _LOC,
    '_ZN15CPPPreprocessor22handle_error_directiveERK' + _S + _LOC,
]
# directives that are not in the menu: cut without a definition = "must not be reached" (asserting stub)
_UNREACHED = [
    '_ZN15CPPPreprocessor24handle_include_directiveERK' + _S + _LOC,
    '_ZN15CPPPreprocessor23handle_pragma_directiveERK' + _S + _LOC,
    '_ZN15CPPPreprocessor22handle_undef_directiveERK' + _S + _LOC,
    '_ZN15CPPPreprocessor24handle_warning_directiveERK' + _S + _LOC,
    '_ZNK13CPPExpression6outputERSoiP8CPPScopeb',      # printing an expression in a diagnostic
]
_REC = ['_ZN15CPPPreprocessor19skip_false_if_blockEb', '_ZN15CPPPreprocessor19handle_if_directiveERK' + _S + _LOC,
        '_ZN15CPPPreprocessor22handle_ifdef_directiveERK' + _S + _LOC, '_ZN15CPPPreprocessor23handle_ifndef_directiveERK' + _S + _LOC]


def _us(n):
    d = dict(_STR_US)
    for f in _REC:
        d[f] = n
    return d


_STR_US = {'ll_strlen.0': 12, 'll_memcmp.0': 12, 'll_memcpy.0': 12, 'll_memmove.0': 12, 'll_memchr.0': 12}

HARNESSES = [
 {'id': 'c09_cond',
  'property': 'C09',
  'src': 'c09_cond.cxx',
  'entry': 'harness_c09_cond',
  'tus': ['src/cppparser/cppPreprocessor.cxx', 'src/cppparser/cppExpressionParser.cxx', 'src/cppparser/cppExpression.cxx',
          'src/cppparser/cppDeclaration.cxx', 'src/cppparser/cppFile.cxx', 'src/dtoolutil/filename.cxx'],
  'skip_ctors': ['cppPreprocessor.cxx'], 'tuflags': ['-fno-inline'],
  'cut': _COND_CUT + _UNREACHED + [_DISJUNCT], 'models': ['strdisjunct.c'],
  'desc': 'process_directive / skip_false_if_block / handle_if*_directive over a fully symbolic file of directive lines '
          '(line-level reader in place of the character level)',
  'domain': 'every well-nested file of NLINES lines, each line a symbolic choice among 17 kinds: #if 1/0, #ifdef D/U, #ifndef U/D, '
            '#elif 1/0, #elifdef D/U, #elifndef U/D, #else, #endif, #define X, #error e, text marker',
  'oracle': 'C11 6.10.1 conditional-stack machine over the same choices: the text lines reaching the driver, and the lines whose '
            '#define / #error handler runs, are exactly those in kept groups; whole file consumed',
  'bounds': {'quick': {'defs': {'NLINES': 3}, 'unwind': 10, 'unwindset': _us(4), 'cap': 600},
             'thorough': {'defs': {'NLINES': 6}, 'unwind': 16, 'unwindset': _us(7), 'cap': 3000}}},
]

PROPERTY_INFO = {'C09': {'level': 'model_checking',
         'explanation': 'bounded symbolic execution (CBMC) of the real conditional-inclusion code of cppPreprocessor.cxx',
         'outside': 'controlling expressions other than the literals 0 and 1 (expression evaluation is C07; macro expansion inside '
                    '#if is cut), __has_include, conditionals spanning include files, unbalanced conditionals',
         'assumptions': []}}

NOT_APPLICABLE = {}
