"""Catalogue for C09."""
from cat.common import *

_S = 'NSt7__cxx1112basic_stringIcSt11char_traitsIcESaIcEEE'
_DISJUNCT = '_ZNKSt7__cxx1112basic_stringIcSt11char_traitsIcESaIcEE11_M_disjunctEPKc'
_LOC = 'RK10cppyyltype'
# character level and everything below the conditional logic: defined by the harness
_COND_CUT = [
    '_ZN15CPPPreprocessor3getEv',
    '_ZN15CPPPreprocessor15skip_whitespaceEi',
    '_ZN15CPPPreprocessor12skip_commentEi',
    '_ZN15CPPPreprocessor24get_preprocessor_commandEiR' + _S,
    '_ZN15CPPPreprocessor21get_preprocessor_argsEiR' + _S,
    '_ZNK15CPPPreprocessor19is_manifest_definedERK' + _S,
    '_ZNK15CPPPreprocessor16expand_manifestsER' + _S + 'bRKSt13unordered_setIPK11CPPManifestSt4hashISA_ESt8equal_toISA_ESaISA_EE',
    '_ZN19CPPExpressionParser10parse_exprERK' + _S + 'RK15CPPPreprocessor',
    '_ZNK13CPPExpression8evaluateEv',
    '_ZN15CPPPreprocessor23handle_define_directiveERK' + _S + _LOC,
    '_ZN15CPPPreprocessor22handle_error_directiveERK' + _S + _LOC,
]
# directives that are not in the menu: cut without a definition = "must not be reached" (asserting stub)
_UNREACHED = [
    '_ZN15CPPPreprocessor24handle_include_directiveERK' + _S + _LOC,
    '_ZN15CPPPreprocessor23handle_pragma_directiveERK' + _S + _LOC,
    '_ZN15CPPPreprocessor22handle_undef_directiveERK' + _S + _LOC,
    '_ZN15CPPPreprocessor24handle_warning_directiveERK' + _S + _LOC,
    '_ZNK13CPPExpression6outputERSoiP8CPPScopeb',      # printing an expression in a diagnostic
]
_REC = ['_ZN15CPPPreprocessor19skip_false_if_blockEb', '_ZN15CPPPreprocessor19handle_if_directiveERK' + _S + _LOC,
        '_ZN15CPPPreprocessor22handle_ifdef_directiveERK' + _S + _LOC, '_ZN15CPPPreprocessor23handle_ifndef_directiveERK' + _S + _LOC]


def _us(n):
    d = dict(_STR_US)
    for f in _REC:
        d[f] = n
    return d


_STR_US = {'verif_concretize.0': 20, 'll_strlen.0': 12, 'll_memcmp.0': 12, 'll_memcpy.0': 12, 'll_memmove.0': 12, 'll_memchr.0': 12}

_CAP = 900
_TUFLAGS = ['-fno-inline']
_GEN = '_ZL3genP15CPPPreprocessoriij'


def _cond(fam, level, fileset, nlines, nparts, part, decor=0, tiers=('quick', 'thorough')):
    """one residue class of the enumeration of well-nested files (see harness/c09_cond.cxx)"""
    tok = level == 't'
    defs = {'FILESET': fileset, 'NLINES': nlines, 'NPARTS': nparts, 'PART': part}
    if tok:
        hid = 'c09_%s_%02d' % (fam, part)
        cut = _COND_CUT
    else:
        hid = 'c09_%s_d%d_%02d' % (fam, decor, part)
        defs.update({'CHARLEVEL': 1, 'DECOR': decor})
        cut = _COND_CUT[5:]   # the character level stays real
    us = dict(_STR_US)
    for f in _REC:
        us[f] = 8
    us['_ZN15CPPPreprocessor9InputFile3getEv.0'] = 2
    us['vs_istream_bytes.0'] = 130
    us['_ZN15CPPPreprocessor9InputFile4peekEv.0'] = 2
    menu = ('each line one of 17 kinds: #if 1/0, #ifdef D/U, #ifndef U/D, #elif 1/0, #elifdef D/U, #elifndef U/D, #else, #endif, '
            '#define X, #error e, text marker' if fileset in ('F', 'M') else
            'each line one of 7 classes {open true/false, elif true/false, #else, #endif, text}, the spelling of the class '
            '(#if/#ifdef/#ifndef, #elif/#elifdef/#elifndef, marker/#define/#error) chosen by line number + file number')
    if fileset == 'N':
        menu += '; only the files with a conditional nested in another one and at least one text line'
    if fileset == 'M':
        menu += '; only the files of the shape open, (elif|else)*, marker, #endif'
    b = {'defs': defs, 'unwind': 400 if tok else 130, 'unwindset': us, 'cap': _CAP}
    h = {'id': hid, 'property': 'C09', 'src': 'c09_cond.cxx', 'entry': 'harness_c09_cond',
         'tus': ['src/cppparser/cppPreprocessor.cxx', 'src/cppparser/cppExpressionParser.cxx', 'src/cppparser/cppExpression.cxx',
                 'src/cppparser/cppDeclaration.cxx', 'src/cppparser/cppFile.cxx', 'src/dtoolutil/filename.cxx'],
         'skip_ctors': ['cppPreprocessor.cxx'], 'tuflags': _TUFLAGS,
         'cut': cut + _UNREACHED + [_DISJUNCT], 'models': ['strdisjunct.c'] if tok else ['strdisjunct.c', 'list.c'],
         # --pointer-check makes symbolic execution quadratic in the number of locals that ever went out of scope
         # (every dereference is compared against __CPROVER_dead_object's growing value set): off for these long
         # concrete runs; bounds, overflow and division checks and the "crash:" assertions of base.c stay on
         'cbmc_flags': ['-D', 'VS_CAP=128', '--no-pointer-check', '--max-field-sensitivity-array-size', '128'], 'object_bits': 16,
         'desc': ('process_directive / skip_false_if_block / handle_if*_directive over every well-nested file of %d directive lines; '
                  % nlines + ('line-level reader in place of the character level' if tok else
                     'real character level (get, skip_whitespace, skip_comment, get_preprocessor_command/args) through the '
                     'istream byte model, line spelling %d' % decor) + ' (residue class %d of %d)' % (part, nparts)),
         'domain': 'every well-nested file of NLINES lines whose index is PART mod NPARTS, ' + menu + '; enumerated by a concrete '
                   'loop over a generated table, unrolled inside the query (no symbolic input: symbolic bytes or line kinds make '
                   'every std::string of the directive parser symbolic-length and symbolic execution does not terminate)'
                   + ('' if tok else '; spelling 0 plain, 1 blanks around # and at line ends, 2 trailing /* # */ comments, '
                      '3 trailing // # comments'),
         'oracle': 'C11 6.10.1 conditional-stack machine over the same file: the text lines reaching the driver, and the lines whose '
                   '#define / #error handler runs, are exactly those in kept groups; whole file consumed and nothing beyond',
         'bounds': {'quick': b, 'thorough': b}, 'tiers': tiers}
    return h


_T = ('thorough',)
HARNESSES = (
    [_cond('tok_f3', 't', 'F', 3, 8, p) for p in range(8)] +                      # all kinds, 3 lines: 123 files
    [_cond('tok_r4', 't', 'R', 4, 8, p, tiers=_T) for p in range(8)] +            # 7 classes, 4 lines: 57 files (quick: covered by c09_sym_*)
    [_cond('tok_n5', 't', 'N', 5, 4, p) for p in range(4)] +                      # nested conditionals with text, 5 lines: 20 files
    [_cond('chr_m3', 'c', 'M', 3, 1, 0, d) for d in range(4)] +                   # real character level: open, marker, endif x 4 spellings
    [_cond('tok_r5', 't', 'R', 5, 8, p, tiers=_T) for p in range(8)] +                   # 265 files
    [_cond('tok_f4', 't', 'F', 4, 32, p, tiers=_T) for p in range(32)] +                 # 1233 files
    [_cond('chr_f2', 'c', 'F', 2, 3, p, d, tiers=_T) for d in range(4) for p in range(3)] +
    [_cond('chr_m4', 'c', 'M', 4, 7, p, d, tiers=_T) for d in range(4) for p in range(7)]      # open, elif/else, marker, endif: 42 files
)

# ---- symbolic directive scripts (harness/c09_sym.cxx) ----------------------------------------------------------------
_OPPLUS = '_ZStplIcSt11char_traitsIcESaIcEENSt7__cxx1112basic_stringIT_T0_T1_EEPKS5_RKS8_'
_WARN = '_ZNK15CPPPreprocessor7warningERK' + _S + _LOC
_HANDLERS = ['_ZN15CPPPreprocessor19handle_if_directiveERK' + _S + _LOC,
             '_ZN15CPPPreprocessor22handle_ifdef_directiveERK' + _S + _LOC,
             '_ZN15CPPPreprocessor23handle_ifndef_directiveERK' + _S + _LOC]
_BOOK = ['_ZSteqIcSt11char_traitsIcESaIcEEbRKNSt7__cxx1112basic_stringIT_T0_T1_EEPKS5_', '_ZN10cppyyltypeC2Ev', '_ZN10cppyyltypeD2Ev',
         '_ZN7CPPFileD2Ev', '_ZN7CPPFileaSEOS_', '_ZNK15CPPPreprocessor8get_fileEv']
_SYM_TUS = ['src/cppparser/cppPreprocessor.cxx', 'src/cppparser/cppExpressionParser.cxx', 'src/cppparser/cppExpression.cxx',
            'src/cppparser/cppDeclaration.cxx', 'src/cppparser/cppFile.cxx', 'src/dtoolutil/filename.cxx']
# The TUs are lowered WITHOUT LLVM's optimisation passes: LoopSimplify splits the one `while` of skip_false_if_block
# (two paths back to its head) into an outer and an inner loop whose back edges are not nested in block order; CBMC then
# never resets the outer counter and reports a bogus unwinding failure as soon as the read position is symbolic.  The
# unoptimised IR has one loop and properly nested if/else diamonds (path guards collapse at every join).
_SYM_TUFLAGS = ['-fno-inline', '-Xclang', '-disable-llvm-passes']
def _sym(name, nl, dmax, step=1, start=-1, pend=-1, tiers=('quick', 'thorough'), cap=_CAP, extra=None):
    defs = {'MODE': 0, 'NL': nl, 'DMAX': dmax, 'STEP': step, 'START': start, 'PEND': pend}
    defs.update(extra or {})
    b = {'defs': defs, 'unwind': 2 * nl + 4, 'unwindset': dict(_STR_US), 'cap': cap}
    alphabet = ('the directive at EVERY line is a symbolic draw from 17 kinds: #if 1/0, #ifdef D/U, #ifndef U/D, #elif 1/0, #elifdef D/U, '
                '#elifndef U/D, #else, #endif, #define X, #error e, text marker; assumed: well nested, nesting depth <= %d '
                '(shorter scripts through leading/trailing text lines)' % dmax)
    if step:
        desc = ('ONE dispatch step (REAL process_directive incl. its skip_false_if_block(false), or one REAL skip_false_if_block(true)) '
                'over a fully symbolic script of %d lines, from a symbolic read position in a symbolic state (normal / skip due) that '
                'the reference interpreter allows' % nl)
        domain = alphabet + '; start line 0..%d and state symbolic, constrained only by the invariant' % nl
        oracle = ('independent reference interpreter of C11 6.10.1 (stack of open conditionals) over the same script: the step ends at the '
                  'start of a later line in a state where the reference is in the same situation (inside a kept group / still looking for a '
                  'group to keep), and the text lines, #define and #error acted upon in between are exactly the reference\'s; induction over '
                  'the steps (outside the solver, cross-checked by the whole-run entries c09_sym_run*) gives the whole file; directives '
                  'outside the alphabet and the unknown-directive warning proved unreachable')
    else:
        desc = ('whole run of the directive dispatch (REAL process_directive + REAL skip_false_if_block, deferred handler skips) over a '
                'fully symbolic script of %d lines' % nl)
        domain = alphabet
        oracle = ('independent reference interpreter of C11 6.10.1 over the same script: surviving text lines, #define and #error acted '
                  'upon are exactly the reference\'s; whole file consumed')
    return {'id': 'c09_sym_' + name, 'property': 'C09', 'src': 'c09_sym.cxx', 'entry': 'harness_c09_sym',
            'tus': _SYM_TUS, 'skip_ctors': ['cppPreprocessor.cxx'], 'tuflags': _SYM_TUFLAGS,
            # reader (line level), #define/#error recorders, the three condition handlers (contract: c09_sym_handle),
            # string equality + location bookkeeping below the logic; the rest "must not be reached"
            'cut': _COND_CUT[:5] + _COND_CUT[9:] + _HANDLERS + _UNREACHED + [_OPPLUS, _WARN] + _BOOK,
            # --pointer-check: 3.5x the time (see _cond); bounds/overflow/shift checks and the crash assertions stay on
            'cbmc_flags': ['--no-pointer-check', '--max-field-sensitivity-array-size', '128'], 'object_bits': 16,
            'desc': desc, 'domain': domain, 'oracle': oracle,
            'bounds': {'quick': b, 'thorough': b}, 'tiers': tiers}


def _handle():
    b = {'defs': {'MODE': 1}, 'unwind': 20, 'unwindset': dict(_STR_US), 'cap': _CAP}
    return {'id': 'c09_sym_handle', 'property': 'C09', 'src': 'c09_sym.cxx', 'entry': 'harness_c09_handle',
            'tus': _SYM_TUS, 'skip_ctors': ['cppPreprocessor.cxx'], 'tuflags': _TUFLAGS,
            'cut': _COND_CUT[:3] + _COND_CUT[5:9] + ['_ZN15CPPPreprocessor19skip_false_if_blockEb'] + _UNREACHED + [_DISJUNCT],
            'models': ['strdisjunct.c'],
            'cbmc_flags': ['--max-field-sensitivity-array-size', '128'], 'object_bits': 16,
            'desc': 'contract of the REAL handle_if_directive / handle_ifdef_directive / handle_ifndef_directive that the c09_sym_* '
                    'entries use in deferred form',
            'domain': 'symbolic choice of handler and of the argument ("1"/"0" for #if, "D"(defined)/"U" for #ifdef and #ifndef); '
                      'skip_false_if_block and the reader are recorders; expression parsing/evaluation cut as in c09_tok_*',
            'oracle': 'skip_false_if_block is called exactly once, with consider_elifs == true, iff the condition is false; the handler '
                      'reads nothing itself and leaves _start_of_line alone',
            'bounds': {'quick': b, 'thorough': b}}


# (first in the list: the whole-run entries are the longest single queries of their tier)
HARNESSES = [_sym('run4', 4, 2, step=0), _sym('step8', 8, 3), _handle(),
             _sym('run5', 5, 2, step=0, tiers=_T), _sym('step12', 12, 4, tiers=_T)] + HARNESSES

PROPERTY_INFO = {'C09': {'level': 'model_checking',
         'explanation': 'bounded symbolic execution (CBMC) of the real conditional-inclusion code of cppPreprocessor.cxx: '
                        '(1) c09_sym_*: fully symbolic directive scripts (every line a symbolic draw from the 17-kind alphabet, nesting '
                        'depth <= 3 at 8 lines / <= 4 at 12 lines) against an independent C11 6.10.1 reference interpreter, as one '
                        'dispatch step from an arbitrary reference-consistent state (inductive invariant) and as whole runs at 4/5 lines; '
                        '(2) c09_tok_* / c09_chr_*: exhaustive concrete enumeration of all well-nested files of 3..5 lines with every '
                        'function real (token level) and through the real character-level reader',
         'outside': 'controlling expressions other than the literals 0 and 1 (expression evaluation is C07; macro expansion inside '
                    '#if is cut), __has_include, conditionals spanning include files, unbalanced conditionals',
         'assumptions': ['c09_sym_*: handle_if/ifdef/ifndef_directive enter in deferred-contract form (the skip they request is executed '
                         'by the driver as the next step; they are called in tail position); the contract is checked on the real '
                         'handlers by c09_sym_handle',
                         'c09_sym_step*: the induction over dispatch steps is outside the solver (cross-checked by the whole-run '
                         'entries c09_sym_run4 / c09_sym_run5 and by the enumerations)']}}

NOT_APPLICABLE = {}
