"""Catalogue for C09."""
from cat.common import *

_S = 'NSt7__cxx1112basic_stringIcSt11char_traitsIcESaIcEEE'
_DISJUNCT = '_ZNKSt7__cxx1112basic_stringIcSt11char_traitsIcESaIcEE11_M_disjunctEPKc'
_LOC = 'RK10cppyyltype'
# character level and everything below the conditional logic: defined by the harness
_COND_CUT = [
    '_ZN15CPPPreprocessor3getEv',
    '_ZN15CPPPreprocessor15skip_whitespaceEi',
    '_ZN15CPPPreprocessor12skip_commentEi',
    '_ZN15CPPPreprocessor24get_preprocessor_commandEiR' + _S,
    '_ZN15CPPPreprocessor21get_preprocessor_argsEiR' + _S,
    '_ZNK15CPPPreprocessor19is_manifest_definedERK' + _S,
    '_ZNK15CPPPreprocessor16expand_manifestsER' + _S + 'bRKSt13unordered_setIPK11CPPManifestSt4hashISA_ESt8equal_toISA_ESaISA_EE',
    '_ZN19CPPExpressionParser10parse_exprERK' + _S + 'RK15CPPPreprocessor',
    '_ZNK13CPPExpression8evaluateEv',
    '_ZN15CPPPreprocessor23handle_define_directiveERK' + _S + _LOC,
    '_ZN15CPPPreprocessor22handle_error_directiveERK' + _S + _LOC,
]
# directives that are not in the menu: cut without a definition = "must not be reached" (asserting stub)
_UNREACHED = [
    '_ZN15CPPPreprocessor24handle_include_directiveERK' + _S + _LOC,
    '_ZN15CPPPreprocessor23handle_pragma_directiveERK' + _S + _LOC,
    '_ZN15CPPPreprocessor22handle_undef_directiveERK' + _S + _LOC,
    '_ZN15CPPPreprocessor24handle_warning_directiveERK' + _S + _LOC,
    '_ZNK13CPPExpression6outputERSoiP8CPPScopeb',      # printing an expression in a diagnostic
]
_REC = ['_ZN15CPPPreprocessor19skip_false_if_blockEb', '_ZN15CPPPreprocessor19handle_if_directiveERK' + _S + _LOC,
        '_ZN15CPPPreprocessor22handle_ifdef_directiveERK' + _S + _LOC, '_ZN15CPPPreprocessor23handle_ifndef_directiveERK' + _S + _LOC]


def _us(n):
    d = dict(_STR_US)
    for f in _REC:
        d[f] = n
    return d


_STR_US = {'verif_concretize.0': 20, 'll_strlen.0': 12, 'll_memcmp.0': 12, 'll_memcpy.0': 12, 'll_memmove.0': 12, 'll_memchr.0': 12}

_TUFLAGS = ['-fno-inline']
_GEN = '_ZL3genP15CPPPreprocessoriij'


def _cond(level, part, decor=0):
    """one residue class of the enumeration of well-nested files (see harness/c09_cond.cxx)"""
    tok = level == 't'
    if tok:
        hid = 'c09_cond_t%02d' % part
        qd = {'NLINES': 3, 'NPARTS': _QT, 'PART': part}
        td = {'NLINES': 5, 'NPARTS': _TT, 'PART': part}
        cut = _COND_CUT
    else:
        hid = 'c09_chars_d%d_%02d' % (decor, part)
        qd = {'NLINES': 3, 'NPARTS': _QC, 'PART': part, 'CHARLEVEL': 1, 'DECOR': decor}
        td = {'NLINES': 4, 'NPARTS': _TC, 'PART': part, 'CHARLEVEL': 1, 'DECOR': decor}
        cut = _COND_CUT[5:]   # the character level stays real
    us = dict(_STR_US)
    for f in _REC:
        us[f] = 8
    h = {'id': hid, 'property': 'C09', 'src': 'c09_cond.cxx', 'entry': 'harness_c09_cond',
         'tus': ['src/cppparser/cppPreprocessor.cxx', 'src/cppparser/cppExpressionParser.cxx', 'src/cppparser/cppExpression.cxx',
                 'src/cppparser/cppDeclaration.cxx', 'src/cppparser/cppFile.cxx', 'src/dtoolutil/filename.cxx'],
         'skip_ctors': ['cppPreprocessor.cxx'], 'tuflags': _TUFLAGS,
         'cut': cut + _UNREACHED + [_DISJUNCT], 'models': ['strdisjunct.c'],
         'cbmc_flags': ['-D', 'VS_CAP=128'],
         'desc': ('process_directive / skip_false_if_block / handle_if*_directive over every well-nested file of directive lines; '
                  + ('line-level reader in place of the character level' if tok else
                     'real character level (get, skip_whitespace, skip_comment, get_preprocessor_command/args) through the '
                     'istream byte model, line spelling %d' % decor) + ' (residue class %d)' % part),
         'domain': 'every well-nested file of NLINES lines whose index is PART mod NPARTS, each line one of 17 kinds: #if 1/0, '
                   '#ifdef D/U, #ifndef U/D, #elif 1/0, #elifdef D/U, #elifndef U/D, #else, #endif, #define X, #error e, text '
                   'marker; enumerated by a concrete depth-first loop unrolled inside the query (no symbolic input: symbolic '
                   'bytes or line kinds make every std::string of the directive parser symbolic-length and symbolic execution '
                   'does not terminate)' + ('' if tok else '; spelling 0 plain, 1 blanks around # and at line ends, 2 trailing '
                   '/* # */ comments, 3 trailing // # comments'),
         'oracle': 'C11 6.10.1 conditional-stack machine over the same file: the text lines reaching the driver, and the lines whose '
                   '#define / #error handler runs, are exactly those in kept groups; whole file consumed and nothing beyond',
         'bounds': {'quick': {'defs': qd, 'unwind': 40, 'unwindset': us, 'cap': 600},
                    'thorough': {'defs': td, 'unwind': 40, 'unwindset': us, 'cap': 3000}}}
    if (tok and part >= _QT) or (not tok and part >= _QC):
        h['tiers'] = ('thorough',)
    return h


_QT, _TT = 4, 4
_QC, _TC = 4, 4
HARNESSES = [_cond('t', p) for p in range(_TT)]

PROPERTY_INFO = {'C09': {'level': 'model_checking',
         'explanation': 'bounded symbolic execution (CBMC) of the real conditional-inclusion code of cppPreprocessor.cxx',
         'outside': 'controlling expressions other than the literals 0 and 1 (expression evaluation is C07; macro expansion inside '
                    '#if is cut), __has_include, conditionals spanning include files, unbalanced conditionals',
         'assumptions': []}}

NOT_APPLICABLE = {}
HARNESSES.append(dict(_cond('t', 0), id='c09_tmp', src='/var/tmp/a_c09c17/t5.cxx', tiers=('none',), models=['strdisjunct.c', '/var/tmp/a_c09c17/detect.c']))
HARNESSES[-1]['bounds'] = {'quick': dict(HARNESSES[-1]['bounds']['quick'], unwind=6, cap=4, unwindset={k: v for k, v in HARNESSES[-1]['bounds']['quick']['unwindset'].items() if k != _GEN})}
