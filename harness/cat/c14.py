"""Catalogue for C14 (reproducible output): the two mechanisms that are encodable."""
from cat.common import *
from cat.c19 import _MAIN_TUS, _LOOPS

HARNESSES = [
    dict(id='c14_file_identifier_%d' % _mask, property='C14', src='c19_main.cxx', entry='harness_c19_main', tus=_MAIN_TUS,
         cut=['_ZN8Filename13make_absoluteEv', '_ZN8Filename13make_absoluteERKS_'], keep=['verif_at_exit'], replay='model',
         desc='file identifier in the real main() of interrogate.cxx with getenv("SOURCE_DATE_EPOCH") and time() as symbolic stubs (outputs mask %d)' % _mask,
         domain='SOURCE_DATE_EPOCH unset / empty / up to 3 digits; time() any non-negative int; fault schedule symbolic',
         oracle='identifier handed to make_module_def == atoi(SOURCE_DATE_EPOCH) when set and non-empty whatever time() returns, else time(); the same def object reaches write_code and InterrogateDatabase::write',
         bounds=dict(quick=dict(defs=dict(OPTMASK=_mask), unwind=40, unwindset=_LOOPS, cap=600)))
    for _mask in (3, 1)
]

PROPERTY_INFO = {
    'C14': dict(level='model_checking',
                explanation='bounded symbolic execution (CBMC) of the real main(): clock and environment are symbolic variables',
                outside='byte-identity of whole runs across ASLR, heap layout, environment size, locale, TZ (would need the allocator as a symbolic input; a counterexample could not be replayed against the real binary); ordering of pointer-keyed containers',
                assumptions=['strtol modelled for up to 3 digits; parser/builder/database entry points are stand-ins']),
}
NOT_APPLICABLE = {}
