"""Catalogue for C14 (reproducible output): the mechanisms that are encodable (file identifier, sort keys of pointer-ordered containers)."""
from cat.common import *
from cat.c19 import _MAIN_TUS, _LOOPS

HARNESSES = [
    dict(id='c14_file_identifier_%d' % _mask, property='C14', src='c19_main.cxx', entry='harness_c19_main', tus=_MAIN_TUS,
         cut=['_ZN8Filename13make_absoluteEv', '_ZN8Filename13make_absoluteERKS_'], keep=['verif_at_exit'], replay='model',
         desc='file identifier in the real main() of interrogate.cxx with getenv("SOURCE_DATE_EPOCH") and time() as symbolic stubs (outputs mask %d)' % _mask,
         domain='SOURCE_DATE_EPOCH unset / empty / up to 3 digits; time() any non-negative int; fault schedule symbolic',
         oracle='identifier handed to make_module_def == atoi(SOURCE_DATE_EPOCH) when set and non-empty whatever time() returns, else time(); the same def object reaches write_code and InterrogateDatabase::write',
         bounds=dict(quick=dict(defs=dict(OPTMASK=_mask), unwind=40, unwindset=_LOOPS, cap=600)))
    for _mask in (3, 1)
]

# ---- ordering of the external-import table (a_c06c10) ---------------------------------------------------------------
_CP = 'src/cppparser/'
_IMPORT_TUS = ['src/interrogate/interfaceMakerPythonNative.cxx', 'src/interrogate/interrogate.cxx'] + \
    [_CP + x for x in ('cppStructType.cxx', 'cppExtensionType.cxx', 'cppScope.cxx', 'cppIdentifier.cxx', 'cppNameComponent.cxx',
                       'cppType.cxx', 'cppDeclaration.cxx', 'cppAttributeList.cxx', 'cppFile.cxx')] + ['src/dtoolutil/filename.cxx']
# the comparator lambda of std::sort in InterfaceMakerPythonNative::write_prototypes, as clang and as g++ mangle it
_LAMBDA_CLANG = '"_ZZN26InterfaceMakerPythonNative16write_prototypesERSoPSoENK3$_0clEPK7CPPTypeS5_"'
_LAMBDA_GCC = '_ZZN26InterfaceMakerPythonNative16write_prototypesERSoPSoENKUlPK7CPPTypeS4_E_clES4_S4_'


def _import_order(hid, sym, desc, domain):
    return dict(id=hid, property='C14', src='c14_import_order.cxx', entry='harness_c14_import_order', tus=_IMPORT_TUS,
                export=[_LAMBDA_CLANG, _LAMBDA_GCC], tuflags=['-fno-inline', '-fno-pic'], models=['noinline.c'],
                skip_ctors=[x.split('/')[-1] for x in _IMPORT_TUS],
                desc=desc, domain=domain,
                oracle='the REAL comparator lambda (exported from its TU) is a strict order without ties on two distinct types: '
                       'exactly one of less(a,b), less(b,a) holds, and less(a,a) is false',
                bounds=dict(quick=dict(defs=dict(SYMBOLIC=sym), unwind=24, unwindset={'ll_memcpy.0': 48, 'll_memmove.0': 48}, cap=600)))


HARNESSES += [
    _import_order('c14_import_order', 0,
                  'sort key of the external-import table (write_prototypes) on NameTable::Entry vs SlotTable::Entry and controls',
                  'classes NameTable, SlotTable, NameTable::Entry, SlotTable::Entry built with the real constructors under the global scope'),
]

HARNESSES += [
    dict(id='c14_overload_order', property='C14', src='c14_remap_order.cxx', entry='harness_c14_overload_order',
         tus=['src/interrogate/interfaceMakerPythonNative.cxx'], cut=['_Z13get_type_sortP7CPPType'],
         cbmc_flags=['--max-field-sensitivity-array-size', '200'],
         desc='RemapCompareLess (sort key of the -python-native dispatch order; the sorted vector starts in address order of a '
              'std::set<FunctionRemap *>) is a total order on distinct overloads',
         domain='2 overloads with distinct signatures, symbolic const flags, every combination of 0..PMAX parameters (concrete loop), one '
                'symbolic type-sort value per parameter slot (get_type_sort is an uninterpreted table: ties such as f(A *) / f(B *) included)',
         oracle='exactly one of less(a,b), less(b,a) holds',
         bounds=dict(quick=dict(defs=dict(PMAX=2), unwind=24, unwindset={'ll_memcmp.0': 12, 'll_strlen.0': 12, 'll_memcpy.0': 12}, cap=300))),
]

HARNESSES += [
    dict(id='c14_object_init', property='C14', src='c14_object_init.cxx', entry='harness_c14_object_init',
         tus=['src/interrogate/interfaceMaker.cxx'], skip_ctors=['interfaceMaker.cxx'], tuflags=['-fno-inline'], models=['noinline.c'],
         desc='the REAL constructors of InterfaceMaker::Object / Function / MakeSeq / Property run in storage whose previous '
              'contents are symbolic (stale heap bytes); then the real Object::check_protocols()',
         domain='every previous content of the storage (each byte nondet); flags of one constructor and one method symbolic (2 x 32 bits)',
         oracle='every scalar member the generators read has its documented initial value (_protocol_types 0, _flags 0, _has_this false, '
                '_args_type AT_unknown, accessor pointers null) and the containers are empty; check_protocols() yields 0 on an object '
                'without functions and otherwise exactly the documented function of the OR of the flags',
         cbmc_flags=['--max-field-sensitivity-array-size', '200'],   # the raw storage (<= 112 bytes) stays field-sensitive
         bounds=dict(quick=dict(unwind=120, cap=300))),
]

_WFI = '_ZN26InterfaceMakerPythonNative23write_function_instanceERSoP13FunctionRemapiiRNSt7__cxx1112basic_stringIcSt11char_traitsIcESaIcEEEibbN14InterfaceMaker8ArgsTypeEibRKS8_'
HARNESSES += [
    dict(id='c14_forset_kwname', property='C14', src='c14_forset_kwname.cxx', entry='harness_c14_forset_kwname',
         tus=['src/interrogate/interfaceMakerPythonNative.cxx', 'src/interrogate/functionRemap.cxx', 'src/interrogate/interfaceMaker.cxx'],
         cut=['_Z13get_type_sortP7CPPType', _WFI, '_ZNK13FunctionRemap20write_orig_prototypeERSoibi'],
         skip_ctors=['interfaceMakerPythonNative.cxx', 'functionRemap.cxx', 'interfaceMaker.cxx'], models=['noinline.c'],
         cbmc_flags=['-DVS_CAP=128', '--max-field-sensitivity-array-size', '700', '--no-pointer-check'],
         desc='the REAL write_function_forset on a std::set of two one-argument overloads (keyword-argument convention): the '
              'Dtool_ExtractArg-by-keyword decision and the emitted text, run once with overload A at the lower address and once '
              'with B there; write_function_instance / write_orig_prototype are recording stand-ins, get_type_sort an uninterpreted table',
         domain='2 overloads; parameter names of 5 letters: a shared symbolic prefix, first difference w/s at a concrete position, symbolic '
                'independent letters behind it (quick: the CONCRETE names width / scale, static function, overload A more specific - a differential run of one scenario; thorough: '
                'equal names and every position of the first difference, _has_this 0 / 1, both specificity orders; all concrete loops); both address orders (the set is built node by node in the shape std::set gives two keys in address order)',
         oracle='token streams of the two runs identical (vs_same_output), recorded (overload, args_type, arity) call sequences identical, '
                'and args_type handed on is AT_single_arg exactly when the two names are equal',
         bounds=dict(quick=dict(defs=dict(HAS_THIS=0, VLO=0, VHI=0, DIRHI=0, CONCRETE_NAMES=1), unwind=24, unwindset={'ll_memcmp.0': 12, 'll_strlen.0': 64, 'll_memcpy.0': 12, 'll_ctlz.0': 66, 'vs_same_output.0': 130, '_ZSt16__ostream_insertIcSt11char_traitsIcEERSt13basic_ostreamIT_T0_ES6_PKS3_l.0': 64}, cap=400),
                     # thorough: names equal / first difference at every position, static function and method, both specificity orders
                     thorough=dict(defs=dict(VLO=0, VHI=5, DIRHI=1), unwind=24, unwindset={'ll_memcmp.0': 12, 'll_strlen.0': 64, 'll_memcpy.0': 12, 'll_ctlz.0': 66, 'vs_same_output.0': 130, '_ZSt16__ostream_insertIcSt11char_traitsIcEERSt13basic_ostreamIT_T0_ES6_PKS3_l.0': 64}, cap=3000))),
]

PROPERTY_INFO = {
    'C14': dict(level='model_checking',
                explanation='bounded symbolic execution (CBMC) of the real main(): clock and environment are symbolic variables',
                outside='byte-identity of whole runs across ASLR, heap layout, environment size, locale, TZ (would need the allocator as a symbolic input; a counterexample could not be replayed against the real binary); ordering of pointer-keyed containers other than the external-import table and the overload sets of the -python-native dispatch, whose sort keys are checked to be tie-free',
                assumptions=['strtol modelled for up to 3 digits; parser/builder/database entry points are stand-ins']),
}
NOT_APPLICABLE = {}
