"""Catalogue for C04."""
from cat.common import *
from cat.c03 import SSO_ONLY

_B = 'src/interrogate/interrogateBuilder.cxx'
_GATE_TUS = [_B, 'src/cppparser/cppFile.cxx', 'src/dtoolutil/filename.cxx', 'src/cppparser/cppDeclaration.cxx',
             'src/cppparser/cppManifest.cxx', 'src/interrogatedb/interrogateDatabase.cxx']
_GATE_CUT = ['_ZN18InterrogateBuilder8get_typeEP7CPPTypeb', '_ZN19InterrogateDatabase7get_ptrEv',
             '_ZN19InterrogateDatabase12add_manifestEiRK19InterrogateManifest',
             '_ZNK11CPPManifest6expandERKSt6vectorINSt7__cxx1112basic_stringIcSt11char_traitsIcESaIcEEESaIS6_EEbRKSt13unordered_setIPKS_St4hashISD_ESt8equal_toISD_ESaISD_EE',
             '_ZNK11CPPManifest14determine_typeEv']
_GATE_SKIP = ['interrogateBuilder.cxx', 'cppFile.cxx', 'filename.cxx', 'cppDeclaration.cxx', 'cppManifest.cxx', 'interrogateDatabase.cxx']
# the _ignorefile set has one node; its key is symbolic, so the symbolic executor cannot see that both children are null:
# bound the tree walk (the unwinding assertion proves the bound) and the string loops (all names are <= 5 bytes)
_GATE_LOOPS = {'_ZNKSt8_Rb_treeINSt7__cxx1112basic_stringIcSt11char_traitsIcESaIcEEES5_St9_IdentityIS5_ESt4lessIS5_ESaIS5_EE4findERKS5_.0': 3,
               'll_memcmp.0': 9, 'll_strlen.0': 9, 'll_memcpy.0': 80}
# outer while loop of read_command_file: one iteration per line plus the final failing getline
_RCF_OUTER = '_ZN18InterrogateBuilder17read_command_fileERSi.4'
_FILE_DOMAIN = ('file source class in {local, alternate, system, none}, extension in {h, c, C, i}, the one ignorefile entry '
                'naming this file or another, min_vis in {published, public}, visibility in published..unknown')

HARNESSES = [
 {'id': 'c04_gate_' + k,
  'property': 'C04',
  'src': 'c04_gates.cxx',
  'entry': 'harness_c04_gate_' + k,
  'tus': _GATE_TUS, 'cut': _GATE_CUT, 'skip_ctors': _GATE_SKIP,
  'desc': 'export gate InterrogateBuilder::scan_%s on a declaration object with symbolic gate inputs' % fn,
  'domain': _FILE_DOMAIN + extra,
  'oracle': oracle,
  'bounds': {'quick': {'unwind': 8, 'unwindset': dict(_GATE_LOOPS), 'cap': 600}}}
 for k, fn, extra, oracle in (
   ('enum', 'enum_type', ', template-ness',
    'get_type(type, global) called (once, with the type) iff local .h file, not ignored, not a template, vis <= min_vis'),
   ('struct', 'struct_type', ', template-ness, 0..2 member declarations with symbolic visibility',
    'get_type called iff local .h file, not ignored, not a template, and (vis <= min_vis or some member vis <= min_vis)'),
   ('manifest', 'manifest', ', function-like or not, name character',
    'add_manifest called (once, with the name) iff local .h file, not ignored, vis <= min_vis, not function-like'))
] + [
 {'id': 'c04_gate_function',
  'property': 'C04',
  'src': 'c04_gate_function.cxx',
  'entry': 'harness_c04_gate_function',
  'tus': [_B, 'src/interrogate/typeManager.cxx', 'src/cppparser/cppFile.cxx', 'src/dtoolutil/filename.cxx', 'src/cppparser/cppDeclaration.cxx',
          'src/cppparser/cppType.cxx', 'src/cppparser/cppInstance.cxx'],
  'cut': ['_ZN11TypeManager18involves_protectedEP7CPPType', '_ZN11TypeManager25involves_rvalue_referenceEP7CPPType',
          '_ZNK18InterrogateBuilder17in_ignoreinvolvedEP7CPPType', '_ZN11TypeManager17get_function_nameB5cxx11EP11CPPInstance',
          '_ZN18InterrogateBuilder23update_function_commentEP11CPPInstanceP8CPPScope',
          '_ZN18InterrogateBuilder12get_functionEP11CPPInstanceNSt7__cxx1112basic_stringIcSt11char_traitsIcESaIcEEEP13CPPStructTypeP8CPPScopeiRKS7_'],
  'skip_ctors': ['interrogateBuilder.cxx', 'typeManager.cxx', 'cppFile.cxx', 'filename.cxx', 'cppDeclaration.cxx', 'cppType.cxx', 'cppInstance.cxx'],
  'desc': 'export gate InterrogateBuilder::scan_function(CPPInstance*) for an unscoped (global) function',
  'domain': _FILE_DOMAIN + ', template-ness, all 32 storage-class bits, symbolic answers of involves_protected / in_ignoreinvolved / '
            'involves_rvalue_reference',
  'oracle': 'get_function(function, F_global, global scope) called once iff local .h file, not ignored, not a template, vis <= min_vis, '
            'neither static nor deleted, no protected / ignoreinvolved / rvalue-reference type in the signature',
  'bounds': {'quick': {'unwind': 8, 'unwindset': dict(_GATE_LOOPS), 'cap': 600}}},
 {'id': 'c04_command_lines',
  'property': 'C04',
  'src': 'c04_command_file.cxx',
  'entry': 'harness_c04_command_lines',
  'tus': [_B], 'models': ['getline.c', 'noinline.c'], 'skip_ctors': ['interrogateBuilder.cxx'],
  'tuflags': ['-fno-inline'],     # keeps basic_string::_M_create out of line everywhere so that SSO_ONLY really cuts it
  'cut': SSO_ONLY + ['_ZN18InterrogateBuilder10do_commandERKNSt7__cxx1112basic_stringIcSt11char_traitsIcESaIcEEES7_'],
  'desc': 'InterrogateBuilder::read_command_file line splitting through the istream byte model + getline model (two terminated lines)',
  'domain': 'line 1 of 0..LMAX and line 2 of 0..L2MAX bytes over {a, b, space, tab, #}, each newline-terminated',
  'oracle': 'do_command receives, per line that has one, (first word, rest trimmed) of the part before #; blank and comment-only '
            'lines are skipped; every line is processed in order',
  'bounds': {'quick': {'defs': {'LMAX': 5, 'L2MAX': 2}, 'unwind': 10, 'unwindset': {_RCF_OUTER: 4}, 'cap': 600},
             'thorough': {'defs': {'LMAX': 8, 'L2MAX': 3}, 'unwind': 15, 'unwindset': {_RCF_OUTER: 4}, 'cap': 3000}}},
 {'id': 'c04_command_lastline',
  'property': 'C04',
  'src': 'c04_command_file.cxx',
  'entry': 'harness_c04_command_lastline',
  'tus': [_B], 'models': ['getline.c', 'noinline.c'], 'skip_ctors': ['interrogateBuilder.cxx'],
  'tuflags': ['-fno-inline'],
  'cut': SSO_ONLY + ['_ZN18InterrogateBuilder10do_commandERKNSt7__cxx1112basic_stringIcSt11char_traitsIcESaIcEEES7_'],
  'desc': 'read_command_file on a file whose last line is not newline-terminated',
  'domain': 'one line of 0..LMAX bytes over {a, b, space, tab, #} with no trailing newline',
  'oracle': 'the command on the unterminated last line is executed like any other',
  'bounds': {'quick': {'defs': {'LMAX': 5}, 'unwind': 10, 'unwindset': {_RCF_OUTER: 3}, 'cap': 600}}},
 {'id': 'c04_param_list',
  'property': 'C04',
  'src': 'c04_command_file.cxx',
  'entry': 'harness_c04_param_list',
  'tus': [_B], 'skip_ctors': ['interrogateBuilder.cxx'], 'models': ['noinline.c'], 'tuflags': ['-fno-inline'],
  'cut': SSO_ONLY + ['_ZN18InterrogateBuilder10do_commandERKNSt7__cxx1112basic_stringIcSt11char_traitsIcESaIcEEES7_',
                     '_ZNSt8_Rb_treeINSt7__cxx1112basic_stringIcSt11char_traitsIcESaIcEEES5_St9_IdentityIS5_ESt4lessIS5_ESaIS5_EE16_M_insert_uniqueIS5_EESt4pairISt17_Rb_tree_iteratorIS5_EbEOT_'],
  'desc': 'InterrogateBuilder::insert_param_list splits the parameters of ignorefile/ignoremember/noinclude on blanks',
  'domain': 'parameter string of 0..LMAX bytes over {a, b, space, tab}',
  'oracle': 'the entries handed to set::insert are exactly the maximal non-blank runs, in order; never an empty entry',
  'bounds': {'quick': {'defs': {'LMAX': 5}, 'unwind': 9, 'cap': 600},
             'thorough': {'defs': {'LMAX': 7}, 'unwind': 11, 'cap': 3000}}},
]


# ---- which included files are S_local (the class every export gate keys on): real find_include, includer class enumerated ----
from cat.c17 import _STD_US as _INC_US, _DISJUNCT as _INC_DISJUNCT
_SRCNAME = ('S_local (named on the command line as pkg/f.h)', 'S_alternate', 'S_system')


def _incsrc(src, kinds):
    return {'id': 'c04_include_source_%s_k%d' % (('local', 'alt', 'sys')[src], kinds), 'property': 'C04',
            'src': 'c04_include_source.cxx', 'entry': 'harness_c04_include_source',
            'tus': ['src/cppparser/cppPreprocessor.cxx', 'src/cppparser/cppFile.cxx', 'src/dtoolutil/dSearchPath.cxx',
                    'src/dtoolutil/filename.cxx'],
            'skip_ctors': ['cppPreprocessor.cxx'], 'tuflags': ['-fno-inline'],
            'cut': ['_ZNK8Filename6existsEv', _INC_DISJUNCT], 'models': ['strdisjunct.c'],
            # long concrete run: see cat/c17.py (bounds/overflow checks, base.c crash assertions and ASan replay stay on)
            'cbmc_flags': ['--no-pointer-check'], 'object_bits': 16,
            'desc': 'source class CPPPreprocessor::find_include gives an included file when the includer pkg/f.h is '
                    + _SRCNAME[src] + '; search directories d1 d2 d3 given as '
                    + ' '.join('-S' if kinds & (1 << i) else '-I' for i in range(3)),
            'domain': 'candidates {x.h in cwd, pkg/x.h (next to the includer), d1/x.h, d2/x.h, d3/x.h}; concrete loop over include '
                      'form (quotes / angle) and over the position of the first existing candidate in the applicable list; '
                      'existence of every other candidate symbolic; includer class and -I/-S kinds fixed per catalogue entry',
            'oracle': 'the included file is classified S_local iff it was found in the working directory: a file found next to '
                      'its includer, via -I or via -S is never S_local (so none of its declarations passes an export gate), '
                      'whatever the class of the includer; no other path is probed',
            'bounds': {'quick': {'defs': {'INCSRC': src, 'KINDS': kinds}, 'unwind': 40, 'unwindset': _INC_US, 'cap': 600}},
            'tiers': ('quick', 'thorough') if kinds == 5 else ('thorough',)}


HARNESSES += [_incsrc(s, k) for k in (5, 0, 2, 7) for s in (0, 1, 2)]


# ---- define_struct_type: fully defined (members exported) or opaque reference ----
_P = 'src/cppparser/'
_SD_TUS = [_B, 'src/interrogate/typeManager.cxx', 'src/interrogatedb/interrogateType.cxx'] + [_P + x for x in (
    'cppStructType.cxx', 'cppExtensionType.cxx', 'cppTypeDeclaration.cxx', 'cppScope.cxx', 'cppInstance.cxx', 'cppFunctionType.cxx',
    'cppFunctionGroup.cxx', 'cppParameterList.cxx', 'cppIdentifier.cxx', 'cppNameComponent.cxx', 'cppSimpleType.cxx',
    'cppConstType.cxx', 'cppReferenceType.cxx', 'cppType.cxx', 'cppDeclaration.cxx', 'cppAttributeList.cxx', 'cppFile.cxx')] + [
    'src/dtoolutil/filename.cxx']
HARNESSES += [
 {'id': 'c04_struct_define',
  'property': 'C04',
  'src': 'c04_struct_define.cxx',
  'entry': 'harness_c04_struct_define',
  'tus': _SD_TUS,
  'cut': ['_ZN7CPPType8new_typeEPS_', '_ZN11TypeManager12resolve_typeEP7CPPTypeP8CPPScope',
          '_ZN18InterrogateBuilder8get_typeEP7CPPTypeb',
          '_ZN18InterrogateBuilder13define_methodEP11CPPInstanceR15InterrogateTypeP13CPPStructTypeP8CPPScope',
          '_ZN18InterrogateBuilder12scan_elementEP11CPPInstanceP13CPPStructTypeP8CPPScope',
          '_ZN18InterrogateBuilder12get_functionEP11CPPInstanceNSt7__cxx1112basic_stringIcSt11char_traitsIcESaIcEEEP13CPPStructTypeP8CPPScopeiRKS7_',
          '_ZN18InterrogateBuilder17get_cast_functionEP7CPPTypeS1_RKNSt7__cxx1112basic_stringIcSt11char_traitsIcESaIcEEE',
          '_ZN18InterrogateBuilder17get_make_propertyEP15CPPMakePropertyP13CPPStructTypeP8CPPScope',
          '_ZN18InterrogateBuilder12get_make_seqEP10CPPMakeSeqP13CPPStructType'],
  'skip_ctors': [x.split('/')[-1] for x in _SD_TUS] + ['cppExpression.cxx'],
  'models': ['list.c'],
  'desc': 'InterrogateBuilder::define_struct_type (with the real TypeManager::involves_unpublished / involves_protected and '
          'CPPStructType traits) on a class Impl nested in a class W: filled with its members or left an opaque reference',
  'domain': 'class W { <v0>: class Impl { <v1>: void poke(); <v2>: int secret; }; } built with the real cppparser constructors; '
            'v0 (section Impl is declared in), v1, v2 in published..unknown, min_vis in {published, public}, forced (forcetype) '
            'or not, ' + _FILE_DOMAIN.split(', min_vis')[0],
  'oracle': 'Impl declared in a protected/private section => F_fully_defined cleared and no method, data member, constructor, '
            'destructor, nested type or base recorded (whatever its members\' visibility, forced or not); same when neither '
            'Impl nor a member has the requested visibility, and when not forced and the file is not local or is ignored; '
            'nothing from a .c file; conversely every gate open => define_method / scan_element called once each with the '
            'members and the implicit constructors / destructor registered',
  'bounds': {'quick': {'unwind': 8, 'unwindset': dict(_GATE_LOOPS), 'cap': 600}}},
]

PROPERTY_INFO = {'C04': {'level': 'model_checking',
         'explanation': 'bounded symbolic execution (CBMC) of the real export gates, of define_struct_type (with the real '
                        'involves_unpublished / involves_protected) on a nested class built with the real cppparser constructors, '
                        'of the source classification of included files (find_include over a table-driven file system) and of '
                        'the command-file parsing, all lowered from /repo and driven with symbolic gate inputs',
         'outside': 'the type predicates the gates consult (TypeManager::involves_protected / involves_rvalue_reference and InterrogateBuilder::in_ignoreinvolved(CPPType *) are cut and answer symbolically in the gate harnesses; seed c04r3b, which breaks in_ignoreinvolved itself, is an open miss); how _vis gets stamped on declarations by the grammar and the preprocessor (__published, '
                    '__begin_publish); _explicit_files / the command-line handling that makes a named file S_local; '
                    'define_method member filters; the get_type bookkeeping around define_struct_type (forcetype / ignoretype '
                    'lookup by name, typedef unwrapping); gates that need the type graph (scan_function, scan_typedef_type, '
                    'scan_element) beyond what is listed',
         'assumptions': ['c04_struct_define: CPPType::new_type (uniquing) and TypeManager::resolve_type are the identity; the '
                         'class scope is filled the way CPPScope::add_declaration / handle_declaration leave it']}}

NOT_APPLICABLE = {}
