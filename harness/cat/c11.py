"""Catalogue for C11."""
from cat.common import *

_DB = 'src/interrogatedb/'
_MAP_FROM = '_ZNK13IndexRemapper8map_fromEi'
_US = {'ll_strlen.0': 6, 'll_memcmp.0': 6, 'll_memcpy.0': 48, 'll_memmove.0': 48, 'll_memmove.1': 48}


def _remap(name, tus, desc, fields, quick, thorough=None):
    b = {'quick': quick}
    if thorough is not None:
        b['thorough'] = thorough
    return dict(id='c11_remap_' + name, property='C11', src='c11_remap.cxx', entry='harness_c11_remap_' + name,
                tus=[_DB + 'indexRemapper.cxx'] + [_DB + t for t in tus], cut=[_MAP_FROM],
                desc=desc,
                domain='index fields symbolic in [0, 2^30] (0 = no index), other scalars over all of int, vectors of length 0..NMAX; '
                       'IndexRemapper::map_from replaced by the injective f(0)=0, f(i)=i+1000',
                oracle='after remap_indices every index field (' + fields + ') equals f(old value), vector lengths are kept, and every '
                       'non-index field (flags, values, names, comments) is unchanged',
                bounds=b)


HARNESSES = [
 _remap('type', ['interrogateType.cxx'], 'InterrogateType::remap_indices',
        '_outer_class, _wrapped_type, _destructor, _constructors[], _elements[], _methods[], _casts[], _make_seqs[], _nested_types[], '
        '_derivations[]._base/_upcast/_downcast',
        dict(defs=dict(NMAX=2), unwind=5, unwindset=_US, cap=600), dict(defs=dict(NMAX=3), unwind=6, unwindset=_US, cap=3000)),
 _remap('function', ['interrogateFunction.cxx'], 'InterrogateFunction::remap_indices', '_class, _c_wrappers[], _python_wrappers[]',
        dict(defs=dict(NMAX=2), unwind=5, unwindset=_US, cap=600), dict(defs=dict(NMAX=3), unwind=6, unwindset=_US, cap=3000)),
 _remap('wrapper', ['interrogateFunctionWrapper.cxx'], 'InterrogateFunctionWrapper::remap_indices',
        '_function, _return_type, _return_value_destructor, _parameters[]._type',
        dict(defs=dict(NMAX=2), unwind=5, unwindset=_US, cap=600), dict(defs=dict(NMAX=3), unwind=6, unwindset=_US, cap=3000)),
 _remap('scalars', ['interrogateElement.cxx', 'interrogateManifest.cxx', 'interrogateMakeSeq.cxx'],
        'InterrogateElement / InterrogateManifest / InterrogateMakeSeq::remap_indices',
        'element: _type, _getter, _setter, _has_function, _clear_function, _del_function, _length_function, _insert_function, '
        '_getkey_function; manifest: _type, _getter; make_seq: _length_getter, _element_getter',
        dict(defs=dict(), unwind=5, unwindset=_US, cap=600)),
]

HARNESSES += [
 dict(id='c11_db_remap', property='C11', src='c11_db_remap.cxx', entry='harness_c11_db_remap',
      tus=[_DB + t for t in ('interrogateDatabase.cxx', 'indexRemapper.cxx', 'interrogateType.cxx', 'interrogateFunction.cxx',
                             'interrogateFunctionWrapper.cxx', 'interrogateElement.cxx', 'interrogateManifest.cxx', 'interrogateMakeSeq.cxx',
                             'interrogateComponent.cxx')],
      desc='InterrogateDatabase::remap_indices(first, remap) on a database of 2 wrappers, 2 functions, 2 types, 1 manifest, 1 element, 1 make_seq',
      domain='concrete sparse old indices (2,3,4,5,6,7,8,9,12); every index-valued scalar field symbolic over {0} + the existing '
             'entities of its kind; flags/values over all of int; first in 1..FIRST_MAX; records without strings and vectors; real IndexRemapper',
      oracle='wrappers get first, first+1; then functions, types, manifests, elements, make_seqs in old-index order; return value = '
             '_next_index = first + 9; the remapper maps every old index to its new one; every reference field and every '
             'enumeration vector entry equals the new index of the entity it referred to; other fields unchanged',
      bounds={'quick': dict(defs=dict(FIRST_MAX=1), unwind=6, unwindset=_US, cap=900)}),
]

PROPERTY_INFO = {'C11': {'level': 'model_checking',
         'explanation': 'bounded symbolic execution (CBMC) of the real index-rewriting code lowered from /repo',
         'outside': 'agreement of the generated C signatures with the database (checked where the wrappers are called, C01); '
                    'InterrogateBuilder::get_type removal of invalid types (needs parser state); unique-name distinctness (C03); '
                    'databases larger than the bounds',
         'assumptions': ['IndexRemapper::map_from is replaced by a fixed injective function in the per-record harnesses']}}

NOT_APPLICABLE = {}
