"""Catalogue for C11."""
from cat.common import *

_DB = 'src/interrogatedb/'
_MAP_FROM = '_ZNK13IndexRemapper8map_fromEi'
_US = {'ll_strlen.0': 6, 'll_memcmp.0': 6, 'll_memcpy.0': 48, 'll_memmove.0': 48, 'll_memmove.1': 48}
_ASSERTS = ['-D_GLIBCXX_ASSERTIONS']


def _remap(name, tus, desc, fields, us=None):
    # no large bound on the libc model loops unless a harness copies concrete multi-byte objects: a bound of 48 on a memcpy whose length is
    # symbolic (std::string::assign of a 1-character name) costs minutes
    return dict(id='c11_remap_' + name, property='C11', src='c11_remap.cxx', entry='harness_c11_remap_' + name,
                tus=[_DB + 'indexRemapper.cxx', _DB + 'interrogateComponent.cxx'] + [_DB + t for t in tus], cut=[_MAP_FROM],
                tuflags=_ASSERTS, hflags=_ASSERTS, desc=desc,
                domain='heap-allocated record; every index field and every other scalar over ALL of int, names/comments one symbolic character, '
                       'every vector of symbolic length 0..VMAX with symbolic contents; IndexRemapper::map_from cut and replaced by the bijection '
                       'f(x) = x rotated left by K bits for a symbolic K in 1..31 (f(0)=0: the never-mapped "no entity" index stays 0 as in the '
                       'real map_from)',
                oracle='after remap_indices every index field (' + fields + ') equals f(old value), vector lengths are kept, every non-index '
                       'field (flags, values, names, comments, derivation/parameter flags, enum values) is unchanged, and only the remapper '
                       'that was passed in is consulted',
                bounds={'quick': dict(defs=dict(VMAX=2), unwind=5, unwindset=dict(us or {}), cap=600),
                        'thorough': dict(defs=dict(VMAX=3), unwind=6, unwindset=dict(us or {}), cap=3000)})


HARNESSES = [
 _remap('type', ['interrogateType.cxx'], 'InterrogateType::remap_indices',
        '_outer_class, _wrapped_type, _destructor, _constructors[], _elements[], _methods[], _casts[], _make_seqs[], _nested_types[], '
        '_derivations[]._base/_upcast/_downcast', us={'ll_memcpy.0': 80, 'll_memmove.0': 80}),   # concrete 16-byte Derivation copies in resize()
 _remap('function', ['interrogateFunction.cxx'], 'InterrogateFunction::remap_indices', '_class, _c_wrappers[], _python_wrappers[]'),
 _remap('wrapper', ['interrogateFunctionWrapper.cxx'], 'InterrogateFunctionWrapper::remap_indices',
        '_function, _return_type, _return_value_destructor, _parameters[]._type'),
 _remap('scalars', ['interrogateElement.cxx', 'interrogateManifest.cxx', 'interrogateMakeSeq.cxx'],
        'InterrogateElement / InterrogateManifest / InterrogateMakeSeq::remap_indices',
        'element: _type, _getter, _setter, _has_function, _clear_function, _del_function, _length_function, _insert_function, '
        '_getkey_function; manifest: _type, _getter; make_seq: _length_getter, _element_getter'),
]

def _db(id, first):
    return dict(id=id, property='C11', src='c11_db_remap.cxx', entry='harness_c11_db_remap',
      tus=[_DB + t for t in ('interrogateDatabase.cxx', 'indexRemapper.cxx', 'interrogateType.cxx', 'interrogateFunction.cxx',
                             'interrogateFunctionWrapper.cxx', 'interrogateElement.cxx', 'interrogateManifest.cxx', 'interrogateMakeSeq.cxx',
                             'interrogateComponent.cxx')],
      cut=['_ZN19InterrogateDatabase11load_latestEv'],
      cbmc_flags=['--max-field-sensitivity-array-size', '512'],    # records live in std::map nodes (408-byte membuf), see cat/c20.py
      desc='InterrogateDatabase::remap_indices(%d, remap) on a database of 2 wrappers, 2 functions, 2 types, 1 manifest, 1 element, 1 make_seq' % first,
      domain='concrete sparse old indices (2,3,4,5,6,7,8,9,12) and concrete first index %d (a symbolic one makes the shape of the six fresh '
             'std::maps symbolic: no verdict in 900 s); every index-valued scalar field symbolic over {0} + the existing entities of its '
             'kind; flags/values over all of int; records without strings and vectors; real IndexRemapper' % first,
      oracle='wrappers get first, first+1 in old-index order; then functions, types, manifests, elements, make_seqs; return value = '
             '_next_index = first + 9; the remapper maps every old index to its new one; every reference field and every '
             'enumeration vector entry equals the new index of the entity it referred to; other fields unchanged',
      bounds={'quick': dict(defs=dict(FIRST=first), unwind=6, unwindset=_US, cap=900)})


# 1: what InterrogateBuilder::remap_indices passes; 100: a module range assigned by request_module (InterrogateDatabase::read)
HARNESSES += [_db('c11_db_remap', 1), _db('c11_db_remap_100', 100)]

PROPERTY_INFO = {'C11': {'level': 'model_checking',
         'explanation': 'bounded symbolic execution (CBMC) of the real index-rewriting code lowered from /repo',
         'outside': 'the generated lookup tables of -fptrs / -unique-names (_in_fptrs, _in_unique_names) against the database: decided by the C01 run (h_tables harness of engine/c01check.py, symbolic wrapper number; catches seed c11r3b); agreement of the generated C signatures with the database: decided by the C01 run (engine/c01check.py declares every wrapper '
                    'from the signature recorded in the database and calls it through that declaration, so a disagreement is ill-typed or '
                    'fails there); '
                    'InterrogateBuilder::get_type removal of invalid types (needs parser state); unique-name distinctness (C03); '
                    'databases larger than the bounds',
         'assumptions': ['IndexRemapper::map_from is replaced by a family of injective functions (bit rotations) in the per-record harnesses']}}

NOT_APPLICABLE = {}
