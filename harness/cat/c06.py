"""Catalogue for C06 (one clause: printed types keep cv-qualification and pointer/reference/array structure)."""
from cat.common import *

_P = 'src/cppparser/'
_TYPE_TUS = [_P + 'cppSimpleType.cxx', _P + 'cppPointerType.cxx', _P + 'cppReferenceType.cxx', _P + 'cppConstType.cxx',
             _P + 'cppType.cxx', _P + 'cppDeclaration.cxx', _P + 'cppAttributeList.cxx', _P + 'cppFile.cxx',
             'src/dtoolutil/filename.cxx']
_ARR_TUS = [_P + 'cppArrayType.cxx', _P + 'cppExpression.cxx']
_UNROLL_TUS = [_P + 'cppInstanceIdentifier.cxx']
_MEMPTR_TUS = [_P + x for x in ('cppInstanceIdentifier.cxx', 'cppFunctionType.cxx', 'cppParameterList.cxx', 'cppInstance.cxx',
                                'cppIdentifier.cxx', 'cppNameComponent.cxx', 'cppPointerType.cxx', 'cppSimpleType.cxx', 'cppType.cxx',
                                'cppDeclaration.cxx', 'cppAttributeList.cxx', 'cppFile.cxx')] + ['src/dtoolutil/filename.cxx']
_CUT = ['_ZN7CPPType8new_typeEPS_']
# no static initialiser of the linked TUs is needed (the harness still calls __ll2c_global_ctors for the stream model)
_SKIP = ['cppFunctionType.cxx', 'cppParameterList.cxx', 'cppInstance.cxx', 'cppIdentifier.cxx', 'cppNameComponent.cxx',
         'cppType.cxx', 'cppExpression.cxx', 'filename.cxx', 'cppSimpleType.cxx', 'cppInstanceIdentifier.cxx', 'cppArrayType.cxx',
         'cppPointerType.cxx', 'cppReferenceType.cxx', 'cppConstType.cxx', 'cppDeclaration.cxx', 'cppAttributeList.cxx', 'cppFile.cxx']
# CPPArrayType::output_instance builds "[N]" in a std::ostringstream: with -fno-inline its constructor, destructor and
# str() stay calls into libstdc++ and are modelled as an opaque object (models/stream.c, models/noinline.c);
# -fno-pic keeps clang from emitting llvm.load.relative lookup tables
_ARR = dict(tuflags=['-fno-inline', '-fno-pic'], models=['noinline.c', 'c06_noinline.c'])
_ORACLE = ('an independent recursive-descent reader of C declarators recovers from the printed text exactly the modifier list '
           'applied (const on an array normalised to const elements), the base type and the name')


def _h(hid, desc, domain, tus, defs_q, defs_t=None, extra=None, unwind_q=300, unwind_t=1500, cap_q=600, cap_t=2400, tiers=None):
    d = dict(id=hid, property='C06', src='c06_print.cxx', entry='harness_c06_print', tus=tus, cut=_CUT, skip_ctors=_SKIP,
             desc=desc, domain=domain, oracle=_ORACLE,
             bounds={'quick': {'defs': defs_q, 'unwind': unwind_q, 'cap': cap_q}})
    if defs_t is not None:
        d['bounds']['thorough'] = {'defs': defs_t, 'unwind': unwind_t, 'cap': cap_t}
    if extra:
        d.update(extra)
    if tiers:
        d['tiers'] = tiers
    return d


HARNESSES = [
    _h('c06_print_ptr', 'output_instance of pointer / reference / const types over a simple type',
       'every valid modifier list of length <= MAXLEN (2; thorough 3) over {*, &, const} applied to int / unsigned long / char',
       _TYPE_TUS, {'MAXLEN': 2, 'ALPHA': 3}, {'MAXLEN': 3, 'ALPHA': 3}),
    _h('c06_print_arr', 'output_instance of array types combined with pointer / const (no pointer or reference TO an array)',
       'every valid modifier list of length <= 2 over {*, &, const, [N]} that contains an array but no pointer/reference to array; '
       'dimensions 2, 3 (distinct per position)',
       _TYPE_TUS + _ARR_TUS, {'MAXLEN': 2, 'ALPHA': 4, 'ARRAYS': 1, 'PTRARR': 0}, None, _ARR),
    _h('c06_print_ptrarr', 'output_instance of pointers and references to arrays: int (*v)[2], int (&v)[2]',
       'the modifier lists [N] * and [N] & (pointer to array, reference to array) over int / unsigned long',
       _TYPE_TUS + _ARR_TUS, {'MAXLEN': 2, 'ALPHA': 4, 'ARRAYS': 1, 'PTRARR': 1}, None, _ARR),
    _h('c06_print_abs', 'abstract declarators (no name, as for unnamed parameters): output_instance with an empty name, arrays incl. '
       'pointer/reference to array', 'every valid modifier list of length <= 2 over {*, &, const, [N]} containing an array',
       _TYPE_TUS + _ARR_TUS, {'MAXLEN': 2, 'ALPHA': 4, 'ARRAYS': 1, 'NONAME': 1}, None, _ARR),
    _h('c06_print_typename', 'type names as the database prints them: output() of pointer/reference/const/array types',
       'pointer and reference to array (thorough: every valid modifier list of length <= 2 over {*, &, const, [N]})',
       _TYPE_TUS + _ARR_TUS, {'MAXLEN': 2, 'ALPHA': 4, 'ARRAYS': 1, 'PTRARR': 1, 'NONAME': 2}, {'MAXLEN': 2, 'ALPHA': 4, 'NONAME': 2}, _ARR),
    _h('c06_print_constarr', 'const applied directly to an array type (CPPConstType over CPPArrayType, which the parser does not build '
       'itself): const int v[2]', 'the modifier lists [N] const and [N] const * ... of length <= 2',
       _TYPE_TUS + _ARR_TUS, {'MAXLEN': 2, 'ALPHA': 4, 'ARRAYS': 1, 'CONSTARR': 1}, None, _ARR),
    _h('c06_unroll_arr', 'unroll_type + output_instance for declarators with arrays (no pointer/reference to array)',
       'every valid modifier list of length <= 2 over {*, &, const, [N]} containing an array, given to unroll_type outermost first',
       _TYPE_TUS + _ARR_TUS + _UNROLL_TUS, {'MAXLEN': 2, 'ALPHA': 4, 'ARRAYS': 1, 'PTRARR': 0, 'USE_UNROLL': 1}, None, _ARR),
    _h('c06_unroll_ptr', 'CPPInstanceIdentifier::unroll_type builds the type from the declarator modifier list, then output_instance',
       'every valid modifier list of length <= 2 over {*, &, const}, given to unroll_type outermost first',
       _TYPE_TUS + _UNROLL_TUS, {'MAXLEN': 2, 'ALPHA': 3, 'USE_UNROLL': 1}),
    dict(_h('c06_memptr', 'pointer-to-member-function declarators of two classes with the same signature, built by unroll_type '
            '(IIT_scoped_pointer) WITH type uniquing and printed by output_instance',
            'int (Reader::*r)(int) then int (Writer::*w)(int); CPPType::new_type modelled as "first registered type that is == '
            '(real virtual is_equal), else register" over a table (the real std::set is ordered by heap addresses)',
            _MEMPTR_TUS, {}, None, _ARR), src='c06_memptr.cxx', entry='harness_c06_memptr',
         oracle='each printed declaration, blanks aside, is exactly the one written (class name and signature); the two types are distinct'),
] + [
    _h('c06_print_arr3_p%d' % k, 'thorough: array declarators of length <= 3, part %d of 4' % k,
       'every valid modifier list of length <= 3 over {*, &, const, [N]} containing an array but no pointer/reference to array '
       '(dealt round-robin to 4 queries)', _TYPE_TUS + _ARR_TUS,
       {'MAXLEN': 3, 'ALPHA': 4, 'ARRAYS': 1, 'PTRARR': 0, 'NPARTS': 4, 'PART': k}, None, _ARR, unwind_q=1500, cap_q=2400,
       tiers=('thorough',)) for k in range(4)
]

# ---- template instantiation of array types; unqualified type lookup from a class scope -----------------------------------
_SUBST_TUS = [_P + x for x in ('cppArrayType.cxx', 'cppExpression.cxx', 'cppSimpleType.cxx', 'cppClassTemplateParameter.cxx',
                               'cppInstance.cxx', 'cppIdentifier.cxx', 'cppNameComponent.cxx', 'cppType.cxx', 'cppDeclaration.cxx',
                               'cppAttributeList.cxx', 'cppFile.cxx')] + ['src/dtoolutil/filename.cxx']
_SCOPE_TUS = [_P + x for x in ('cppScope.cxx', 'cppStructType.cxx', 'cppExtensionType.cxx', 'cppSimpleType.cxx', 'cppIdentifier.cxx',
                               'cppNameComponent.cxx', 'cppType.cxx', 'cppDeclaration.cxx', 'cppAttributeList.cxx',
                               'cppFile.cxx')] + ['src/dtoolutil/filename.cxx']
# std::map<std::string, CPPType *>::find const (CPPScope::Types)
_TYPES_FIND = ('_ZNKSt8_Rb_treeINSt7__cxx1112basic_stringIcSt11char_traitsIcESaIcEEESt4pairIKS5_P7CPPTypeESt10_Select1stISA_ESt4lessIS5_ESaISA_EE'
               '4findERS7_')
_SUBST_LOOPS = {'ll_strlen.0': 16, 'll_memcpy.0': 130, 'll_memcmp.0': 16, 'll_memmove.0': 32,
                '_ZN12CPPArrayType15substitute_declERSt3mapIP14CPPDeclarationS2_St4lessIS2_ESaISt4pairIKS2_S2_EEEP8CPPScopeSC_': 3,
                '_ZNK13CPPExpression8evaluateEv': 2, '_ZNKSt4lessIP14CPPDeclarationEclES1_S1_.0': 34, '_ZNKSt4lessIP14CPPDeclarationEclES1_S1_.1': 34}

_ELEM_NAMES = ['int', 'T', 'int[N] (array of arrays, inner bound dependent)', 'int[C] (array of arrays, inner bound literal)']


_BOUND_NAMES = ['the literal C', 'the template parameter N', 'an unrelated variable M', 'none ([])']
_SUBST_QUICK = [(0, 0), (0, 1), (0, 2), (0, 3), (1, 0), (1, 1), (2, 0), (3, 1)]


# one object graph per query: with several graphs in one query CBMC's symbolic execution stalls in its value-set simplifier
def _subst(ek, bk):
    d = dict(id='c06_subst_array_e%db%d' % (ek, bk), property='C06', src='c06_subst_array.cxx', entry='harness_c06_subst_array',
             tus=_SUBST_TUS, cut=_CUT + ['_ZNKSt4lessIP14CPPDeclarationEclES1_S1_'],
             tuflags=['-fno-inline', '-fno-pic'], models=['noinline.c'], skip_ctors=[x.split('/')[-1] for x in _SUBST_TUS],
             desc='CPPArrayType::substitute_decl (template instantiation): member array of template<class T, int N> struct S '
                  'instantiated as S<float, V>; element type %s, bound %s' % (_ELEM_NAMES[ek], _BOUND_NAMES[bk]),
             domain='element type %s, bound %s (one concrete object graph per entry; all 16 combinations of 4 element types x 4 bounds '
                    'in the thorough tier, 8 in the quick tier); V and C symbolic over all of int; instantiation map {T -> float, '
                    'N -> literal V}; std::less<CPPDeclaration *> (address order of the std::map) fixed to first-seen order'
                    % (_ELEM_NAMES[ek], _BOUND_NAMES[bk]),
             oracle='the bound evaluates (real CPPExpression::evaluate) to V where N was written and to C where C was written, the '
                    'element type is float where T was written, the result is the template\'s own type object exactly when '
                    'nothing depended on a parameter, the template\'s own type is unmodified, a second substitution returns '
                    'the same type',
             bounds={'quick': {'defs': {'ELEMS': 1 << ek, 'BOUNDS': 1 << bk}, 'unwind': 8, 'unwindset': _SUBST_LOOPS, 'cap': 600}})
    if (ek, bk) not in _SUBST_QUICK:
        d['tiers'] = ('thorough',)
    return d


HARNESSES += [_subst(ek, bk) for ek in range(4) for bk in range(4)] + [
    dict(id='c06_scope_lookup', property='C06', src='c06_scope_lookup.cxx', entry='harness_c06_scope_lookup', tus=_SCOPE_TUS,
         cut=_CUT + [_TYPES_FIND],
         skip_ctors=[x.split('/')[-1] for x in _SCOPE_TUS],
         desc='CPPScope::find_type(name, recurse) from a class scope: struct Widget : L::Node, struct L::Node : K::Base, '
              'namespaces K and L under the global scope',
         domain='which of the six scopes ::, K, L, K::Base, L::Node, Widget declare a type named X (6 symbolic bits, each scope '
                'its own type object); recurse flag symbolic; the scope graph itself is concrete',
         oracle='C++ unqualified lookup order: Widget, then L::Node, then K::Base (members of base classes, never the namespaces '
                'K / L enclosing them), then -- with recurse -- the global scope; from L::Node\'s own scope: Node, Base, L, ::',
         bounds={'quick': {'defs': {}, 'unwind': 8, 'unwindset': {'ll_strlen.0': 16, 'll_memcpy.0': 32, 'll_memcmp.0': 16,
                                                                   'll_memmove.0': 32}, 'cap': 600}}),
]

PROPERTY_INFO = {'C06': {'level': 'model_checking',
         'explanation': 'bounded symbolic execution (CBMC) of the real type printers (output_instance of pointer, reference, const, '
                        'array and simple types) and of CPPInstanceIdentifier::unroll_type; the printed declaration is read back by '
                        'an independent recursive-descent reader of C declarators; CPPArrayType::substitute_decl (array types '
                        'in template instantiations) with symbolic bounds; CPPScope::find_type on a class/namespace graph with '
                        'symbolic declaration sites against the C++ unqualified-lookup order',
         'outside': 'zero-error parsing of valid translation units and of the shipped stub headers; name lookup through '
                    'using-directives/declarations, shadowing by non-type names and qualified names (unqualified type lookup through '
                    'class, base classes and enclosing scopes is covered on one concrete graph); template instantiation other than '
                    'array types (substitute_decl of the other type classes); typedef targets; function declarators; '
                    'volatile; the bison actions that build the modifier list',
         'assumptions': ['CPPType::new_type (uniquing of equal types in a static std::set) is replaced by the identity',
                         'iostream model models/stream.c; std::ostringstream as an opaque token stream whose str() renders decimal',
                         'c06_subst_array_*: std::less<CPPDeclaration*> (address order of the substitution map) replaced by a fixed '
                         'first-seen order for the encoded run; c06_scope_lookup: std::map<string,CPPType*>::find replaced by an in-order '
                         'scan with the same contract (native replays use the real ones)']}}

NOT_APPLICABLE = {}
