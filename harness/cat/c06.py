"""Catalogue for C06 (one clause: printed types keep cv-qualification and pointer/reference/array structure)."""
from cat.common import *

_P = 'src/cppparser/'
_TYPE_TUS = [_P + 'cppSimpleType.cxx', _P + 'cppPointerType.cxx', _P + 'cppReferenceType.cxx', _P + 'cppConstType.cxx',
             _P + 'cppType.cxx', _P + 'cppDeclaration.cxx', _P + 'cppAttributeList.cxx', _P + 'cppFile.cxx',
             'src/dtoolutil/filename.cxx']
_ARR_TUS = [_P + 'cppArrayType.cxx', _P + 'cppExpression.cxx']
_UNROLL_TUS = [_P + 'cppInstanceIdentifier.cxx']
_MEMPTR_TUS = [_P + x for x in ('cppInstanceIdentifier.cxx', 'cppFunctionType.cxx', 'cppParameterList.cxx', 'cppInstance.cxx',
                                'cppIdentifier.cxx', 'cppNameComponent.cxx', 'cppPointerType.cxx', 'cppSimpleType.cxx', 'cppType.cxx',
                                'cppDeclaration.cxx', 'cppAttributeList.cxx', 'cppFile.cxx')] + ['src/dtoolutil/filename.cxx']
_CUT = ['_ZN7CPPType8new_typeEPS_']
# no static initialiser of the linked TUs is needed (the harness still calls __ll2c_global_ctors for the stream model)
_SKIP = ['cppFunctionType.cxx', 'cppParameterList.cxx', 'cppInstance.cxx', 'cppIdentifier.cxx', 'cppNameComponent.cxx',
         'cppType.cxx', 'cppExpression.cxx', 'filename.cxx', 'cppSimpleType.cxx', 'cppInstanceIdentifier.cxx', 'cppArrayType.cxx',
         'cppPointerType.cxx', 'cppReferenceType.cxx', 'cppConstType.cxx', 'cppDeclaration.cxx', 'cppAttributeList.cxx', 'cppFile.cxx']
# CPPArrayType::output_instance builds "[N]" in a std::ostringstream: with -fno-inline its constructor, destructor and
# str() stay calls into libstdc++ and are modelled as an opaque object (models/stream.c, models/noinline.c);
# -fno-pic keeps clang from emitting llvm.load.relative lookup tables
_ARR = dict(tuflags=['-fno-inline', '-fno-pic'], models=['noinline.c', 'c06_noinline.c'])
_ORACLE = ('an independent recursive-descent reader of C declarators recovers from the printed text exactly the modifier list '
           'applied (const on an array normalised to const elements), the base type and the name')


def _h(hid, desc, domain, tus, defs_q, defs_t=None, extra=None, unwind_q=300, unwind_t=1500, cap_q=600, cap_t=2400, tiers=None):
    d = dict(id=hid, property='C06', src='c06_print.cxx', entry='harness_c06_print', tus=tus, cut=_CUT, skip_ctors=_SKIP,
             desc=desc, domain=domain, oracle=_ORACLE,
             bounds={'quick': {'defs': defs_q, 'unwind': unwind_q, 'cap': cap_q}})
    if defs_t is not None:
        d['bounds']['thorough'] = {'defs': defs_t, 'unwind': unwind_t, 'cap': cap_t}
    if extra:
        d.update(extra)
    if tiers:
        d['tiers'] = tiers
    return d


HARNESSES = [
    _h('c06_print_ptr', 'output_instance of pointer / reference / const types over a simple type',
       'every valid modifier list of length <= MAXLEN (2; thorough 3) over {*, &, const} applied to int / unsigned long / char',
       _TYPE_TUS, {'MAXLEN': 2, 'ALPHA': 3}, {'MAXLEN': 3, 'ALPHA': 3}),
    _h('c06_print_arr', 'output_instance of array types combined with pointer / const (no pointer or reference TO an array)',
       'every valid modifier list of length <= 2 over {*, &, const, [N]} that contains an array but no pointer/reference to array; '
       'dimensions 2, 3 (distinct per position)',
       _TYPE_TUS + _ARR_TUS, {'MAXLEN': 2, 'ALPHA': 4, 'ARRAYS': 1, 'PTRARR': 0}, None, _ARR),
    _h('c06_print_ptrarr', 'output_instance of pointers and references to arrays: int (*v)[2], int (&v)[2]',
       'the modifier lists [N] * and [N] & (pointer to array, reference to array) over int / unsigned long',
       _TYPE_TUS + _ARR_TUS, {'MAXLEN': 2, 'ALPHA': 4, 'ARRAYS': 1, 'PTRARR': 1}, None, _ARR),
    _h('c06_print_abs', 'abstract declarators (no name, as for unnamed parameters): output_instance with an empty name, arrays incl. '
       'pointer/reference to array', 'every valid modifier list of length <= 2 over {*, &, const, [N]} containing an array',
       _TYPE_TUS + _ARR_TUS, {'MAXLEN': 2, 'ALPHA': 4, 'ARRAYS': 1, 'NONAME': 1}, None, _ARR),
    _h('c06_print_typename', 'type names as the database prints them: output() of pointer/reference/const/array types',
       'pointer and reference to array (thorough: every valid modifier list of length <= 2 over {*, &, const, [N]})',
       _TYPE_TUS + _ARR_TUS, {'MAXLEN': 2, 'ALPHA': 4, 'ARRAYS': 1, 'PTRARR': 1, 'NONAME': 2}, {'MAXLEN': 2, 'ALPHA': 4, 'NONAME': 2}, _ARR),
    _h('c06_print_constarr', 'const applied directly to an array type (CPPConstType over CPPArrayType, which the parser does not build '
       'itself): const int v[2]', 'the modifier lists [N] const and [N] const * ... of length <= 2',
       _TYPE_TUS + _ARR_TUS, {'MAXLEN': 2, 'ALPHA': 4, 'ARRAYS': 1, 'CONSTARR': 1}, None, _ARR),
    _h('c06_unroll_arr', 'unroll_type + output_instance for declarators with arrays (no pointer/reference to array)',
       'every valid modifier list of length <= 2 over {*, &, const, [N]} containing an array, given to unroll_type outermost first',
       _TYPE_TUS + _ARR_TUS + _UNROLL_TUS, {'MAXLEN': 2, 'ALPHA': 4, 'ARRAYS': 1, 'PTRARR': 0, 'USE_UNROLL': 1}, None, _ARR),
    _h('c06_unroll_ptr', 'CPPInstanceIdentifier::unroll_type builds the type from the declarator modifier list, then output_instance',
       'every valid modifier list of length <= 2 over {*, &, const}, given to unroll_type outermost first',
       _TYPE_TUS + _UNROLL_TUS, {'MAXLEN': 2, 'ALPHA': 3, 'USE_UNROLL': 1}),
    dict(_h('c06_memptr', 'pointer-to-member-function declarators of two classes with the same signature, built by unroll_type '
            '(IIT_scoped_pointer) WITH type uniquing and printed by output_instance',
            'int (Reader::*r)(int) then int (Writer::*w)(int); CPPType::new_type modelled as "first registered type that is == '
            '(real virtual is_equal), else register" over a table (the real std::set is ordered by heap addresses)',
            _MEMPTR_TUS, {}, None, _ARR), src='c06_memptr.cxx', entry='harness_c06_memptr',
         oracle='each printed declaration, blanks aside, is exactly the one written (class name and signature); the two types are distinct'),
] + [
    _h('c06_print_arr3_p%d' % k, 'thorough: array declarators of length <= 3, part %d of 4' % k,
       'every valid modifier list of length <= 3 over {*, &, const, [N]} containing an array but no pointer/reference to array '
       '(dealt round-robin to 4 queries)', _TYPE_TUS + _ARR_TUS,
       {'MAXLEN': 3, 'ALPHA': 4, 'ARRAYS': 1, 'PTRARR': 0, 'NPARTS': 4, 'PART': k}, None, _ARR, unwind_q=1500, cap_q=2400,
       tiers=('thorough',)) for k in range(4)
]

PROPERTY_INFO = {'C06': {'level': 'model_checking',
         'explanation': 'bounded symbolic execution (CBMC) of the real type printers (output_instance of pointer, reference, const, '
                        'array and simple types) and of CPPInstanceIdentifier::unroll_type; the printed declaration is read back by '
                        'an independent recursive-descent reader of C declarators',
         'outside': 'zero-error parsing of valid translation units and of the shipped stub headers; name lookup through '
                    'namespaces/using/shadowing; template instantiation; typedef targets; function and member-pointer declarators; '
                    'volatile; the bison actions that build the modifier list',
         'assumptions': ['CPPType::new_type (uniquing of equal types in a static std::set) is replaced by the identity',
                         'iostream model models/stream.c; std::ostringstream as an opaque token stream whose str() renders decimal']}}

NOT_APPLICABLE = {}
