"""Catalogue for C03."""
from cat.common import *

_B = 'src/interrogate/interrogateBuilder.cxx'
# every string in these harnesses fits the small-string buffer (15 bytes): the libstdc++ reallocation paths are cut, so the
# auto-generated stubs turn any attempt to grow a string beyond it into a failed assertion instead of a symbolic-size malloc
SSO_ONLY = ['_ZNSt7__cxx1112basic_stringIcSt11char_traitsIcESaIcEE9_M_mutateEmmPKcm',
            '_ZNSt7__cxx1112basic_stringIcSt11char_traitsIcESaIcEE9_M_createERmm']
HARNESSES = [
 {'id': 'c03_hash_string',
  'property': 'C03',
  'src': 'c03_names.cxx',
  'entry': 'harness_c03_hash_string',
  'tus': [_B],
  'desc': 'InterrogateBuilder::hash_string yields a 4-character C identifier fragment for every input',
  'domain': 'every byte string of length 0..LMAX (all 256 byte values), shift_offset in {5, 11}',
  'oracle': 'result length exactly 4, every character in [A-Za-z0-9_]',
  'bounds': {'quick': {'defs': {'LMAX': 5}, 'unwind': 8, 'cap': 600},
             'thorough': {'defs': {'LMAX': 10}, 'unwind': 13, 'cap': 3000}}},
 {'id': 'c03_clean_identifier',
  'property': 'C03',
  'src': 'c03_names.cxx',
  'entry': 'harness_c03_clean_identifier',
  'tus': [_B],
  'desc': 'InterrogateBuilder::clean_identifier (= make_safe_name) against its documented contract',
  'domain': 'every byte string of length 0..LMAX (all 256 byte values)',
  'cut': SSO_ONLY,
  'oracle': 'output only [A-Za-z0-9_], no double/trailing underscore, equals the run-collapsing reference, identity on '
            'canonical identifiers, every alphanumeric character kept in order',
  'bounds': {'quick': {'defs': {'LMAX': 5}, 'unwind': 8, 'cap': 600},
             'thorough': {'defs': {'LMAX': 8}, 'unwind': 11, 'cap': 3000}}},
 {'id': 'c03_safe_name_injective',
  'property': 'C03',
  'src': 'c03_names.cxx',
  'entry': 'harness_c03_safe_name_injective',
  'tus': [_B],
  'cut': SSO_ONLY,
  'desc': 'clean_identifier / make_safe_name must keep distinct scoped C++ names distinct (they become Dtool_<name> symbols)',
  'domain': 'two distinct scoped names of 1..SMAX characters: identifiers over {a, b} with single inner underscores (no reserved '
            'spellings), joined by ::',
  'oracle': 'the two cleaned names differ',
  'bounds': {'quick': {'defs': {'SMAX': 4}, 'unwind': 7, 'cap': 600}}},
] + [
 {'id': 'c03_hash_signature_k%d_p%d%s%s' % (k, p1, '' if k == 3 else '_%d' % lo, '' if o == 0 else '_o%d' % o),
  'property': 'C03',
  'src': 'c03_hash_sig.cxx',
  'entry': 'harness_c03_hash_signature',
  'tus': ['src/interrogate/interfaceMaker.cxx', _B],
  'cut': ['_ZN18InterrogateBuilder11hash_stringERKNSt7__cxx1112basic_stringIcSt11char_traitsIcESaIcEEEi'],
  'skip_ctors': ['interfaceMaker.cxx', 'interrogateBuilder.cxx'],
  'desc': ('InterfaceMaker::hash_function_signature over %d remaps with distinct signatures; hash_string replaced by a '
           'table realising every collision pattern (pairs of set partitions of the signatures at hash level 1 and 2) in '
           'every insertion order; the wrapper symbol / unique name suffix of a remap is the value of _hash right after its '
           'own call (as make_function_remap forms _wrapper_name/_unique_name, never recomputed); one entry per first-level '
           'partition and insertion order: partition no. 0, order no. 0' % k) if (p1, o) == (0, 0) else
          'the same for first-level partition no. %d, insertion order no. %d' % (p1, o),
  'domain': '%d remaps, first-level partition no. %d x second-level partitions %d..%d (all entries together: every pair, 5x5 for 3 '
            'remaps, 15x15 for 4); keys concrete per pattern (map semantics are order-independent), real std::map over '
            'the rbtree model; insertion order = permutation no. %d (all entries together: every order)' % (k, p1, lo, hi - 1, o),
  'oracle': 'the name suffixes taken right after each insertion (= emitted wrapper symbols / unique names) pairwise distinct; '
            'resulting _hash values pairwise distinct, 4..9 identifier characters, the map maps each final hash to its remap, '
            'abort() and the internal-error paths never reached',
  # quick tier: the identity and the reversed insertion order; thorough: all six
  'tiers': ('quick', 'thorough') if k == 3 and o in (0, 5) else ('thorough',),
  'bounds': {t: {'defs': {'KMAX': k, 'P1': p1, 'P2LO': lo, 'P2HI': hi, 'ORDLO': o, 'ORDHI': o + 1}, 'unwind': 60,
                 'unwindset': dict(DIAG_LOOPS, **{'_ZL13make_patternsv.%d' % q: 1100 for q in range(5)}), 'cap': 900}
             for t in ('quick', 'thorough')}}
 # 4 remaps (15x15 partition pairs) were tried: one query of 5 pairs did not finish symbolic execution in 15 min
 # one entry per insertion order: 6 orders x 5 second-level partitions in ONE query took 330 s (superlinear in live heap
 # objects), one order takes ~17 s
 for o in range(6)
 for k, p1, lo, hi in [(3, p1, 0, 5) for p1 in range(5)]
]

PROPERTY_INFO = {'C03': {'level': 'model_checking',
         'explanation': 'bounded symbolic execution (CBMC) of the real identifier/hash kernels and of the hash-collision '
                        'resolution of InterfaceMaker lowered from /repo',
         'outside': 'acceptance of the generated code and module file by a C++ compiler/linker over the option lattice; '
                    'printers of types and expressions; libraries with more than the bounded number of colliding wrappers',
         'assumptions': []}}

NOT_APPLICABLE = {}
