"""Catalogue for C05."""
from cat.common import *

HARNESSES = [
 {'id': 'c05_wrapper_entry',
  'property': 'C05',
  'src': 'c05_wrapper_entry.cxx',
  'entry': 'harness_c05_wrapper_entry',
  'tus': ['src/interrogate/functionRemap.cxx', 'src/interrogate/parameterRemap.cxx', 'src/interrogate/interrogateBuilder.cxx',
          'src/interrogatedb/interrogateDatabase.cxx', 'src/cppparser/cppAttributeList.cxx'],
  'cut': ['_ZN18InterrogateBuilder8get_typeEP7CPPTypeb', '_ZN18InterrogateBuilder22get_atomic_string_typeEv',
          '_ZN19InterrogateDatabase7get_ptrEv', '_ZN19InterrogateDatabase11add_wrapperEiRK26InterrogateFunctionWrapper',
          '_ZNK16CPPAttributeList13has_attributeERKNSt7__cxx1112basic_stringIcSt11char_traitsIcESaIcEEE'],
  'skip_ctors': ['functionRemap.cxx', 'parameterRemap.cxx', 'interrogateBuilder.cxx', 'interrogateDatabase.cxx', 'cppAttributeList.cxx'],
  'desc': 'FunctionRemap::make_wrapper_entry: the stored InterrogateFunctionWrapper against the remap it was made from',
  'domain': '0..NPMAX parameters (count enumerated; comment present for odd counts), each with symbolic has_name / default value / atomic-string remap / name '
            'character; symbolic has_this, void_return, extension, flags word, managed return + destructor index, -fnames, '
            'deprecated attribute, next database index, function index, wrapper and unique name characters, attached comment '
            '(none, or the text " x\\n")',
  'oracle': 'parameter i has name and type of parameter i (injective type numbering); is_this iff i==0 and has_this; '
            'is_optional iff default value; has_return iff not void; caller_manages iff managed; destructor only if managed; '
            'role flags truthful; comment = trimmed attached comment; stored once under the returned fresh index',
  'bounds': {'quick': {'defs': {'NPMAX': 3}, 'unwind': 8, 'unwindset': dict(STATIC_INIT_LOOPS), 'cap': 600}}},
] + [
 {'id': 'c05_comment_' + which,
  'property': 'C05',
  'src': 'c05_comments.cxx',
  'entry': 'harness_c05_comment_' + which,
  'tus': ['src/cppparser/cppPreprocessor.cxx', 'src/cppparser/cppFile.cxx', 'src/dtoolutil/filename.cxx'],
  'models': ['list.c'],
  'skip_ctors': ['cppPreprocessor.cxx', 'cppFile.cxx', 'filename.cxx'],
  'desc': 'CPPPreprocessor::get_comment_%s over a list of comment blocks from two files' % which,
  'domain': '0..NB comment blocks (count enumerated), each in the queried file or another one (symbolic), symbolic line spans '
            'in 1..10^6 increasing within a file, symbolic query line',
  'oracle': oracle,
  'bounds': {'quick': {'defs': {'NB': 3}, 'unwind': 8, 'unwindset': dict(STATIC_INIT_LOOPS), 'cap': 600},
             'thorough': {'defs': {'NB': 5}, 'unwind': 10, 'unwindset': dict(STATIC_INIT_LOOPS), 'cap': 3000}}}
 for which, oracle in (('before', 'returns the last block of the queried file ending on the query line or the line before it; null otherwise'),
                       ('on', 'returns the block of the queried file starting on the query line; null otherwise'))
]

# ---- overload identity: TypeManager::get_function_signature on real parameter types (c05_signature.cxx) ----
_P = 'src/cppparser/'
_SIG_TUS = ['src/interrogate/typeManager.cxx'] + [_P + x for x in (
    'cppSimpleType.cxx', 'cppConstType.cxx', 'cppPointerType.cxx', 'cppReferenceType.cxx', 'cppFunctionType.cxx', 'cppParameterList.cxx',
    'cppInstance.cxx', 'cppIdentifier.cxx', 'cppNameComponent.cxx', 'cppType.cxx', 'cppDeclaration.cxx', 'cppAttributeList.cxx',
    'cppFile.cxx')] + ['src/dtoolutil/filename.cxx']
_SIG_DOMAIN = ('one-parameter functions f(P) of the same (symbolic one-letter) name; P ranges over the real type objects T, const T, T &, '
               'const T &, T &&, T *, const T *, T *const, const T *const with T = int (built from CPPSimpleType / CPPConstType / CPPReferenceType / '
               'CPPPointerType; every signature computed by the real code in a concrete loop inside the query); the PAIR (a, b) of '
               'overloads compared is symbolic.  const T && is outside (functions with rvalue-reference parameters are never exported)')
def _sig(hid, defs, desc, oracle):
    return {'id': hid, 'property': 'C05', 'src': 'c05_signature.cxx', 'entry': 'harness_c05_signature', 'tus': _SIG_TUS,
            # -fno-inline: std::ostringstream stays an opaque modelled object (models/stream.c, noinline.c)
            'tuflags': ['-fno-inline', '-fno-pic'], 'models': ['noinline.c'],
            'cut': ['_ZN7CPPType8new_typeEPS_'],      # never reached (asserting stub): the harness builds the type graph itself
            'skip_ctors': [x.split('/')[-1] for x in _SIG_TUS],
            # a long concrete run (9 signatures printed through the real output_instance chain): --pointer-check makes symbolic
            # execution quadratic (185 s vs 18 s); crashes still fail via models/base.c and the native ASan replay
            'cbmc_flags': ['--no-pointer-check'],
            'desc': desc, 'domain': _SIG_DOMAIN, 'oracle': oracle,
            'bounds': {'quick': {'defs': dict(defs), 'unwind': 100, 'cap': 600}}}
HARNESSES += [
 _sig('c05_signature', {},
      'TypeManager::get_function_signature (the key of InterrogateFunction::_instances: InterrogateBuilder::get_function makes one '
      'wrapper record, prototype and comment per distinct key) with the real is_const_ref_to_anything / unwrap_const_reference and '
      'the real type printers: injective on overloads that C++ tells apart',
      'canon(P) = P without top-level const; whenever canon(Pa) != canon(Pb) the two signatures differ, except for the documented '
      'pair {T or const T, const T &} ("C++ can\'t differentiate these two anyway"), and f(T) / f(const T &) are indeed keyed alike'),
 _sig('c05_signature_redecl', {'REDECL': 1},
      'TypeManager::get_function_signature on two declarations of the SAME function (parameter types that differ in top-level const '
      'only: void f(int); void f(const int);)',
      'canon(Pa) == canon(Pb) implies equal signatures (one callable variant, not two)'),
]

# ---- capture of // comment blocks: CPPPreprocessor::skip_cpp_comment under the real skip_whitespace / skip_comment ----
_CC_TUS = ['src/cppparser/cppPreprocessor.cxx', 'src/cppparser/cppFile.cxx', 'src/dtoolutil/filename.cxx']
# std::string never leaves its 15-byte SSO buffer (a block is at most NMAX + 3 bytes long): the heap path is cut, its auto
# stub asserts if it were ever reached
_CUT_HEAP_STRINGS = ['_ZNSt7__cxx1112basic_stringIcSt11char_traitsIcESaIcEE9_M_createERmm',
                     '_ZNSt7__cxx1112basic_stringIcSt11char_traitsIcESaIcEE9_M_mutateEmmPKcm']
_CC_CUT = _CUT_HEAP_STRINGS + [
    # CPPPreprocessor::get, InputFile::get/peek: copies reading a byte array (in the harness, see there)
    '_ZN15CPPPreprocessor3getEv', '_ZN15CPPPreprocessor9InputFile3getEv', '_ZN15CPPPreprocessor9InputFile4peekEv',
    '_ZN15CPPPreprocessor14skip_c_commentEi',    # must not be reached (asserting stub): the inputs contain no /* comment
    # std::string::_M_replace (`comment->_comment = "//"`): its aliasing test compares unrelated addresses; see the harness
    '_ZNSt7__cxx1112basic_stringIcSt11char_traitsIcESaIcEE10_M_replaceEmmPKcm']
def _cc(hid, entry, defs, desc, domain, oracle):
    return {'id': hid, 'property': 'C05', 'src': 'c05_cpp_comments.cxx', 'entry': entry, 'tus': _CC_TUS,
            'skip_ctors': ['cppPreprocessor.cxx', 'cppFile.cxx', 'filename.cxx'], 'cut': _CC_CUT,
            'models': ['list.c', 'noinline.c'], 'tuflags': ['-fno-inline'],
            'desc': desc, 'domain': domain, 'oracle': oracle,
            'bounds': {'quick': {'defs': defs, 'unwind': 20, 'unwindset': {'_ZN15CPPPreprocessor12skip_commentEi.0': 1}, 'cap': 300}}}
_STEP_DOMAIN = ('one comment line //<text> newline read by the real skip_comment -> skip_cpp_comment in an arbitrary lexer state: symbolic '
                'current line L (1..10^6) and column C (1..1000), symbolic flag _last_cpp_comment, previous block absent / a // block '
                'ending on a symbolic line PL < L / a C-style block ending on PL <= L (then the flag is clear), with symbolic first '
                'line and column; text of %s bytes, //a //(slash) //(space) //aa (kind of previous block and text enumerated by concrete '
                'loops inside the query)')
_STEP_ORACLE = ('the previous block is continued iff it is a // block, the flag is set (only blanks were read since it ended) and it ended '
                'on the immediately preceding line (PL == L - 1): then its text grows by this line, it ends on L and nothing else '
                'changes; otherwise a new block {first = last = L, column C, text "//<text>\\n"} is appended and the previous one is left '
                'alone; afterwards the flag is set and the newline is handed back')
_PREV = ('no previous block', 'a previous // block', 'a previous C-style block')
HARNESSES += [
 _cc('c05_cpp_comment_step_p%d' % k, 'harness_c05_cpp_comment_step', {'T_MIN': 1, 'T_MAX': 2, 'PREV_FROM': k, 'PREV_TO': k},
     'capture of // comment blocks, step 1 of an induction over the input bytes: one // line (CPPPreprocessor::skip_cpp_comment under the '
     'real skip_comment) continues the previous block or starts a new one; ' + _PREV[k],
     _STEP_DOMAIN % '1..2' + '; this entry: ' + _PREV[k], _STEP_ORACLE) for k in range(3)
] + [
 _cc('c05_cpp_comment_empty', 'harness_c05_cpp_comment_step', {'T_MIN': 0, 'T_MAX': 0},
     'as c05_cpp_comment_step for an EMPTY comment (a // directly followed by the end of its line, e.g. the blank line of a // paragraph)',
     _STEP_DOMAIN % '0', _STEP_ORACLE),
 _cc('c05_comment_flag', 'harness_c05_comment_flag', {},
     'capture of // comment blocks, step 2 of the induction: what the flag _last_cpp_comment means -- one byte that starts no comment '
     'handed to the real CPPPreprocessor::skip_comment',
     'symbolic byte c0 (1..255, not CR) followed by a symbolic byte c1 such that c0 c1 starts no comment; symbolic flag; one // block in the list',
     'the byte is handed back, nothing else is consumed, no block is touched, and the flag stays set iff it was set and the byte is '
     'blank (space, tab, newline, VT, FF): code between two // comments, a lone / included, clears it'),
]

PROPERTY_INFO = {'C05': {'level': 'model_checking',
         'explanation': 'bounded symbolic execution (CBMC) of the real wrapper-record construction, overload-identity (signature) and comment '
                        'capture / attachment code lowered from /repo',
         'outside': 'names, scoping, base lists, cast availability, property/sequence records and prototypes computed from the '
                    "parser's object graph by get_type/get_function/define_struct_type; signatures of functions with more than one "
                    'parameter, class/typedef/array parameter types; capture of /* */ comments; // comments at the end of an included file '
                    'without a final newline; the whole-input composition of the two comment-capture step harnesses is an induction '
                    'argument stated in harness/c05_cpp_comments.cxx, not a single query',
         'assumptions': []}}

NOT_APPLICABLE = {}
