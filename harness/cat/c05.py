"""Catalogue for C05."""
from cat.common import *

HARNESSES = [
 {'id': 'c05_wrapper_entry',
  'property': 'C05',
  'src': 'c05_wrapper_entry.cxx',
  'entry': 'harness_c05_wrapper_entry',
  'tus': ['src/interrogate/functionRemap.cxx', 'src/interrogate/parameterRemap.cxx', 'src/interrogate/interrogateBuilder.cxx',
          'src/interrogatedb/interrogateDatabase.cxx', 'src/cppparser/cppAttributeList.cxx'],
  'cut': ['_ZN18InterrogateBuilder8get_typeEP7CPPTypeb', '_ZN18InterrogateBuilder22get_atomic_string_typeEv',
          '_ZN19InterrogateDatabase7get_ptrEv', '_ZN19InterrogateDatabase11add_wrapperEiRK26InterrogateFunctionWrapper',
          '_ZNK16CPPAttributeList13has_attributeERKNSt7__cxx1112basic_stringIcSt11char_traitsIcESaIcEEE'],
  'skip_ctors': ['functionRemap.cxx', 'parameterRemap.cxx', 'interrogateBuilder.cxx', 'interrogateDatabase.cxx', 'cppAttributeList.cxx'],
  'desc': 'FunctionRemap::make_wrapper_entry: the stored InterrogateFunctionWrapper against the remap it was made from',
  'domain': '0..NPMAX parameters (count enumerated; comment present for odd counts), each with symbolic has_name / default value / atomic-string remap / name '
            'character; symbolic has_this, void_return, extension, flags word, managed return + destructor index, -fnames, '
            'deprecated attribute, next database index, function index, wrapper and unique name characters, attached comment '
            '(none, or the text " x\\n")',
  'oracle': 'parameter i has name and type of parameter i (injective type numbering); is_this iff i==0 and has_this; '
            'is_optional iff default value; has_return iff not void; caller_manages iff managed; destructor only if managed; '
            'role flags truthful; comment = trimmed attached comment; stored once under the returned fresh index',
  'bounds': {'quick': {'defs': {'NPMAX': 3}, 'unwind': 8, 'unwindset': dict(STATIC_INIT_LOOPS), 'cap': 600}}},
] + [
 {'id': 'c05_comment_' + which,
  'property': 'C05',
  'src': 'c05_comments.cxx',
  'entry': 'harness_c05_comment_' + which,
  'tus': ['src/cppparser/cppPreprocessor.cxx', 'src/cppparser/cppFile.cxx', 'src/dtoolutil/filename.cxx'],
  'models': ['list.c'],
  'skip_ctors': ['cppPreprocessor.cxx', 'cppFile.cxx', 'filename.cxx'],
  'desc': 'CPPPreprocessor::get_comment_%s over a list of comment blocks from two files' % which,
  'domain': '0..NB comment blocks (count enumerated), each in the queried file or another one (symbolic), symbolic line spans '
            'in 1..10^6 increasing within a file, symbolic query line',
  'oracle': oracle,
  'bounds': {'quick': {'defs': {'NB': 3}, 'unwind': 8, 'unwindset': dict(STATIC_INIT_LOOPS), 'cap': 600},
             'thorough': {'defs': {'NB': 5}, 'unwind': 10, 'unwindset': dict(STATIC_INIT_LOOPS), 'cap': 3000}}}
 for which, oracle in (('before', 'returns the last block of the queried file ending on the query line or the line before it; null otherwise'),
                       ('on', 'returns the block of the queried file starting on the query line; null otherwise'))
]

PROPERTY_INFO = {'C05': {'level': 'model_checking',
         'explanation': 'bounded symbolic execution (CBMC) of the real wrapper-record construction and comment attachment code lowered from /repo',
         'outside': 'names, scoping, base lists, cast availability, property/sequence records and prototypes computed from the '
                    "parser's object graph by get_type/get_function/define_struct_type; comment capture by the lexer",
         'assumptions': []}}

NOT_APPLICABLE = {}
