"""Catalogue for C17."""
from cat.common import *

_STD_US = {'ll_strlen.0': 20, 'll_memcmp.0': 20, 'll_memcpy.0': 20, 'll_memcpy.1': 20, 'll_memmove.0': 20, 'll_memmove.1': 20,
           'll_memmove.2': 20, 'll_memmove.3': 20, 'll_memchr.0': 20}

_DISJUNCT = '_ZNKSt7__cxx1112basic_stringIcSt11char_traitsIcESaIcEE11_M_disjunctEPKc'
_QPARTS, _TPARTS = 4, 16
_QCPARTS, _TCPARTS = 6, 16


def _std(kind, part):
    """one residue class of the concrete path enumeration (see harness/c17_standardize.cxx)
    kind: 'b' byte-wise enumeration, 'c' component-wise enumeration, 'n' non-empty check"""
    if kind == 'b':
        hid = 'c17_standardize_b%02d' % part
        qd = {'PMAX': 4, 'NPARTS': _QPARTS, 'PART': part}
        td = {'PMAX': 6, 'NPARTS': _TPARTS, 'PART': part}
        dom = ('every path of length 1..PMAX over {/, ., letter} (letter = a at even, b at odd offsets) whose index is PART mod '
               'NPARTS')
        qu, tu = 2000, 20000
    elif kind == 'c':
        hid = 'c17_standardize_c%02d' % part
        qd = {'COMPONENTS': 3, 'NPARTS': _QCPARTS, 'PART': part}
        td = {'COMPONENTS': 4, 'NPARTS': _TCPARTS, 'PART': part}
        dom = ('every path made of an optional leading / and 1..COMPONENTS components from {empty, ., .., name} joined by / '
               '(name = a or b by position) whose index is PART mod NPARTS')
        qu, tu = 2000, 20000
    else:
        hid = 'c17_std_nonempty'
        qd = {'PMAX': 4, 'NPARTS': 1, 'PART': 0, 'CHECK_NONEMPTY': 1}
        td = {'COMPONENTS': 4, 'NPARTS': 1, 'PART': 0, 'CHECK_NONEMPTY': 1}
        dom = ('every path of the byte-wise (quick) / component-wise (thorough) enumeration that denotes the working directory '
               'itself (all others cannot be normalised to the empty path if the denotation harnesses hold)')
        qu, tu = 2000, 20000
    h = {'id': hid,
         'property': 'C17',
         'src': 'c17_standardize.cxx',
         'entry': 'harness_c17_standardize',
         'tus': ['src/dtoolutil/filename.cxx'],
         'tuflags': ['-fno-inline'], 'cut': [_DISJUNCT], 'models': ['strdisjunct.c'],
         # --pointer-check makes symbolic execution quadratic in the number of dead locals: off for these long concrete
         # runs (bounds/overflow checks and the base.c crash assertions stay on; counterexamples are replayed under ASan)
         'cbmc_flags': ['--no-pointer-check'], 'object_bits': 16,
         'desc': 'Filename::standardize: ' + ('a non-empty path is not normalised to the empty path' if kind == 'n' else
                 'idempotence and denotation under a lexical (symlink-free) resolution model (residue class %d)' % part),
         'domain': dom + '; enumerated by a concrete loop unrolled inside the query (no symbolic input: symbolic bytes make the '
                   'size of the vector<string> inside standardize symbolic and symbolic execution does not terminate)',
         'oracle': 'standardize(p) is not empty' if kind == 'n' else
                   'resolve(standardize(p)) == resolve(p) as (absolute?, levels above cwd, component stack); absolute stays '
                   'absolute; standardize(standardize(p)) == standardize(p) as strings; basename/dirname offsets consistent',
         'bounds': {'quick': {'defs': qd, 'unwind': qu, 'unwindset': _STD_US, 'cap': 600},
                    'thorough': {'defs': td, 'unwind': tu, 'unwindset': _STD_US, 'cap': 3000}}}
    if (kind == 'b' and part >= _QPARTS) or (kind == 'c' and part >= _QCPARTS):
        h['tiers'] = ('thorough',)
    return h


def _inc(kinds):
    defs = {'KINDS': kinds}
    if kinds == 0:
        defs['CWD_EXISTS'] = 1
    return {'id': 'c17_find_include_k%d' % kinds, 'property': 'C17', 'src': 'c17_find_include.cxx', 'entry': 'harness_c17_find_include',
            'tus': ['src/cppparser/cppPreprocessor.cxx', 'src/cppparser/cppFile.cxx', 'src/dtoolutil/dSearchPath.cxx',
                    'src/dtoolutil/filename.cxx'],
            'skip_ctors': ['cppPreprocessor.cxx'], 'tuflags': ['-fno-inline'],
            'cut': ['_ZNK8Filename6existsEv', _DISJUNCT], 'models': ['strdisjunct.c'],
            'cbmc_flags': ['--no-pointer-check'], 'object_bits': 16,
            # unchanged tree: <= 2.5 GB; the cap turns a blow-up (symbolic candidates consulted in phase B) into a quick error
            'mem_gb': 5,
            'desc': 'CPPPreprocessor::find_include search order over a table-driven file system; search directories d1 d2 d3 given as '
                    + ' '.join('-S' if kinds & (1 << i) else '-I' for i in range(3))
                    + (' (no -S directory: <x> must not be found; x.h exists in the working directory)' if kinds == 0 else ''),
            'domain': 'candidates {x.h in cwd, inc/x.h (includer inc/f.h), d1/x.h, d2/x.h, d3/x.h}; phase A: include form (quotes / '
                      'angle = <x> without -noangles) x every one of the 32 existence tables of the five candidates, enumerated '
                      'by a concrete loop (an implementation with another search order is decided here by a counterexample); '
                      'phase B (only when phase A held): concrete loop over include form and over the position of the first '
                      'existing candidate in the applicable list (or none), existence of every other candidate symbolic',
            'oracle': 'found iff a candidate of the applicable list exists; result path = first existing candidate in the order cwd, '
                      'includer dir, -I/-S dirs in command-line order (quotes) / -S dirs only (angle); source S_local only for '
                      'cwd, S_system for -S, S_alternate otherwise; no other path is probed',
            'bounds': {'quick': {'defs': defs, 'unwind': 40, 'unwindset': _STD_US, 'cap': 600}},
            'tiers': ('quick', 'thorough') if kinds in (0, 4, 5, 6, 7) else ('thorough',)}


HARNESSES = ([_std('b', p) for p in range(_TPARTS)] + [_std('c', p) for p in range(_TCPARTS)] + [_std('n', 0)]
             + [_inc(k) for k in (0, 4, 5, 6, 7, 1, 2, 3)])

PROPERTY_INFO = {'C17': {'level': 'model_checking',
         'explanation': 'bounded symbolic execution (CBMC) of Filename::standardize and of the include search '
                        '(CPPPreprocessor::find_include + DSearchPath) with the file system replaced by a table of symbolic existence bits',
         'outside': 'make_canonical/r_make_canonical/realpath (kernel), symbolic links, the once-only decision of '
                    'handle_include_directive (#pragma once / _parsed_files), include guards (ordinary conditionals, C09), '
                    '-srcdir and the command-line handling of interrogate.cxx',
         'assumptions': ['lexical path model: no symbolic links; the parent of the root is the root']}}

NOT_APPLICABLE = {}
