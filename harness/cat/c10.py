"""Catalogue for C10 (class traits follow the C++ rules)."""
from cat.common import *

_P = 'src/cppparser/'
_TUS = [_P + x for x in ('cppStructType.cxx', 'cppExtensionType.cxx', 'cppScope.cxx', 'cppInstance.cxx', 'cppFunctionType.cxx',
                         'cppFunctionGroup.cxx', 'cppParameterList.cxx', 'cppIdentifier.cxx', 'cppNameComponent.cxx',
                         'cppSimpleType.cxx', 'cppConstType.cxx', 'cppReferenceType.cxx', 'cppType.cxx', 'cppDeclaration.cxx',
                         'cppAttributeList.cxx', 'cppFile.cxx')] + ['src/dtoolutil/filename.cxx']
_CUT = ['_ZN7CPPType8new_typeEPS_']
_SKIP = [x.split('/')[-1] for x in _TUS]

def _h(hid, defs, cap=400):
    return {'id': hid, 'property': 'C10', 'src': 'c10_traits.cxx', 'entry': 'harness_c10_traits', 'tus': _TUS, 'cut': _CUT, 'skip_ctors': _SKIP,
            'models': ['list.c'], 'desc': 'x', 'domain': 'x', 'oracle': 'x',
            'bounds': {'quick': {'defs': defs, 'unwind': 7, 'unwindset': {'harness_c10_traits.0': 20, 'harness_c10_traits.1': 20, '_ZL11check_classii.0': 50, '_ZL11check_classii.1': 50, '_ZL11check_classii.2': 50, '_ZL11check_classii.3': 50, 'll_memcpy.0': 48, 'll_memmove.0': 48}, 'cap': cap}}}


HARNESSES = [
 _h('c10_k1', {'MEMS': 1, 'PRESENCE': '0x80', 'DTORS': 0}, cap=300),
 _h('c10_k2', {'MEMS': 1, 'PRESENCE': '0x02', 'DTORS': 0}, cap=300),
]

PROPERTY_INFO = {'C10': {'level': 'model_checking', 'explanation': 'x', 'outside': 'x', 'assumptions': []}}
NOT_APPLICABLE = {}
