"""Catalogue for C10 (class traits follow the C++ rules)."""
from cat.common import *

_P = 'src/cppparser/'
_TUS = [_P + x for x in ('cppStructType.cxx', 'cppExtensionType.cxx', 'cppScope.cxx', 'cppInstance.cxx', 'cppFunctionType.cxx',
                         'cppFunctionGroup.cxx', 'cppParameterList.cxx', 'cppIdentifier.cxx', 'cppNameComponent.cxx',
                         'cppSimpleType.cxx', 'cppConstType.cxx', 'cppReferenceType.cxx', 'cppType.cxx', 'cppDeclaration.cxx',
                         'cppAttributeList.cxx', 'cppFile.cxx')] + ['src/dtoolutil/filename.cxx']
_CUT = ['_ZN7CPPType8new_typeEPS_']
_SKIP = [x.split('/')[-1] for x in _TUS] + ['cppExpression.cxx']
_LOOPS = {'harness_c10_ctor_params.0': 12, 'harness_c10_traits.0': 20, 'harness_c10_traits.1': 20, '_ZL11check_classii.0': 50, '_ZL11check_classii.1': 50,
          '_ZL11check_classii.2': 50, '_ZL11check_classii.3': 50, 'll_memcpy.0': 48, 'll_memmove.0': 48}
_DOMAIN = ('one class A, no bases, one data member; WHICH of A(), A(const A&), ~A(), virtual void f()=0 exist and whether each '
           'is user-provided / =default / =delete / virtual are enumerated by concrete loops (they shape the std::list of virtual '
           'functions); the ACCESS of each special member (public/protected/private) is symbolic')
_ORACLE = ('is_abstract / is_polymorphic / is_destructible / is_default_constructible / is_copy_constructible equal the C++ rules of '
           'harness/c10_oracle.h, which harness/c10_oracle_check.py validates against g++ -std=c++17 on the whole lattice '
           '(13000 classes x 5 std::is_* traits)')


def _presence(*pats):
    return '0x%x' % sum(1 << p for p in pats)


def _h(hid, desc, defs, cap=600, tdefs=None, tcap=2400, tiers=None, extra_tus=()):
    d = {'id': hid, 'property': 'C10', 'src': 'c10_traits.cxx', 'entry': 'harness_c10_traits', 'tus': _TUS + list(extra_tus), 'cut': _CUT,
         'skip_ctors': _SKIP, 'models': ['list.c'], 'desc': desc, 'domain': _DOMAIN + '; here: ' + desc, 'oracle': _ORACLE,
         'bounds': {'quick': {'defs': defs, 'unwind': 7, 'unwindset': _LOOPS, 'cap': cap}}}
    if tdefs is not None:
        d['bounds']['thorough'] = {'defs': tdefs, 'unwind': 7, 'unwindset': _LOOPS, 'cap': tcap}
    if tiers:
        d['tiers'] = tiers
    return d


# presence pattern p: bit 0 = A(), bit 1 = A(const A&), bit 2 = ~A(), bit 3 = pure virtual f
HARNESSES = [
    _h('c10_core_a', 'member int, destructible class (destructor absent or public, not deleted); at most one special member',
       {'MEMS': 1, 'DTORS': 0, 'PRESENCE': _presence(0, 1, 2, 4)}),
    _h('c10_core_b1', 'member int, destructible class; A() and A(const A&) declared (every pair of kinds)',
       {'MEMS': 1, 'DTORS': 0, 'PRESENCE': _presence(3)}),
    _h('c10_core_b2', 'member int, destructible class; a constructor and ~A() declared (every pair of kinds)',
       {'MEMS': 1, 'DTORS': 0, 'PRESENCE': _presence(5, 6)}),
    _h('c10_core_c', 'member int, destructible class; A(), A(const A&) and ~A() all declared (27 kind combinations)',
       {'MEMS': 1, 'DTORS': 0, 'PRESENCE': _presence(7)}),
    _h('c10_core_pv', 'abstract class (pure virtual f) with at most one constructor declared (thorough: any special members), member int',
       {'MEMS': 1, 'DTORS': 0, 'PRESENCE': _presence(8, 9, 10)},
       tdefs={'MEMS': 1, 'DTORS': 0, 'PRESENCE': _presence(8, 9, 10, 12)}),
    _h('c10_pv_two', 'abstract class with two special members declared, member int (thorough only)',
       {'MEMS': 1, 'DTORS': 0, 'PRESENCE': _presence(11, 13, 14)}, cap=2400, tiers=('thorough',)),
    _h('c10_pv_all', 'abstract class with A(), A(const A&) and ~A() declared, member int (thorough only)',
       {'MEMS': 1, 'DTORS': 0, 'PRESENCE': _presence(15)}, cap=2400, tiers=('thorough',)),
    _h('c10_dtor_own', 'member int, ANY destructor (user / =default / =delete / virtual x access): is_destructible, is_abstract, '
       'is_polymorphic only', {'MEMS': 1, 'DTORS': 1, 'CHECKS': '0x1c', 'PRESENCE': _presence(4, 5, 6)},
       tdefs={'MEMS': 1, 'DTORS': 1, 'CHECKS': '0x1c', 'PRESENCE': _presence(4, 5, 6, 7, 12)}),
    _h('c10_dtor_all', 'member int, ANY destructor, all three special members declared: all five traits (thorough only)',
       {'MEMS': 1, 'DTORS': 1, 'PRESENCE': _presence(7)}, cap=2400, tiers=('thorough',)),
    _h('c10_dtor_ctor', 'member int, ANY destructor: is_default_constructible / is_copy_constructible (the compiler\'s traits '
       'require an accessible, non-deleted destructor)', {'MEMS': 1, 'DTORS': 1, 'CHECKS': '0x03', 'PRESENCE': _presence(4, 5)},
       tdefs={'MEMS': 1, 'DTORS': 1, 'CHECKS': '0x03', 'PRESENCE': _presence(4, 5, 6)}),
    _h('c10_members', 'member const int / int& (no initializer), destructible class; zero to two constructors declared',
       {'MEMS': 6, 'DTORS': 0, 'PRESENCE': _presence(0, 1)}, tdefs={'MEMS': 6, 'DTORS': 0, 'PRESENCE': _presence(0, 1, 2, 3)}),
    _h('c10_member_init', 'member with a default member initializer (int m = 0; const int m = 0;)',
       {'MEMS': '0x18', 'DTORS': 0, 'PRESENCE': _presence(0, 1)}, tdefs={'MEMS': '0x18', 'DTORS': 0, 'PRESENCE': _presence(0, 1, 2, 3)},
       extra_tus=[_P + 'cppExpression.cxx']),
    dict(_h('c10_ctor_params', 'one user-provided constructor with parameters: A(), A(int), A(int=0), A(int, int=0), A(int=0, int=0); '
            'access symbolic; get_default_constructor / is_default_constructible / is_copy_constructible', {},
            extra_tus=[_P + 'cppExpression.cxx']), entry='harness_c10_ctor_params'),
]

# ---- one base class (thorough tier only): class B { special members }; class A : public B { [void f();] int m; } ----------
_BASE_LOOPS = dict(_LOOPS, **{'ll_strlen.0': 48, 'll_memcmp.0': 48, 'harness_c10_base.0': 20, 'harness_c10_base.1': 20, '_ZL10check_pairii.0': 50, '_ZL10check_pairii.1': 50,
                              '_ZL10check_pairii.2': 50, '_ZL10check_pairii.3': 50})


def _hb(hid, desc, defs, cap=2400, tiers=('thorough',), tdefs=None):
    return {'id': hid, 'property': 'C10', 'src': 'c10_base.cxx', 'entry': 'harness_c10_base', 'tus': _TUS + [_P + 'cppPointerType.cxx'], 'cut': _CUT,
            # get_virtual_funcs names the inherited function through CPPNameComponent::get_name_with_templ, which builds the
            # name in a std::ostringstream: opaque stream model, TUs lowered with -fno-inline (see cat/c06.py)
            'skip_ctors': _SKIP, 'models': ['list.c', 'c10_list.c', 'noinline.c'], 'tuflags': ['-fno-inline', '-fno-pic'],
            'tiers': tiers,
            'desc': desc, 'oracle': _ORACLE.replace('c10_oracle.h', 'c10_oracle.h (c10d_*)'),
            'domain': 'class B with special members as in the single-class harnesses (kinds by concrete loops, access symbolic) and '
                      'class A : public B declaring no special member; here: ' + desc,
            'bounds': dict({'quick': {'defs': defs, 'unwind': 7, 'unwindset': _BASE_LOOPS, 'cap': cap}},
                           **({'thorough': {'defs': tdefs, 'unwind': 7, 'unwindset': _BASE_LOOPS, 'cap': 2400}} if tdefs else {}))}


HARNESSES += [
    _hb('c10_base_override', 'B abstract (pure virtual B *f() only); A overrides it with the covariant A *f() '
        '(thorough: also without f, void/void and an identical pointer type): is_abstract / is_polymorphic / is_destructible of A',
        {'PRESENCE': _presence(8), 'OVERRIDES': 8, 'CHECKS': '0x1c'}, cap=600, tiers=('quick', 'thorough'),
        tdefs={'PRESENCE': _presence(8), 'OVERRIDES': 15, 'CHECKS': '0x1c'}),
    _hb('c10_base_pv_ctor', 'B abstract (pure virtual f only); A without f or overriding it: is_default_constructible / '
        'is_copy_constructible of A', {'PRESENCE': _presence(8), 'OVERRIDES': 2, 'CHECKS': '0x03'}, cap=900, tiers=('quick', 'thorough'),
        tdefs={'PRESENCE': _presence(8), 'OVERRIDES': 3, 'CHECKS': '0x03'}),
    _hb('c10_base_puredtor', 'B { virtual ~B() = 0; int m; } (no other special member), A : public B without own destructor',
        {'PRESENCE': _presence(4), 'OVERRIDES': 1, 'DTKINDS': '0x10'}, cap=600, tiers=('quick', 'thorough')),
] + [
    # B with two special members, and abstract B with one more special member, gave no verdict within 40 min per presence
    # pattern (object limit / time) and are not catalogued; the one-member patterns below and c10_base_pv_ctor /
    # c10_base_puredtor / c10_base_override are.
    _hb('c10_base_one_%d' % _p, 'B with at most one special member (presence pattern %d), A without f' % _p,
        {'PRESENCE': _presence(_p), 'OVERRIDES': 1}) for _p in (0, 1, 2, 4)
]

# The oracle of these harnesses (harness/c10_oracle.h) is hand-written, so it is validated against the compiler:
#     python3 harness/c10_oracle_check.py        (about 25 s; exit 0 = agrees with g++ -std=c++17 on 13000 classes x 5 traits)
# Run it whenever c10_oracle.h or the feature lattice of c10_traits.cxx changes; a disagreement is an ORACLE bug (exit 1),
# never a finding.  'precheck' below names it for a driver that wants to run it before the harnesses of the property
# (non-zero exit = infrastructure error, exit code 2 of vcheck).
PROPERTY_INFO = {'C10': {'level': 'model_checking', 'precheck': 'harness/c10_oracle_check.py',
         'explanation': 'bounded symbolic execution (CBMC) of CPPStructType::is_abstract / is_polymorphic / is_destructible / '
                        'is_default_constructible / is_copy_constructible (with get_*_constructor, get_destructor, '
                        'get_virtual_funcs, get_pure_virtual_funcs and the is_* of CPPSimpleType/CPPConstType/CPPReferenceType) on '
                        'a class built with the real constructors; oracle validated against g++',
         'outside': 'base classes and class-type members (recursion over a class graph), move constructors and assignment operators, '
                    'templates, unions; the parser actions that build the scope (add_declaration / check_for_constructor are mimicked '
                    'by the harness); the builder\'s consequence (which implicit constructors are exported, '
                    'interrogateBuilder.cxx define_struct_type)',
         'assumptions': ['CPPType::new_type (uniquing in a static std::set) is replaced by the identity',
                         'the class scope is filled the way CPPScope::handle_declaration and CPPInstance::check_for_constructor '
                         'leave it (function groups by name, F_constructor/F_copy_constructor/F_destructor flags, _vis)',
                         'oracle = std::is_* traits of g++ -std=c++17 (harness/c10_oracle_check.py)']}}

NOT_APPLICABLE = {}
