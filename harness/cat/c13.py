"""Catalogue for C13."""
from cat.common import *

_DB = 'src/interrogatedb/'
_ASSERTS = ['-D_GLIBCXX_ASSERTIONS']

def _mw(id, swap):
    return {'id': id, 'property': 'C13', 'src': 'c13_merge_with.cxx', 'entry': 'harness_c13_merge_with',
     'tus': [_DB + 'interrogateType.cxx', _DB + 'interrogateComponent.cxx'],
     'tuflags': _ASSERTS, 'hflags': _ASSERTS,
     'desc': 'InterrogateType::merge_with on two symbolic heap-allocated types' + (' (shapes of the two sides swapped)' if swap else ''),
     'domain': 'both types: flags over all of int (so every combination of fully_defined/global/other bits on either side), 5 scalar fields over '
               'all of int, atomic token 0..12, names/comment of fixed length 0/1 with symbolic character, constructor/method/derivation/enum '
               'lists of fixed, per-side different lengths 0..VMAX with symbolic contents, _cpptype null or not',
     'oracle': 'fully defined iff either was; global iff either was; exactly one side fully defined => its definition (all fields but the global '
               'bit) is the result; always wholesale one of the two definitions; both defined => other wins iff global; argument unchanged',
     'bounds': {'quick': {'defs': {'VMAX': 2, 'WITH_DERIV': 1, 'WITH_ENUM': 1, 'SWAP': swap}, 'unwind': 6,
                          'unwindset': {'ll_memmove.0': 40, 'll_memcpy.0': 40}, 'cap': 600},
                'thorough': {'defs': {'VMAX': 4, 'WITH_DERIV': 1, 'WITH_ENUM': 1, 'SWAP': swap}, 'unwind': 8,
                             'unwindset': {'ll_memmove.0': 80, 'll_memcpy.0': 80}, 'cap': 3000}}}


HARNESSES = [_mw('c13_merge_with', 0), _mw('c13_merge_with_swapped', 1),
    {'id': 'c13_merge_alt_names', 'property': 'C13', 'src': 'c13_merge_with.cxx', 'entry': 'harness_c13_merge_alt_names',
     'tus': [_DB + 'interrogateType.cxx', _DB + 'interrogateComponent.cxx'], 'tuflags': _ASSERTS, 'hflags': _ASSERTS,
     'desc': 'merge_with: a forward declaration merged with a fully defined type that carries an alternate name',
     'domain': 'other side fully defined, global or not, one alternate name of one symbolic character',
     'oracle': 'the result carries the winning definition\'s alternate names',
     'bounds': {'quick': {'unwind': 6, 'cap': 300}}}]

_BSM = '_ZN19InterrogateDatabase20binary_search_moduleEiii'
_MOD = dict(src='c13_modules.cxx', tus=[_DB + 'interrogateDatabase.cxx'], tuflags=_ASSERTS, hflags=_ASSERTS)


def _fptr(id, prop, wall):
    return dict(_MOD, id=id, property=prop, entry='harness_c13_fptr',
                desc='get_fptr/find_module/binary_search_module on any registration state with contiguous ranges, ' +
                     ('ANY int wrapper index (totality)' if wall else 'any wrapper index'),
                domain='databases with 0..NMOD registered modules; first range starts at 1..CMAX, every range has 1..CMAX indices and starts where '
                       'the previous one ends (the invariant proved by c13_request_step); fptr table sizes 0..FMAX; wrapper index ' +
                       ('over ALL of int' if wall else 'in [-2^30, INT_MAX]: below the first range, inside any range, past the last'),
                oracle='get_fptr == the owning module\'s table entry, null when no module owns the index or its table is shorter; '
                       'binary_search_module recursion terminates (unwinding assertion); no crash / undefined behaviour',
                nonterm_is_violation=True,
                # nested concrete loops: ll2c's if/else-goto shape never lets CBMC reset an inner loop's counter, so the bound covers the total
                bounds={'quick': {'defs': {'NMOD': 3, 'FMAX': 2, 'WALL': wall}, 'unwind': 20, 'unwindset': {_BSM: 4}, 'cap': 600},
                        'thorough': {'defs': {'NMOD': 5, 'FMAX': 2, 'WALL': wall}, 'unwind': 40, 'unwindset': {_BSM: 5}, 'cap': 3000}})


HARNESSES += [
    dict(_MOD, id='c13_request_step', property='C13', entry='harness_c13_request_step',
         desc='one request_module call with a symbolic index count on any registration state (induction step for every history)',
         domain='0..NMOD-1 modules already registered, _next_index in 1..10^9, requested module: original first_index 0..CMAX, index count 0..CMAX',
         oracle='count>0: range == [_next_index, _next_index+count), appended after the earlier modules; count==0: def untouched, not registered; '
                '_next_index advanced by count; earlier registrations unchanged',
         bounds={'quick': {'defs': {'NMOD': 3}, 'unwind': 6, 'unwindset': {'ll_memmove.0': 40, 'll_memcpy.0': 40}, 'cap': 600},
                 'thorough': {'defs': {'NMOD': 5}, 'unwind': 8, 'unwindset': {'ll_memmove.0': 60, 'll_memcpy.0': 60}, 'cap': 3000}}),
    _fptr('c13_fptr', 'C13', 0),
    dict(_MOD, id='c13_history', property='C13', entry='harness_c13_history',
         desc='real histories of NMOD request_module calls followed by get_fptr for every index -1..last+2',
         domain='every history of NMOD modules with index counts in {0,1,2} (3^NMOD histories, concrete), fptr tables of size 0..FMAX',
         oracle='ranges contiguous from 1, disjoint, in request order; registration order; get_fptr == owner\'s pointer or null for every index',
         nonterm_is_violation=True,
         bounds={'quick': {'defs': {'NMOD': 3, 'FMAX': 2}, 'unwind': 1000, 'unwindset': {_BSM: 4}, 'cap': 600},
                 'thorough': {'defs': {'NMOD': 4, 'FMAX': 2}, 'unwind': 5000, 'unwindset': {_BSM: 5}, 'cap': 3000}}),
    {'id': 'c13_request_maps', 'property': 'C13', 'src': 'c13_modules.cxx', 'entry': 'harness_c13_request_maps',
     'tus': [_DB + 'interrogateDatabase.cxx'], 'tuflags': _ASSERTS, 'hflags': _ASSERTS,
     'desc': 'request_module: by-hash registration and lazy-load queue',
     'domain': 'one module: unique-name count 0..1, library name null or not, database file name null or not, index count 0..CMAX',
     'oracle': '_modules_by_hash has the module iff named and has unique names; _requests has it iff it has a file; _modules iff it has indices',
     'bounds': {'quick': {'unwind': 8, 'cap': 600}}},
]

# ---- merge_from over whole (tiny) databases ----------------------------------------------------------------------
_LOAD_LATEST = '_ZN19InterrogateDatabase11load_latestEv'
_REALLOC_INT = '_ZNSt6vectorIiSaIiEE17_M_realloc_insertIJRKiEEEvN9__gnu_cxx17__normal_iteratorIPiS1_EEDpOT_'
_FAT_NODES = ['--max-field-sensitivity-array-size', '512']     # records live in std::map nodes (408-byte membuf), see cat/c20.py
_MF_TUS = [_DB + 'interrogateDatabase.cxx', _DB + 'interrogateType.cxx', _DB + 'indexRemapper.cxx', _DB + 'interrogateComponent.cxx',
           _DB + 'interrogateElement.cxx', _DB + 'interrogateFunctionWrapper.cxx']

def _tmp(id, b, o):
    return dict(id=id, property='C13', src='c13_merge_from.cxx', entry='harness_c13_merge_from', tus=_MF_TUS,
         cut=[_LOAD_LATEST, _REALLOC_INT], cbmc_flags=_FAT_NODES, tuflags=_ASSERTS, hflags=_ASSERTS,
         desc='merge_from', domain='', oracle='',
         bounds={'quick': {'defs': {'WITH_B': b, 'ORDERS': o}, 'unwind': 10, 'unwindset': {'ll_memmove.0': 40, 'll_memcpy.0': 40}, 'cap': 600}})
_ERASE = '_ZNSt8_Rb_treeINSt7__cxx1112basic_stringIcSt11char_traitsIcESaIcEEESt4pairIKS5_iESt10_Select1stIS8_ESt4lessIS5_ESaIS8_EE8_M_eraseEPSt13_Rb_tree_nodeIS8_E'
def _lk(id, kind, early, symask, unwind=10):
    return dict(id=id, property='C13', src='c13_lookups.cxx', entry='harness_c13_lookups', tus=_MF_TUS[1:] + [_DB + 'interrogateManifest.cxx'],
         cut=[_LOAD_LATEST, _REALLOC_INT, _ERASE], cbmc_flags=_FAT_NODES, tuflags=_ASSERTS, hflags=_ASSERTS + ['-DBUILDING_INTERROGATEDB'],
         desc='lookups', domain='', oracle='',
         bounds={'quick': {'defs': {'KIND': kind, 'EARLY': early, 'SYMASK': symask}, 'unwind': unwind, 'unwindset': {'ll_memmove.0': 40, 'll_memcpy.0': 40}, 'cap': 600}})
HARNESSES += [_lk('c13_l1', 2, 0, 0), _lk('c13_l2', 2, 0, 1), _lk('c13_l3', 2, 1, 1)]
HARNESSES += [_tmp('c13_t1', 0, 3), _tmp('c13_t2', 1, 1), _tmp('c13_t3', 1, 2)]
HARNESSES += [
    dict(id='c13_merge_from', property='C13', src='c13_merge_from.cxx', entry='harness_c13_merge_from', tus=_MF_TUS,
         cut=[_LOAD_LATEST, _REALLOC_INT], cbmc_flags=_FAT_NODES, tuflags=_ASSERTS, hflags=_ASSERTS,
         desc='merge_from', domain='', oracle='',
         bounds={'quick': {'defs': {'WITH_B': 0, 'ORDERS': 1}, 'unwind': 10, 'unwindset': {'ll_memmove.0': 40, 'll_memcpy.0': 40}, 'cap': 600}}),
]

PROPERTY_INFO = {'C13': {'level': 'model_checking',
         'explanation': 'bounded symbolic execution (CBMC) of the real merge / module-registration code of libinterrogatedb lowered from /repo',
         'outside': 'reading the databases from real files (C12 covers the file format; load_latest/read are not executed here); '
                    'InterrogateDatabase::merge_from over whole databases and its order independence (copies of 400-byte records through std::map '
                    'nodes: no verdict within 10 min / 14 GB even for 1+2 types with a concrete sharing pattern; merge_with, its kernel, is decided); '
                    'more than NMOD modules',
         'assumptions': []}}

NOT_APPLICABLE = {}
