"""Catalogue for C13."""
from cat.common import *

_DB = 'src/interrogatedb/'
_ASSERTS = ['-D_GLIBCXX_ASSERTIONS']

def _mw(id, swap):
    return {'id': id, 'property': 'C13', 'src': 'c13_merge_with.cxx', 'entry': 'harness_c13_merge_with',
     'tus': [_DB + 'interrogateType.cxx', _DB + 'interrogateComponent.cxx'],
     'tuflags': _ASSERTS, 'hflags': _ASSERTS,
     'desc': 'InterrogateType::merge_with on two symbolic heap-allocated types' + (' (shapes of the two sides swapped)' if swap else ''),
     'domain': 'both types: flags over all of int (so every combination of fully_defined/global/other bits on either side), 5 scalar fields over '
               'all of int, atomic token 0..12, names/comment of fixed length 0/1 with symbolic character, constructor/method/derivation/enum '
               'lists of fixed, per-side different lengths 0..VMAX with symbolic contents, _cpptype null or not',
     'oracle': 'fully defined iff either was; global iff either was; exactly one side fully defined => its definition (all fields but the global '
               'bit) is the result; always wholesale one of the two definitions; both defined => other wins iff global; argument unchanged',
     'bounds': {'quick': {'defs': {'VMAX': 2, 'WITH_DERIV': 1, 'WITH_ENUM': 1, 'SWAP': swap}, 'unwind': 6,
                          'unwindset': {'ll_memmove.0': 40, 'll_memcpy.0': 40}, 'cap': 600},
                'thorough': {'defs': {'VMAX': 4, 'WITH_DERIV': 1, 'WITH_ENUM': 1, 'SWAP': swap}, 'unwind': 8,
                             'unwindset': {'ll_memmove.0': 80, 'll_memcpy.0': 80}, 'cap': 3000}}}


HARNESSES = [_mw('c13_merge_with', 0), _mw('c13_merge_with_swapped', 1),
    {'id': 'c13_merge_alt_names', 'property': 'C13', 'src': 'c13_merge_with.cxx', 'entry': 'harness_c13_merge_alt_names',
     'tus': [_DB + 'interrogateType.cxx', _DB + 'interrogateComponent.cxx'], 'tuflags': _ASSERTS, 'hflags': _ASSERTS,
     'desc': 'merge_with: a forward declaration merged with a fully defined type that carries an alternate name',
     'domain': 'other side fully defined, global or not, one alternate name of one symbolic character',
     'oracle': 'the result carries the winning definition\'s alternate names',
     'bounds': {'quick': {'unwind': 6, 'cap': 300}}}]

_BSM = '_ZN19InterrogateDatabase20binary_search_moduleEiii'
_MOD = dict(src='c13_modules.cxx', tus=[_DB + 'interrogateDatabase.cxx'], tuflags=_ASSERTS, hflags=_ASSERTS)


def _fptr(id, prop, wall):
    return dict(_MOD, id=id, property=prop, entry='harness_c13_fptr',
                desc='get_fptr/find_module/binary_search_module on any registration state with contiguous ranges, ' +
                     ('ANY int wrapper index (totality)' if wall else 'any wrapper index'),
                domain='databases with 0..NMOD registered modules; first range starts at 1..CMAX, every range has 1..CMAX indices and starts where '
                       'the previous one ends (the invariant proved by c13_request_step); fptr table sizes 0..FMAX; wrapper index ' +
                       ('over ALL of int' if wall else 'in [-2^30, INT_MAX]: below the first range, inside any range, past the last'),
                oracle='get_fptr == the owning module\'s table entry, null when no module owns the index or its table is shorter; '
                       'binary_search_module recursion terminates (unwinding assertion); no crash / undefined behaviour',
                nonterm_is_violation=True,
                # nested concrete loops: ll2c's if/else-goto shape never lets CBMC reset an inner loop's counter, so the bound covers the total
                bounds={'quick': {'defs': {'NMOD': 3, 'FMAX': 2, 'WALL': wall}, 'unwind': 20, 'unwindset': {_BSM: 4}, 'cap': 600},
                        'thorough': {'defs': {'NMOD': 5, 'FMAX': 2, 'WALL': wall}, 'unwind': 40, 'unwindset': {_BSM: 5}, 'cap': 3000}})


HARNESSES += [
    dict(_MOD, id='c13_request_step', property='C13', entry='harness_c13_request_step',
         desc='one request_module call with a symbolic index count on any registration state (induction step for every history)',
         domain='0..NMOD-1 modules already registered, _next_index in 1..10^9, requested module: original first_index 0..CMAX, index count 0..CMAX',
         oracle='count>0: range == [_next_index, _next_index+count), appended after the earlier modules; count==0: def untouched, not registered; '
                '_next_index advanced by count; earlier registrations unchanged',
         bounds={'quick': {'defs': {'NMOD': 3}, 'unwind': 6, 'unwindset': {'ll_memmove.0': 40, 'll_memcpy.0': 40}, 'cap': 600},
                 'thorough': {'defs': {'NMOD': 5}, 'unwind': 8, 'unwindset': {'ll_memmove.0': 60, 'll_memcpy.0': 60}, 'cap': 3000}}),
    _fptr('c13_fptr', 'C13', 0),
    dict(_MOD, id='c13_history', property='C13', entry='harness_c13_history',
         desc='real histories of NMOD request_module calls followed by get_fptr for every index -1..last+2',
         domain='every history of NMOD modules with index counts in {0,1,2} (3^NMOD histories, concrete), fptr tables of size 0..FMAX',
         oracle='ranges contiguous from 1, disjoint, in request order; registration order; get_fptr == owner\'s pointer or null for every index',
         nonterm_is_violation=True,
         bounds={'quick': {'defs': {'NMOD': 3, 'FMAX': 2}, 'unwind': 1000, 'unwindset': {_BSM: 4}, 'cap': 600},
                 'thorough': {'defs': {'NMOD': 4, 'FMAX': 2}, 'unwind': 5000, 'unwindset': {_BSM: 5}, 'cap': 3000}}),
    {'id': 'c13_request_maps', 'property': 'C13', 'src': 'c13_modules.cxx', 'entry': 'harness_c13_request_maps',
     'tus': [_DB + 'interrogateDatabase.cxx'], 'tuflags': _ASSERTS, 'hflags': _ASSERTS,
     'desc': 'request_module: by-hash registration and lazy-load queue',
     'domain': 'one module: unique-name count 0..1, library name null or not, database file name null or not, index count 0..CMAX',
     'oracle': '_modules_by_hash has the module iff named and has unique names; _requests has it iff it has a file; _modules iff it has indices',
     'bounds': {'quick': {'unwind': 8, 'cap': 600}}},
]

# ---- merge_from over whole (tiny) databases ----------------------------------------------------------------------
_LOAD_LATEST = '_ZN19InterrogateDatabase11load_latestEv'       # no file is requested: must not be reached (asserting auto stub)
# every vector merge_from appends to is reserved by the harness: the reallocating slow path of push_back must not be reached
# (asserting auto stub); left in, symbolic execution enters it under the symbolic "is global" conditions and allocates a
# symbolic number of bytes
_REALLOC_INT = '_ZNSt6vectorIiSaIiEE17_M_realloc_insertIJRKiEEEvN9__gnu_cxx17__normal_iteratorIPiS1_EEDpOT_'
_FAT_NODES = ['--max-field-sensitivity-array-size', '512']     # records live in std::map nodes (408-byte membuf), see cat/c20.py
_MF_TUS = [_DB + 'interrogateDatabase.cxx', _DB + 'interrogateType.cxx', _DB + 'indexRemapper.cxx', _DB + 'interrogateComponent.cxx',
           _DB + 'interrogateElement.cxx', _DB + 'interrogateFunctionWrapper.cxx']
import itertools
_ORDER_NAMES = {n: [''.join(q) for q in itertools.permutations('xyzw'[:n])] for n in (2, 3, 4)}    # lexicographic, like PERM in the harness


def _mf(nfiles, order, tiers):
    name = _ORDER_NAMES[nfiles][order]
    b = {'defs': {'NFILES': nfiles, 'ORDER': order}, 'unwind': 10, 'unwindset': {'ll_memmove.0': 40, 'll_memcpy.0': 40},
         'cap': 600 if nfiles == 2 else 2400}
    return dict(id='c13_merge_from_' + name, property='C13', src='c13_merge_from.cxx', entry='harness_c13_merge_from', tus=_MF_TUS,
                cut=[_LOAD_LATEST, _REALLOC_INT], cbmc_flags=_FAT_NODES, tuflags=_ASSERTS, hflags=_ASSERTS,
                desc='real merge_from: %d tiny database files loaded into an empty database in the order %s' % (nfiles, ','.join(name.upper())),
                domain='files ' + ','.join('XYZW'[:nfiles]) + ' share the types S and B (S derives from B) by true name; per file and shared '
                       'type SYMBOLIC: global or not, fully defined or forward declared (%d bits); concrete structure: X has a global element of '
                       'type S, Y the pointer type P->S and a function wrapper S w(P)%s; every file owns a disjoint index range; the load order '
                       'is this entry\'s permutation (one entry per permutation)' % (4 * nfiles, ', Z a global element of type B' if nfiles >= 3 else ''),
                oracle='one type per true name, at the index of the file loaded first; fully defined iff some file defines it and then carrying a '
                       'defining file\'s definition; global iff some file says so; get_num_global_types/get_global_type list exactly the global '
                       'types once each, get_all_type every type once; element type, wrapped type, return type, parameter type and the derivation '
                       'inside the merged record point at the surviving indices; push_back never reallocates, load_latest not reached',
                bounds={t: b for t in tiers}, tiers=tiers)


# quick: both orders of two files and two of the six orders of three files; thorough: every permutation
HARNESSES += [_mf(2, 0, ('quick', 'thorough')), _mf(2, 1, ('quick', 'thorough'))] + \
             [_mf(3, o, ('quick', 'thorough') if _ORDER_NAMES[3][o] in ('yzx', 'zxy') else ('thorough',)) for o in range(6)] + \
             [_mf(4, o, ('thorough',)) for o in range(24)]

# ---- by-name lookups interleaved with loads ------------------------------------------------------------------------
# clear() of a by-name cache: recursive node deletion (at most 2 nodes per cache here)
_ERASE = '_ZNSt8_Rb_treeINSt7__cxx1112basic_stringIcSt11char_traitsIcESaIcEEESt4pairIKS5_iESt10_Select1stIS8_ESt4lessIS5_ESaIS8_EE8_M_eraseEPSt13_Rb_tree_nodeIS8_E'
_KIND_NAMES = {0: 'nothing new', 1: 'a new type', 2: 'a manifest', 3: 'a new type and a manifest', 4: 'an element', 5: 'a new type and an element',
               6: 'a manifest and an element', 7: 'a new type, a manifest and an element'}


def _lk(kind, tiers):
    b = {'defs': {'KIND': kind, 'EARLY': 1}, 'unwind': 10, 'unwindset': {'ll_memmove.0': 40, 'll_memcpy.0': 40, _ERASE: 5}, 'cap': 600}
    return dict(id='c13_lookups_k%d' % kind, property='C13', src='c13_lookups.cxx', entry='harness_c13_lookups',
                # interrogateDatabase.cxx is compiled as part of the harness unit (see c13_lookups.cxx: pointer to member function)
                tus=_MF_TUS[1:] + [_DB + 'interrogateManifest.cxx'], hflags=_ASSERTS + ['-DBUILDING_INTERROGATEDB'], tuflags=_ASSERTS,
                cut=[_LOAD_LATEST, _REALLOC_INT], cbmc_flags=_FAT_NODES,
                desc='all six by-name lookups before any load, after loading file A and after loading file B, where B brings %s '
                     '(besides re-declaring A\'s type)' % _KIND_NAMES[kind],
                domain='CONCRETE history and names (weak): lookups on the empty database, merge_from(A = type T, manifest m, element e), lookups, '
                       'merge_from(B = forward declaration of T + this entry\'s records), lookups; every round asks all six tables for A\'s name, '
                       'B\'s name and an unknown name; symbolic only: whether B\'s new type / element is global',
                oracle='every answer at every point == index of the record of that name in the files loaded so far, else 0; B\'s records are '
                       'reachable by index, refer to the surviving T and are enumerated (global lists iff global)',
                bounds={t: b for t in tiers}, tiers=tiers)


HARNESSES += [_lk(k, ('quick', 'thorough')) for k in (1, 2, 4, 7)] + [_lk(k, ('thorough',)) for k in (0, 3, 5, 6)]

PROPERTY_INFO = {'C13': {'level': 'model_checking',
         'explanation': 'bounded symbolic execution (CBMC) of the real merge / module-registration code of libinterrogatedb lowered from /repo',
         'outside': 'reading the databases from real files (C12 covers the file format; load_latest/read are not executed here: the harnesses '
                    'hand every file a fresh index range and call merge_from, which is what read() does after parsing); databases larger than '
                    'the bounds: merge_from is decided for 2, 3 and 4 files in every load order (quick: 2 files in both orders, 3 files in 2 of the 6) with two shared '
                    'types whose global / fully-defined flags are symbolic per file, concrete record structure and one-character names; '
                    'by-name lookups interleaved with loads are decided on a CONCRETE history only (lookups - load A - lookups - load B - lookups, '
                    'all six tables, concrete names; a symbolic choice of the tables consulted or symbolic query names exceeded 15 GB), one '
                    'catalogue entry per kind of content of the late file; more than NMOD modules',
         'assumptions': []}}

NOT_APPLICABLE = {}
