// C20 L2 (index layer): InterrogateDatabase::get_type/get_function/get_wrapper/get_manifest/get_element/
// get_make_seq and the six enumerators are total over ALL of int: an unknown index yields the neutral "bogus"
// record, a known index yields exactly the stored record, and no call crashes.  load_latest is cut (it must not
// be reached: no file has been requested).
#include "verif.h"
#include "interrogateDatabase.h"
#include <string>
#include <vector>

#ifndef NENT
#define NENT 2
#endif
#ifndef VMAX
#define VMAX 2
#endif

// The map is built in place by the real operator[] with concrete keys 1..n (concrete tree structure), then the
// keys are overwritten by symbolic ones that respect the same order, so that the indices of the stored entries
// range over all of int while every pointer stays concrete.
template<class M> static void sym_keys(M &m, int *keys, int n) {
  int prev = 0;
  int j = 0;
  for (typename M::iterator it = m.begin(); j < n; ++it, ++j) {
    int k = nondet_int();
    if (j > 0) ASSUME(k > prev);
    const_cast<int &>(it->first) = k;
    keys[j] = k;
    prev = k;
  }
}

static bool str_neutral(const std::string &s) { return s.size() == 0 && s.c_str() != 0 && s.c_str()[0] == 0; }

static bool type_is_neutral(const InterrogateType &t) {
  return t._flags == 0 && str_neutral(t.get_name()) && str_neutral(t._scoped_name) && str_neutral(t._true_name) && str_neutral(t._comment) &&
         t._outer_class == 0 && t._atomic_token == AT_not_atomic && t._wrapped_type == 0 && t._destructor == 0 &&
         t._constructors.empty() && t._elements.empty() && t._methods.empty() && t._casts.empty() && t._make_seqs.empty() &&
         t._derivations.empty() && t._enum_values.empty() && t._nested_types.empty() && t._alt_names.empty() &&
         t.get_library_name() == 0 && t.get_module_name() == 0;
}
static bool function_is_neutral(const InterrogateFunction &f) {
  return f._flags == 0 && f._class == 0 && str_neutral(f.get_name()) && str_neutral(f._scoped_name) && str_neutral(f._comment) &&
         str_neutral(f._prototype) && f._c_wrappers.empty() && f._python_wrappers.empty() && f._alt_names.empty() &&
         f.get_library_name() == 0 && f.get_module_name() == 0;
}
static bool wrapper_is_neutral(const InterrogateFunctionWrapper &w) {
  return w._flags == 0 && w._function == 0 && w._return_type == 0 && w._return_value_destructor == 0 && str_neutral(w.get_name()) &&
         str_neutral(w._unique_name) && str_neutral(w._comment) && w._parameters.empty() && w._alt_names.empty() &&
         w.get_library_name() == 0 && w.get_module_name() == 0;
}
static bool manifest_is_neutral(const InterrogateManifest &m) {
  return m._flags == 0 && m._int_value == 0 && m._type == 0 && m._getter == 0 && str_neutral(m.get_name()) && str_neutral(m._definition) &&
         m._alt_names.empty() && m.get_library_name() == 0 && m.get_module_name() == 0;
}
static bool element_is_neutral(const InterrogateElement &e) {
  return e._flags == 0 && e._type == 0 && e._getter == 0 && e._setter == 0 && e._has_function == 0 && e._clear_function == 0 &&
         e._del_function == 0 && e._insert_function == 0 && e._getkey_function == 0 && e._length_function == 0 &&
         str_neutral(e.get_name()) && str_neutral(e._scoped_name) && str_neutral(e._comment) && e._alt_names.empty() &&
         e.get_library_name() == 0 && e.get_module_name() == 0;
}
static bool make_seq_is_neutral(const InterrogateMakeSeq &s) {
  return s._length_getter == 0 && s._element_getter == 0 && str_neutral(s.get_name()) && str_neutral(s._scoped_name) &&
         str_neutral(s._comment) && s._alt_names.empty() && s.get_library_name() == 0 && s.get_module_name() == 0;
}

// one database per entry count 0..NENT (concrete loop, one query).  Record contents are concrete: results are compared
// by address, and a symbolic input that influences no assertion is sliced out of the counterexample trace, which would
// misalign the native replay.  The neutral record is located through an
// empty database (a concrete path), so that its fields are inspected through a concrete pointer; the result of the
// symbolic query is then compared by address.
#define INDEX_HARNESS(NAME, MAP, GET, REC, NEUTRAL, INSERT, STORED, WHAT)                                       \
  extern "C" void NAME() {                                                                                      \
    __ll2c_global_ctors();                                                                                      \
    const REC *bogus = &(new InterrogateDatabase)->GET(0);                                                      \
    ASSERT(NEUTRAL(*bogus), "C20 " WHAT ": an unknown index returns the neutral record");                      \
    /* the empty database comes last: its query index influences nothing, is therefore sliced out of a  */      \
    /* counterexample trace and must not shift the inputs recorded for the other databases              */      \
    for (int c = 1; c <= NENT + 1; c++) {                                                                       \
      int n = c <= NENT ? c : 0;                                                                                \
      InterrogateDatabase *db = new InterrogateDatabase;                                                        \
      int idx = nondet_int(); /* one query index per database: the sub-problems stay independent */            \
      for (int j = 1; j <= n; j++) { INSERT; }                                                                  \
      int keys[NENT + 1];                                                                                       \
      sym_keys(db->MAP, keys, n);                                                                               \
      const REC *stored[NENT + 1];                                                                              \
      {                                                                                                         \
        int j = 0;                                                                                              \
        for (auto it = db->MAP.begin(); j < n; ++it, ++j) stored[j] = STORED;                                   \
      }                                                                                                         \
      const REC *r = &db->GET(idx);                                                                             \
      const REC *want = bogus;                                                                                  \
      for (int j = 0; j < n; j++) if (keys[j] == idx) want = stored[j];                                         \
      ASSERT(r == want, "C20 " WHAT ": a known index returns exactly the stored record, an unknown one the neutral record"); \
    }                                                                                                           \
    WITNESS();                                                                                                  \
  }

INDEX_HARNESS(harness_c20_idx_type, _type_map, get_type, InterrogateType, type_is_neutral,
              db->_type_map[j]._flags = j, &it->second, "get_type")
INDEX_HARNESS(harness_c20_idx_function, _function_map, get_function, InterrogateFunction, function_is_neutral,
              (db->_function_map[j] = new InterrogateFunction)->_flags = j, it->second, "get_function")
INDEX_HARNESS(harness_c20_idx_wrapper, _wrapper_map, get_wrapper, InterrogateFunctionWrapper, wrapper_is_neutral,
              db->_wrapper_map[j]._flags = j, &it->second, "get_wrapper")
INDEX_HARNESS(harness_c20_idx_manifest, _manifest_map, get_manifest, InterrogateManifest, manifest_is_neutral,
              db->_manifest_map[j]._flags = j, &it->second, "get_manifest")
INDEX_HARNESS(harness_c20_idx_element, _element_map, get_element, InterrogateElement, element_is_neutral,
              db->_element_map[j]._flags = j, &it->second, "get_element")
INDEX_HARNESS(harness_c20_idx_make_seq, _make_seq_map, get_make_seq, InterrogateMakeSeq, make_seq_is_neutral,
              db->_make_seq_map[j]._length_getter = j, &it->second, "get_make_seq")

// ---- the six enumerators: get_global_type/get_all_type/get_global_function/get_all_function/
//      get_global_manifest/get_global_element with the position over all of int
template<class V> static void set_len(V &v, int n) { v._M_impl._M_finish = v._M_impl._M_start + n; }
#define CHECK_ENUM(vec, num, get, what)                                                                         \
  {                                                                                                             \
    int n = nondet_int();                                                                                       \
    ASSUME(n >= 0 && n <= VMAX);                                                                                \
    int m[VMAX];                                                                                                \
    db->vec.resize(VMAX);                                                                                       \
    for (int i = 0; i < VMAX; i++) { m[i] = nondet_int(); db->vec[i] = m[i]; }                                  \
    set_len(db->vec, n);                                                                                        \
    ASSERT(db->num() == n, "C20 " what ": count equals the number of entries the accessor returns");           \
    int r = db->get(pos);                                                                                       \
    int want = 0;                                                                                               \
    for (int i = 0; i < VMAX; i++) if (i == pos && i < n) want = m[i];                                          \
    ASSERT(r == want, "C20 " what ": stored index in range, 0 outside");                                       \
  }

extern "C" void harness_c20_idx_enumerators() {
  InterrogateDatabase *db = new InterrogateDatabase;
  int pos = nondet_int();
  CHECK_ENUM(_global_types, get_num_global_types, get_global_type, "global types");
  CHECK_ENUM(_all_types, get_num_all_types, get_all_type, "all types");
  CHECK_ENUM(_global_functions, get_num_global_functions, get_global_function, "global functions");
  CHECK_ENUM(_all_functions, get_num_all_functions, get_all_function, "all functions");
  CHECK_ENUM(_global_manifests, get_num_global_manifests, get_global_manifest, "global manifests");
  CHECK_ENUM(_global_elements, get_num_global_elements, get_global_element, "global elements");
  WITNESS();
}
