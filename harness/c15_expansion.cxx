// C15 totality of the macro body scanner and of expansion:
// CPPManifest::save_expansion on every short body text, then
// CPPManifest::expand / r_expand of what it built, with fewer, as many and
// more arguments than parameters.  (The constructors that call save_expansion
// are decided in c15_manifest.cxx with this scanner stubbed.)
#include "verif.h"
#include "cppManifest.h"
#include "cppPreprocessor.h"
#include "c08_fixedvec.h"
#include <string>
#include <new>

#ifndef LMAX
#define LMAX 4
#endif

// argument pre-expansion looks macros up in the preprocessor's table; no macro is defined here: identity
void CPPPreprocessor::expand_manifests(std::string &expr, bool expand_undefined, const CPPManifest::Ignores &ignores) const {
}

static CPPPreprocessor *make_pp() {
  alignas(16) static unsigned char storage[sizeof(CPPPreprocessor)];
  CPPPreprocessor *pp = reinterpret_cast<CPPPreprocessor *>(storage);
  pp->_verbose = 1;
  return pp;
}

// alphabet: a b space # , ( )
static char pick_body_char() {
  unsigned char k = nondet_uchar();
  ASSUME(k < 7);
  return k == 0 ? 'a' : k == 1 ? 'b' : k == 2 ? ' ' : k == 3 ? '#' : k == 4 ? ',' : k == 5 ? '(' : ')';
}

extern "C" void harness_c15_save_expansion() {
  int n = nondet_int();
  ASSUME(n >= 0 && n <= LMAX);
  char b[LMAX + 1];
  FILL_SYMBOLIC(b, LMAX, n, pick_body_char);
  CPPPreprocessor *pp = make_pp();
  // F(a): one parameter named a ("b" in a body is an ordinary identifier); built by the real constructor on concrete text
  CPPManifest *m = new CPPManifest(*pp, std::string("F(a)"), std::string(""));
  vector_string *names = new vector_string;
  names->push_back(std::string("a"));
  SYMBOLIC_STRING(body, b, LMAX, n);
  m->save_expansion(m->_expansion, body, *names);
  ASSERT(m->_expansion.size() <= (size_t)LMAX + 1, "C15 a body of n bytes yields at most n+1 expansion nodes");
  // expand with 0, 1 or 2 arguments (too few / exact / too many)
  int nargs = nondet_int();
  ASSUME(nargs >= 0 && nargs <= 2);
  vector_string *args = new vector_string;
  if (nargs >= 1) args->push_back(std::string("p"));
  if (nargs >= 2) args->push_back(std::string("q"));
  std::string r = m->expand(*args, false, CPPManifest::Ignores());
  ASSERT(r.size() <= 15, "C15 expansion of a short body with one-byte arguments stays short");
  WITNESS();
}
