// C20 L1 (record layer): every positional and scalar accessor of the six record classes of the interrogate
// database (the *.I files) is total: for EVERY int position it returns the stored entry when the position is
// in range and the neutral value (0 / false / "") otherwise, and each number_of_X equals the number of positions
// for which get_X returns a stored entry.  Built with -D_GLIBCXX_ASSERTIONS, so an unchecked operator[] is a
// "crash:" failure in addition to CBMC's own pointer checks.
#include "verif.h"
#include "interrogateType.h"
#include "interrogateFunction.h"
#include "interrogateFunctionWrapper.h"
#include "interrogateElement.h"
#include "interrogateManifest.h"
#include "interrogateMakeSeq.h"
#include <string>
#include <vector>

#ifndef VMAX
#define VMAX 2
#endif

static int sym_len() {
  int n = nondet_int();
  ASSUME(n >= 0 && n <= VMAX);
  return n;
}
// Symbolic vector length with concrete structure: the vector is built with VMAX constructed elements by the real
// library code, then its end pointer is moved to begin+n for the symbolic n (a push_back under a symbolic
// condition would make every later capacity test symbolic and drag the reallocation path into the query).
template<class V> static void set_len(V &v, int n) { v._M_impl._M_finish = v._M_impl._M_start + n; }
// vector<int> of symbolic length n<=VMAX with symbolic contents, mirrored in m[]
static void fill(std::vector<int> &v, int n, int *m) {
  v.resize(VMAX);
  for (int i = 0; i < VMAX; i++) { m[i] = nondet_int(); v[i] = m[i]; }
  set_len(v, n);
}
static bool in_range(int pos, int n) { return pos >= 0 && pos < n; }
// a string of length 0 or 1 with symbolic content
static void sym_str(std::string &s) {
  char c = nondet_char();
  if (c != 0) s.assign(1, c);
}
static bool is_empty_cstr(const std::string &s) { return s.c_str() != 0 && s.c_str()[0] == 0 && s.size() == 0; }

#define CHECK_INDEX_VECTOR(rec, vec, num, get, what)                                                        \
  {                                                                                                          \
    int n = sym_len();                                                                                       \
    int m[VMAX];                                                                                             \
    fill(rec->vec, n, m);                                                                                    \
    ASSERT(rec->num() == n, "C20 " what ": count equals the number of stored entries");                     \
    int r = rec->get(pos);                                                                                   \
    if (in_range(pos, n)) {                                                                                  \
      int want = 0;                                                                                          \
      for (int i = 0; i < VMAX; i++) if (i == pos) want = m[i];                                              \
      ASSERT(r == want, "C20 " what ": in-range position returns the stored entry");                        \
    } else {                                                                                                 \
      ASSERT(r == 0, "C20 " what ": out-of-range position returns 0");                                      \
    }                                                                                                        \
  }

// ---- InterrogateType: six index vectors
extern "C" void harness_c20_rec_type_vectors() {
  __ll2c_global_ctors();
  InterrogateType *t = new InterrogateType;
  int pos = nondet_int();
  CHECK_INDEX_VECTOR(t, _constructors, number_of_constructors, get_constructor, "type constructors");
  CHECK_INDEX_VECTOR(t, _elements, number_of_elements, get_element, "type elements");
  CHECK_INDEX_VECTOR(t, _methods, number_of_methods, get_method, "type methods");
  CHECK_INDEX_VECTOR(t, _make_seqs, number_of_make_seqs, get_make_seq, "type make_seqs");
  CHECK_INDEX_VECTOR(t, _casts, number_of_casts, get_cast, "type casts");
  CHECK_INDEX_VECTOR(t, _nested_types, number_of_nested_types, get_nested_type, "type nested types");
  WITNESS();
}

// ---- InterrogateType: derivations (6 positional accessors) and enum values (4 positional accessors)
extern "C" void harness_c20_rec_type_derivs() {
  __ll2c_global_ctors();
  InterrogateType *t = new InterrogateType;
  int pos = nondet_int();
  int nd = sym_len();
  int fl[VMAX], ba[VMAX], up[VMAX], dn[VMAX];
  t->_derivations.resize(VMAX);
  for (int i = 0; i < VMAX; i++) {
    fl[i] = nondet_int(); ba[i] = nondet_int(); up[i] = nondet_int(); dn[i] = nondet_int();
    InterrogateType::Derivation &d = t->_derivations[i];
    d._flags = fl[i]; d._base = ba[i]; d._upcast = up[i]; d._downcast = dn[i];
  }
  set_len(t->_derivations, nd);
  ASSERT(t->number_of_derivations() == nd, "C20 type derivations: count equals the number of stored entries");
  bool in = in_range(pos, nd);
  int wf = 0, wb = 0, wu = 0, wd = 0;
  for (int i = 0; i < VMAX; i++) if (in && i == pos) { wf = fl[i]; wb = ba[i]; wu = up[i]; wd = dn[i]; }
  ASSERT(t->get_derivation(pos) == wb, "C20 get_derivation: stored base in range, 0 outside");
  ASSERT(t->derivation_has_upcast(pos) == ((wf & InterrogateType::DF_upcast) != 0), "C20 derivation_has_upcast: stored flag in range, false outside");
  ASSERT(t->derivation_get_upcast(pos) == wu, "C20 derivation_get_upcast: stored index in range, 0 outside");
  ASSERT(t->derivation_downcast_is_impossible(pos) == ((wf & InterrogateType::DF_downcast_impossible) != 0), "C20 derivation_downcast_is_impossible: stored flag in range, false outside");
  ASSERT(t->derivation_has_downcast(pos) == ((wf & InterrogateType::DF_downcast) != 0), "C20 derivation_has_downcast: stored flag in range, false outside");
  ASSERT(t->derivation_get_downcast(pos) == wd, "C20 derivation_get_downcast: stored index in range, 0 outside");
  WITNESS();
}

extern "C" void harness_c20_rec_type_enums() {
  __ll2c_global_ctors();
  InterrogateType *t = new InterrogateType;
  int pos = nondet_int();
  int ne = sym_len();
  int val[VMAX];
  t->_enum_values.resize(VMAX);
  for (int i = 0; i < VMAX; i++) {
    val[i] = nondet_int();
    InterrogateType::EnumValue &ev = t->_enum_values[i];
    sym_str(ev._name); sym_str(ev._scoped_name); sym_str(ev._comment);
    ev._value = val[i];
  }
  set_len(t->_enum_values, ne);
  ASSERT(t->number_of_enum_values() == ne, "C20 type enum values: count equals the number of stored entries");
  const std::string &a = t->get_enum_value_name(pos);
  const std::string &b = t->get_enum_value_scoped_name(pos);
  const std::string &c = t->get_enum_value_comment(pos);
  int v = t->get_enum_value(pos);
  if (in_range(pos, ne)) {
    bool same = false; int wv = 0;
    for (int i = 0; i < VMAX; i++) if (i == pos && i < ne) {
      InterrogateType::EnumValue *ev = &t->_enum_values.front() + i;
      same = (&a == &ev->_name && &b == &ev->_scoped_name && &c == &ev->_comment);
      wv = val[i];
    }
    ASSERT(same, "C20 enum value strings: in-range position returns the stored strings");
    ASSERT(v == wv, "C20 get_enum_value: in-range position returns the stored value");
  } else {
    ASSERT(is_empty_cstr(a) && is_empty_cstr(b) && is_empty_cstr(c), "C20 enum value strings: out-of-range position returns the empty string");
    ASSERT(v == 0, "C20 get_enum_value: out-of-range position returns 0");
  }
  WITNESS();
}

// ---- InterrogateComponent: alt names (shared base of all records)
extern "C" void harness_c20_rec_alt_names() {
  __ll2c_global_ctors();
  InterrogateManifest *t = new InterrogateManifest;
  int pos = nondet_int();
  int n = sym_len();
  t->_alt_names.resize(VMAX);
  for (int i = 0; i < VMAX; i++) sym_str(t->_alt_names[i]);
  set_len(t->_alt_names, n);
  ASSERT(t->get_num_alt_names() == n, "C20 alt names: count equals the number of stored entries");
  const std::string &a = t->get_alt_name(pos);
  if (in_range(pos, n)) {
    bool same = false;
    for (int i = 0; i < VMAX; i++) if (i == pos && i < n) same = (&a == &t->_alt_names.front() + i);
    ASSERT(same, "C20 get_alt_name: in-range position returns the stored string");
  } else {
    ASSERT(is_empty_cstr(a), "C20 get_alt_name: out-of-range position returns the empty string");
  }
  // a record without module def: library/module names are null and reported absent
  ASSERT(t->get_library_name() == 0 && !t->has_library_name() && t->get_module_name() == 0 && !t->has_module_name(),
         "C20 component without module def has no library/module name");
  static InterrogateModuleDef def;
  char l0 = nondet_char(), m0 = nondet_char();
  static char lib[2], mod[2];
  lib[0] = l0; lib[1] = 0; mod[0] = m0; mod[1] = 0;
  bool libnull = nondet_bool(), modnull = nondet_bool();
  def.library_name = libnull ? 0 : lib;
  def.module_name = modnull ? 0 : mod;
  InterrogateManifest *u = new InterrogateManifest(&def);
  ASSERT(u->has_library_name() == (!libnull && l0 != 0), "C20 has_library_name iff non-null and non-empty");
  ASSERT(u->has_module_name() == (!modnull && m0 != 0), "C20 has_module_name iff non-null and non-empty");
  ASSERT(u->get_library_name() == def.library_name && u->get_module_name() == def.module_name, "C20 library/module name come from the module def");
  WITNESS();
}

// ---- InterrogateFunction: two wrapper vectors + scalar accessors
extern "C" void harness_c20_rec_function() {
  __ll2c_global_ctors();
  InterrogateFunction *f = new InterrogateFunction;
  // freshly constructed record = the "bogus" neutral record: every accessor neutral
  ASSERT(!f->is_global() && !f->is_virtual() && !f->is_method() && !f->is_unary_op() && !f->is_operator_typecast() &&
         !f->is_getter() && !f->is_setter() && !f->is_constructor() && !f->is_destructor() && f->get_class() == 0 &&
         !f->has_scoped_name() && !f->has_comment() && !f->has_prototype() && !f->has_name() &&
         is_empty_cstr(f->get_scoped_name()) && is_empty_cstr(f->get_comment()) && is_empty_cstr(f->get_prototype()) &&
         is_empty_cstr(f->get_name()) && f->number_of_c_wrappers() == 0 && f->number_of_python_wrappers() == 0 &&
         f->get_num_alt_names() == 0,
         "C20 default-constructed function record is neutral");
  int pos = nondet_int();
  CHECK_INDEX_VECTOR(f, _c_wrappers, number_of_c_wrappers, get_c_wrapper, "function C wrappers");
  CHECK_INDEX_VECTOR(f, _python_wrappers, number_of_python_wrappers, get_python_wrapper, "function Python wrappers");
  int fl = nondet_int(), cl = nondet_int();
  f->_flags = fl; f->_class = cl;
  sym_str(f->_scoped_name); sym_str(f->_comment); sym_str(f->_prototype);
  ASSERT(f->is_global() == ((fl & 0x1) != 0) && f->is_virtual() == ((fl & 0x2) != 0) && f->is_method() == ((fl & 0x4) != 0) &&
         f->is_getter() == ((fl & 0x10) != 0) && f->is_setter() == ((fl & 0x20) != 0) && f->is_unary_op() == ((fl & 0x40) != 0) &&
         f->is_operator_typecast() == ((fl & 0x80) != 0) && f->is_constructor() == ((fl & 0x100) != 0) &&
         f->is_destructor() == ((fl & 0x200) != 0), "C20 function flag accessors reflect the stored flags");
  ASSERT(f->get_class() == cl, "C20 function get_class returns the stored class");
  ASSERT(f->has_scoped_name() == !f->_scoped_name.empty() && &f->get_scoped_name() == &f->_scoped_name &&
         f->has_comment() == !f->_comment.empty() && &f->get_comment() == &f->_comment &&
         f->has_prototype() == !f->_prototype.empty() && &f->get_prototype() == &f->_prototype,
         "C20 function string accessors return the stored strings");
  WITNESS();
}

// ---- InterrogateFunctionWrapper: parameters (5 positional accessors) + scalar accessors
extern "C" void harness_c20_rec_wrapper() {
  __ll2c_global_ctors();
  InterrogateFunctionWrapper *w = new InterrogateFunctionWrapper;
  ASSERT(w->get_function() == 0 && !w->is_callable_by_name() && !w->is_copy_constructor() && !w->is_coerce_constructor() &&
         !w->is_extension() && !w->is_deprecated() && !w->has_return_value() && w->get_return_type() == 0 &&
         !w->caller_manages_return_value() && w->get_return_value_destructor() == 0 && w->number_of_parameters() == 0 &&
         is_empty_cstr(w->get_unique_name()) && !w->has_comment() && is_empty_cstr(w->get_comment()) && is_empty_cstr(w->get_name()),
         "C20 default-constructed wrapper record is neutral");
  int pos = nondet_int();
  int np = sym_len();
  int pf[VMAX], ty[VMAX];
  w->_parameters.resize(VMAX);
  for (int i = 0; i < VMAX; i++) {
    pf[i] = nondet_int(); ty[i] = nondet_int();
    InterrogateFunctionWrapper::Parameter &p = w->_parameters[i];
    p._parameter_flags = pf[i]; p._type = ty[i];
    sym_str(p._name);
  }
  set_len(w->_parameters, np);
  ASSERT(w->number_of_parameters() == np, "C20 wrapper parameters: count equals the number of stored entries");
  bool in = in_range(pos, np);
  int wf = 0, wt = 0;
  const std::string *wn = 0;
  for (int i = 0; i < VMAX; i++) if (in && i == pos) { wf = pf[i]; wt = ty[i]; wn = &(&w->_parameters.front() + i)->_name; }
  ASSERT(w->parameter_get_type(pos) == wt, "C20 parameter_get_type: stored type in range, 0 outside");
  ASSERT(w->parameter_has_name(pos) == ((wf & 1) != 0), "C20 parameter_has_name: stored flag in range, false outside");
  ASSERT(w->parameter_is_this(pos) == ((wf & 2) != 0), "C20 parameter_is_this: stored flag in range, false outside");
  ASSERT(w->parameter_is_optional(pos) == ((wf & 4) != 0), "C20 parameter_is_optional: stored flag in range, false outside");
  const std::string &nm = w->parameter_get_name(pos);
  if (in) ASSERT(&nm == wn, "C20 parameter_get_name: in-range position returns the stored name");
  else ASSERT(is_empty_cstr(nm), "C20 parameter_get_name: out-of-range position returns the empty string");
  int fl = nondet_int(), fn = nondet_int(), rt = nondet_int(), rd = nondet_int();
  w->_flags = fl; w->_function = fn; w->_return_type = rt; w->_return_value_destructor = rd;
  sym_str(w->_unique_name); sym_str(w->_comment);
  ASSERT(w->caller_manages_return_value() == ((fl & 1) != 0) && w->has_return_value() == ((fl & 2) != 0) &&
         w->is_callable_by_name() == ((fl & 4) != 0) && w->is_copy_constructor() == ((fl & 8) != 0) &&
         w->is_coerce_constructor() == ((fl & 0x10) != 0) && w->is_extension() == ((fl & 0x20) != 0) &&
         w->is_deprecated() == ((fl & 0x40) != 0), "C20 wrapper flag accessors reflect the stored flags");
  ASSERT(w->get_function() == fn && w->get_return_type() == rt && w->get_return_value_destructor() == rd,
         "C20 wrapper index accessors return the stored indices");
  ASSERT(&w->get_unique_name() == &w->_unique_name && &w->get_comment() == &w->_comment && w->has_comment() == !w->_comment.empty(),
         "C20 wrapper string accessors return the stored strings");
  WITNESS();
}

// ---- InterrogateType scalars, InterrogateElement, InterrogateManifest, InterrogateMakeSeq (no positions)
extern "C" void harness_c20_rec_scalars() {
  __ll2c_global_ctors();
  InterrogateType *t = new InterrogateType;
  ASSERT(!t->is_global() && !t->is_deprecated() && !t->has_scoped_name() && !t->has_true_name() && !t->has_comment() &&
         !t->is_nested() && t->get_outer_class() == 0 && !t->is_atomic() && t->get_atomic_token() == AT_not_atomic &&
         !t->is_unsigned() && !t->is_signed() && !t->is_long() && !t->is_longlong() && !t->is_short() && !t->is_wrapped() &&
         !t->is_pointer() && !t->is_const() && !t->is_typedef() && t->get_wrapped_type() == 0 && !t->is_array() &&
         !t->is_enum() && !t->is_scoped_enum() && t->number_of_enum_values() == 0 && !t->is_struct() && !t->is_class() &&
         !t->is_union() && !t->is_final() && !t->is_fully_defined() && !t->is_unpublished() && t->number_of_constructors() == 0 &&
         !t->has_destructor() && !t->destructor_is_inherited() && !t->destructor_is_implicit() && t->get_destructor() == 0 &&
         t->number_of_elements() == 0 && t->number_of_methods() == 0 && t->number_of_make_seqs() == 0 && t->number_of_casts() == 0 &&
         t->number_of_derivations() == 0 && t->number_of_nested_types() == 0 && is_empty_cstr(t->get_name()) &&
         is_empty_cstr(t->get_scoped_name()) && is_empty_cstr(t->get_true_name()) && is_empty_cstr(t->get_comment()),
         "C20 default-constructed type record is neutral");
  int fl = nondet_int(), oc = nondet_int(), wt = nondet_int(), as = nondet_int(), de = nondet_int();
  t->_flags = fl; t->_outer_class = oc; t->_wrapped_type = wt; t->_array_size = as; t->_destructor = de;
  sym_str(t->_scoped_name); sym_str(t->_true_name); sym_str(t->_comment);
  ASSERT(t->is_global() == ((fl & 0x1) != 0) && t->is_atomic() == ((fl & 0x2) != 0) && t->is_unsigned() == ((fl & 0x4) != 0) &&
         t->is_signed() == ((fl & 0x8) != 0) && t->is_long() == ((fl & 0x10) != 0) && t->is_longlong() == ((fl & 0x20) != 0) &&
         t->is_short() == ((fl & 0x40) != 0) && t->is_wrapped() == ((fl & 0x80) != 0) && t->is_pointer() == ((fl & 0x100) != 0) &&
         t->is_const() == ((fl & 0x200) != 0) && t->is_struct() == ((fl & 0x400) != 0) && t->is_class() == ((fl & 0x800) != 0) &&
         t->is_union() == ((fl & 0x1000) != 0) && t->is_fully_defined() == ((fl & 0x2000) != 0) &&
         t->destructor_is_inherited() == ((fl & 0x10000) != 0) && t->destructor_is_implicit() == ((fl & 0x20000) != 0) &&
         t->is_nested() == ((fl & 0x40000) != 0) && t->is_enum() == ((fl & 0x80000) != 0) && t->is_unpublished() == ((fl & 0x100000) != 0) &&
         t->is_typedef() == ((fl & 0x200000) != 0) && t->is_array() == ((fl & 0x400000) != 0) &&
         t->is_scoped_enum() == ((fl & 0x800000) != 0) && t->is_final() == ((fl & 0x1000000) != 0) &&
         t->is_deprecated() == ((fl & 0x2000000) != 0), "C20 type flag accessors reflect the stored flags");
  ASSERT(t->get_outer_class() == oc && t->get_wrapped_type() == wt && t->get_array_size() == as && t->get_destructor() == de &&
         t->has_destructor() == (de != 0), "C20 type scalar accessors return the stored values");
  ASSERT(&t->get_scoped_name() == &t->_scoped_name && &t->get_true_name() == &t->_true_name && &t->get_comment() == &t->_comment &&
         t->has_scoped_name() == !t->_scoped_name.empty() && t->has_true_name() == !t->_true_name.empty() &&
         t->has_comment() == !t->_comment.empty(), "C20 type string accessors return the stored strings");

  InterrogateElement *e = new InterrogateElement;
  ASSERT(!e->is_global() && !e->has_scoped_name() && !e->has_comment() && e->get_type() == 0 && !e->has_getter() && e->get_getter() == 0 &&
         !e->has_setter() && e->get_setter() == 0 && !e->has_has_function() && e->get_has_function() == 0 && !e->has_clear_function() &&
         e->get_clear_function() == 0 && !e->has_del_function() && e->get_del_function() == 0 && !e->has_insert_function() &&
         e->get_insert_function() == 0 && !e->has_getkey_function() && e->get_getkey_function() == 0 && !e->is_sequence() &&
         e->get_length_function() == 0 && !e->is_mapping() && is_empty_cstr(e->get_name()) && is_empty_cstr(e->get_scoped_name()) &&
         is_empty_cstr(e->get_comment()), "C20 default-constructed element record is neutral");
  int ef = nondet_int();
  int ev[9];
  ev[0] = nondet_int(); ev[1] = nondet_int(); ev[2] = nondet_int(); ev[3] = nondet_int(); ev[4] = nondet_int();
  ev[5] = nondet_int(); ev[6] = nondet_int(); ev[7] = nondet_int(); ev[8] = nondet_int();
  e->_flags = ef; e->_type = ev[0]; e->_getter = ev[1]; e->_setter = ev[2]; e->_has_function = ev[3]; e->_clear_function = ev[4];
  e->_del_function = ev[5]; e->_insert_function = ev[6]; e->_getkey_function = ev[7]; e->_length_function = ev[8];
  ASSERT(e->is_global() == ((ef & 1) != 0) && e->has_getter() == ((ef & 2) != 0) && e->has_setter() == ((ef & 4) != 0) &&
         e->has_has_function() == ((ef & 8) != 0) && e->has_clear_function() == ((ef & 0x10) != 0) && e->has_del_function() == ((ef & 0x20) != 0) &&
         e->is_sequence() == ((ef & 0x40) != 0) && e->is_mapping() == ((ef & 0x80) != 0) && e->has_insert_function() == ((ef & 0x100) != 0) &&
         e->has_getkey_function() == ((ef & 0x200) != 0), "C20 element flag accessors reflect the stored flags");
  ASSERT(e->get_type() == ev[0] && e->get_getter() == ev[1] && e->get_setter() == ev[2] && e->get_has_function() == ev[3] &&
         e->get_clear_function() == ev[4] && e->get_del_function() == ev[5] && e->get_insert_function() == ev[6] &&
         e->get_getkey_function() == ev[7] && e->get_length_function() == ev[8], "C20 element index accessors return the stored indices");

  InterrogateManifest *m = new InterrogateManifest;
  ASSERT(is_empty_cstr(m->get_definition()) && !m->has_type() && m->get_type() == 0 && !m->has_getter() && m->get_getter() == 0 &&
         !m->has_int_value() && m->get_int_value() == 0 && is_empty_cstr(m->get_name()), "C20 default-constructed manifest record is neutral");
  int mf = nondet_int(), mi = nondet_int(), mt = nondet_int(), mg = nondet_int();
  m->_flags = mf; m->_int_value = mi; m->_type = mt; m->_getter = mg;
  ASSERT(m->has_type() == ((mf & 1) != 0) && m->has_getter() == ((mf & 2) != 0) && m->has_int_value() == ((mf & 4) != 0) &&
         m->get_int_value() == mi && m->get_type() == mt && m->get_getter() == mg, "C20 manifest accessors return the stored values");

  InterrogateMakeSeq *s = new InterrogateMakeSeq;
  ASSERT(!s->has_scoped_name() && is_empty_cstr(s->get_scoped_name()) && !s->has_comment() && is_empty_cstr(s->get_comment()) &&
         s->get_length_getter() == 0 && s->get_element_getter() == 0 && is_empty_cstr(s->get_name()), "C20 default-constructed make_seq record is neutral");
  int lg = nondet_int(), eg = nondet_int();
  s->_length_getter = lg; s->_element_getter = eg;
  ASSERT(s->get_length_getter() == lg && s->get_element_getter() == eg, "C20 make_seq accessors return the stored values");
  WITNESS();
}
